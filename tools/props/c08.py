"""C08 -- operator embedding (expand_operator) places an operator on exactly the requested subsystems.

Model: coq/Model/Expand.v (expand_elem / expand_table / expand_dims).  Theorems: coq/Props/C08.v.
This module ties the model to the running code and evaluates the property text directly (numpy oracle).

A case (JSON) is
  {"kind": "valid" | "malformed" | "entry",
   "dims": [..], "orow": [..], "ocol": [..],         # system dims, oper.dims[0], oper.dims[1]
   "targets": null | int/float/str | [elements],     # elements: int (Integral) or float/str/None (non-integer)
   "container": "list"|"tuple"|"ndarray"|"range"|"npint"|"scalar"|"none",
   "dtype": null | "dense" | "csr" | "dia" | "Dense" | "CSR" | "Dia" | "cls:Dense" | "cls:CSR" | "cls:Dia",
   "entry": {"via": "gate"|"gate-num-qubits"|"gate-default"|"gate-history"|"pulse"|"pulse-none"|"pulse-history"|"pulse-retarget",
             "gate", "controls", "targets", "arg", "odims", "calls": [{"dims": [..]} | {"num_qubits": n} | {"int_dims": n} | {}]}}
                                                      # kind == "entry": Gate.get_qobj / Pulse.get_ideal_qobj on ONE object
                                                      # pulse calls may carry "set_targets" / "set_odims" (public setters used
                                                      # before the call); calls the property text refuses (register too small,
                                                      # mismatched dims) are compared as refusals with the model's expand_dims
"""
import glob
import itertools
import json
import os
import warnings

import numpy as np

from common import Corr, Broken, coq_eval_many, parse_evals, VERIF

ID = "C08"
TARGETS = ["Props/C08.vo"]
TRUSTED = [
    "qutip.tensor, qutip.identity and Qobj.permute are external: modelled by their documented meaning "
    "(tensor = subsystem lists concatenated / entries multiply, identity = Kronecker delta, permute(order): result "
    "subsystem a = argument subsystem order[a], rejects non-permutations) -- validated on every run by the table comparison",
    "Qobj.to(dtype) / data-layer dispatch (all dtype options) only through correspondence and the numpy oracle, not modelled",
    "product basis state <-> flat matrix index is row-major (first subsystem most significant): qutip convention, "
    "sanity-checked against qutip.tensor(basis ...) at the start of every run",
    "the operator is abstract in the theorems (any function of digit lists); linearity of the implementation in the operator "
    "is not proved, it is sampled (coded operator, matrix units, random dense operators)",
    "Gate.get_qobj(dims=...) / get_qobj(num_qubits=...) and Pulse.get_ideal_qobj(dims) are not modelled themselves: every call "
    "(all placements on <= 4 subsystems incl. full-width non-ascending targets, and 2-3 call histories on one object with "
    "different dims) is compared with the numpy oracle and with the model's entry map of the underlying expand_operator call",
    "tables (all (x,y) pairs of a case) with more than 300 (quick) / 150 (thorough) nonzero entries are compared through the "
    "entry count and two 61-bit polynomial hashes of the row-major cell sequence, computed by Coq on the model's table and by "
    "the harness on the implementation's matrix; smaller tables entry by entry",
]
ASSUMES = [
    "calls of the form expand_operator(oper, dims=dims, targets=targets[, dtype]); the deprecated N= and cyclic_permutation= "
    "arguments are outside the model",
    "oper is an operator Qobj with flat dims (no superoperators); dims are positive Python ints",
]

DTYPES = [None, "dense", "csr", "dia", "Dense", "CSR", "Dia", "cls:Dense", "cls:CSR", "cls:Dia"]
KF_NO_DIMS = "get-qobj-without-dims"

COQ_HEAD = ("From Coq Require Import List ZArith.\nImport ListNotations.\n"
            "From QV Require Import Model.Expand.\nOpen Scope nat_scope.\n")


# ------------------------------------------------------------------------------------------------
# helpers
# ------------------------------------------------------------------------------------------------
def _prod(l):
    p = 1
    for v in l:
        p *= int(v)
    return p


def _is_int(t):
    return isinstance(t, (int, np.integer)) or isinstance(t, bool)


def _cnatlist(l):
    return "[" + "; ".join(str(int(v)) for v in l) + "]"


def _ctgt(t):
    if _is_int(t):
        z = int(t)
        return f"TInt ({z})%Z"
    return "TOther"


def _ctspec(case):
    t = case["targets"]
    if t is None:
        return "TsNone"
    if isinstance(t, list):
        return "(TsList [" + "; ".join(_ctgt(e) for e in t) + "])"
    if isinstance(t, str):      # a str has __iter__: its characters are the elements (never Integral)
        return "(TsList [" + "; ".join("TOther" for _ in t) + "])"
    return "(TsScalar (" + _ctgt(t) + "))"


def _model_key(case):
    return json.dumps([case["dims"], case["orow"], case["ocol"], _ctspec(case)])


def _coq_args(case):
    return f"{_cnatlist(case['dims'])} {_cnatlist(case['orow'])} {_cnatlist(case['ocol'])} {_ctspec(case)}"


def _dtype_obj(name):
    import qutip
    if name is None:
        return None
    if name.startswith("cls:"):
        return getattr(qutip.data, name[4:])
    return name


def _dec(e):
    """JSON encoding of non-JSON numbers: {"np": "float64", "v": 1.5} / {"frac": [3, 2]}"""
    if isinstance(e, dict):
        if "np" in e:
            return getattr(np, e["np"])(e["v"])
        if "frac" in e:
            from fractions import Fraction
            return Fraction(e["frac"][0], e["frac"][1])
    return e


def _targets_obj(case):
    t = case["targets"]
    c = case.get("container", "list")
    if isinstance(t, list):
        t = [_dec(e) for e in t]
    else:
        t = _dec(t)
    if t is None or not isinstance(t, list):
        if c == "npint" and _is_int(t):
            return np.int64(t)
        return t
    if c == "tuple":
        return tuple(t)
    if c == "ndarray" and all(_is_int(e) for e in t) and t:
        return np.array(t, dtype=int)
    if c == "npint":
        return [np.int64(e) if _is_int(e) else e for e in t]
    if c == "range" and t and all(_is_int(e) for e in t) and t == list(range(t[0], t[0] + len(t))):
        return range(t[0], t[0] + len(t))
    return list(t)


def coded_matrix(orow, ocol):
    """operator whose entry (r,c) is the distinct exact integer 1 + r*C + c"""
    R, C = _prod(orow), _prod(ocol)
    return (1.0 + np.arange(R)[:, None] * C + np.arange(C)[None, :]).astype(complex)


def random_matrix(rng, orow, ocol):
    R, C = _prod(orow), _prod(ocol)
    vals = [complex(rng.randint(-64, 64) / 16.0, rng.randint(-64, 64) / 16.0) for _ in range(R * C)]
    return np.array(vals, dtype=complex).reshape(R, C)


def make_oper(mat, orow, ocol):
    import qutip
    return qutip.Qobj(mat, dims=[list(orow), list(ocol)])


def run_impl(case, mat):
    """the real expand_operator; returns ('ok', Qobj) or ('rejected', exception name)"""
    from qutip_qip.operations import expand_operator
    try:
        oper = make_oper(mat, case["orow"], case["ocol"])
    except Exception as e:  # the operator itself cannot be built: not a case
        raise Broken("harness:make_oper", repr(e))
    with warnings.catch_warnings():
        warnings.simplefilter("ignore")
        try:
            kw = {}
            if case.get("dtype") is not None:
                kw["dtype"] = _dtype_obj(case["dtype"])
            out = expand_operator(oper, dims=list(case["dims"]), targets=_targets_obj(case), **kw)
        except Exception as e:
            return "rejected", type(e).__name__
    return "ok", out


# --- the property text, evaluated with numpy (independent of the model and of the implementation's route) ---
def oracle_matrix(mat, dims, ts):
    """<x| E |y> = mat[x restricted to ts, y restricted to ts] * prod_{q not in ts} delta(x_q, y_q)"""
    dims = [int(d) for d in dims]
    N = len(dims)
    D = _prod(dims)
    digs = np.array(np.unravel_index(np.arange(D), dims)).reshape(N, D)   # digit q of basis state i
    odims = [dims[t] for t in ts]
    sub = np.ravel_multi_index([digs[t] for t in ts], odims)
    rest = [q for q in range(N) if q not in ts]
    if rest:
        restkey = np.ravel_multi_index([digs[q] for q in rest], [dims[q] for q in rest])
    else:
        restkey = np.zeros(D, dtype=int)
    same = restkey[:, None] == restkey[None, :]
    return np.where(same, mat[sub[:, None], sub[None, :]], 0.0)


def valid_call(case):
    """the hypotheses of the positive clause, from the property text"""
    t = case["targets"]
    dims, orow, ocol = case["dims"], case["orow"], case["ocol"]
    if t is None:
        t = list(range(len(orow)))
    elif not isinstance(t, list):
        t = [t]
    if not all(_is_int(e) for e in t):
        return None
    t = [int(e) for e in t]
    if orow != ocol or len(t) != len(orow) or len(set(t)) != len(t):
        return None
    if not all(0 <= e < len(dims) for e in t):
        return None
    if [dims[e] for e in t] != list(orow):
        return None
    return t


def must_reject(case):
    """classes the property text says are rejected (None = the text does not say)"""
    t = case["targets"]
    dims, orow, ocol = case["dims"], case["orow"], case["ocol"]
    if t is None:
        t = list(range(len(orow)))
    elif not isinstance(t, list):
        t = [t]
    if not all(_is_int(e) for e in t):
        # a float / numpy float / Fraction / str / None is not a subsystem position, whatever its value
        return "non-integer target"
    t = [int(e) for e in t]
    if len(t) != len(orow):
        return "wrong target count"
    if any(e >= len(dims) or e < 0 for e in t):
        return "out-of-range target"
    if orow != ocol:
        return "operator row/column dimensions differ"
    if len(set(t)) == len(t) and [dims[e] for e in t] != list(orow):
        return "mismatched dimensions"
    return None


def check_oracle(case, mat, status, out, tol=0.0):
    """returns None or (observed, expected, what)"""
    ts = valid_call(case)
    if ts is not None:
        if status != "ok":
            return ("rejected: " + str(out), "accepted", "valid embedding request is rejected")
        if out.dims != [list(case["dims"]), list(case["dims"])]:
            return (str(out.dims), str([case["dims"], case["dims"]]), "result has wrong dims")
        E = out.full()
        X = oracle_matrix(mat, case["dims"], ts)
        if E.shape != X.shape:
            return (str(E.shape), str(X.shape), "result has wrong shape")
        bad = np.argwhere(np.abs(E - X) > tol)
        if len(bad):
            i, j = (int(v) for v in bad[0])
            return (f"entry ({i},{j}) = {complex(E[i, j])}", f"{complex(X[i, j])}",
                    "embedded operator differs from op(target digits) x delta(other digits)")
        return None
    why = must_reject(case)
    if why is not None and status == "ok":
        return ("accepted", "rejected", "malformed call accepted: " + why)
    return None


# ------------------------------------------------------------------------------------------------
# observable entry points built on expand_operator
# ------------------------------------------------------------------------------------------------
ONE_Q = ["X", "RX"]
TWO_Q = ["CNOT", "SWAP", "CSIGN"]          # CNOT is not symmetric: the order of controls + targets matters
THREE_Q = ["TOFFOLI", "FREDKIN"]


def _target_matrix(name, arg):
    if name == "X":
        return np.array([[0, 1], [1, 0]], dtype=complex)
    if name == "Z":
        return np.array([[1, 0], [0, -1]], dtype=complex)
    if name == "RX":
        c, sn = np.cos(arg / 2), np.sin(arg / 2)
        return np.array([[c, -1j * sn], [-1j * sn, c]], dtype=complex)
    raise Broken("harness:entry", "unknown target gate " + str(name))


def controlled_spec(e):
    """block matrix on controls + targets in the listed order: block number control_value (controls read as a
    big-endian binary number, first listed control most significant) is the target gate, every other block the identity"""
    nc = len(e["controls"])
    U = _target_matrix(e["target_gate"], e.get("arg"))
    d = U.shape[0]
    M = np.eye(d * 2 ** nc, dtype=complex)
    v = int(e["control_value"])
    M[v * d:(v + 1) * d, v * d:(v + 1) * d] = U
    return M


def _spec_qubits(e):
    return [int(q) for q in (e.get("controls") or [])] + [int(q) for q in e["targets"]]


def _make_gate(e):
    from qutip_qip import operations as ops
    from qutip_qip.operations import gateclass
    if e["gate"] == "CTRL":
        kw = {}
        if e.get("arg") is not None:
            kw["arg_value"] = e["arg"]
        return gateclass.ControlledGate(controls=list(e["controls"]), targets=list(e["targets"]),
                                  control_value=int(e["control_value"]),
                                  target_gate=getattr(ops, e["target_gate"]), **kw)
    cls = getattr(ops, e["gate"])
    kw = {}
    if e.get("controls") is not None:
        kw["controls"] = list(e["controls"])
    if e.get("arg") is not None:
        kw["arg_value"] = e["arg"]
    return cls(targets=list(e["targets"]), **kw)


def entry_calls(case):
    """the sequence of calls of an entry case, each as a dict {dims:[..]} | {num_qubits:n} | {} | {int_dims:n}"""
    e = case["entry"]
    if "calls" in e:
        return list(e["calls"])
    via = e["via"]
    if via == "gate-num-qubits":
        return [dict(num_qubits=len(case["dims"]))]
    if via == "gate-default":
        return [dict()]
    if via == "pulse" and e.get("int_dims"):
        return [dict(int_dims=len(case["dims"]))]
    return [dict(dims=list(case["dims"]))]


def _call_dims(call, qubits):
    if "dims" in call:
        return list(call["dims"])
    if "num_qubits" in call:
        return [2] * call["num_qubits"]
    if "int_dims" in call:
        return [2] * call["int_dims"]
    return [2] * (max(qubits) + 1)


def _pulse_targets_obj(ts, scalar=False, container=None):
    if scalar and len(ts) == 1:
        return np.int64(ts[0]) if container == "npint" else int(ts[0])
    if container == "tuple":
        return tuple(ts)
    if container == "npint":
        return [np.int64(t) for t in ts]
    if container == "ndarray":
        return np.array(ts, dtype=int)
    return list(ts)


def pulse_states(case):
    """per call of a pulse entry case: (call, CURRENT targets, CURRENT operator dims, operator scale).  A call may carry
    "set_targets": [..] (assigned through the public `targets` setter before the call; "inplace": the list object is
    mutated instead) and "set_odims": [..] (a new operator assigned through the public `qobj` setter)."""
    e = case["entry"]
    ts = [int(t) for t in e["targets"]]
    odims = list(e["odims"]) if "odims" in e else [case["dims"][t] for t in ts]
    scale = 1
    out = []
    for idx, call in enumerate(entry_calls(case)):
        if "set_odims" in call:
            odims = [int(d) for d in call["set_odims"]]
            scale = idx + 1
        if "set_targets" in call:
            ts = [int(t) for t in call["set_targets"]]
        out.append((call, list(ts), list(odims), scale))
    return out


def run_entry(case):
    """runs all calls of the case ON ONE OBJECT; returns list of (call, status, out, mat, ts, dims, odims)"""
    import qutip
    e = case["entry"]
    via = e["via"]
    res = []
    with warnings.catch_warnings():
        warnings.simplefilter("ignore")
        if via.startswith("gate"):
            g = _make_gate(e)
            # qubit order from the case (controls + targets as listed), NOT from the object under check;
            # controlled gates: compact matrix from the block specification, NOT from the implementation
            mat = controlled_spec(e) if e["gate"] == "CTRL" else g.get_compact_qobj().full()
            ts = _spec_qubits(e)
            for call in entry_calls(case):
                dims = _call_dims(call, ts)
                try:
                    if "dims" in call and "num_qubits" in call:
                        out = g.get_qobj(num_qubits=call["num_qubits"], dims=list(call["dims"]))
                    elif "dims" in call:
                        out = g.get_qobj(dims=list(call["dims"]))
                    elif "num_qubits" in call:
                        out = g.get_qobj(num_qubits=call["num_qubits"])
                    else:
                        out = g.get_qobj()
                    res.append((call, "ok", out, mat, ts, dims, [2] * len(ts)))
                except Exception as ex:
                    res.append((call, "rejected", type(ex).__name__, mat, ts, dims, [2] * len(ts)))
            return res
        if via.startswith("pulse"):
            from qutip_qip.pulse import Pulse
            if via == "pulse-none":
                p = Pulse(None, None)
                for call in entry_calls(case):
                    dims = _call_dims(call, [0])
                    mat = np.zeros((dims[0], dims[0]), dtype=complex)
                    try:
                        res.append((call, "ok", p.get_ideal_qobj(call.get("int_dims", dims)), mat, [0], dims, [dims[0]]))
                    except Exception as ex:
                        res.append((call, "rejected", type(ex).__name__, mat, [0], dims, [dims[0]]))
                return res
            if via == "pulse-nonint":
                # a pulse whose targets contain a non-integer number: every call must be rejected
                odims = list(e["odims"])
                mat = coded_matrix(odims, odims)
                raw = [_dec(t) for t in e["targets"]] if isinstance(e["targets"], list) else _dec(e["targets"])
                p = Pulse(qutip.Qobj(mat, dims=[odims, odims]), raw)
                for call in entry_calls(case):
                    dims = list(call["dims"])
                    try:
                        res.append((call, "ok", p.get_ideal_qobj(dims), mat, [], dims, odims))
                    except Exception as ex:
                        res.append((call, "rejected", type(ex).__name__, mat, [], dims, odims))
                return res
            states = pulse_states(case)
            ts, odims, scale = states[0][1], states[0][2], states[0][3]
            mat = coded_matrix(odims, odims) * scale
            p = Pulse(qutip.Qobj(mat, dims=[odims, odims]), _pulse_targets_obj(ts, e.get("scalar"), e.get("container")))
            for idx, (call, ts, odims, scale) in enumerate(states):
                # the pulse is re-targeted / given a new operator through the PUBLIC setters between the calls
                if "set_odims" in call:
                    mat = coded_matrix(odims, odims) * scale
                    p.qobj = qutip.Qobj(mat, dims=[odims, odims])
                if "set_targets" in call:
                    if call.get("inplace") and isinstance(p.targets, list):
                        p.targets[:] = list(ts)
                    else:
                        p.targets = _pulse_targets_obj(ts, call.get("scalar"), call.get("container"))
                dims = _call_dims(call, ts)
                try:
                    res.append((call, "ok", p.get_ideal_qobj(call.get("int_dims", dims)), mat, ts, dims, odims))
                except Exception as ex:
                    res.append((call, "rejected", type(ex).__name__, mat, ts, dims, odims))
            return res
    raise Broken("harness:entry", "unknown entry " + str(e))


def _entry_input(case, idx=None, call=None):
    inp = dict(kind="entry", dims=case.get("dims"), entry=case["entry"])
    if idx is not None:
        inp["failing_call"] = idx
        inp["call"] = call
    return inp


def check_entry(case, model_maps=None, corr=None):
    """property oracle on every call of the case; with model_maps ({key: cells}) also the model's entry map.
    Returns the first oracle failure (observed, expected, what, idx, call) or None."""
    first = None
    via = case["entry"]["via"]
    for idx, (call, status, out, mat, ts, dims, od) in enumerate(run_entry(case)):
        f = None
        if via != "pulse-nonint":
            # the request as an expand_operator call on the CURRENT targets / operator of the object: is it one the
            # property text (and the model) refuses?  (register too small for the qubits, mismatched dimensions ...)
            mcase = dict(dims=list(dims), orow=list(od), ocol=list(od), targets=list(ts))
            if valid_call(mcase) is None:
                why = must_reject(mcase)
                if why is not None and status == "ok":
                    f = (f"call {idx} {call}: accepted, result dims {out.dims}", "rejected",
                         "malformed call accepted: " + why + " (through " + via + ")")
                    if first is None:
                        first = (f[0], f[1], f[2], idx, call)
                if model_maps is not None and corr is not None:
                    m_ok = model_maps.get(_model_key(mcase) + "#s")
                    if m_ok is not None and m_ok != (status == "ok"):
                        corr.disagree(_entry_input(case, idx, call), "accepted" if status == "ok" else status,
                                      "Ok" if m_ok else "Error", "entry point: accept/reject differs from the model")
                    corr.tally("entry-point calls the model refuses")
                continue
        if via == "pulse-nonint":
            if status == "ok":
                f = (f"call {idx} {call}: accepted, result dims {out.dims}", "rejected",
                     "malformed call accepted: non-integer target (through Pulse.get_ideal_qobj)")
                if first is None:
                    first = (f[0], f[1], f[2], idx, call)
            continue
        if status != "ok":
            f = ("rejected: " + str(out), "accepted", "entry point rejects a valid embedding request: " + via)
        elif out.dims != [dims, dims]:
            f = (str(out.dims), str([dims, dims]), "entry point result has wrong dims: " + via)
        else:
            E = out.full()
            X = oracle_matrix(mat, dims, ts)
            if E.shape != X.shape or np.abs(E - X).max() > 1e-12:
                bad = np.argwhere(np.abs(E - X) > 1e-12) if E.shape == X.shape else [(0, 0)]
                i, j = (int(v) for v in bad[0])
                f = (f"call {idx} {call}: entry ({i},{j}) = {complex(E[i, j]) if E.shape == X.shape else E.shape}",
                     f"{complex(X[i, j])}" if E.shape == X.shape else str(X.shape),
                     "entry point embeds wrongly: " + via + (" (call %d on the same object)" % idx if idx else ""))
            if model_maps is not None and corr is not None:
                odims = [dims[t] for t in ts]
                key = _model_key(dict(dims=dims, orow=odims, ocol=odims, targets=ts))
                cells = model_maps.get(key)
                if cells is None:
                    corr.disagree(_entry_input(case, idx, call), "accepted" if status == "ok" else status, "Error",
                                  "entry point: model rejects the underlying expand_operator call")
                else:
                    D = _prod(dims)
                    C = _prod(odims)
                    M = C * C + 1
                    X3 = np.zeros(D * D, dtype=complex)
                    if len(cells):
                        cells = np.asarray(cells, dtype=np.int64)
                        X3[cells // M] = mat.ravel()[cells % M - 1]
                    X3 = X3.reshape(D, D)
                    if E.shape != X3.shape or np.abs(E - X3).max() > 1e-12:
                        corr.disagree(_entry_input(case, idx, call), "matrix of the entry point",
                                      "model entry map applied to the compact operator",
                                      "entry point result differs from the model's entry map: " + via)
        if f and first is None:
            first = (f[0], f[1], f[2], idx, call)
    return first


def _dims_with(N, fixed, rng=None, choices=(2, 3, 4)):
    """all (rng None) or one random dims vector of length N with the positions in `fixed` equal to 2"""
    free = [i for i in range(N) if i not in fixed]
    if rng is not None:
        return [[2 if i in fixed else rng.choice(choices) for i in range(N)]]
    out = []
    for combo in itertools.product(choices, repeat=len(free)):
        d = [2] * N
        for i, v in zip(free, combo):
            d[i] = v
        out.append(d)
    return out


def entry_cases(ctx):
    rng = ctx.rng
    cases = []

    def add(dims, **e):
        cases.append(dict(kind="entry", dims=list(dims) if dims is not None else None, entry=e))

    # ---- Pulse.get_ideal_qobj(dims): every dims vector over {2,3,4}^<=3 and every injective target tuple,
    #      INCLUDING operators on all subsystems with non-ascending targets
    for N in (1, 2, 3):
        for dims in itertools.product([2, 3, 4], repeat=N):
            for k in range(1, N + 1):
                for ts in itertools.permutations(range(N), k):
                    add(dims, via="pulse", targets=list(ts), scalar=(k == 1 and rng.random() < 0.5),
                        int_dims=(all(d == 2 for d in dims) and rng.random() < 0.5))
    for dims in ([2, 2, 2, 2], [2, 3, 3, 2], [3, 2, 2, 3], [2, 4, 4, 2], [3, 3, 3, 3], [2, 3, 2, 3], [2, 2, 3, 3]):
        perms = list(itertools.permutations(range(4), 4))
        for ts in (perms if ctx.thorough else rng.sample(perms, 8) + [(3, 2, 1, 0)]):
            add(dims, via="pulse", targets=list(ts))
        for k in (2, 3):
            sub = list(itertools.permutations(range(4), k))
            for ts in (sub if ctx.thorough else rng.sample(sub, 4)):
                add(dims, via="pulse", targets=list(ts))
    for dims in ([2], [3, 2], [4, 3, 2]):
        add(dims, via="pulse-none")
    # ---- Gate.get_qobj(dims=...): every placement of 1/2/3-qubit gates on <= 4 subsystems, the other
    #      subsystems over {2,3,4} (all of them for N <= 3, sampled for N = 4 in quick)
    for N in (1, 2, 3, 4):
        for k, names in ((1, ONE_Q), (2, TWO_Q), (3, THREE_Q)):
            if k > N:
                continue
            for qs in itertools.permutations(range(N), k):
                dlist = _dims_with(N, qs) if (N <= 3 or ctx.thorough) else _dims_with(N, qs, rng) + [[2] * N]
                for dims in dlist:
                    for name in names:
                        if k == 1:
                            add(dims, via="gate", gate=name, targets=[qs[0]], arg=(0.5 if name == "RX" else None))
                        elif name == "SWAP":
                            add(dims, via="gate", gate=name, targets=list(qs))
                        elif k == 2:
                            add(dims, via="gate", gate=name, controls=[qs[0]], targets=[qs[1]])
                        elif name == "TOFFOLI":
                            add(dims, via="gate", gate=name, controls=[qs[0], qs[1]], targets=[qs[2]])
                        else:
                            add(dims, via="gate", gate=name, controls=[qs[0]], targets=[qs[1], qs[2]])
    # ---- multi-controlled gates: every ordered placement of controls + target, EVERY control value
    #      (the control value is not symmetric under exchanging controls), target gates X / Z / RX
    for N in (2, 3, 4):
        for nc in (1, 2, 3):
            if nc + 1 > N:
                continue
            for qs in itertools.permutations(range(N), nc + 1):
                for cv in range(2 ** nc):
                    if N <= 3 or ctx.thorough:
                        dlist = _dims_with(N, qs)
                    elif nc == 3 or rng.random() < 0.35:
                        dlist = _dims_with(N, qs, rng)
                    else:
                        continue
                    tg = rng.choice(["X", "Z", "RX"])
                    for dims in dlist:
                        add(dims, via="gate", gate="CTRL", target_gate=tg, arg=(0.5 if tg == "RX" else None),
                            controls=list(qs[:nc]), targets=[qs[nc]], control_value=cv)
    add([2, 2, 2], via="gate", gate="CTRL", target_gate="X", controls=[2, 0], targets=[1], control_value=2)
    add([2, 2, 2], via="gate-num-qubits", gate="CTRL", target_gate="X", controls=[2, 0], targets=[1], control_value=1)
    # ---- non-integer targets through Pulse.get_ideal_qobj: must be rejected
    for tg in ([1.5], [2.7], -0.5, 1.5, [0.5, 1.5], [dict(np="float64", v=1.5)], [dict(frac=[3, 2])], [1.0], 1.0):
        k = len(tg) if isinstance(tg, list) else 1
        add([2, 2, 2], via="pulse-nonint", targets=tg, odims=[2] * k)
    for _ in range(ctx.n(20, 100)):
        N = rng.randint(1, 4)
        dims = [rng.choice([2, 3, 4]) for _ in range(N)]
        t = rng.randrange(N)
        v = rng.choice([t + 0.5, t + 0.7, float(t), t - 0.3 if t else -0.5])
        enc = rng.choice([v, dict(np="float64", v=v), dict(frac=[int(round(v * 20)), 20])])
        add(dims, via="pulse-nonint", targets=rng.choice([enc, [enc]]), odims=[dims[t]])
    add([2, 2, 2], via="gate-num-qubits", gate="CNOT", controls=[2], targets=[0])
    add([2, 2], via="gate-default", gate="CNOT", controls=[1], targets=[0])
    add([2, 2, 2], via="gate-num-qubits", gate="RX", targets=[1], arg=0.25)
    # ---- histories: ONE Gate / Pulse object asked 2-3 times with different dims / num_qubits
    fixed_hist = [
        dict(via="gate-history", gate="CNOT", controls=[1], targets=[0],
             calls=[dict(dims=[2, 2, 2]), dict(dims=[2, 2, 3]), dict(dims=[2, 2])]),
        dict(via="gate-history", gate="X", targets=[0], calls=[dict(dims=[2, 3]), dict(dims=[2, 4]), dict(dims=[2, 3])]),
        dict(via="gate-history", gate="CNOT", controls=[0], targets=[1],
             calls=[dict(num_qubits=2), dict(num_qubits=3), dict(dims=[2, 2, 4])]),
        dict(via="gate-history", gate="CNOT", controls=[1], targets=[0],
             calls=[dict(num_qubits=3), dict(num_qubits=3, dims=[2, 2, 3]), dict()]),
        dict(via="gate-history", gate="RX", targets=[1], arg=0.5,
             calls=[dict(dims=[3, 2]), dict(dims=[4, 2]), dict(dims=[3, 2, 2])]),
        dict(via="pulse-history", targets=[1, 0], odims=[2, 2],
             calls=[dict(dims=[2, 2, 2]), dict(dims=[2, 2]), dict(dims=[2, 2, 3]), dict(int_dims=3)]),
        dict(via="pulse-history", targets=[2, 0], odims=[2, 3],
             calls=[dict(dims=[3, 2, 2]), dict(dims=[3, 4, 2]), dict(dims=[3, 2, 2, 2])]),
    ]
    for e in fixed_hist:
        cases.append(dict(kind="entry", dims=None, entry=e))
    for _ in range(ctx.n(60, 400)):
        k = rng.choice([1, 1, 2, 2, 3])
        top = rng.randint(k, 4)
        qs = rng.sample(range(top), k)
        name = rng.choice({1: ONE_Q, 2: TWO_Q, 3: THREE_Q}[k])
        e = dict(via="gate-history", gate=name)
        if k >= 2 and rng.random() < 0.4:
            e.update(gate="CTRL", target_gate=rng.choice(["X", "Z"]), controls=qs[:k - 1], targets=[qs[k - 1]],
                     control_value=rng.randrange(2 ** (k - 1)))
        elif k == 1:
            e.update(targets=[qs[0]], arg=(0.5 if name == "RX" else None))
        elif name == "SWAP":
            e.update(targets=qs)
        elif k == 2:
            e.update(controls=[qs[0]], targets=[qs[1]])
        elif name == "TOFFOLI":
            e.update(controls=qs[:2], targets=[qs[2]])
        else:
            e.update(controls=[qs[0]], targets=qs[1:])
        calls = []
        for _j in range(rng.randint(2, 3)):
            N = rng.randint(max(qs) + 1, 4)
            r = rng.random()
            if r < 0.7:
                calls.append(dict(dims=_dims_with(N, qs, rng)[0]))
            elif r < 0.9:
                calls.append(dict(num_qubits=N))
            else:
                calls.append(dict(num_qubits=N, dims=_dims_with(N, qs, rng)[0]))
        e["calls"] = calls
        cases.append(dict(kind="entry", dims=None, entry=e))
    for _ in range(ctx.n(40, 300)):
        k = rng.randint(1, 3)
        top = rng.randint(k, 4)
        ts = rng.sample(range(top), k)
        odims = [rng.choice([2, 3, 4]) for _ in ts]
        calls = []
        for _j in range(rng.randint(2, 3)):
            N = rng.randint(max(ts) + 1, 4)
            d = [rng.choice([2, 3, 4]) for _ in range(N)]
            for t, od in zip(ts, odims):
                d[t] = od
            calls.append(dict(dims=d))
        cases.append(dict(kind="entry", dims=None, entry=dict(via="pulse-history", targets=ts, odims=odims, calls=calls)))
    # ---- requests the property text refuses, through Gate.get_qobj ON ONE OBJECT between valid requests: register too
    #      small for the gate's qubits (num_qubits=n, num_qubits=n with dims=[2]*n, dims=[2]*n; every n <= max qubit),
    #      a target subsystem that is not a qubit.  Refusal vs. success (and the result's dims) is compared with the
    #      property text and with the model's expand_dims.
    def gate_entry(name, qs):
        k = len(qs)
        e = dict(via="gate-history", gate=name)
        if k == 1:
            e.update(targets=[qs[0]], arg=(0.5 if name == "RX" else None))
        elif name == "SWAP":
            e.update(targets=list(qs))
        elif k == 2:
            e.update(controls=[qs[0]], targets=[qs[1]])
        elif name == "TOFFOLI":
            e.update(controls=list(qs[:2]), targets=[qs[2]])
        else:
            e.update(controls=[qs[0]], targets=list(qs[1:]))
        return e

    for k, names in ((1, ONE_Q), (2, TWO_Q), (3, THREE_Q)):
        for qs in itertools.permutations(range(4), k):
            if k == 3 and not ctx.thorough and rng.random() < 0.6:
                continue
            top = max(qs)
            for name in (names if (ctx.thorough or k == 1) else [rng.choice(names)]):
                calls = []
                for n in range(0 if ctx.thorough else 1, top + 1):
                    calls += [dict(num_qubits=n), dict(num_qubits=n, dims=[2] * n), dict(dims=[2] * n)]
                calls.insert(rng.randrange(len(calls) + 1), dict(num_qubits=top + 1))
                calls.append(dict(num_qubits=top + 2))
                if calls[:-2]:
                    e = gate_entry(name, qs)
                    e["calls"] = calls
                    cases.append(dict(kind="entry", dims=None, entry=e))
    for _ in range(ctx.n(60, 400)):
        k = rng.choice([1, 1, 2, 2, 3])
        qs = rng.sample(range(4), k)
        e = gate_entry(rng.choice({1: ONE_Q, 2: TWO_Q, 3: THREE_Q}[k]), qs)
        calls = []
        for _j in range(rng.randint(2, 4)):
            r = rng.random()
            top = max(qs)
            if r < 0.3:
                N = rng.randint(top + 1, 4)
                calls.append(rng.choice([dict(num_qubits=N), dict(dims=_dims_with(N, qs, rng)[0]),
                                         dict(num_qubits=N, dims=_dims_with(N, qs, rng)[0])]))
            elif r < 0.75 and top >= 1:
                n = rng.randint(1, top)
                calls.append(rng.choice([dict(num_qubits=n), dict(num_qubits=n), dict(num_qubits=n, dims=[2] * n),
                                         dict(dims=[rng.choice([2, 2, 3]) for _i in range(n)])]))
            else:
                N = rng.randint(top + 1, 4)
                d = _dims_with(N, qs, rng)[0]
                d[rng.choice(qs)] = rng.choice([3, 4])
                calls.append(rng.choice([dict(dims=d), dict(num_qubits=N, dims=d)]))
        e["calls"] = calls
        cases.append(dict(kind="entry", dims=None, entry=e))
    # ---- histories on ONE Pulse whose targets (and operator) are REASSIGNED through the public setters between the
    #      get_ideal_qobj calls; every call is compared with the embedding on the CURRENT targets of the CURRENT operator.
    #      Exhaustive: every pair (old targets, new targets) of compatible placements on 3 subsystems over {2,3}
    for dims in itertools.product([2, 3], repeat=3):
        for k in (1, 2, 3):
            tuples = list(itertools.permutations(range(3), k))
            for t0 in tuples:
                od = [dims[t] for t in t0]
                news = [t1 for t1 in tuples if t1 != t0 and [dims[t] for t in t1] == od]
                if not ctx.thorough and len(news) > 2:
                    news = rng.sample(news, 2)
                for t1 in news:
                    cont = rng.choice(["list", "tuple", "npint", "ndarray"])
                    cases.append(dict(kind="entry", dims=None, entry=dict(
                        via="pulse-retarget", targets=list(t0), odims=od, scalar=(k == 1 and rng.random() < 0.5),
                        calls=[dict(dims=list(dims)),
                               dict(dims=list(dims), set_targets=list(t1), container=cont,
                                    scalar=(k == 1 and rng.random() < 0.5)),
                               dict(dims=list(dims), set_targets=list(t0))])))
    for _ in range(ctx.n(100, 600)):
        top = rng.choice([3, 3, 3, 4])      # mostly <= 3 subsystems: the model tables stay small
        k = rng.randint(1, 3)
        ts = rng.sample(range(top), k)
        odims = [rng.choice([2, 3, 4]) for _i in ts]
        e = dict(via="pulse-retarget", targets=list(ts), odims=list(odims), scalar=(k == 1 and rng.random() < 0.4),
                 container=rng.choice(["list", "tuple", "npint"]))
        calls = []
        for j in range(rng.randint(2, 4)):
            call = {}
            old_ts, old_od = list(ts), list(odims)
            r = rng.random()
            if j and r < 0.25:            # new operator (possibly on another number of subsystems) AND new targets
                k = rng.randint(1, 3)
                odims = [rng.choice([2, 3, 4]) for _i in range(k)]
                ts = rng.sample(range(top), k)
                call.update(set_odims=list(odims), set_targets=list(ts))
            elif j and r < 0.35:          # new operator of the same shape on the same targets
                odims = [rng.choice([2, 3, 4]) for _i in range(k)]
                call.update(set_odims=list(odims))
            elif j and r < 0.9:           # new targets: other positions / other order
                ts = rng.sample(range(top), k)
                call.update(set_targets=list(ts))
                if rng.random() < 0.15:
                    call["inplace"] = True
            if "set_targets" in call:
                call["container"] = rng.choice(["list", "tuple", "npint", "ndarray"])
                call["scalar"] = bool(k == 1 and rng.random() < 0.4)
            N = rng.randint(max(ts + (old_ts if rng.random() < 0.7 else [])) + 1, top)
            d = [rng.choice([2, 3, 4]) for _i in range(N)]
            if j and rng.random() < 0.2 and len(old_ts) == len(set(old_ts)):
                # dims that fit the PREVIOUS targets / operator; whether they fit the current ones decides
                for t, x in zip(old_ts, old_od):
                    if t < N:
                        d[t] = x
            else:
                for t, x in zip(ts, odims):
                    d[t] = x
            call["dims"] = d
            calls.append(call)
        e["calls"] = calls
        cases.append(dict(kind="entry", dims=None, entry=e))
    return cases


def entry_model_cases(case):
    """the expand_operator calls (as model cases) underlying the calls of an entry case"""
    e = case["entry"]
    out = []
    if e["via"] == "pulse-nonint":
        return out
    if e["via"] == "pulse-none":
        for call in entry_calls(case):
            dims = _call_dims(call, [0])
            out.append(dict(dims=dims, orow=[dims[0]], ocol=[dims[0]], targets=[0]))
        return out
    if e["via"].startswith("gate"):
        ts = [int(q) for q in (e.get("controls") or [])] + [int(q) for q in e["targets"]]
        for call in entry_calls(case):
            out.append(dict(dims=_call_dims(call, ts), orow=[2] * len(ts), ocol=[2] * len(ts), targets=list(ts)))
        return out
    for call, ts, od, _scale in pulse_states(case):
        out.append(dict(dims=_call_dims(call, ts), orow=list(od), ocol=list(od), targets=list(ts)))
    return out


# ------------------------------------------------------------------------------------------------
# generators
# ------------------------------------------------------------------------------------------------
def _valid_case(dims, ts, dtype=None, container="list"):
    od = [dims[t] for t in ts]
    return dict(kind="valid", dims=list(dims), orow=od, ocol=list(od), targets=list(ts),
                container=container, dtype=dtype)


def _containers_for(ts):
    c = ["list", "tuple", "ndarray", "npint"]
    if ts == list(range(ts[0], ts[0] + len(ts))):
        c.append("range")
    return c


def valid_cases(ctx):
    """exhaustive for N <= 3; sampled (quick) / exhaustive (thorough) for N = 4; sampled N = 5 in thorough"""
    rng = ctx.rng
    out = []
    n = 0
    for N in (1, 2, 3):
        for dims in itertools.product([2, 3, 4], repeat=N):
            for k in range(1, min(N, 3) + 1):
                for ts in itertools.permutations(range(N), k):
                    ts = list(ts)
                    c = _valid_case(dims, ts, DTYPES[n % len(DTYPES)], rng.choice(_containers_for(ts)))
                    n += 1
                    out.append(c)
    all4 = [(d, list(ts)) for d in itertools.product([2, 3, 4], repeat=4)
            for k in (1, 2, 3) for ts in itertools.permutations(range(4), k)]
    if not ctx.thorough:
        all4 = rng.sample(all4, 250)
    for dims, ts in all4:
        out.append(_valid_case(dims, ts, rng.choice(DTYPES), rng.choice(_containers_for(ts))))
    for _ in range(ctx.n(30, 300)):
        dims = [rng.choice([2, 3, 4]) for _ in range(5)]
        k = rng.randint(1, 3)
        ts = rng.sample(range(5), k)
        out.append(_valid_case(dims, ts, rng.choice(DTYPES), rng.choice(_containers_for(ts))))
    # scalar / None target forms
    for _ in range(ctx.n(20, 100)):
        N = rng.randint(1, 4)
        dims = [rng.choice([2, 3, 4]) for _ in range(N)]
        if rng.random() < 0.5:
            t = rng.randrange(N)
            c = _valid_case(dims, [t], rng.choice(DTYPES))
            c["targets"] = t
            c["container"] = rng.choice(["scalar", "npint"])
        else:
            k = rng.randint(1, min(N, 3))
            c = _valid_case(dims, list(range(k)), rng.choice(DTYPES))
            c["targets"] = None
            c["container"] = "none"
        out.append(c)
    return out


def malformed_cases(ctx):
    rng = ctx.rng
    out = []

    def base():
        N = rng.randint(1, 4)
        dims = [rng.choice([2, 3, 4]) for _ in range(N)]
        k = rng.randint(1, min(N, 3))
        ts = rng.sample(range(N), k)
        return N, dims, k, ts, _valid_case(dims, ts, rng.choice(DTYPES), rng.choice(["list", "tuple", "npint"]))

    fixed = [
        dict(dims=[2], orow=[2, 2], ocol=[2, 2], targets=[0, 0]),              # k > N, only permute refuses
        dict(dims=[2, 2], orow=[2, 2, 2], ocol=[2, 2, 2], targets=[0, 1, 0]),
        dict(dims=[2, 2], orow=[2, 2, 2], ocol=[2, 2, 2], targets=[0, 1, -1]),
        dict(dims=[2, 2, 2], orow=[2], ocol=[2], targets=[-1]),
        dict(dims=[2, 2, 2], orow=[2], ocol=[2], targets=[-3]),
        dict(dims=[2, 2, 2], orow=[2], ocol=[2], targets=[-4]),
        dict(dims=[2, 2, 2], orow=[2], ocol=[2], targets=[3]),
        dict(dims=[2, 2, 2], orow=[2, 2], ocol=[2, 2], targets=[1, 1]),
        dict(dims=[2, 2, 2], orow=[2, 2], ocol=[2, 2], targets=[1, -2]),
        dict(dims=[2, 3, 2], orow=[2, 3], ocol=[2, 3], targets=[1, 0]),         # right dims, wrong order
        dict(dims=[2, 3, 2], orow=[3, 2], ocol=[3, 2], targets=[1, 0]),         # (valid)
        dict(dims=[2, 3], orow=[2], ocol=[3], targets=[0]),
        dict(dims=[2, 3], orow=[2], ocol=[1], targets=[0]),
        dict(dims=[], orow=[2], ocol=[2], targets=[0]),
        dict(dims=[], orow=[2], ocol=[2], targets=[-1]),
        dict(dims=[2, 2], orow=[2], ocol=[2], targets=[]),
        dict(dims=[2, 2], orow=[2], ocol=[2], targets=[1.0]),
        dict(dims=[2, 2, 2], orow=[2], ocol=[2], targets=[1.5]),
        dict(dims=[2, 2, 2], orow=[2], ocol=[2], targets=2.7),
        dict(dims=[2, 2, 2], orow=[2], ocol=[2], targets=-0.5),
        dict(dims=[2, 3, 2], orow=[2, 3], ocol=[2, 3], targets=[2.7, 1.5]),
        dict(dims=[2, 2], orow=[2], ocol=[2], targets=[dict(np="float64", v=1.5)]),
        dict(dims=[2, 2], orow=[2], ocol=[2], targets=dict(np="float64", v=1.0)),
        dict(dims=[2, 2], orow=[2], ocol=[2], targets=[dict(frac=[3, 2])]),
        dict(dims=[2, 2], orow=[2], ocol=[2], targets=[dict(frac=[1, 1])]),
        dict(dims=[2, 2], orow=[2], ocol=[2], targets=1.0),
        dict(dims=[2, 2], orow=[2], ocol=[2], targets="1"),
        dict(dims=[2, 2], orow=[2], ocol=[2], targets=[None]),
        dict(dims=[2, 2], orow=[2], ocol=[2], targets=[True]),                  # bool is Integral: valid, = 1
        dict(dims=[2, 2], orow=[2, 2], ocol=[2, 2], targets=None),              # (valid)
        dict(dims=[2], orow=[2, 2], ocol=[2, 2], targets=None),
        dict(dims=[3, 2], orow=[2], ocol=[2], targets=None),
    ]
    for f in fixed:
        f.update(kind="malformed", container="list", dtype=None)
        out.append(f)
    for _ in range(ctx.n(500, 2500)):
        N, dims, k, ts, c = base()
        c["kind"] = "malformed"
        m = rng.choice(["count-", "count+", "range", "range-big", "neg-wrap", "neg", "neg-low", "dup", "dims",
                        "dims-order", "nonsquare", "nonint", "nonint", "nonint-scalar", "nonint-scalar", "ok", "k>N", "none-bad"])
        c["mutation"] = m
        j = rng.randrange(k)
        if m == "count-":
            c["targets"] = ts[:-1]
        elif m == "count+":
            c["targets"] = ts + [rng.randrange(-1, N + 1)]
        elif m == "range":
            c["targets"][j] = N
        elif m == "range-big":
            c["targets"][j] = N + rng.randint(1, 5)
        elif m == "neg-wrap":
            c["targets"][j] = ts[j] - N
        elif m == "neg":
            c["targets"][j] = -rng.randint(1, N)
        elif m == "neg-low":
            c["targets"][j] = -N - rng.randint(1, 3)
        elif m == "dup":
            if k == 1:
                c["targets"] = [ts[0], ts[0]]
                c["orow"] = c["orow"] * 2
                c["ocol"] = c["ocol"] * 2
            else:
                c["targets"][j] = ts[(j + 1) % k]
                if rng.random() < 0.5:   # keep the dims check passing so that the later stages decide
                    c["orow"] = [dims[t] for t in c["targets"]]
                    c["ocol"] = list(c["orow"])
        elif m == "dims":
            c["orow"][j] = rng.choice([d for d in (2, 3, 4, 5) if d != c["orow"][j]])
            c["ocol"] = list(c["orow"])
        elif m == "dims-order":
            if k >= 2:
                c["targets"] = ts[1:] + ts[:1]
        elif m == "nonsquare":
            c["ocol"][j] = rng.choice([d for d in (1, 2, 3, 4) if d != c["ocol"][j]])
        elif m == "nonint":
            # values that truncate (int()) or round to the valid position ts[j], and others
            v = rng.choice([ts[j] + 0.5, ts[j] + 0.7, ts[j] + 0.25, float(ts[j]), (ts[j] - 0.5) if ts[j] == 0 else ts[j] - 0.3,
                            0.5, 1.5, 2.7, -0.5])
            c["targets"][j] = rng.choice([v, v, dict(np="float64", v=v), dict(np="float32", v=float(np.float32(v))),
                                          dict(frac=[int(round(v * 20)), 20]), dict(frac=[ts[j], 1]),
                                          str(ts[j]), None])
            c["container"] = rng.choice(["list", "tuple"])
        elif m == "nonint-scalar":
            t0 = ts[0]
            c["orow"] = [dims[t0]]
            c["ocol"] = [dims[t0]]
            v = rng.choice([t0 + 0.5, t0 + 0.7, float(t0), -0.5 if t0 == 0 else t0 - 0.3, 0.5, 1.5, 2.7])
            c["targets"] = rng.choice([v, v, dict(np="float64", v=v), dict(frac=[int(round(v * 20)), 20]), str(t0)])
            c["container"] = "scalar"
        elif m == "k>N":
            kk = N + rng.randint(1, 2)
            c["targets"] = [rng.randrange(N) for _ in range(kk)]
            c["orow"] = [dims[t] for t in c["targets"]]
            c["ocol"] = list(c["orow"])
        elif m == "none-bad":
            c["targets"] = None
            c["container"] = "none"
        out.append(c)
    return out


def load_corpus():
    out = []
    for p in sorted(glob.glob(os.path.join(VERIF, "corpus", "C08", "*.json"))):
        try:
            rec = json.load(open(p))
        except Exception:
            continue
        c = rec.get("input", rec)
        if isinstance(c, dict) and "dims" in c:
            out.append(c)
    return out


# ------------------------------------------------------------------------------------------------
# model evaluation
# ------------------------------------------------------------------------------------------------
TABLE_MAX_D = 256          # full table (all (x,y) pairs) from Coq up to this total dimension
TABLE_MAX_D_THOROUGH = 1024
TABLE_LIMIT = 300            # tables with more nonzero entries come back as a digest (see Model/Expand.v)
HASH_P = 2305843009213693951
HASH_B = (2 ** 31 + 1, 2 ** 37 + 2 ** 11 + 1)


def _limit(ctx):
    return 150 if ctx.thorough else TABLE_LIMIT


def hash_cells(B, cells):
    h = 0
    for c in cells:
        h = (h * B + c + 1) % HASH_P
    return h


def _sample_pairs(rng, case, ts, n):
    dims = case["dims"]
    pairs = []
    for i in range(n):
        x = [rng.randrange(d) for d in dims]
        y = list(x)
        for t in ts:
            y[t] = rng.randrange(dims[t])
        if i % 3 == 2:          # break the delta on one other digit (if any)
            rest = [q for q in range(len(dims)) if q not in ts]
            if rest:
                q = rng.choice(rest)
                y[q] = (y[q] + 1 + rng.randrange(dims[q] - 1)) % dims[q]
        pairs.append((x, y))
    return pairs


def _decode_header(v):
    """[1] -> None (rejected); [0, N, d1..dN, rest...] -> (dims, rest)"""
    if not v or v[0] != 0:
        return None
    n = v[1]
    return list(v[2:2 + n]), v[2 + n:]


def eval_model(ctx, jobs):
    """jobs: dict key -> ('table', case) | ('status', case) | ('pairs', case, pairs).
    Returns key -> value: table -> None | (rdims, {(xi, yi): (r, c) | 'error'});
    pairs -> None | (rdims, [code...]); status -> (expand_dims, expand_order) as parsed terms."""
    import re
    from common import NCPU

    def cost(j):
        if j[0] == "table":
            return _prod(j[1]["dims"]) ** 2 + 500
        if j[0] == "pairs":
            return 20000
        return 300
    nb = max(4, min(NCPU, 16))
    bins = {"z": [[] for _ in range(nb)], "t": [[] for _ in range(nb)]}
    load = {"z": [0] * nb, "t": [0] * nb}
    for key, j in sorted(jobs.items(), key=lambda kv: -cost(kv[1])):
        kind = "t" if j[0] == "status" else "z"
        i = min(range(nb), key=lambda b: (load[kind][b], b))
        bins[kind][i].append((key, j))
        load[kind][i] += cost(j)
    texts, files = [], []
    for kind in ("z", "t"):
        for i, ch in enumerate(bins[kind]):
            if not ch:
                continue
            body = [COQ_HEAD]
            for key, j in ch:
                a = _coq_args(j[1])
                if j[0] == "table":
                    body.append(f"Eval vm_compute in (expand_table_z {_limit(ctx)} {a}).")
                elif j[0] == "status":
                    body.append(f"Eval vm_compute in (expand_dims {a}, expand_order {a}).")
                else:
                    pl = "[" + "; ".join(f"({_cnatlist(x)}, {_cnatlist(y)})" for x, y in j[2]) + "]"
                    body.append(f"Eval vm_compute in (expand_pairs_z {a} {pl}).")
            texts.append((f"C08_{ctx.tier}_{kind}{i}", "\n".join(body) + "\n"))
            files.append((kind, ch))
    try:
        outs = coq_eval_many(texts, timeout=900)
    except Broken:
        # coqc killed / timed out on an overloaded machine: one retry (same files, same result if healthy)
        ctx.notes.append("coq evaluation of the cases failed once and was retried")
        outs = coq_eval_many(texts, timeout=1500)
    res = {}
    for (name, _), (kind, ch) in zip(texts, files):
        if kind == "t":
            vals = parse_evals(outs[name])
        else:
            vals = [[int(t) for t in re.findall(r"-?\d+", chunk.rsplit(":", 1)[0])]
                    for chunk in re.split(r"^\s*= ", outs[name], flags=re.M)[1:]]
        if len(vals) != len(ch):
            raise Broken("coq-eval:" + name, f"{len(vals)} values for {len(ch)} cases")
        for (key, j), v in zip(ch, vals):
            if j[0] == "status":
                res[key] = v
                continue
            h = _decode_header(v)
            if h is None:
                res[key] = None
            elif j[0] == "pairs":
                res[key] = h
            else:
                rdims, rest = h
                ncells, body = rest[0], rest[1:]
                if len(body) == ncells and ncells <= _limit(ctx):
                    res[key] = (rdims, ncells, list(body), None)
                elif len(body) == 2:
                    res[key] = (rdims, ncells, None, tuple(body))
                else:
                    raise Broken("coq-eval:" + name, "table does not decode")
    return res


def _flat(digits, dims):
    i = 0
    for d, n in zip(digits, dims):
        i = i * n + d
    return i


# ------------------------------------------------------------------------------------------------
# correspondence
# ------------------------------------------------------------------------------------------------
def _sanity_conventions():
    import qutip
    dims = [2, 3, 4]
    x = [1, 2, 3]
    v = qutip.tensor([qutip.basis(d, i) for d, i in zip(dims, x)]).full().ravel()
    if int(np.argmax(np.abs(v))) != int(np.ravel_multi_index(x, dims)) or abs(v).sum() != 1:
        raise Broken("harness:basis-convention", "product basis state is not at the row-major index")


def correspond(ctx):
    _sanity_conventions()
    corr = Corr(rule="valid call: the computed subsystem order is not the identity permutation (data really moves); "
                     "malformed call: rejected by the model at a stage other than the integer test, or accepted; "
                     "entry point: always")
    rng = ctx.rng
    cases = load_corpus()
    ncorpus = len(cases)
    cases += valid_cases(ctx)
    mal = malformed_cases(ctx)
    entries = [c for c in cases if c.get("kind") == "entry"] + entry_cases(ctx)
    cases = [c for c in cases if c.get("kind") != "entry"] + mal
    corr.extra["corpus_cases"] = ncorpus

    # ---- plan model jobs
    jobs = {}
    plans = []
    maxd = TABLE_MAX_D_THOROUGH if ctx.thorough else TABLE_MAX_D
    for c in cases:
        c.setdefault("ocol", list(c["orow"]))
        c.setdefault("container", "list")
        c.setdefault("dtype", None)
        ts = valid_call(c)
        key = _model_key(c)
        if ts is not None and _prod(c["dims"]) <= maxd:
            jobs.setdefault(key, ("table", c))
            plans.append((c, key, "table", None))
        elif ts is not None:
            pairs = _sample_pairs(rng, c, ts, 150)
            pkey = key + "#" + str(len(plans))
            jobs[pkey] = ("pairs", c, pairs)
            plans.append((c, pkey, "pairs", pairs))
        else:
            jobs.setdefault(key + "#s", ("status", c))
            plans.append((c, key + "#s", "status", None))
    # the expand_operator calls underlying the entry-point cases (same tables, shared with the stream above)
    entry_keys = {}
    entry_status = set()
    for c in entries:
        for mc in entry_model_cases(c):
            if valid_call(mc) is None:
                k2 = _model_key(mc) + "#s"
                jobs.setdefault(k2, ("status", mc))
                entry_status.add(k2)
            elif _prod(mc["dims"]) <= TABLE_MAX_D:
                k2 = _model_key(mc)
                jobs.setdefault(k2, ("table", mc))
                entry_keys.setdefault(k2, mc)
    model = eval_model(ctx, jobs)

    # ---- run the implementation, compare, evaluate the property
    for c, key, mode, pairs in plans:
        m = model[key]
        dims, orow, ocol = c["dims"], c["orow"], c["ocol"]
        inp = {k: c[k] for k in ("kind", "dims", "orow", "ocol", "targets", "container", "dtype")}
        coded = coded_matrix(orow, ocol)
        status, out = run_impl(c, coded)
        corr.tally("N=%d" % len(dims))
        corr.tally("dtype=%s" % c["dtype"])
        corr.tally("container=%s" % c["container"])
        if c.get("mutation"):
            corr.tally("malformed:" + c["mutation"])

        # property oracle on the coded operator (exact integers)
        f = check_oracle(c, coded, status, out)
        if f:
            corr.oracle_fail(dict(inp, op="coded"), f[0], f[1], f[2])

        if mode == "status":
            mdims, morder = m
            m_ok = isinstance(mdims, tuple) and mdims[0] == "Ok"
            stage = "ok" if m_ok else mdims[1]
            corr.tally("model:" + stage)
            if m_ok != (status == "ok"):
                corr.disagree(inp, status if status != "ok" else "accepted",
                              "Ok" if m_ok else "Error " + stage, "accept/reject differs")
            elif m_ok:
                if out.dims != [list(mdims[1])] * 2:
                    corr.disagree(inp, out.dims, mdims[1], "result dims differ")
            corr.count(key, nontrivial=(stage != "TypeError"), sample=inp)
            continue

        # a valid call
        if (status == "ok") != (m is not None):
            corr.disagree(inp, status if status != "ok" else "accepted", "Ok" if m is not None else "Error",
                          "accept/reject differs")
            corr.count(key, nontrivial=True, sample=inp)
            continue
        if status != "ok":
            corr.count(key, nontrivial=True, sample=inp)
            continue
        E = out.full()
        C = _prod(ocol)
        ts = valid_call(c)
        if mode == "table":
            rdims, ncells, mcells, mdigest = m
            if out.dims != [list(rdims)] * 2:
                corr.disagree(inp, out.dims, rdims, "result dims differ")
                corr.count(key, nontrivial=True, sample=inp)
                continue
            D = _prod(rdims)
            M = _prod(orow) * C + 1
            # the implementation's table from the coded operator: cell = (x*D + y) * M + 1 + r*C + c
            nz = np.argwhere(E != 0)          # row-major order
            vals = E[nz[:, 0], nz[:, 1]]
            codes = np.rint(vals.real).astype(np.int64)
            ok = True
            if not (np.all(vals.imag == 0) and np.all(vals.real == codes) and np.all(codes >= 1)
                    and np.all(codes <= C * _prod(orow))):
                corr.disagree(inp, "an entry that is not a copy of one operator entry", "copies of operator entries",
                              "result entry is not a copy of an operator entry")
                ok = False
            icells = [int(v) for v in ((nz[:, 0] * D + nz[:, 1]) * M + codes)] if ok else []
            if ok and mcells is not None:
                if icells != mcells:
                    diff = sorted(set(icells) ^ set(mcells))[:4]

                    def show(n):
                        pos, code = divmod(n, M)
                        return dict(x=pos // D, y=pos % D, r=(code - 1) // C, c=(code - 1) % C,
                                    side="impl" if n in set(icells) else "model")
                    corr.disagree(inp, [show(n) for n in diff if n in set(icells)],
                                  [show(n) for n in diff if n not in set(icells)],
                                  "index map (which operator entry lands where) differs")
                    ok = False
                corr.tally("tables compared entry by entry")
            elif ok:
                if ncells != len(icells) or mdigest != tuple(hash_cells(B, icells) for B in HASH_B):
                    corr.disagree(inp, dict(cells=len(icells), digest=[hash_cells(B, icells) for B in HASH_B]),
                                  dict(cells=ncells, digest=list(mdigest)),
                                  "index map (which operator entry lands where) differs (digest)")
                    ok = False
                corr.tally("tables compared by digest")
            mm = {}
            if ok:
                for n in icells:     # equal to the model's table at this point
                    pos, code = divmod(n, M)
                    mm[(pos // D, pos % D)] = ((code - 1) // C, (code - 1) % C)
            # matrix units (complete basis) for small operators, a sample otherwise; values must be exactly 1
            if ok:
                units = [(r, cc) for r in range(C) for cc in range(C)]
                if len(units) > 16:
                    units = rng.sample(units, ctx.n(4, 12) if E.shape[0] <= 100 else ctx.n(3, 5))
                groups = {}
                for kxy, v in mm.items():
                    groups.setdefault(v, set()).add(kxy)
                for r, cc in units:
                    U = np.zeros((C, C), dtype=complex)
                    U[r, cc] = 1.0
                    st, o2 = run_impl(c, U)
                    if st != "ok":
                        corr.disagree(dict(inp, op=["unit", r, cc]), "rejected", "Ok", "matrix unit rejected")
                        break
                    E2 = o2.full()
                    want = groups.get((r, cc), set())
                    got = {(int(i), int(j)) for i, j in np.argwhere(E2 != 0)}
                    if got != want or not all(E2[i, j] == 1.0 for i, j in got):
                        corr.disagree(dict(inp, op=["unit", r, cc]), sorted(got)[:6], sorted(want)[:6],
                                      "embedded matrix unit differs from the model's entries")
                        ok = False
                        break
                    f = check_oracle(c, U, st, o2)
                    if f:
                        corr.oracle_fail(dict(inp, op=["unit", r, cc]), f[0], f[1], f[2])
                    corr.tally("matrix-unit calls")
            # a random dense operator through the model's index map
            if ok:
                R = random_matrix(rng, orow, ocol)
                st, o3 = run_impl(c, R)
                if st != "ok":
                    corr.disagree(dict(inp, op="random"), "rejected", "Ok", "random operator rejected")
                else:
                    E3 = o3.full()
                    X3 = np.zeros_like(E3)
                    for (i, j), (r, cc) in mm.items():
                        X3[i, j] = R[r, cc]
                    if np.abs(E3 - X3).max() > 1e-12:
                        corr.disagree(dict(inp, op="random"), "matrix", "model index map applied to the operator",
                                      "random dense operator: result differs from the model's index map")
                    f = check_oracle(c, R, st, o3, tol=1e-12)
                    if f:
                        corr.oracle_fail(dict(inp, op="random", seed=ctx.seed), f[0], f[1], f[2])
            order_nontrivial = any(t != i for i, t in enumerate(ts))
            corr.count(key, nontrivial=order_nontrivial, sample=inp)
            corr.tally("table cases")
            corr.tally("table entries compared", E.shape[0] * E.shape[1])
        else:
            mdims, codes = m
            if out.dims != [list(mdims)] * 2:
                corr.disagree(inp, out.dims, str(mdims), "result dims differ")
            elif len(codes) != len(pairs):
                raise Broken("coq-eval:pairs", "wrong number of codes")
            else:
                for (x, y), code in zip(pairs, codes):
                    v = E[_flat(x, dims), _flat(y, dims)]
                    want = None if code < 0 else (0.0 if code == 0 else coded[(code - 1) // C, (code - 1) % C])
                    if want is None or v != want:
                        corr.disagree(dict(inp, x=x, y=y), str(complex(v)), "code %d" % code,
                                      "sampled entry differs from the model")
                        break
                R = random_matrix(rng, orow, ocol)
                st, o3 = run_impl(c, R)
                f = check_oracle(c, R, st, o3, tol=1e-12)
                if f:
                    corr.oracle_fail(dict(inp, op="random", seed=ctx.seed), f[0], f[1], f[2])
            corr.count(key, nontrivial=any(t != i for i, t in enumerate(ts)), sample=inp)
            corr.tally("sampled-entry cases")

    # ---- observable entry points: numpy oracle and the model's entry map, every call of every history
    model_maps = {}
    for k2 in entry_status:
        mdims = model[k2][0]
        model_maps[k2] = bool(isinstance(mdims, tuple) and mdims[0] == "Ok")
    for k2, mc in entry_keys.items():
        m = model.get(k2)
        if m is None or not isinstance(m, tuple) or len(m) != 4:
            model_maps[k2] = None
            continue
        rdims, ncells, mcells, mdigest = m
        if list(rdims) != list(mc["dims"]):
            corr.disagree(dict(kind="entry-model", **mc), mc["dims"], rdims, "model result dims differ from the requested dims")
            model_maps[k2] = None
            continue
        if mcells is None:
            # digest only: rebuild the table from the property text and check it against the model's digest
            D = _prod(mc["dims"])
            C = _prod(mc["ocol"])
            M = C * C + 1
            X = oracle_matrix(coded_matrix(mc["orow"], mc["ocol"]), mc["dims"], mc["targets"])
            nz = np.argwhere(X != 0)
            codes = np.rint(X[nz[:, 0], nz[:, 1]].real).astype(np.int64)
            mcells = [int(v) for v in ((nz[:, 0] * D + nz[:, 1]) * M + codes)]
            if len(mcells) != ncells or tuple(hash_cells(B, mcells) for B in HASH_B) != tuple(mdigest):
                corr.disagree(dict(kind="entry-model", **mc), "table from the property text", "model digest",
                              "model table differs from the property-text table (digest)")
                model_maps[k2] = None
                continue
        model_maps[k2] = mcells
    for c in entries:
        f = check_entry(c, model_maps, corr)
        corr.tally("entry:" + c["entry"]["via"])
        corr.tally("entry-point calls", len(entry_calls(c)))
        if f:
            corr.oracle_fail(_entry_input(c, f[3], f[4]), f[0], f[1], f[2])
        corr.count(json.dumps(c, sort_keys=True), nontrivial=True)
    return corr


# ------------------------------------------------------------------------------------------------
# classification, search, replay
# ------------------------------------------------------------------------------------------------
def classify(failure):
    inp = failure.get("input") or {}
    if inp.get("kind") == "entry":
        e = inp.get("entry", {})
        call = inp.get("call")
        no_dims = e.get("via") in ("gate-num-qubits", "gate-default") or \
            (str(e.get("via", "")).startswith("gate") and isinstance(call, dict) and "dims" not in call)
        if no_dims and str(failure.get("observed", "")).startswith("rejected: TypeError"):
            return KF_NO_DIMS
    return None


def _oracle_on(case, rng=None):
    """evaluate the property on one case on the real code; returns failure dict or None"""
    if case.get("kind") == "entry":
        f = check_entry(case)
        if f:
            return dict(input=_entry_input(case, f[3], f[4]), observed=f[0], expected=f[1], what=f[2])
        return None
    case.setdefault("ocol", list(case["orow"]))
    op = case.get("op", "coded")
    mats = []
    C, R = _prod(case["ocol"]), _prod(case["orow"])
    if isinstance(op, list) and op and op[0] == "unit":
        U = np.zeros((R, C), dtype=complex)
        U[op[1], op[2]] = 1.0
        mats.append((op, U))
    mats.append(("coded", coded_matrix(case["orow"], case["ocol"])))
    if rng is not None:
        mats.append(("random", random_matrix(rng, case["orow"], case["ocol"])))
    for name, mat in mats:
        status, out = run_impl(case, mat)
        f = check_oracle(case, mat, status, out, tol=0.0 if name != "random" else 1e-12)
        if f:
            inp = {k: case.get(k) for k in ("kind", "dims", "orow", "ocol", "targets", "container", "dtype")}
            inp["op"] = name if name != "random" else "coded"
            if name == "random":      # make the replay deterministic: re-check with the coded operator
                status, out = run_impl(case, mats[-2][1])
                g = check_oracle(case, mats[-2][1], status, out)
                if g:
                    f = g
                else:
                    continue
            return dict(input=inp, observed=f[0], expected=f[1], what=f[2])
    return None


def search(ctx, broken):
    """hunt for a concrete failing input on the real code with the property oracle only"""
    found = []
    seen = set()
    named = []
    for b in broken:
        d = b[1]
        if isinstance(d, dict) and isinstance(d.get("input"), dict) and "dims" in d["input"]:
            named.append(dict(d["input"]))
    pool = load_corpus() + named + valid_cases(ctx) + malformed_cases(ctx) + entry_cases(ctx)
    # wider sweep than correspond: every valid placement on N <= 4, all dtype options on N <= 2
    for N in (1, 2):
        for dims in itertools.product([2, 3, 4], repeat=N):
            for k in range(1, N + 1):
                for ts in itertools.permutations(range(N), k):
                    for dt in DTYPES:
                        pool.append(_valid_case(dims, list(ts), dt))
    for c in pool:
        try:
            f = _oracle_on(c, ctx.rng)
        except Broken:
            continue
        if f:
            k = f["what"]
            if k in seen:
                continue
            seen.add(k)
            found.append(f)
            if len(found) >= 5:
                break
    return found


def replay(ctx, rec):
    case = rec.get("input")
    if not isinstance(case, dict):
        return False
    return _oracle_on(dict(case)) is not None
