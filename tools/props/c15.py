"""C15 - T1/T2 decoherence has exactly the specified rates and keeps states physical.  See DESIGN.md section 5 (C15).

Tie:  (T) tools/translate/noise_tr.py regenerates coq/Gen/Noise.v (guards of _T_to_list, loop body of
RelaxationNoise.get_noisy_pulses) from the CURRENT source; the Coq interpreter Model.Relax.setup is then run on the
same inputs as the real code (RelaxationNoise(...).get_noisy_pulses and Processor(...).get_qobjevo(noisy=True)) and
outcomes / collapse terms are compared.  The operator tables and the dissipator of Model.Lindblad are compared with
qutip.destroy/num and qutip.lindblad_dissipator.
Oracle (from the property text, independent of the model): numeric Lindblad generator built from the REAL collapse
operators -> decay rates of <n_q>, <a_q>, reduced rho_11 / rho_01, trace/hermiticity preservation, finiteness;
rejection clauses; a direct qutip.mesolve run on the real (H, c_ops) for small cases and for random compiled circuits
with combinations of the shipped noise models.
"""
import contextlib
import io
import json
import math
import os
import sys
import warnings
from fractions import Fraction

import numpy as np

sys.path.insert(0, os.path.dirname(os.path.dirname(os.path.abspath(__file__))))
from common import Corr, Broken, coq_eval, coq_eval_many, parse_evals, VERIF  # noqa: E402
from translate import noise_tr  # noqa: E402

ID = "C15"
TARGETS = ["Props/C15.vo", "Props/C15Sol.vo"]
TRUSTED = [
    "translator tools/translate/noise_tr.py (Python ast of RelaxationNoise._T_to_list / get_noisy_pulses -> syntax trees of "
    "Model.Relax; fail-closed; evaluates nothing) and the interpreter Model.Relax (Python float vs numpy division/sqrt "
    "semantics, None-ness, short-circuit and/or); validated on every run against the running code",
    "a collapse coefficient c is represented by (sign c, c^2): np.sqrt is never evaluated in the model; "
    "coefficient_squared_is_rate2/3 prove that the dissipator only depends on c*conj(c)",
    "Model.Lindblad.lind is what qutip.mesolve integrates for each element of c_ops (validated numerically against "
    "qutip.lindblad_dissipator on every run). PROVED (Reals + Coquelicot): the closed-form rho(t) of one idle 2-level "
    "subsystem (and the full 3-level truncation) satisfies d/dt rho = L(rho) entrywise with rho(0) given, and stays "
    "Hermitian/PSD/unit-trace for all t >= 0 when t2 <= 2 t1 (2 and 3 levels; tight: refuted for t2 > 2 t1). NOT proved: "
    "uniqueness of solutions of the linear ODE (that the solver's exact target IS this closed form; checked numerically on "
    "every run against qutip.mesolve), the numerical solver, PSD of multi-subsystem (entangled) states",
    "axioms of the real-number theorems: ClassicalDedekindReals.sig_forall_dec, ClassicalDedekindReals.sig_not_dec and "
    "FunctionalExtensionality.functional_extensionality_dep (all three are what the standard-library Reals themselves rest on "
    "in Coq 8.16); Classical_Prop.classic is NOT used (no auto_derive, exp monotonicity proved from the power series)",
    "NOT modelled: qutip.mesolve / numerical ODE integration, complete positivity in general, 'to solver "
    "tolerance', ControlAmpNoise / RandomNoise / ZZCrossTalk / DecoherenceNoise and process_noise's collection logic "
    "(checked by the numeric oracle only), independence for registers of more than two subsystems (proved for the "
    "bipartite registers 2x2, 2x3, 3x2, 3x3 with arbitrary states and collapse operators; checked numerically for 3 subsystems)",
    "inputs are exact rationals (dyadic in the harness); IEEE round-off of 1/t2 - 1/(2 t1) is not modelled "
    "(float test `== 0.0` agrees with the exact test away from 1-ulp neighbourhoods of t2 = 2 t1)",
    "environment: qutip.Options does not exist in qutip 5.3.1, so Processor.run_state(solver='mesolve') raises "
    "AttributeError before solving; the oracle calls qutip.mesolve itself on Processor.get_qobjevo(noisy=True)",
]
ASSUMES = ["times are rationals or None, per-qubit lists of those; targets None or a list of non-negative indices",
           "1-3 subsystems of dimension 2 or 3 in the harness; theorems about set-up hold for every N"]

_gen = {}
KIND = {0: "destroy", 1: "num"}


def generate(ctx):
    _gen.clear()
    _gen.update(noise_tr.generate())


# ------------------------------------------------------------------------------------------------
# inputs
# ------------------------------------------------------------------------------------------------
def _dy(rng, lo=1, hi=64, den=8):
    return rng.randint(lo, hi) / den


def _pair(rng, mode):
    """(t1, t2) floats/None for one qubit; mode in inner|boundary|t1|t2|none"""
    if mode == "none":
        return None, None
    if mode == "t1":
        return _dy(rng), None
    if mode == "t2":
        return None, _dy(rng)
    t1 = _dy(rng)
    if mode == "boundary":
        return t1, 2 * t1
    # inner: t2 = 2*t1*k/16 with k in 1..15 -> dyadic, strictly inside and >= 2^-7 away from the boundary
    return t1, 2 * t1 * rng.randint(1, 15) / 16


MODES = ["inner", "inner", "boundary", "t1", "t2", "none"]


def _scaled(x, k):
    """multiply every time of a scalar / list / None by 2**k (exact in floats; the rational model sees the same numbers)"""
    if x is None:
        return None
    if isinstance(x, list):
        return [None if v is None else v * 2.0 ** k for v in x]
    return x * 2.0 ** k


def _scale_case(inp, k):
    out = dict(inp, t1=_scaled(inp["t1"], k), t2=_scaled(inp["t2"], k))
    if k:
        out["scale_log2"] = k
    return out


def _tref(inp):
    """smallest positive relaxation time of a case (time unit for solver checks), 1.0 if there is none"""
    vals = []
    for T in (inp.get("t1"), inp.get("t2")):
        for v in (T if isinstance(T, list) else [T]):
            if isinstance(v, (int, float)) and v > 0:
                vals.append(float(v))
    return min(vals) if vals else 1.0


def _valid_case(rng, force=None, scale=None):
    n = rng.choice([1, 1, 2, 2, 3])
    dims = [rng.choice([2, 2, 3]) for _ in range(n)]
    shape = force or rng.choice(["scalar", "scalar", "list", "list", "mixed"])
    if shape == "scalar":
        t1, t2 = _pair(rng, rng.choice(MODES))
    elif shape == "list":
        ps = [_pair(rng, rng.choice(MODES)) for _ in range(n)]
        t1, t2 = [p[0] for p in ps], [p[1] for p in ps]
        if rng.random() < 0.3:
            t1 = None if all(x is None for x in t1) else t1
    else:  # one scalar, one list
        if rng.random() < 0.5:
            t1 = _dy(rng, 8, 64)
            t2 = [rng.choice([None, min(2 * t1, _dy(rng)), 2 * t1]) for _ in range(n)]
        else:
            t2 = _dy(rng, 1, 16)
            t1 = [rng.choice([None, t2 / 2, t2 / 2 + _dy(rng)]) for _ in range(n)]
    targets = None
    if rng.random() < 0.2:
        targets = sorted(rng.sample(range(n), rng.randint(1, n)))
    out = dict(kind="relax", dims=dims, t1=t1, t2=t2, targets=targets)
    if scale is None:
        scale = rng.randint(-40, 40) if rng.random() < 0.35 else 0
    return _scale_case(out, scale)


def _malformed_case(rng):
    n = rng.choice([1, 2, 2, 3])
    dims = [rng.choice([2, 2, 3]) for _ in range(n)]
    k = rng.choice(["nonpos_scalar_t1", "nonpos_scalar_t2", "gt_scalar", "wrong_len_t1", "wrong_len_t2", "nonpos_entry_t1",
                    "nonpos_entry_t2", "gt_entry", "target_range", "nonpos_and_other"])
    t1, t2, targets = _dy(rng, 8, 64), None, None
    bad = rng.choice([0.0, -0.5, -1.0, -4.0])
    if k == "nonpos_scalar_t1":
        t1, t2 = bad, rng.choice([None, _dy(rng)])
    elif k == "nonpos_scalar_t2":
        t1, t2 = rng.choice([None, _dy(rng)]), bad
    elif k == "gt_scalar":
        t1 = _dy(rng)
        t2 = 2 * t1 + rng.choice([1 / 64, 0.5, 3.0])
    elif k in ("wrong_len_t1", "wrong_len_t2"):
        m = rng.choice([x for x in range(0, 5) if x != n])
        lst = [_dy(rng, 8, 64) for _ in range(m)]
        if k == "wrong_len_t1":
            t1, t2 = lst, None
        else:
            t1, t2 = None, lst
    elif k in ("nonpos_entry_t1", "nonpos_entry_t2"):
        lst = [_dy(rng, 8, 64) for _ in range(n)]
        lst[rng.randrange(n)] = bad
        if k == "nonpos_entry_t1":
            t1, t2 = lst, rng.choice([None, 1.0])
        else:
            t1, t2 = rng.choice([None, 64.0]), lst
    elif k == "gt_entry":
        t1 = [_dy(rng) for _ in range(n)]
        t2 = [x for x in t1]
        j = rng.randrange(n)
        t2[j] = 2 * t1[j] + rng.choice([1 / 64, 1.0])
    elif k == "target_range":
        targets = [rng.randrange(n), n + rng.randint(0, 2)]
    else:
        t1, t2 = [bad] * n, [_dy(rng) for _ in range(n + 1)]
    out = dict(kind="relax", dims=dims, t1=t1, t2=t2, targets=targets, malformed=k)
    return _scale_case(out, rng.randint(-40, 40) if rng.random() < 0.3 else 0)


CORPUS_DIR = os.path.join(VERIF, "corpus", "C15")


def _corpus():
    out = []
    if os.path.isdir(CORPUS_DIR):
        for f in sorted(os.listdir(CORPUS_DIR)):
            if f.endswith(".json"):
                d = json.load(open(os.path.join(CORPUS_DIR, f)))
                out.append(d.get("input", d))
    return out


# ------------------------------------------------------------------------------------------------
# the real code
# ------------------------------------------------------------------------------------------------
def _cp(x):
    return list(x) if isinstance(x, list) else x


def _impl_noise(inp):
    """RelaxationNoise(t1,t2,targets).get_noisy_pulses(dims) -> ("Ok", [(q, kind, sign, c^2, d)]) | ("Raised", type) | ("NonFinite", None)"""
    from qutip import destroy, num
    from qutip_qip.noise import RelaxationNoise
    dims = list(inp["dims"])
    with warnings.catch_warnings(), contextlib.redirect_stdout(io.StringIO()):
        warnings.simplefilter("ignore")
        try:
            rn = RelaxationNoise(_cp(inp["t1"]), _cp(inp["t2"]), targets=_cp(inp.get("targets")))
            _, sysn = rn.get_noisy_pulses(dims=dims)
            terms = []
            for el in sysn.lindblad_noise:
                if el.coeff is not True or el.tlist is not None:
                    return ("Odd", f"coeff={el.coeff!r} tlist={el.tlist!r}")
                q = el.targets
                M = el.qobj.full()
                if not np.all(np.isfinite(M)):
                    return ("NonFinite", None)
                d = dims[q]
                a, nn = destroy(d).full(), num(d).full()
                ca, cn = M[0, 1], M[1, 1]
                if np.abs(M - ca * a).max() <= 1e-12 * abs(ca) and (abs(ca) > 0 or not np.any(M)):
                    kind, c = 0, ca
                    if not np.any(M):
                        return ("Odd", "zero collapse operator")
                elif np.abs(M - cn * nn).max() <= 1e-12 * abs(cn):
                    kind, c = 1, cn
                else:
                    return ("Odd", "operator is not a multiple of destroy/num")
                if abs(c.imag) > 1e-14:
                    return ("Odd", "complex coefficient")
                terms.append((int(q), kind, int(np.sign(c.real)), float(c.real) ** 2))
            return ("Ok", terms)
        except Exception as e:  # any exception = rejected at set-up
            return ("Raised", type(e).__name__)


def _impl_processor(inp):
    """Processor(N, dims, t1, t2).get_qobjevo(noisy=True) -> ("Ok", H0, [full c_op matrices]) | ("Raised", type)"""
    from qutip_qip.device import Processor
    dims = list(inp["dims"])
    with warnings.catch_warnings(), contextlib.redirect_stdout(io.StringIO()):
        warnings.simplefilter("ignore")
        try:
            p = Processor(len(dims), dims=dims, t1=_cp(inp["t1"]), t2=_cp(inp["t2"]))
            H, c_ops = p.get_qobjevo(noisy=True)
            return ("Ok", H(0).full(), [c(0).full() for c in c_ops], (H, c_ops))
        except Exception as e:
            return ("Raised", type(e).__name__)


# ------------------------------------------------------------------------------------------------
# numerics for the oracle (written from the property text; does not use the model)
# ------------------------------------------------------------------------------------------------
def _embed(op, q, dims):
    mats = [np.eye(d) for d in dims]
    mats[q] = op
    out = np.array([[1.0]])
    for m in mats:
        out = np.kron(out, m)
    return out


def _a(d):
    return np.diag(np.sqrt(np.arange(1, d)), 1)


def _lind(c_ops, rho, H=None):
    out = np.zeros_like(rho, dtype=complex)
    if H is not None:
        out += -1j * (H @ rho - rho @ H)
    for C in c_ops:
        CdC = C.conj().T @ C
        out += C @ rho @ C.conj().T - 0.5 * (CdC @ rho + rho @ CdC)
    return out


def _rand_rho(rs, dim, hermitian=True):
    A = rs.normal(size=(dim, dim)) + 1j * rs.normal(size=(dim, dim))
    if not hermitian:
        return A
    R = A @ A.conj().T
    return R / np.trace(R)


def _ptrace_keep(R, q, dims):
    n = len(dims)
    T = R.reshape(list(dims) + list(dims))
    keep = dims[q]
    # trace all other subsystems
    idx_in = list(range(n))
    idx_out = list(range(n, 2 * n))
    for j in range(n):
        if j != q:
            idx_out[j] = idx_in[j]
    return np.einsum(T, idx_in + idx_out, [q, n + q]).reshape(keep, keep)


def _per_qubit(x, q, n):
    if isinstance(x, list):
        return x[q] if q < len(x) else None
    return x


def _domain(inp):
    """classification by the PROPERTY TEXT: 'valid' (must be accepted, rates must hold), 'reject' (must be rejected),
    'unspecified' (non-positive list entries, bad targets: must be rejected or give finite physical operators)"""
    n = len(inp["dims"])
    tg = inp.get("targets")
    for T in (inp["t1"], inp["t2"]):
        if isinstance(T, list):
            if len(T) != n:
                return "reject"
        elif T is not None and not (T > 0):
            return "reject"
    if tg is not None and any((not isinstance(j, int)) or j < 0 or j >= n for j in tg):
        return "unspecified"
    qs = range(n) if tg is None else tg
    for T in (inp["t1"], inp["t2"]):
        if isinstance(T, list) and any(x is not None and not (x > 0) for x in T):
            return "unspecified"
    for q in qs:
        a, b = _per_qubit(inp["t1"], q, n), _per_qubit(inp["t2"], q, n)
        if a is not None and b is not None and b > 2 * a:
            return "reject"
    return "valid"


def _rates_of(dims, t1, t2, targets):
    """[(population rate, coherence rate)] per subsystem that the property text promises for one relaxation source"""
    n = len(dims)
    out = []
    for q in range(n):
        active = targets is None or q in targets
        t1q = _per_qubit(t1, q, n) if active else None
        t2q = _per_qubit(t2, q, n) if active else None
        g_pop = 0.0 if t1q is None else 1.0 / t1q
        g_coh = (1.0 / t2q) if t2q is not None else (0.0 if t1q is None else 0.5 / t1q)
        out.append((g_pop, g_coh))
    return out


def _check_rates(inp, c_full, fail, rs, H=None, rates=None):
    """decay law, independence, trace and hermiticity of the generator built from the real collapse operators"""
    dims = inp["dims"]
    n = len(dims)
    dim = int(np.prod(dims))
    if rates is None:
        rates = _rates_of(dims, inp["t1"], inp["t2"], inp.get("targets"))
    for C in c_full:
        if not np.all(np.isfinite(C)):
            fail("non-finite", "finite collapse operators", "a collapse operator contains inf/nan")
            return
    # every tolerance is RELATIVE to the magnitude of the rates involved (relaxation times may be 1e-12 or 1e+12):
    # rounding noise is ~1e-16 * (sum of all rates); a subsystem's own law is checked to 1e-9 of its own rates
    gtot = sum(gp_ + gc_ for gp_, gc_ in rates)
    if H is not None:
        gtot += float(np.abs(H).max())
    noise = 1e-13 * gtot * dim + 1e-300
    for trial in range(3):
        rho = _rand_rho(rs, dim, hermitian=(trial < 2))
        L = _lind(c_full, rho, H)
        lmax = float(np.abs(L).max())
        if lmax > 10 * gtot * dim * float(np.abs(rho).max()) + 1e-300:
            fail(f"|L(rho)| = {lmax:.6g}", f"<= {10 * gtot * dim:.6g}", "generator is larger than all specified rates together")
        if abs(np.trace(L)) > 1e-9 * lmax + noise:
            fail(f"tr L(rho) = {np.trace(L)}", "0", "generator does not preserve the trace")
        Lh = _lind(c_full, rho.conj().T, H)
        if np.abs(L.conj().T - Lh).max() > 1e-9 * lmax + noise:
            fail("L(rho)^dag != L(rho^dag)", "equal", "generator does not preserve hermiticity")
        for q in range(n):
            g_pop, g_coh = rates[q]
            tol = 1e-9 * max(g_pop, g_coh) + noise
            d = dims[q]
            a_q = _embed(_a(d), q, dims)
            n_q = a_q.conj().T @ a_q
            for name, op, g in (("<n>", n_q, g_pop), ("<a>", a_q, g_coh)):
                lhs = np.trace(op @ L)
                rhs = -g * np.trace(op @ rho)
                if abs(lhs - rhs) > tol * (1 + float(np.abs(rho).max()) * d):
                    fail(f"d{name}/dt = {lhs:.12g} on subsystem {q}", f"{rhs:.12g} (rate {g:.12g})",
                         f"decay rate of {name} on subsystem {q} is not the specified one")
            # reduced state of subsystem q evolves on its own: entries for d = 2
            if d == 2:
                r_q, L_q = _ptrace_keep(rho, q, dims), _ptrace_keep(L, q, dims)
                rmax = 1 + float(np.abs(r_q).max())
                if abs(L_q[1, 1] + g_pop * r_q[1, 1]) > tol * rmax or abs(L_q[0, 1] + g_coh * r_q[0, 1]) > tol * rmax:
                    fail(f"reduced generator ({L_q[1,1]:.9g}, {L_q[0,1]:.9g})",
                         f"({-g_pop * r_q[1,1]:.9g}, {-g_coh * r_q[0,1]:.9g})", f"rho_11/rho_01 of qubit {q} do not decay at 1/t1, 1/t2")
    # three-level subsystems: a state inside the qubit subspace stays there and follows the two-level law
    for q in range(n):
        if dims[q] != 3:
            continue
        P = _embed(np.diag([1.0, 1.0, 0.0]), q, dims)
        rho = P @ _rand_rho(rs, dim) @ P
        rho = rho / np.trace(rho)
        L = _lind(c_full, rho, H)
        g_pop, g_coh = rates[q]
        tol = 2 * (1e-9 * max(g_pop, g_coh) + noise)
        r_q, L_q = _ptrace_keep(rho, q, dims), _ptrace_keep(L, q, dims)
        if (abs(L_q[1, 1] + g_pop * r_q[1, 1]) > tol or abs(L_q[0, 1] + g_coh * r_q[0, 1]) > tol
                or np.abs(L_q[2, :]).max() > tol or np.abs(L_q[:, 2]).max() > tol):
            fail("three-level reduced generator deviates", "two-level law inside the qubit subspace, no leakage",
                 f"three-level subsystem {q}: qubit subspace law violated")


def _physical(rho, tol=1e-6):
    M = rho.full() if hasattr(rho, "full") else np.asarray(rho)
    if not np.all(np.isfinite(M)):
        return "non-finite state"
    if not np.allclose(M, M.conj().T, atol=tol):
        return "state not Hermitian"
    if abs(np.trace(M) - 1) > tol:
        return f"trace {np.trace(M)}"
    ev = np.linalg.eigvalsh((M + M.conj().T) / 2)
    if ev.min() < -tol:
        return f"negative eigenvalue {ev.min()}"
    return None


def _closed_form(r, p, c, t):
    """the closed-form solution proved in coq/Proofs/RelaxSolution.v (2 levels) / RelaxSolution3.v (3 levels, arbitrary
    initial table r), transcribed: p = population rate 1/t1, c = coherence rate 1/t2"""
    e, f = math.exp(-p * t), math.exp(-c * t)
    if r.shape == (2, 2):
        return np.array([[r[0, 0] + (1 - e) * r[1, 1], f * r[0, 1]], [f * r[1, 0], e * r[1, 1]]])
    w, g = math.sqrt(2), math.exp(-(4 * c - p) * t)
    return np.array([
        [r[0, 0] + (1 - e) * r[1, 1] + (1 - e) ** 2 * r[2, 2], f * (r[0, 1] + w * (1 - e) * r[1, 2]), g * r[0, 2]],
        [f * (r[1, 0] + w * (1 - e) * r[2, 1]), e * (r[1, 1] + 2 * (1 - e) * r[2, 2]), f * e * r[1, 2]],
        [g * r[2, 0], f * e * r[2, 1], e * e * r[2, 2]]])


def _solve_closed_form(inp, evo, fail, rs):
    """solver on the REAL (H, c_ops) vs the closed form proved in Coq, every level populated (ties the proved solution
    of the master equation to what the external solver returns; uniqueness of ODE solutions is not proved in Coq)"""
    import qutip
    dims = inp["dims"]
    n = len(dims)
    H, c_ops = evo
    kets = []
    for d in dims:
        v = np.array([0.5, 0.5j, math.sqrt(0.5)])[:d] if d == 3 else np.array([0.6, 0.8j])
        kets.append(qutip.Qobj(v))
    psi = qutip.tensor(kets)
    T = float(rs.choice([0.5, 2.0])) * _tref(inp)
    res = qutip.mesolve(H, psi * psi.dag(), [0.0, T / 2, T], c_ops=c_ops,
                        options={"atol": 1e-11, "rtol": 1e-10, "progress_bar": False, "nsteps": 100000})
    for k, tt in ((1, T / 2), (2, T)):
        fin = res.states[k].full()
        for q in range(n):
            t1q, t2q = _per_qubit(inp["t1"], q, n), _per_qubit(inp["t2"], q, n)
            g_pop = 0.0 if t1q is None else 1.0 / t1q
            g_coh = (1.0 / t2q) if t2q is not None else (0.0 if t1q is None else 0.5 / t1q)
            r0 = kets[q].full() @ kets[q].full().conj().T
            exp_m = _closed_form(r0, g_pop, g_coh, tt)
            got = _ptrace_keep(fin, q, dims)
            if np.abs(got - exp_m).max() > 2e-6:
                fail(np.round(got, 7).tolist().__repr__(), np.round(exp_m, 7).tolist().__repr__(),
                     f"solver state of subsystem {q} (dimension {dims[q]}) at t={tt} differs from the proved closed-form solution")
                return


def _solve_check(inp, evo, fail, rs):
    """the external solver on the REAL (H, c_ops): exp(-t/t1), exp(-t/t2) and physical states (small registers only)"""
    import qutip
    dims = inp["dims"]
    n = len(dims)
    H, c_ops = evo
    kets = []
    for d in dims:
        v = np.zeros(d, dtype=complex)
        v[0], v[1] = 0.6, 0.8j
        kets.append(qutip.Qobj(v))
    psi = qutip.tensor(kets)
    rho0 = psi * psi.dag()
    T = float(rs.choice([0.25, 1.0, 3.0])) * _tref(inp)
    tl = np.linspace(0, T, 5)
    res = qutip.mesolve(H, rho0, tl, c_ops=c_ops, options={"atol": 1e-10, "rtol": 1e-9, "progress_bar": False})
    for st in res.states:
        bad = _physical(st)
        if bad:
            fail(bad, "Hermitian, PSD, unit trace", "a state of the noisy evolution is not physical")
            return
    fin = res.states[-1].full()
    for q in range(n):
        t1q, t2q = _per_qubit(inp["t1"], q, n), _per_qubit(inp["t2"], q, n)
        g_pop = 0.0 if t1q is None else 1.0 / t1q
        g_coh = (1.0 / t2q) if t2q is not None else (0.0 if t1q is None else 0.5 / t1q)
        r = _ptrace_keep(fin, q, dims)
        exp_pop, exp_coh = 0.64 * math.exp(-g_pop * T), abs(0.48 * math.exp(-g_coh * T))
        if abs(r[1, 1].real - exp_pop) > 1e-5 or abs(abs(r[0, 1]) - exp_coh) > 1e-5:
            fail(f"rho_11={r[1,1].real:.8f} |rho_01|={abs(r[0,1]):.8f} at t={T}", f"{exp_pop:.8f}, {exp_coh:.8f}",
                 f"solver result on subsystem {q} is not exp(-t/t1), exp(-t/t2)")
            return
    _solve_closed_form(inp, evo, fail, rs)


def _oracle(inp, corr_fail, rs, solve=False, impl=None):
    """property oracle on one relaxation input; returns number of failures reported"""
    fails = []

    def fail(obs, exp, what):
        fails.append(1)
        corr_fail(inp, obs, exp, what)
    dom = _domain(inp)
    rn = impl[0] if impl else _impl_noise(inp)
    pr = impl[1] if impl else (_impl_processor(inp) if inp.get("targets") is None else None)
    if dom == "reject":
        if rn[0] != "Raised":
            fail(rn[0], "rejected at set-up", "inadmissible relaxation times accepted by RelaxationNoise.get_noisy_pulses")
        if pr is not None and pr[0] != "Raised":
            fail(pr[0], "rejected at set-up", "inadmissible relaxation times accepted by Processor.get_qobjevo(noisy=True)")
        return len(fails)
    if dom == "unspecified":
        if rn[0] not in ("Raised",):
            if rn[0] != "Ok":
                fail(rn[0], "rejected, or finite operators", "non-positive per-qubit time silently yields a non-finite/odd collapse operator")
        if pr is not None and pr[0] == "Ok" and not all(np.all(np.isfinite(C)) for C in pr[2]):
            fail("non-finite c_ops from Processor.get_qobjevo", "rejected, or finite operators",
                 "non-positive per-qubit time silently yields a non-finite collapse operator")
        return len(fails)
    # valid: must be accepted and obey the law
    if rn[0] != "Ok":
        fail(f"{rn[0]}: {rn[1]}", "accepted", "admissible relaxation times (t2 <= 2*t1) rejected or mangled by RelaxationNoise.get_noisy_pulses")
    else:
        from qutip import destroy, num
        dims = inp["dims"]
        full = []
        for (q, kind, sg, c2) in rn[1]:
            base = destroy(dims[q]).full() if kind == 0 else num(dims[q]).full()
            full.append(_embed(sg * math.sqrt(c2) * base, q, dims))
        _check_rates(inp, full, fail, rs)
    if pr is not None:
        if pr[0] != "Ok":
            fail(f"{pr[0]}: {pr[1]}", "accepted", "admissible relaxation times (t2 <= 2*t1) rejected by Processor.get_qobjevo(noisy=True)")
        else:
            if np.abs(pr[1]).max() > 1e-12:
                fail("non-zero idle Hamiltonian", "0", "idle processor has a non-zero Hamiltonian")
            _check_rates(inp, pr[2], fail, rs)
            if solve and int(np.prod(inp["dims"])) <= 9:
                try:
                    _solve_check(inp, pr[3], fail, rs)
                except Exception as e:
                    fail(repr(e), "solver runs", "qutip.mesolve failed on the real (H, c_ops)")
    return len(fails)



# ------------------------------------------------------------------------------------------------
# one processor queried several times (the answer must not depend on the history of the object)
# ------------------------------------------------------------------------------------------------
def _history_case(rng):
    base = _valid_case(rng, force=rng.choice(["scalar", "scalar", "list"]), scale=0)
    while _branch(base) == {"none"}:
        base = _valid_case(rng, force=rng.choice(["scalar", "list"]), scale=0)
    k = rng.randint(-40, 40) if rng.random() < 0.35 else 0
    base = _scale_case(base, k)
    n = len(base["dims"])
    steps = []
    added = False
    for _ in range(rng.randint(2, 4)):
        if not added and rng.random() < 0.3:
            if rng.random() < 0.6:
                tg = sorted(rng.sample(range(n), rng.randint(1, n)))
                a = _dy(rng, 8, 64) * 2.0 ** k
                steps.append(dict(op="add_relax", t1=a, t2=rng.choice([None, a, 2 * a]), targets=tg))
            else:
                steps.append(dict(op="add_decoh", rate=rng.choice([0.25, 1.0, 4.0]) * 2.0 ** (-k), target=rng.randrange(n)))
            added = True
        steps.append(dict(op=rng.choice(["qobjevo", "qobjevo", "noisy_pulses", "pulses_ideal"])))
    if sum(1 for st in steps if st["op"] in ("qobjevo", "noisy_pulses")) < 2:
        steps += [dict(op="noisy_pulses"), dict(op="qobjevo")]
    return dict(kind="history", dims=base["dims"], t1=base["t1"], t2=base["t2"], steps=steps)


def _history_queries(inp):
    """the relaxation sources of a history case as plain set-up inputs for the model (history independent)"""
    qs = [dict(kind="relax", dims=inp["dims"], t1=inp["t1"], t2=inp["t2"], targets=None)]
    for st in inp["steps"]:
        if st["op"] == "add_relax":
            qs.append(dict(kind="relax", dims=inp["dims"], t1=st["t1"], t2=st["t2"], targets=st["targets"]))
    return qs


def _run_history(inp):
    """-> list of (step index, op, [full collapse matrices]) for every noisy query, or ("Raised", type, step)"""
    import qutip
    from qutip_qip.device import Processor
    from qutip_qip.noise import RelaxationNoise, DecoherenceNoise
    dims = list(inp["dims"])
    out = []
    with warnings.catch_warnings(), contextlib.redirect_stdout(io.StringIO()):
        warnings.simplefilter("ignore")
        k = -1
        try:
            p = Processor(len(dims), dims=dims, t1=_cp(inp["t1"]), t2=_cp(inp["t2"]))
            for k, st in enumerate(inp["steps"]):
                op = st["op"]
                if op == "qobjevo":
                    _, c_ops = p.get_qobjevo(noisy=True)
                    out.append((k, op, [c(0).full() for c in c_ops]))
                elif op == "pulses_ideal":       # inspection without device noise (still goes through process_noise)
                    p.get_noisy_pulses(device_noise=False, drift=False)
                elif op == "noisy_pulses":
                    cs = []
                    for pulse in p.get_noisy_pulses(device_noise=True, drift=True):
                        _, new = pulse.get_noisy_qobjevo(dims=dims)
                        cs += [c(0).full() for c in new]
                    out.append((k, op, cs))
                elif op == "add_relax":
                    p.add_noise(RelaxationNoise(t1=st["t1"], t2=st["t2"], targets=list(st["targets"])))
                elif op == "add_decoh":
                    d = dims[st["target"]]
                    p.add_noise(DecoherenceNoise(math.sqrt(st["rate"]) * qutip.destroy(d), targets=st["target"]))
        except Exception as e:
            return ("Raised", type(e).__name__, k)
    return out


def _check_history(inp, models, corr, rs, disagree=True):
    """models: canonical model outcomes for _history_queries(inp) (or None: oracle only)"""
    from qutip import destroy, num
    dims = inp["dims"]
    n = len(dims)
    res = _run_history(inp)
    if isinstance(res, tuple):
        corr.oracle_fail(inp, f"{res[1]} at step {res[2]}", "every query succeeds",
                         "admissible relaxation times rejected when one processor is queried repeatedly")
        return
    queries = _history_queries(inp)
    for (k, op, cs) in res:
        # sources in force at step k
        srcs = [0] + [1 + j for j, st in enumerate([s for s in inp["steps"] if s["op"] == "add_relax"])
                      if inp["steps"].index(st) < k]
        rates = [[0.0, 0.0] for _ in range(n)]
        for j in srcs:
            qd = queries[j]
            for q, (gp, gc) in enumerate(_rates_of(dims, qd["t1"], qd["t2"], qd["targets"])):
                rates[q][0] += gp
                rates[q][1] += gc
        extra = []
        for i, st in enumerate(inp["steps"]):
            if st["op"] == "add_decoh" and i < k:
                rates[st["target"]][0] += st["rate"]
                rates[st["target"]][1] += st["rate"] / 2
                extra.append(_embed(math.sqrt(st["rate"]) * destroy(dims[st["target"]]).full(), st["target"], dims))
        what = f"query {k} ({op}) on a processor that was queried before" if k > 0 else f"first query ({op})"
        _check_rates(inp, cs, lambda o, e, w: corr.oracle_fail(dict(inp, failing_step=k), o, e, w + " - " + what), rs,
                     rates=[tuple(r) for r in rates])
        if models is not None and disagree:
            exp = list(extra)
            bad = None
            for j in srcs:
                m = models[j]
                if m[0] != "Ok":
                    bad = m
                    break
                for (q, kd, sg, r) in m[1]:
                    base = destroy(dims[q]).full() if kd == 0 else num(dims[q]).full()
                    exp.append(_embed(sg * math.sqrt(float(r)) * base, q, dims))
            if bad is not None:
                corr.disagree(inp, "Ok", repr(bad), "model rejects a relaxation source that the processor accepted")
                continue
            got = list(cs)
            missing = 0
            for E in exp:
                for j2, G in enumerate(got):
                    if G.shape == E.shape and np.abs(G - E).max() <= 1e-9 * np.abs(E).max():
                        got.pop(j2)
                        break
                else:
                    missing += 1
            if missing or got:
                corr.disagree(dict(inp, failing_step=k), f"{len(cs)} c_ops, {len(got)} unexpected",
                              f"{len(exp)} terms, {missing} missing",
                              "collapse operators of a repeatedly queried processor differ from the (history independent) model - " + what)

# ------------------------------------------------------------------------------------------------
# combinations of the shipped noise models on random compiled circuits (oracle only; not modelled)
# ------------------------------------------------------------------------------------------------
def _combo_case(rng):
    n = rng.choice([1, 2, 2, 3])
    dev = rng.choice(["linear", "circular", "scq"]) if n >= 2 else "linear"
    if dev == "circular" and n < 3:
        dev = "linear"
    if dev == "scq":
        n = 2
    gates = []
    for _ in range(rng.randint(1, 4)):
        g = rng.choice(["RX", "RZ", "X", "CNOT"] if n > 1 else ["RX", "RZ", "X"])
        if g == "CNOT":
            c = rng.randrange(n - 1)
            gates.append([g, [c + 1], [c], None])
        elif g == "X":
            gates.append([g, [rng.randrange(n)], None, None])
        else:
            gates.append([g, [rng.randrange(n)], None, rng.randint(1, 15) / 8])
    t1 = rng.choice([None, 20.0, 50.0])
    t2 = rng.choice([None, 15.0, 2 * t1 if t1 else 30.0, (t1 / 2) if t1 else 10.0])
    noises = rng.sample(["random", "amp", "decoh", "relax_obj"], rng.randint(0, 3))
    return dict(kind="combo", device=dev, n=n, gates=gates, t1=t1, t2=t2, noises=noises, seed=rng.randrange(10 ** 6))


def _run_combo(inp, fail):
    import qutip
    from qutip_qip.circuit import QubitCircuit
    from qutip_qip.device import LinearSpinChain, CircularSpinChain, SCQubits
    from qutip_qip.noise import RandomNoise, ControlAmpNoise, DecoherenceNoise, RelaxationNoise
    n = inp["n"]
    qc = QubitCircuit(n)
    for g, tg, ct, arg in inp["gates"]:
        qc.add_gate(g, targets=tg, controls=ct, arg_value=arg)
    kw = {}
    if inp["t1"] is not None:
        kw["t1"] = inp["t1"]
    if inp["t2"] is not None:
        kw["t2"] = inp["t2"]
    with warnings.catch_warnings(), contextlib.redirect_stdout(io.StringIO()):
        warnings.simplefilter("ignore")
        if inp["device"] == "linear":
            p = LinearSpinChain(n, **kw)
        elif inp["device"] == "circular":
            p = CircularSpinChain(n, **kw)
        else:
            p = SCQubits(n, **kw)
        p.load_circuit(qc)
        rs = np.random.RandomState(inp["seed"])
        for nm in inp["noises"]:
            if nm == "random":
                p.add_noise(RandomNoise(dt=0.5, rand_gen=rs.normal, loc=0.0, scale=0.02))
            elif nm == "amp":
                p.add_noise(ControlAmpNoise(coeff=0.05))
            elif nm == "decoh":
                d0 = p.dims[0]
                p.add_noise(DecoherenceNoise(qutip.destroy(d0) * 0.1, targets=0))
            elif nm == "relax_obj":
                p.add_noise(RelaxationNoise(t1=40.0, t2=80.0, targets=[0]))
        H, c_ops = p.get_qobjevo(noisy=True)
        tl = p.get_full_tlist()
        tmax = float(tl[-1]) if tl is not None and len(tl) else 1.0
        dim = int(np.prod(p.dims))
        for t in [0.0, 0.37 * tmax, 0.81 * tmax]:
            Ht = H(t).full()
            if not np.all(np.isfinite(Ht)) or not np.allclose(Ht, Ht.conj().T, atol=1e-9):
                fail(f"H({t}) not Hermitian/finite", "Hermitian", "noisy Hamiltonian is not Hermitian")
                return
            Cs = [c(t).full() for c in c_ops]
            if not all(np.all(np.isfinite(C)) for C in Cs):
                fail("non-finite collapse operator", "finite", "noisy collapse operator is not finite")
                return
            rho = _rand_rho(rs, dim)
            L = _lind(Cs, rho, Ht)
            if abs(np.trace(L)) > 1e-8 * (1 + np.abs(L).max()) or not np.allclose(L, L.conj().T, atol=1e-8 * (1 + np.abs(L).max())):
                fail("generator not trace/hermiticity preserving", "preserving", "noisy generator is not trace/hermiticity preserving")
                return
        psi = qutip.tensor([qutip.basis(d, 0) for d in p.dims])
        res = qutip.mesolve(H, psi * psi.dag(), np.linspace(0, tmax, 4), c_ops=c_ops,
                            options={"progress_bar": False, "max_step": max(tmax / 10, 1e-3), "nsteps": 1000000,
                                     "atol": 1e-11, "rtol": 1e-9})   # solver tolerance chosen by the oracle
        for st in res.states:
            bad = _physical(st, 1e-5)
            if bad:
                fail(bad, "Hermitian, PSD, unit trace", "a state of the noisy simulation is not physical")
                return


# ------------------------------------------------------------------------------------------------
# the Coq side
# ------------------------------------------------------------------------------------------------
def _fq(x):
    fr = Fraction(x)
    return f"(({fr.numerator}) # {fr.denominator})" if fr.numerator < 0 else f"({fr.numerator} # {fr.denominator})"


def _tval(T):
    if T is None:
        return "TNone"
    if isinstance(T, list):
        return "(TList [" + "; ".join("None" if x is None else f"Some {_fq(x)}" for x in T) + "])"
    return f"(TScalar {_fq(T)})"


HEADER = r"""
From Coq Require Import QArith List ZArith.
From QV Require Import Model.Relax Gen.Noise.
Import ListNotations.
Definition errc (e : err) : Z := match e with ErrValue => 1 | ErrZeroDiv => 2 | ErrType => 3 | ErrIndex => 4 end%Z.
Definition out (o : outcome (list term)) : Z * list (Z * Z * Z * Z * Z) :=
  match o with
  | Ok l => (0%Z, map (fun t => match t with (q, k, sg, r) =>
       (Z.of_nat q, match k with KDestroy => 0%Z | KNum => 1%Z end, sg, Qnum r, Zpos (Qden r)) end) l)
  | Raised e => (errc e, [])
  | NonFinite => (10%Z, [])
  | Unsupported => (11%Z, [])
  end.
Definition S := setup ttl_rules relax_lencheck relax_body.
"""


def _coq_setup(name, cases):
    files = []
    for k in range(0, len(cases), 400):
        body = HEADER + "Eval vm_compute in [\n" + ";\n".join(
            "out (S {}%nat {} {} {})".format(
                len(c["dims"]),
                "None" if c.get("targets") is None else "(Some [" + "; ".join(f"{int(j)}%nat" for j in c["targets"]) + "])",
                _tval(c["t1"]), _tval(c["t2"])) for c in cases[k:k + 400]) + "].\n"
        files.append((f"{name}_{k // 400}", body))
    outs = coq_eval_many(files, timeout=600)
    res = []
    for nm, _ in files:
        res += parse_evals(outs[nm])[0]
    return res


ERRNAME = {1: "ValueError", 2: "ZeroDivisionError", 3: "TypeError", 4: "IndexError"}


def _model_canon(m):
    code, terms = m
    if code == 0:
        return ("Ok", [(int(q), int(k), int(sg), Fraction(int(a), int(b))) for (q, k, sg, a, b) in terms])
    if code == 10:
        return ("NonFinite", None)
    if code == 11:
        return ("Unsupported", None)
    return ("Raised", ERRNAME[code])


TABLES = r"""
From Coq Require Import QArith List.
From QV Require Import Model.Lindblad Proofs.LindbladInst.
Import ListNotations.
Definition zq (q : Q) := [Qnum q; Zpos (Qden q)].
Definition ko (x : k4) := [zq (Qcanon.this (ka x)); zq (Qcanon.this (kb x)); zq (Qcanon.this (kc x)); zq (Qcanon.this (kd x))].
Definition mo (m : mat CQ2) := map (map ko) m.
Eval vm_compute in mo (destroy2 CQ2).
Eval vm_compute in mo (num2 CQ2).
Eval vm_compute in mo (destroy3 CQ2).
Eval vm_compute in mo (num3 CQ2).
"""


def _k4(t):
    a, b, c, d = [float(Fraction(int(x[0]), int(x[1]))) for x in t]
    return complex(a + b * math.sqrt(2), c + d * math.sqrt(2))


def _k4lit(z):
    return f"(K4 (Q2Qc {_fq(z.real)}) 0%Qc (Q2Qc {_fq(z.imag)}) 0%Qc)"


def _tables_and_dissipator(ctx, corr):
    """Model.Lindblad tables = qutip.destroy/num;  Model.Lindblad.lind = qutip.lindblad_dissipator"""
    import qutip
    rng = ctx.rng
    cases = []
    for d in (2, 3, 2, 3, 3, 2)[:ctx.n(4, 6)]:
        C = [[complex(rng.randint(-4, 4) / 2, rng.randint(-4, 4) / 2) for _ in range(d)] for _ in range(d)]
        Rm = [[complex(rng.randint(-4, 4) / 2, rng.randint(-4, 4) / 2) for _ in range(d)] for _ in range(d)]
        cases.append((d, C, Rm))
    txt = TABLES + "From Coq Require Import Qcanon.\n"
    for d, C, Rm in cases:
        lit = lambda M: "[" + "; ".join("[" + "; ".join(_k4lit(z) for z in row) + "]" for row in M) + "]"  # noqa: E731
        txt += f"Eval vm_compute in mo (lind CQ2 {d} {lit(C)} {lit(Rm)}).\n"
    vals = parse_evals(coq_eval("c15_tables", txt, timeout=300))
    ref = [qutip.destroy(2).full(), qutip.num(2).full(), qutip.destroy(3).full(), qutip.num(3).full()]
    for i, nm in enumerate(["destroy2", "num2", "destroy3", "num3"]):
        M = np.array([[_k4(t) for t in row] for row in vals[i]])
        corr.count(("table", nm), nontrivial=True)
        corr.tally("operator table")
        if M.shape != ref[i].shape or not np.allclose(M, ref[i], atol=1e-12):
            corr.disagree(dict(kind="table", name=nm), ref[i].tolist().__repr__(), M.tolist().__repr__(),
                          f"Model.Lindblad.{nm} differs from qutip")
    for j, (d, C, Rm) in enumerate(cases):
        M = np.array([[_k4(t) for t in row] for row in vals[4 + j]])
        Cq, Rq = qutip.Qobj(np.array(C)), qutip.Qobj(np.array(Rm))
        sup = qutip.lindblad_dissipator(Cq)
        ref_m = qutip.vector_to_operator(sup * qutip.operator_to_vector(Rq)).full()
        inp = dict(kind="dissipator", d=d, C=[[[z.real, z.imag] for z in r] for r in C], rho=[[[z.real, z.imag] for z in r] for r in Rm])
        corr.count(("dissipator", j, d), nontrivial=True, sample=None)
        corr.tally("dissipator vs qutip.lindblad_dissipator")
        if not np.allclose(M, ref_m, atol=1e-9):
            corr.disagree(inp, np.round(ref_m, 9).tolist().__repr__(), np.round(M, 9).tolist().__repr__(),
                          "Model.Lindblad.lind differs from qutip.lindblad_dissipator")


# ------------------------------------------------------------------------------------------------
def _key(inp):
    return json.dumps({k: inp[k] for k in ("dims", "t1", "t2", "targets") if k in inp}, sort_keys=True)


def _branch(inp):
    """which branches of the model a case exercises (for the evidence)"""
    n = len(inp["dims"])
    out = set()
    for q in range(n):
        a, b = _per_qubit(inp["t1"], q, n), _per_qubit(inp["t2"], q, n)
        try:
            if a is None and b is None:
                out.add("none")
            elif b is None:
                out.add("t1-only")
            elif a is None:
                out.add("t2-only")
            elif b == 2 * a:
                out.add("boundary")
            elif b < 2 * a:
                out.add("inner")
            else:
                out.add("t2>2t1")
        except TypeError:
            out.add("odd")
    return out


def _compare(corr, inp, impl, model, pr):
    """model outcome vs RelaxationNoise outcome; Processor c_ops vs model terms"""
    mi = (impl[0], impl[1]) if impl[0] != "Ok" else ("Ok", impl[1])
    cls_i = impl[0] if impl[0] in ("Ok", "Raised", "NonFinite") else "Odd"
    if cls_i != model[0]:
        corr.disagree(inp, repr(mi), repr(model), "set-up outcome differs between model and RelaxationNoise.get_noisy_pulses")
        return
    if model[0] == "Ok":
        a, b = impl[1], model[1]
        ok = len(a) == len(b) and all(x[0] == y[0] and x[1] == y[1] and x[2] == y[2]
                                      and abs(x[3] - float(y[3])) <= 1e-9 * abs(float(y[3])) for x, y in zip(a, b))
        if not ok:
            corr.disagree(inp, repr(a), repr([(q, k, s, float(r)) for q, k, s, r in b]), "collapse terms (qubit, kind, sign, rate) differ")
            return
    if pr is not None:
        cls_p = pr[0]
        if model[0] == "NonFinite":
            good = cls_p == "Ok" and not all(np.all(np.isfinite(C)) for C in pr[2])
        else:
            good = cls_p == model[0]
        if not good:
            corr.disagree(inp, f"Processor.get_qobjevo: {pr[0]} {pr[1] if pr[0] != 'Ok' else ''}", repr(model[0]),
                          "Processor.get_qobjevo(noisy=True) outcome differs from the model")
            return
        if model[0] == "Ok":
            from qutip import destroy, num
            dims = inp["dims"]
            exp = []
            for (q, k, sg, r) in model[1]:
                base = destroy(dims[q]).full() if k == 0 else num(dims[q]).full()
                exp.append(_embed(sg * math.sqrt(float(r)) * base, q, dims))
            got = list(pr[2])
            unmatched = []
            for E in exp:
                for j, G in enumerate(got):
                    if G.shape == E.shape and np.abs(G - E).max() <= 1e-9 * np.abs(E).max():
                        got.pop(j)
                        break
                else:
                    unmatched.append(E)
            if unmatched or got:
                corr.disagree(inp, f"{len(pr[2])} c_ops, {len(got)} unexpected", f"{len(exp)} terms, {len(unmatched)} missing",
                              "collapse operators of Processor.get_qobjevo(noisy=True) differ from the model's terms")


def correspond(ctx):
    corr = Corr(rule="relaxation set-up cases (1-3 subsystems of dimension 2/3; scalar, per-qubit list, mixed, None; dyadic times; "
                     "boundary t2=2*t1, inner, t1-only, t2-only; optional targets) + malformed stream; non-trivial = at least one "
                     "subsystem has a time (a collapse term or a rejection is produced); plus operator tables and dissipator cases; plus history "
                     "cases: ONE processor queried 2-4 times (get_qobjevo(noisy=True), get_noisy_pulses(device_noise=True), "
                     "get_noisy_pulses(device_noise=False) in between, add_noise of a second RelaxationNoise/DecoherenceNoise) - the model's answer does not "
                     "depend on the history of the object, so every query must give the model's terms for the sources in force")
    rng = ctx.rng
    rs = np.random.RandomState(ctx.seed + 15)
    cases = _corpus()
    nv, nm = ctx.n(260, 2500), ctx.n(120, 1200)
    # systematic small sweep: every mode pair on 1 and 2 subsystems
    for d in ([2], [3], [2, 3]):
        for mode in ("inner", "boundary", "t1", "t2", "none"):
            t1, t2 = _pair(rng, mode)
            cases.append(dict(kind="relax", dims=d, t1=t1, t2=t2, targets=None))
            cases.append(dict(kind="relax", dims=d, t1=None if t1 is None else [t1] * len(d), t2=None if t2 is None else [t2] * len(d), targets=None))
    # scale families: the same ratios t2/t1 at 2^k for k in -40..40 (relaxation times from ~1e-12 to ~1e+12)
    ks = list(range(-40, 41, ctx.n(8, 2))) + [33, 37, 39]
    for k in ks:
        d = rng.choice([[2], [3], [2, 3], [3, 2], [2, 2, 3]])
        t1 = _dy(rng)
        r = rng.choice([1 / 16, 0.5, 1.0, 1.5, 31 / 16])          # t2 = r * t1  (strictly inside)
        cases.append(_scale_case(dict(kind="relax", dims=d, t1=t1, t2=r * t1, targets=None), k))
        cases.append(_scale_case(dict(kind="relax", dims=d, t1=[t1] * len(d), t2=[rng.choice([r, 1.0, 2.0]) * t1 for _ in d], targets=None), k))
    cases += [_valid_case(rng) for _ in range(nv)]
    cases += [_malformed_case(rng) for _ in range(nm)]
    for c in cases:
        c.setdefault("targets", None)
    hist = [_history_case(rng) for _ in range(ctx.n(60, 500))]
    hq = [_history_queries(h) for h in hist]
    flat = [q for qs in hq for q in qs]
    allm = [_model_canon(m) for m in _coq_setup(f"C15_{ctx.tier}", cases + flat)]
    models, hm = allm[:len(cases)], allm[len(cases):]
    n_solve = 0
    for inp, model in zip(cases, models):
        impl = _impl_noise(inp)
        pr = _impl_processor(inp) if inp.get("targets") is None else None
        br = _branch(inp)
        corr.count(_key(inp), nontrivial=(br != {"none"}), sample=inp)
        for b in br:
            corr.tally(b)
        corr.tally("malformed:" + inp["malformed"] if "malformed" in inp else "structured")
        corr.tally("model:" + model[0] + ("" if model[0] != "Raised" else ":" + model[1]))
        if model[0] == "Unsupported":
            corr.disagree(inp, repr(impl[:2]), "Unsupported", "input outside the model")
            continue
        _compare(corr, inp, impl, model, pr)
        solve = (_domain(inp) == "valid" and pr is not None and pr[0] == "Ok" and n_solve < ctx.n(25, 150)
                 and int(np.prod(inp["dims"])) <= 9 and br != {"none"})
        if solve:
            n_solve += 1
        _oracle(inp, corr.oracle_fail, rs, solve=solve, impl=(impl, pr))
    corr.extra["solver_checks"] = n_solve
    pos = 0
    nq = 0
    for h, qs in zip(hist, hq):
        ms = hm[pos:pos + len(qs)]
        pos += len(qs)
        corr.count("history:" + json.dumps(h, sort_keys=True), nontrivial=True, sample=None)
        corr.tally("history:" + "+".join(sorted({st["op"] for st in h["steps"]})))
        nq += sum(1 for st in h["steps"] if st["op"] in ("qobjevo", "noisy_pulses"))
        _check_history(h, ms, corr, rs)
    corr.extra["history_cases"] = len(hist)
    corr.extra["history_queries"] = nq
    _tables_and_dissipator(ctx, corr)
    # combinations of noise models (oracle only)
    ncombo = ctx.n(12, 120)
    done = 0
    for _ in range(ncombo):
        inp = _combo_case(rng)
        try:
            _run_combo(inp, lambda o, e, w, inp=inp: corr.oracle_fail(inp, o, e, w))
            done += 1
            corr.tally("combo:" + inp["device"] + ":" + "+".join(sorted(inp["noises"]) or ["relax-only"]))
        except Exception as e:
            corr.tally("combo-skipped:" + type(e).__name__)
            ctx.notes.append(f"combo case skipped ({type(e).__name__}: {str(e)[:80]}): {json.dumps(inp)[:200]}")
    corr.extra["noise_combinations_checked"] = done
    corr.extra["translated"] = {k: v for k, v in _gen.items() if k in ("rules_text", "body", "lencheck")}
    # environment note
    try:
        import qutip
        ctx.notes.append("qutip.Options present" if hasattr(qutip, "Options") else
                         "qutip.Options missing: Processor.run_state(mesolve) raises AttributeError; solver checks call qutip.mesolve directly")
    except Exception:
        pass
    return corr


def classify(f):
    return None


def search(ctx, broken):
    """an obligation broke: run the property oracle on the corpus, the boundary / validation families and random inputs"""
    c = Corr()
    rs = np.random.RandomState(ctx.seed + 151)
    rng = ctx.rng
    cases = _corpus()
    for k in (40, 30, 20, -20, -40, 35, 27, 10, -10, -30):       # extreme magnitudes first (absolute tolerances hide there)
        for d in ([2], [3], [2, 3]):
            for r in (1.0, 0.5, 1.5, 31 / 16):
                cases.append(_scale_case(dict(kind="relax", dims=d, t1=1.0, t2=r, targets=None), k))
                cases.append(_scale_case(dict(kind="relax", dims=d, t1=[1.0] * len(d), t2=[r] * len(d), targets=None), k))
    for d in ([2], [3], [2, 2], [2, 3], [3, 2, 2]):
        n = len(d)
        for t1 in (0.5, 1.0, 3.0):
            cases.append(dict(kind="relax", dims=d, t1=t1, t2=2 * t1, targets=None))
            cases.append(dict(kind="relax", dims=d, t1=[t1] * n, t2=[2 * t1] * n, targets=None))
            cases.append(dict(kind="relax", dims=d, t1=t1, t2=t1, targets=None))
            cases.append(dict(kind="relax", dims=d, t1=t1, t2=None, targets=None))
            cases.append(dict(kind="relax", dims=d, t1=None, t2=t1, targets=None))
        for bad in (0.0, -1.0):
            cases.append(dict(kind="relax", dims=d, t1=[bad] + [1.0] * (n - 1), t2=None, targets=None))
            cases.append(dict(kind="relax", dims=d, t1=None, t2=[1.0] * (n - 1) + [bad], targets=None))
            cases.append(dict(kind="relax", dims=d, t1=bad, t2=None, targets=None))
        cases.append(dict(kind="relax", dims=d, t1=1.0, t2=2.5, targets=None))
        cases.append(dict(kind="relax", dims=d, t1=[1.0] * (n + 1), t2=None, targets=None))
    cases += [_valid_case(rng) for _ in range(300)] + [_malformed_case(rng) for _ in range(150)]
    for d in ([2], [3], [2, 3]):
        _check_history(dict(kind="history", dims=d, t1=1.0, t2=1.5, steps=[dict(op="qobjevo"), dict(op="noisy_pulses"), dict(op="qobjevo")]),
                       None, c, rs)
    for _ in range(60):
        _check_history(_history_case(rng), None, c, rs)
    for inp in cases:
        inp.setdefault("targets", None)
        _oracle(inp, c.oracle_fail, rs, solve=False)
        if len(c.oracle_failures) >= 8:
            break
    # smallest first
    c.oracle_failures.sort(key=lambda f: (len(f["input"]["dims"]), isinstance(f["input"]["t1"], list), isinstance(f["input"]["t2"], list),
                                          len(f["input"].get("steps", []))))
    return c.oracle_failures


def replay(ctx, rec):
    inp = rec.get("input", rec)
    c = Corr()
    rs = np.random.RandomState(7)
    if inp.get("kind") == "combo":
        _run_combo(inp, lambda o, e, w: c.oracle_fail(inp, o, e, w))
    elif inp.get("kind") == "history":
        _check_history({k: v for k, v in inp.items() if k != "failing_step"}, None, c, rs)
    elif inp.get("kind") == "relax":
        inp.setdefault("targets", None)
        _oracle(inp, c.oracle_fail, rs, solve=True)
    else:
        return False
    return bool(c.oracle_failures)
