"""C20 -- text drawings of circuits are well-formed pictures of the circuit.

Tie: the executable Coq model `QV.Model.Render.layout_full` (the definitions the theorems of Props/C20.v
are about) is evaluated with vm_compute on the same circuits/styles the real TextRenderer drew; every
printed row must be equal code point by code point, and the columns at which gates are placed
(`_get_xskip` results) must be equal too.  Independently of the model, `oracle` reads the printed
picture the way the property text describes it.

Which code the model describes is declared by the status of the finding in known_findings.d/C20.json:
  "fixed: C20-bridge-span"  -> the tree with fixes/C20-bridge-span.diff applied (model flag fx = true)
  "open"                    -> the unchanged tree (fx = false); the theorems proved for it carry the guard
                               `box_contiguous` and failures inside that class are known findings.
"""
import contextlib
import glob
import io
import json
import math
import os
import re
import tempfile
from fractions import Fraction

from common import Corr, Broken, coq_eval_many, parse_evals, cnat, cbool, clist, VERIF, load_known

ID = "C20"
TARGETS = ["Props/C20.vo"]
KEY = "noncontiguous-controlled-box"

TRUSTED = [
    "Model/Render.v is a hand-written model of TextRenderer.layout/_draw_*/_update_*/_adjust_layer_pad/"
    "_add_wire_labels/print_circuit and BaseRenderer._get_xskip/_manage_layers; it is tied to the code only by "
    "exact equality of all printed rows and gate columns on the generated circuits of each run",
    "Python str is modelled as a list of code points; len() = number of code points (no display-width notion)",
    "Gate/Measurement/QubitCircuit constructors, math.ceil on the float gate_pad and print()/file writing are "
    "outside the model (the harness reads name/arg_label/targets/controls back from the constructed objects)",
    "inputs outside wf_input (no qubit, out-of-range or duplicated indices, measurement with several targets, "
    "wire_label list of the wrong length, negative gate_pad / end_wire_ext) are not modelled",
]
ASSUMES = [
    "StyleConfig keywords other than gate_pad / end_wire_ext / align_layer / wire_label (gate_margin, dpi, theme, ...) are "
    "passed to the real renderer with valid values and must leave the drawing unchanged; the model has no such parameters",
    "input domain wf_input: >= 1 qubit; targets non-empty, targets+controls distinct and < N; measurement has one "
    "target < N and classical_store < num_cbits; gate_pad >= 0; end_wire_ext >= 0; wire_label is None or has one "
    "string per wire",
    "label extraction theorem: gate texts do not contain the box character U+251C",
    "classical controls are not drawn by the text renderer at all (a classically controlled gate is drawn as the "
    "plain gate); 'control link' is read as quantum-control link",
    "a gate named SWAP with >= 2 targets is drawn as a swap link without box and label (its controls are ignored)",
]

CH = {"SP": " ", "H": "─", "V": "│", "TL": "┌", "TR": "┐", "BL": "└", "BR": "┘", "LT": "├", "RT": "┤",
      "TD": "┬", "TU": "┴", "DH": "═", "DV": "║", "MD": "╥", "MU": "╨", "ST": "╩", "X": "╳", "ND": "█"}
CODEPOINTS = {"SP": 32, "H": 9472, "V": 9474, "TL": 9484, "TR": 9488, "BL": 9492, "BR": 9496, "LT": 9500,
              "RT": 9508, "TD": 9516, "TU": 9524, "DH": 9552, "DV": 9553, "MD": 9573, "MU": 9576, "ST": 9577,
              "X": 9587, "ND": 9608}
assert all(ord(CH[k]) == v for k, v in CODEPOINTS.items())


def model_is_fixed():
    for k in load_known(ID):
        if k.get("key") == KEY:
            return str(k.get("status", "open")).startswith("fixed")
    return True


# ----------------------------------------------------------------------------------------------
# running the real implementation
# ----------------------------------------------------------------------------------------------
PARAM_GATES = {"RX", "RY", "RZ", "R", "QASMU", "SWAPALPHA", "MS", "RZX", "CRX", "CRY", "CRZ", "CPHASE"}


def build(inp):
    from qutip_qip.circuit import QubitCircuit
    qc = QubitCircuit(inp["nq"], num_cbits=inp["nc"])
    for o in inp["ops"]:
        if o["k"] == "meas":
            qc.add_measurement(o.get("mname") or "M", targets=[o["t"]], classical_store=o["c"])
        else:
            kw = {}
            if o["name"] in PARAM_GATES:
                kw["arg_value"] = [0.5, 0.25, 0.125] if o["name"] == "QASMU" else ([0.5, 0.25] if o["name"] in ("R", "MS") else 0.5)
            if o.get("cc") is not None:
                kw["classical_controls"] = list(o["cc"])
            qc.add_gate(o["name"], targets=list(o["targets"]),
                        controls=None if o.get("controls") is None else list(o["controls"]),
                        arg_label=o.get("arg_label"), **kw)
    return qc


def style_kwargs(st):
    kw = {}
    if st.get("gate_pad") is not None:
        n, d = st["gate_pad"]
        kw["gate_pad"] = n / d
    if st.get("ext") is not None:
        kw["end_wire_ext"] = st["ext"]
    if st.get("align") is not None:
        kw["align_layer"] = bool(st["align"])
    if st.get("wire_label") is not None:
        kw["wire_label"] = list(st["wire_label"])
    # every other StyleConfig keyword is accepted by TextRenderer(qc, **style) / draw("text", **style) and must not
    # change the text drawing (gate_margin is overridden to 0 by TextRenderer.__init__): the model ignores them
    for k, v in (st.get("extra") or {}).items():
        kw[k] = v
    return kw


def run_impl(inp, via="layout"):
    """Returns dict(ok, rows, xs, ops_seen) ; rows = the printed lines."""
    from qutip_qip.circuit.text_renderer import TextRenderer
    from qutip_qip.operations import Gate, Measurement
    try:
        qc = build(inp)
        seen = []
        for g in qc.gates:
            if isinstance(g, Measurement):
                assert len(g.targets) == 1
                seen.append(dict(k="meas", t=int(g.targets[0]), c=int(g.classical_store), mname=str(g.name)))
            else:
                assert isinstance(g, Gate)
                seen.append(dict(k="gate", name=str(g.name), arg_label=g.arg_label,
                                 targets=[int(t) for t in g.targets],
                                 controls=None if g.controls is None else [int(c) for c in g.controls]))
    except Exception as e:  # the circuit itself could not be built: not an input of the renderer
        return dict(ok=False, built=False, err=repr(e))
    xs = []
    try:
        buf = io.StringIO()
        kw = style_kwargs(inp["style"])
        if via == "draw":
            with contextlib.redirect_stdout(buf):
                qc.draw("text", **kw)
            return dict(ok=True, built=True, rows=buf.getvalue().split("\n")[:-1], xs=None, seen=seen)
        tr = TextRenderer(qc, **kw)
        orig = getattr(tr, "_get_xskip", None)
        hooked = False
        if callable(orig):
            def rec(*a, **k):
                v = orig(*a, **k)
                xs.append(v)
                return v
            try:
                tr._get_xskip = rec
                hooked = True
            except Exception:
                hooked = False
        with contextlib.redirect_stdout(buf):
            tr.layout()
        rows = buf.getvalue().split("\n")[:-1]
        out = dict(ok=True, built=True, rows=rows, xs=[int(x) for x in xs] if hooked else None, seen=seen)
        if via == "save":
            with tempfile.TemporaryDirectory(prefix="c20-") as d:
                tr.save(os.path.join(d, "pic"))
                out["saved"] = open(os.path.join(d, "pic.txt"), encoding="utf-8").read().split("\n")[:-1]
        return out
    except Exception as e:
        return dict(ok=False, built=True, err=repr(e), seen=seen)


# ----------------------------------------------------------------------------------------------
# the property oracle: reads the picture as the property text describes it (no model involved)
# ----------------------------------------------------------------------------------------------
def gate_pad_cells(st):
    n, d = st.get("gate_pad") or [1, 20]
    return math.ceil(Fraction(n, d))


def op_shape(o):
    """How an operation must appear: kind, boxed wires, link wires."""
    if o["k"] == "meas":
        return dict(kind="meas")
    t = o["targets"]
    c = o.get("controls")
    if len(t) == 1 and c is None:
        return dict(kind="single")
    if o["name"] == "SWAP":
        return dict(kind="swap")
    return dict(kind="multi")


def op_text(o):
    return "M" if o["k"] == "meas" else (o["arg_label"] if o.get("arg_label") is not None else o["name"])


def oracle(inp, rows, ops=None):
    """None if the picture is a well-formed picture of the circuit, else (what, observed, expected)."""
    nq, nc = inp["nq"], inp["nc"]
    ops = inp["ops"] if ops is None else ops
    n = nq + nc
    P = gate_pad_cells(inp["style"])
    if len(rows) != 3 * n:
        return ("three rows per wire", len(rows), 3 * n)
    widths = sorted(set(len(r) for r in rows))
    if len(widths) != 1:
        return ("all rows of equal width", [len(r) for r in rows], "one width")
    order = list(range(nq - 1, -1, -1)) + list(range(n - 1, nq - 1, -1))
    wl = inp["style"].get("wire_label")
    if wl is None:
        names = [f"q{i}" for i in range(nq)] + [f"c{i}" for i in range(nc)]
    else:
        names = list(wl[nc:]) + list(wl[:nc])
    mx = max(len(s) for s in names)
    top, mid, bot = {}, {}, {}
    for pos, w in enumerate(order):
        top[w], mid[w], bot[w] = rows[3 * pos], rows[3 * pos + 1], rows[3 * pos + 2]
        pre = " " + names[w] + " " + " " * (mx - len(names[w])) + ":"
        if not mid[w].startswith(pre):
            return ("wires listed from the highest qubit down to the classical bits", mid[w][:len(pre) + 2], pre)
        if top[w][:len(pre)].strip() or bot[w][:len(pre)].strip():
            return ("label columns of the outer rows are blank", [top[w][:len(pre)], bot[w][:len(pre)]], "blank")
    plen = mx + 4

    # --- labels: read every "┤ ... ├" of each qubit row, left to right
    box_re = re.compile("┤([^├]*)├")
    found = {w: [(m.start(), m.end(), m.group(1)) for m in box_re.finditer(mid[w][plen:])] for w in range(n)}
    expected = {w: [] for w in range(n)}
    where = []  # per op: (wire carrying its box/cross, index among that wire's boxes) to locate its column
    for o in ops:
        sh = op_shape(o)["kind"]
        txt = op_text(o)
        if sh == "meas":
            where.append(("box", o["t"], len(expected[o["t"]])))
            # the box of a measurement is labelled "M" (the renderer's fixed label) or with the measurement's name
            expected[o["t"]].append(("M", o.get("mname") or "M"))
        elif sh == "single":
            w = o["targets"][0]
            where.append(("box", w, len(expected[w])))
            expected[w].append(txt)
        elif sh == "swap":
            where.append(("swap", min(o["targets"]), None))
        else:
            lo, hi = min(o["targets"]), max(o["targets"])
            where.append(("box", lo, len(expected[lo])))
            expected[lo].append(txt)
            if hi != lo:
                expected[hi].append(" " * len(txt))   # upper edge of the box: wire attached, no label
    for w in range(n):
        got = []
        for (_, _, content) in found[w]:
            if len(content) < 2 * P:
                return ("box narrower than its padding", content, 2 * P)
            got.append(content[P:len(content) - P])
        if len(got) != len(expected[w]) or any((g not in e) if isinstance(e, tuple) else (g != e)
                                                for g, e in zip(got, expected[w])):
            return (f"labels read on wire {w} from left to right", got,
                    [e if isinstance(e, str) else "|".join(sorted(set(e))) for e in expected[w]])

    # --- exactly these: the number of link glyphs on every wire is the number of links touching it
    texts = "".join(op_text(o) + (o.get("mname") or "" if o["k"] == "meas" else "") for o in ops)
    if not any(ch in texts for ch in "█╳╩║│"):
        want = {w: dict.fromkeys("█╳╩║│", 0) for w in range(n)}
        for o in ops:
            sh = op_shape(o)["kind"]
            if sh == "meas":
                for v in list(range(o["t"])) + list(range(nq + o["c"] + 1, n)):
                    want[v]["║"] += 1
                want[nq + o["c"]]["╩"] += 1
            elif sh == "swap":
                lo, hi = min(o["targets"]), max(o["targets"])
                want[lo]["╳"] += 1
                want[hi]["╳"] += 1
                for v in range(lo + 1, hi):
                    want[v]["│"] += 1
            elif sh == "multi":
                lo, hi = min(o["targets"]), max(o["targets"])
                cs = o.get("controls") or []
                for v in range(lo + 1, hi):
                    # a box without room inside (no padding, empty label) shows an inner control on its right side
                    want[v]["│"] += 1 if (v in cs and 2 * P + len(op_text(o)) == 0) else 2
                for v in cs:
                    want[v]["█"] += 1
                for v in range(min(cs + [lo]), max(cs + [hi]) + 1):
                    if (v < lo or v > hi) and v not in cs:
                        want[v]["│"] += 1
        for w in range(n):
            got = {g: mid[w][plen:].count(g) for g in "█╳╩║│"}
            if got != want[w]:
                return (f"link glyphs on wire {w}", got, want[w])

    # --- links: locate every operation's column on the picture and follow its connectors
    def at(row, c):
        return row[c] if 0 <= c < len(row) else None

    swaps_seen = {w: 0 for w in range(n)}
    for o, (kind, w0, idx) in zip(ops, where):
        sh = op_shape(o)["kind"]
        if kind == "box":
            s, e, content = found[w0][idx]
            x = plen + s - 1           # first column of the box segment
            width = (e - s) + 2
            c = x + width // 2
        if sh == "single" or sh == "meas":
            w = w0
            if top[w][x:x + width] != " ┌" + "─" * (width - 4) + "┐ ":
                if not (sh == "meas"):
                    return ("box lid", top[w][x:x + width], "┌─┐")
            if sh == "single" and bot[w][x:x + width] != " └" + "─" * (width - 4) + "┘ ":
                return ("box bottom", bot[w][x:x + width], "└─┘")
            if sh == "meas":
                t, st = o["t"], o["c"]
                if at(bot[t], c) != "╥":
                    return ("measurement link leaves the box", at(bot[t], c), "╥")
                chain = list(range(t - 1, -1, -1)) + list(range(n - 1, nq + st, -1))
                for v in chain:
                    got = (at(top[v], c), at(mid[v], c), at(bot[v], c))
                    if got != ("║", "║", "║"):
                        return (f"measurement link crosses wire {v}", got, ("║", "║", "║"))
                v = nq + st
                got = (at(top[v], c), at(mid[v], c))
                if got != ("║", "╩"):
                    return ("measurement link reaches its classical wire", got, ("║", "╩"))
        elif sh == "multi":
            lo, hi = min(o["targets"]), max(o["targets"])
            cs = o.get("controls") or []
            # the box: lid on the highest target, bottom on the lowest, sides on everything between
            lid = top[hi][x:x + width]
            bt = bot[lo][x:x + width]
            up = [v for v in cs if v > hi]
            dn = [v for v in cs if v < lo]
            exp_lid = " ┌" + "─" * (width - 4) + "┐ "
            exp_bt = " └" + "─" * (width - 4) + "┘ "
            if up:
                exp_lid = exp_lid[:width // 2] + "┴" + exp_lid[width // 2 + 1:]
            if dn:
                exp_bt = exp_bt[:width // 2] + "┬" + exp_bt[width // 2 + 1:]
            if lid != exp_lid:
                return ("box lid", lid, exp_lid)
            if bt != exp_bt:
                return ("box bottom", bt, exp_bt)
            for v in range(lo, hi + 1):
                rws = [top[v], mid[v], bot[v]]
                if v == hi:
                    rws = rws[1:]
                if v == lo:
                    rws = rws[:-1]
                for r in rws:
                    seg = r[x:x + width]
                    degenerate = width == 4 and lo < v < hi and v in cs and r is mid[v]   # no room inside the box
                    if len(seg) != width or seg[1] not in "│┤" or seg[-2] not in ("│├█" if degenerate else "│├"):
                        return (f"box side on wire {v}", seg, "│ ... │")
                if lo < v < hi and v in cs and at(mid[v], c) != "█":
                    return (f"control inside the box on wire {v}", at(mid[v], c), "█")
            if up:
                for v in range(hi + 1, max(up) + 1):
                    exp = ("│" if v < max(up) else " ", "█" if v in cs else "│", "│")
                    got = (at(top[v], c), at(mid[v], c), at(bot[v], c))
                    if got != exp:
                        return (f"control link on wire {v}", got, exp)
            if dn:
                for v in range(min(dn), lo):
                    exp = ("│", "█" if v in cs else "│", "│" if v > min(dn) else " ")
                    got = (at(top[v], c), at(mid[v], c), at(bot[v], c))
                    if got != exp:
                        return (f"control link on wire {v}", got, exp)
        elif sh == "swap":
            lo, hi = min(o["targets"]), max(o["targets"])
            crosses = [i for i, ch in enumerate(mid[lo]) if ch == "╳"]
            k = swaps_seen[lo]
            if k >= len(crosses):
                return (f"swap cross on wire {lo}", len(crosses), k + 1)
            c = crosses[k]
            swaps_seen[lo] += 1
            swaps_seen[hi] += 1
            if at(mid[hi], c) != "╳":
                return (f"swap link reaches wire {hi}", at(mid[hi], c), "╳")
            if at(top[lo], c) != "│" or at(bot[hi], c) != "│":
                return ("swap link leaves its crosses", (at(top[lo], c), at(bot[hi], c)), ("│", "│"))
            for v in range(lo + 1, hi):
                got = (at(top[v], c), at(mid[v], c), at(bot[v], c))
                if got != ("│", "│", "│"):
                    return (f"swap link crosses wire {v}", got, ("│", "│", "│"))
    return None


# ----------------------------------------------------------------------------------------------
# Coq literals
# ----------------------------------------------------------------------------------------------
def cstrN(s):
    return "[" + "; ".join(str(ord(ch)) for ch in s) + "]%N" if s else "(@nil N)"


def cop(o):
    if o["k"] == "meas":
        return f"Meas {cnat(o['t'])} {cnat(o['c'])}"
    al = "None" if o.get("arg_label") is None else f"(Some {cstrN(o['arg_label'])})"
    cs = "None" if o.get("controls") is None else "(Some " + (clist([cnat(c) for c in o["controls"]]) if o["controls"] else "(@nil nat)") + ")"
    tg = clist([cnat(t) for t in o["targets"]]) if o["targets"] else "(@nil nat)"
    return f"Gate {cstrN(o['name'])} {al} {tg} {cs}"


def cstyle(st):
    n, d = st.get("gate_pad") or [1, 20]
    ext = 2 if st.get("ext") is None else st["ext"]
    al = bool(st.get("align"))
    wl = st.get("wire_label")
    wls = "None" if wl is None else "(Some " + (clist([cstrN(s) for s in wl]) if wl else "(@nil str)") + ")"
    return f"(mkStyle {cnat(n)} {cnat(d)} {cnat(ext)} {cbool(al)} {wls})"


def coq_case(inp, ops, fixed):
    opl = clist([cop(o) for o in ops]) if ops else "(@nil op)"
    return (f"Eval vm_compute in (show {cbool(fixed)} {cstyle(inp['style'])} "
            f"{cnat(inp['nq'])} {cnat(inp['nc'])} {opl}).\n")


HEADER = ("From Coq Require Import List NArith.\nImport ListNotations.\nFrom QV Require Import Model.Render.\n"
          "Definition show fx sty nq nc ops := (layout fx sty nq nc ops, option_map snd (layout_full fx sty nq nc ops)).\n")


def decode_model(v):
    """parse_evals value of `show` -> (printed rows as strings, gate columns) or None when the model rejects"""
    rows, xs = v
    if rows is None:
        return None
    assert rows[0] == "Some" and xs[0] == "Some", v
    return ["".join(chr(c) for c in r) for r in rows[1]], [int(x) for x in xs[1]]


# ----------------------------------------------------------------------------------------------
# generator
# ----------------------------------------------------------------------------------------------
SINGLE = ["X", "Y", "Z", "H", "S", "T", "SNOT", "SQRTNOT", "RX", "RY", "RZ", "R", "QASMU"]
TWO = ["ISWAP", "SQRTSWAP", "SQRTISWAP", "BERKELEY", "SWAPALPHA", "MS", "RZX"]
CTRL1 = ["CNOT", "CX", "CY", "CZ", "CS", "CT", "CSIGN", "CRX", "CRY", "CRZ", "CPHASE"]
LABELS = ["π/2", "θ", "0.5", "-π", "a", "ab", "φ 1", "U", "long label", "x" * 9, "R(π/4)", "", "k", "[1]", "│", "┤x"]
# measurement names of length 1-4 (odd and even): the box of a measurement and its link must agree in width
MNAMES = ["M", "M", "M0", "M1", "MZ", "MX", "MZ1", "Mq0", "m", "MEAS", "M_ab"]
WLAB = ["a", "bb", "anc", "data0", "", "q", "reg 1", "Ψ", "out", "x:y"]


# StyleConfig keywords that do not concern the text renderer, with valid values (gate_margin incl. fractional values)
EXTRA_STYLE = {
    "gate_margin": [0, 0.15, 0.5, 0.3, 1, 2, 1.25],
    "dpi": [72, 150, 300], "fontsize": [8, 10, 14], "padding": [0, 0.3, 1.5], "wire_sep": [0.5, 1, 0.25],
    "layer_sep": [0.5, 1.0, 2], "label_pad": [0.1, 0.5], "fig_height": [None, 4, 2.5], "fig_width": [None, 10, 6.5],
    "bulge": [True, False, "round4", "square"], "theme": ["qutip", "light", "dark", "modern"],
    "title": [None, "My circuit"], "bgcolor": [None, "#FFFFFF"], "color": [None, "#000000"],
    "wire_color": [None, "#333333"],
}


def gen_style(rng, rich=True):
    st = {}
    if rng.random() < 0.45:
        ks = ["gate_margin"] if rng.random() < 0.6 else []
        ks += rng.sample(sorted(k for k in EXTRA_STYLE if k != "gate_margin"), rng.randint(0, 3))
        st["extra"] = {k: rng.choice(EXTRA_STYLE[k]) for k in ks}
        if not st["extra"]:
            del st["extra"]
    if rng.random() < 0.75:
        st["gate_pad"] = rng.choice([[0, 1], [1, 20], [3, 10], [1, 2], [1, 1], [3, 2], [2, 1], [9, 4], [3, 1]])
    if rng.random() < 0.7:
        st["ext"] = rng.choice([0, 1, 2, 3, 5])
    if rng.random() < 0.6:
        st["align"] = rng.random() < 0.7
    return st


def contiguous_place(rng, nq, k):
    lo = rng.randrange(0, nq - k + 1)
    ws = list(range(lo, lo + k))
    rng.shuffle(ws)
    return ws


def gen_op(rng, nq, nc, wild):
    """wild: place targets/controls anywhere (may hit the non-contiguous class)."""
    r = rng.random()
    lab = rng.choice(LABELS[:14]) if rng.random() < 0.35 else None
    cc = None
    if nc and rng.random() < 0.12:
        cc = rng.sample(range(nc), rng.randint(1, nc))
    if nc and r < 0.16:
        return dict(k="meas", t=rng.randrange(nq), c=rng.randrange(nc), mname=rng.choice(MNAMES))
    if r < 0.36 or nq == 1:
        name = rng.choice(SINGLE + ["MYG", "U1"])
        return dict(k="gate", name=name, targets=[rng.randrange(nq)], controls=None, arg_label=lab, cc=cc)
    if r < 0.46:
        a, b = rng.sample(range(nq), 2)
        return dict(k="gate", name="SWAP", targets=[a, b], controls=None, arg_label=lab, cc=cc)
    if r < 0.60:
        name = rng.choice(TWO + ["UU", "G2"])
        ts = rng.sample(range(nq), 2)
        return dict(k="gate", name=name, targets=ts, controls=None, arg_label=lab, cc=cc)
    if r < 0.78:
        name = rng.choice(CTRL1)
        c, t = rng.sample(range(nq), 2)
        return dict(k="gate", name=name, targets=[t], controls=[c], arg_label=lab, cc=cc)
    if nq >= 3 and r < 0.86:
        c1, c2, t = rng.sample(range(nq), 3)
        return dict(k="gate", name=rng.choice(["TOFFOLI", "CCU"]), targets=[t], controls=[c1, c2], arg_label=lab, cc=cc)
    if nq >= 3 and r < 0.95:
        # controlled gate with two targets (FREDKIN / user gate), optionally two controls
        nctl = 2 if (nq >= 4 and rng.random() < 0.3) else 1
        if wild:
            ws = rng.sample(range(nq), 2 + nctl)
            ts, cs = ws[:2], ws[2:]
        else:
            ts = contiguous_place(rng, nq, 2)
            rest = [w for w in range(nq) if w not in ts]
            cs = rng.sample(rest, nctl)
        name = "FREDKIN" if nctl == 1 and rng.random() < 0.6 else "CUU"
        return dict(k="gate", name=name, targets=ts, controls=cs, arg_label=lab, cc=cc)
    if nq >= 3:
        # three targets, no control (user gate / FREDKIN given as three targets); sometimes an empty control list
        ts = rng.sample(range(nq), 3) if wild else contiguous_place(rng, nq, 3)
        return dict(k="gate", name=rng.choice(["U3Q", "FREDKIN", "TOFFOLI"]), targets=ts,
                    controls=[] if rng.random() < 0.2 else None, arg_label=lab, cc=cc)
    ts = rng.sample(range(nq), 2)
    return dict(k="gate", name="UU", targets=ts, controls=None, arg_label=lab, cc=cc)


def gen_input(rng, big=False):
    nq = rng.choice([1, 2, 3, 3, 4, 4, 5, 6])
    nc = rng.choice([0, 0, 1, 2, 3])
    nops = rng.choice([0, 1, 2, 3, 5, 8, 12] + ([20, 30] if big else []))
    wild = rng.random() < 0.25
    ops = [gen_op(rng, nq, nc, wild) for _ in range(nops)]
    st = gen_style(rng)
    if rng.random() < 0.3:
        st["wire_label"] = [rng.choice(WLAB) for _ in range(nq + nc)]
    return dict(nq=nq, nc=nc, ops=ops, style=st)


def in_known_class(inp, ops=None):
    """Some non-SWAP gate with a control and >= 2 targets whose target span contains a non-target wire."""
    for o in (ops if ops is not None else inp["ops"]):
        if o["k"] != "gate" or not o.get("controls"):
            continue
        t = o["targets"]
        if len(t) < 2 or o["name"] == "SWAP":
            continue
        if any(w not in t for w in range(min(t), max(t) + 1)):
            return True
    return False


def directed_inputs():
    """Small hand-made inputs: one per branch of layout(), plus the known witnesses."""
    out = []
    g = lambda name, t, c=None, al=None, cc=None: dict(k="gate", name=name, targets=t, controls=c, arg_label=al, cc=cc)
    m = lambda t, c, mname="M": dict(k="meas", t=t, c=c, mname=mname)
    S = lambda **k: dict(k)
    out.append(dict(nq=3, nc=0, ops=[g("FREDKIN", [0, 2], [1])], style={}))
    out.append(dict(nq=4, nc=0, ops=[g("FREDKIN", [0, 2], [3])], style={}))
    out.append(dict(nq=5, nc=0, ops=[g("CUU", [1, 3], [0, 4]), g("X", [2])], style=S(gate_pad=[0, 1])))
    out.append(dict(nq=4, nc=0, ops=[g("TOFFOLI", [1], [0, 3]), g("CRX", [2], [0]), g("X", [0])], style={}))
    out.append(dict(nq=3, nc=3, ops=[m(1, 1), g("X", [0], None, None, [0, 1]), m(2, 0), m(0, 2)],
                    style=S(align=True, gate_pad=[0, 1])))
    out.append(dict(nq=3, nc=0, ops=[g("BERKELEY", [0, 2]), g("ISWAP", [2, 1], None, "ab"), g("SWAP", [2, 0])],
                    style=S(gate_pad=[3, 2], ext=0, wire_label=["a", "bbb", "cc"])))
    out.append(dict(nq=1, nc=0, ops=[], style={}))
    out.append(dict(nq=2, nc=2, ops=[g("H", [1]), m(1, 0), g("CNOT", [0], [1]), m(0, 1)],
                    style=S(wire_label=["c-a", "c-b", "low", "high"], align=True)))
    out.append(dict(nq=4, nc=1, ops=[g("X", [3]), g("X", [3]), g("X", [3]), m(0, 0), g("H", [1]), m(2, 0)],
                    style=S(align=True, ext=0)))
    out.append(dict(nq=4, nc=0, ops=[g("CCU", [0], [1, 2]), g("CCU", [3], [0, 1]), g("CCU", [1], [0, 3], "odd")], style={}))
    out.append(dict(nq=3, nc=0, ops=[g("U3Q", [0, 1, 2]), g("U3Q", [2, 0, 1], [], "abc"), g("X", [1], [])], style=S(gate_pad=[2, 1])))
    # named measurements (even and odd name lengths) followed by operations on the wires their links cross
    out.append(dict(nq=3, nc=2, ops=[m(2, 0, "M0"), g("CNOT", [0], [1]), m(1, 1, "M1"), g("SWAP", [0, 2])], style=S(ext=0)))
    out.append(dict(nq=3, nc=2, ops=[m(2, 1, "MZ")], style=S(ext=0)))
    out.append(dict(nq=4, nc=3, ops=[m(3, 0, "MEAS"), g("CRX", [0], [2], "θ"), m(1, 2, "MZ1"), g("FREDKIN", [0, 1], [3]),
                                     m(0, 1, "Mq")], style=S(align=True, gate_pad=[0, 1], ext=0)))
    out.append(dict(nq=2, nc=1, ops=[m(1, 0, "M0"), m(0, 0, "M1"), g("H", [0])], style=S(gate_pad=[3, 2])))
    # generic StyleConfig keywords: gate_margin (the documented default 0.15 and others) must not reach the layers
    out.append(dict(nq=3, nc=1, ops=[g("H", [0]), g("CNOT", [1], [0]), m(2, 0, "M0"), g("SWAP", [0, 2]), g("CRX", [2], [0])],
                    style=S(extra={"gate_margin": 0.15})))
    out.append(dict(nq=2, nc=0, ops=[g("X", [0]), g("ISWAP", [0, 1]), g("X", [1])],
                    style=S(ext=0, align=True, extra={"gate_margin": 0.5, "theme": "dark", "bulge": False, "dpi": 72, "fontsize": 14})))
    out.append(dict(nq=2, nc=0, ops=[g("CZ", [0], [1]), g("H", [1])],
                    style=S(extra={k: v[-1] for k, v in EXTRA_STYLE.items()})))
    # two-digit default labels (q10, q11): the decimal printer of the model
    out.append(dict(nq=12, nc=1, ops=[g("CNOT", [11], [9]), g("H", [10]), m(11, 0), g("SWAP", [0, 10])], style={}))
    return out


# ----------------------------------------------------------------------------------------------
# correspondence
# ----------------------------------------------------------------------------------------------
def load_corpus():
    out = []
    for p in sorted(glob.glob(os.path.join(VERIF, "corpus", ID, "*.json"))):
        try:
            d = json.load(open(p))
            out.append(d["input"] if "input" in d else d)
        except Exception:
            pass
    return out


def nontrivial(inp):
    kinds = set(op_shape(o)["kind"] for o in inp["ops"])
    return len(inp["ops"]) >= 2 and (len(kinds) >= 2 or any(o.get("controls") for o in inp["ops"] if o["k"] == "gate"))


def correspond(ctx):
    fixed = model_is_fixed()
    corr = Corr(rule="nontrivial = at least 2 operations and (>= 2 different kinds of drawing [single box, multi-wire "
                     "box, swap, measurement] or a quantum-controlled gate)")
    ctx.notes.append("model variant: " + ("fixed tree (fixes/C20-bridge-span.diff)" if fixed else "unchanged tree (guarded theorems)"))
    rng = ctx.rng
    inputs = load_corpus() + directed_inputs()
    n_random = ctx.n(700, 6000)
    for _ in range(n_random):
        inputs.append(gen_input(rng, big=ctx.thorough))
    if ctx.thorough:
        inputs += exhaustive_small()

    cases = []
    for i, inp in enumerate(inputs):
        via = "layout" if i % 7 else ("save" if i % 14 else "draw")
        r = run_impl(inp, via)
        if not r.get("built", True):
            corr.tally("circuit-not-constructible")
            continue
        cases.append((inp, r))
    per = 120
    files = []
    for k in range(0, len(cases), per):
        body = HEADER + "".join(coq_case(inp, r["seen"], fixed) for inp, r in cases[k:k + per])
        files.append((f"c20_{os.getpid()}_{k // per}", body))   # per-process names: concurrent runs share coq/Cases
    try:
        outs = coq_eval_many(files)
    finally:
        for name, _ in files:
            for p in glob.glob(os.path.join(VERIF, "coq", "Cases", name + ".*")) + \
                     glob.glob(os.path.join(VERIF, "coq", "Cases", "." + name + ".*")):
                try:
                    os.remove(p)
                except OSError:
                    pass
    model = []
    for name, _ in files:
        model += parse_evals(outs[name])
    if len(model) != len(cases):
        raise Broken("correspondence-harness:C20", f"{len(model)} model values for {len(cases)} cases")

    shrunk_kinds = set()
    for (inp, r), mv in zip(cases, model):
        ops = r["seen"]
        key = json.dumps(inp, sort_keys=True)
        corr.count(key, nontrivial=nontrivial(inp), sample=inp)
        for o in ops:
            corr.tally(op_shape(o)["kind"])
        if in_known_class(inp, ops):
            corr.tally("in-noncontiguous-class")
        for o in ops:
            if o["k"] == "gate" and o.get("controls") and op_shape(o)["kind"] == "multi":
                t, c = o["targets"], o["controls"]
                if min(c) < min(t) and max(c) > max(t):
                    corr.tally("branch:controls-on-both-sides")
                if any(min(t) < v < max(t) for v in c):
                    corr.tally("branch:control-inside-box")
                if len(c) > 1 and (sorted(c)[1] < min(t) or sorted(c)[-2] > max(t)):
                    corr.tally("branch:middle-control-on-bridge")
                if (4 + 2 * gate_pad_cells(inp["style"]) + len(op_text(o))) % 2:
                    corr.tally("branch:odd-width-bridge")
            if o["k"] == "gate" and o.get("controls") == []:
                corr.tally("branch:empty-control-list")
            if o["k"] == "gate" and o.get("arg_label") is not None:
                corr.tally("branch:arg_label")
        st = inp["style"]
        for k in ("align", "wire_label"):
            if st.get(k):
                corr.tally("style:" + k)
        for k in (st.get("extra") or {}):
            corr.tally("style:extra:" + k)
        if st.get("gate_pad") and st["gate_pad"][0] == 0:
            corr.tally("style:gate_pad=0")
        if st.get("ext") == 0:
            corr.tally("style:end_wire_ext=0")
        if any(o.get("cc") for o in inp["ops"] if o["k"] == "gate"):
            corr.tally("classically-controlled")
        corr.tally("wires=%d" % (inp["nq"] + inp["nc"]))
        dm = decode_model(mv)
        if not r["ok"]:
            corr.oracle_fail(inp, r["err"], "the text drawing succeeds", "drawing raised")
            if dm is not None:
                corr.disagree(inp, r["err"], "model draws", "implementation raised, model draws")
            continue
        if "saved" in r and r["saved"] != r["rows"]:
            corr.oracle_fail(inp, r["saved"], r["rows"], "save() writes the printed rows")
        bad = oracle(inp, r["rows"], ops)
        if bad is not None:
            f = _failure(inp, bad)
            kind = (f["what"], in_known_class(inp, ops))
            if kind not in shrunk_kinds and len(shrunk_kinds) < 6:
                # report the first failure of every kind in minimised form
                shrunk_kinds.add(kind)
                small = fails(shrink(inp))
                if small is not None and (small["what"], in_known_class(small["input"])) == kind:
                    f = small
            corr.oracle_fail(f["input"], f["observed"], f["expected"], f["what"])
        if dm is None:
            corr.disagree(inp, r["rows"], None, "implementation draws, model rejects")
            continue
        mrows = dm[0]
        if mrows != r["rows"]:
            corr.disagree(inp, r["rows"], mrows, "printed rows differ")
        elif r.get("xs") is not None and r["xs"][:len(dm[1])] != dm[1]:
            corr.disagree(inp, r["xs"], dm[1], "gate columns (_get_xskip) differ")
    return corr


def exhaustive_small():
    """thorough: every placement of every gate shape on 4 qubits as a single-gate circuit followed by an X on each wire."""
    import itertools
    out = []
    nq = 4
    tail = [dict(k="gate", name="X", targets=[w], controls=None, arg_label=None, cc=None) for w in range(nq)]
    for nt, nctl in [(1, 0), (1, 1), (1, 2), (2, 0), (2, 1), (2, 2), (3, 0), (3, 1)]:
        for ws in itertools.permutations(range(nq), nt + nctl):
            ts, cs = list(ws[:nt]), list(ws[nt:])
            if cs != sorted(cs):
                continue
            for name in (["G", "SWAP"] if nt == 2 and nctl == 0 else ["G"]):
                for pad in ([0, 1], [1, 1]):
                    out.append(dict(nq=nq, nc=0, style=dict(gate_pad=pad, align=False),
                                    ops=[dict(k="gate", name=name, targets=ts, controls=cs or None, arg_label="odd" if pad[0] else None, cc=None)] + tail))
    return out


def _short(x):
    s = x if isinstance(x, (int, float, str, type(None))) else json.loads(json.dumps(x, default=str))
    return s


def _failure(inp, bad):
    """(what, observed, expected) of the oracle -> failure dict; the wire number goes into `observed` so that
    one defect gives one kind of `what`."""
    what, obs, exp = bad
    m = re.match(r"(.*?) (?:on )?wire (\d+)(.*)", what)
    if m:
        what = m.group(1) + m.group(3)
        obs = {"wire": int(m.group(2)), "observed": _short(obs)}
    return dict(input=inp, observed=_short(obs), expected=_short(exp), what=what)


# ----------------------------------------------------------------------------------------------
# classification, search, replay
# ----------------------------------------------------------------------------------------------
def classify(failure):
    inp = failure.get("input")
    try:
        if isinstance(inp, dict) and in_known_class(inp):
            return KEY
    except Exception:
        pass
    return None


def fails(inp):
    r = run_impl(inp)
    if not r.get("built", True):
        return None
    if not r["ok"]:
        return dict(input=inp, observed=r["err"], expected="the text drawing succeeds", what="drawing raised")
    bad = oracle(inp, r["rows"], r["seen"])
    if bad is None:
        return None
    return _failure(inp, bad)


def shrink(inp):
    """greedy: drop operations, then style options, while the oracle still fails"""
    cur = inp
    changed = True
    while changed:
        changed = False
        for i in range(len(cur["ops"])):
            cand = dict(cur, ops=cur["ops"][:i] + cur["ops"][i + 1:])
            if fails(cand):
                cur, changed = cand, True
                break
        if not changed:
            for k in list(cur["style"].keys()):
                cand = dict(cur, style={a: b for a, b in cur["style"].items() if a != k})
                if fails(cand):
                    cur, changed = cand, True
                    break
    return cur


def search(ctx, broken):
    found = []
    cands = load_corpus() + directed_inputs()
    for b in broken:
        d = b[1]
        if isinstance(d, dict) and isinstance(d.get("input"), dict):
            cands.insert(0, d["input"])
    cands += exhaustive_small()
    for _ in range(ctx.n(1500, 6000)):
        cands.append(gen_input(ctx.rng, big=True))
    seen_what = set()
    for inp in cands:
        f = fails(inp)
        if f:
            k = (f["what"], classify(f))
            if k in seen_what:
                continue
            seen_what.add(k)
            small = shrink(inp)
            found.append(fails(small) or f)
            if len(found) >= 4:
                break
    return found


def replay(ctx, rec):
    inp = rec["input"]
    return fails(inp) is not None
