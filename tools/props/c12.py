"""C12 -- compiled control pulses are exactly the scheduled instruction waveforms.

Model   : coq/Model/Concat.v  (GateCompiler.compile / _schedule / _process_gate_pulse /
          _process_idling_tlist / _concatenate_pulses, Instruction duration rule), exact rationals.
Theorems: coq/Props/C12.v
Tie     : the real GateCompiler.compile is run on synthetic user-defined compilers (scalar rectangular,
          sampled discrete, sampled continuous pulses, dyadic durations over ten orders of magnitude,
          idle gaps, three scheduling modes) and on the three shipped compilers; the same instruction
          lists are evaluated by the Coq model (`compile true`, i.e. the code with the first-pulse fix)
          and the arrays compared.  An oracle written from the property text judges the real output.
"""
import glob
import json
import os
from fractions import Fraction

import numpy as np

from common import Corr, Broken, coq_eval_many, parse_evals, VERIF

ID = "C12"
TARGETS = ["Props/C12.vo"]
TRUSTED = [
    "floats are modelled as exact rationals (Q); the harness uses dyadic inputs so that the float computation is exact "
    "(np.linspace and step/5 values are compared to 1e-9 relative) and discards inputs within 2^-20 (relative) of a tolerance threshold",
    "numpy array primitives (np.concatenate, np.linspace, np.arange, np.argsort, np.isscalar, np.max) are modelled by their documented meaning "
    "and validated by the correspondence only",
    "Scheduler.schedule is not modelled (property C11): its start times are inputs of the model; the harness checks on the real code that "
    "compile() used them and ordered the instructions by them",
    "the three shipped compilers enter only through correspondence: their gate compilers' Instruction lists are fed to the model",
    "continuous pulses: the whole array bookkeeping is proved (grid monotonicity, lengths, contiguous per-instruction blocks at one offset in "
    "both arrays, no foreign grid point inside a window, zero at every other grid point, the idle grids as 2x10-point linspace / arange); the "
    "values of the interpolating cubic spline BETWEEN grid points are not modelled (scipy), so 'takes the instruction's waveform' is proved at "
    "the sample points only",
    "theorems are about the code with fixes/C12-first-pulse-flag.diff and fixes/C12-idle-gap-time-resolution.diff applied (model parameters "
    "fx = gx = true); fx = false / gx = false are the respective unchanged tests and are refuted",
]
ASSUMES = [
    "processor level: after (load_circuit, load_circuit, ...) on one shipped processor, processor.pulses (what set_coeffs/set_tlist stored), "
    "get_full_tlist and the row count of get_full_coeffs are compared with the history-free model and oracle of the LAST loaded circuit, "
    "including pulse-free loads (no gate / GLOBALPHASE only), which must leave no non-zero channel; the merge of the channels onto a common "
    "grid (get_full_coeffs values) belongs to C14",
    "compile() is a function of its arguments: the model is history-free, and the harness checks that on histories of 2-4 compile() calls "
    "on one compiler object (same circuit under ASAP and ALAP in either order, other circuits and None/False in between); "
    "schedule_mode ranges over the documented values None, False (both: sequential), 'ASAP', 'ALAP'",
    "per channel: instruction windows are non-overlapping and ordered by start (checked by the harness on the scheduler's output)",
    "every instruction has positive duration, a time grid starting at 0 and strictly increasing, and matching coefficient length",
    "float-resolution guard gaps_ok (gap_tol true res): an idle gap is either 0 or larger than time_resolution = 1e-14 x the latest end time of the "
    "schedule (about 45 ulp of a double at that time); gaps below it are not generated for the oracle (they lie 14 orders of magnitude below the "
    "schedule length, outside the property's quantifier range) but are run through the model correspondence",
    "continuous pulses start with coefficient 0 (documented requirement of GateCompiler)",
]

TOL = Fraction(1, 10 ** 6)
RES = Fraction(1, 10 ** 14)
NEAR = Fraction(1, 2 ** 20)


# ----------------------------------------------------------------------------------------------
# cases -> instruction specs
# ----------------------------------------------------------------------------------------------
# instruction spec: {"tl": ["none", dur] | ["scalar", d] | ["arr", [..]], "pulses": [[name, c | [..]], ..]}
# synthetic case : {"kind": "synthetic", "mode": None|"ASAP"|"ALAP", "nq": n,
#                   "gates": [{"name", "targets", "controls", <instruction spec>}]}
# shipped case   : {"kind": "shipped", "device": .., "mode": .., "shape": .., "num_samples": ..,
#                   "gates": [{"name", "targets", "controls", "arg"}]}

def _mk_gate(g, idx=None):
    from qutip_qip.operations import Gate
    return Gate(g["name"], targets=g.get("targets"), controls=g.get("controls"),
                arg_value=(idx if idx is not None else g.get("arg")))


def _mk_instruction(gate, spec):
    from qutip_qip.compiler import Instruction
    kind, val = spec["tl"]
    info = []
    for name, c in spec["pulses"]:
        info.append((name, np.array(c, dtype=float) if isinstance(c, list) else float(c)))
    if kind == "none":
        return Instruction(gate, tlist=None, pulse_info=info, duration=float(val))
    if kind == "scalar":
        return Instruction(gate, tlist=float(val), pulse_info=info)
    return Instruction(gate, tlist=np.array(val, dtype=float), pulse_info=info)


def _synthetic_compiler(nq, table):
    """user-defined compiler; gate.arg_value indexes `table` (the gate specs of every compile() call it will serve)"""
    from qutip_qip.compiler import GateCompiler

    class Syn(GateCompiler):
        def __init__(self, nq, specs):
            super().__init__(nq)
            self._specs = specs
            for s in specs:
                self.gate_compiler[s["name"]] = self._one

        def _one(self, gate, args):
            spec = self._specs[int(gate.arg_value)]
            key = spec.get("share")
            if key is None:
                ins = _mk_instruction(gate, spec)
            else:
                # a cached Instruction: gates with the same "share" key get the SAME object
                cache = self.__dict__.setdefault("_cache", {})
                if key not in cache:
                    cache[key] = _mk_instruction(gate, spec)
                ins = cache[key]
            # "repeat": the same object several times within one gate (e.g. X as [half, half])
            return [ins] * int(spec.get("repeat", 1))

    return Syn(nq, table)


_DEV = {}


def _shipped(case):
    """fresh compiler of a shipped device + the gate list"""
    from qutip_qip.device import LinearSpinChain, CircularSpinChain, DispersiveCavityQED, SCQubits
    dev = case["device"]
    nq = case.get("nq", 3)
    key = (dev, nq)
    if key not in _DEV:
        cls = {"spinchain": LinearSpinChain, "circular": CircularSpinChain,
               "cavityqed": DispersiveCavityQED, "scqubits": SCQubits}[dev]
        _DEV[key] = cls(nq)
    proc = _DEV[key]
    from qutip_qip.compiler import SpinChainCompiler, CavityQEDCompiler, SCQubitsCompiler
    if dev == "spinchain":
        comp = SpinChainCompiler(proc.num_qubits, proc.params, setup="linear")
    elif dev == "circular":
        comp = SpinChainCompiler(proc.num_qubits, proc.params, setup="circular")
    elif dev == "cavityqed":
        comp = CavityQEDCompiler(proc.num_qubits, proc.params, global_phase=0.0)
    else:
        comp = SCQubitsCompiler(proc.num_qubits, proc.params)
    gates = [_mk_gate(g) for g in case["gates"]]
    args = {"shape": case.get("shape", "rectangular"), "num_samples": case.get("num_samples")}
    return comp, gates, args


def _fresh_shipped_compiler(dev, proc):
    from qutip_qip.compiler import SpinChainCompiler, CavityQEDCompiler, SCQubitsCompiler
    if dev == "spinchain":
        return SpinChainCompiler(proc.num_qubits, proc.params, setup="linear")
    if dev == "circular":
        return SpinChainCompiler(proc.num_qubits, proc.params, setup="circular")
    if dev == "cavityqed":
        return CavityQEDCompiler(proc.num_qubits, proc.params, global_phase=0.0)
    return SCQubitsCompiler(proc.num_qubits, proc.params)


def _new_processor(dev, nq):
    from qutip_qip.device import LinearSpinChain, CircularSpinChain, DispersiveCavityQED, SCQubits
    cls = {"spinchain": LinearSpinChain, "circular": CircularSpinChain,
           "cavityqed": DispersiveCavityQED, "scqubits": SCQubits}[dev]
    return cls(nq)


def run_processor_load(proc, dev, load):
    """One Processor.load_circuit on the (reused) processor `proc`, observed at processor.pulses
       (what set_coeffs / set_tlist stored), get_full_tlist and get_full_coeffs.
       The expectation is history-free: the instruction list of THIS circuit (transpiled by the processor, compiled
       gate by gate with a fresh compiler) and independently computed start times."""
    from qutip_qip.circuit import QubitCircuit
    mode = load.get("mode")
    res = {"specs": None, "starts": None, "order": None}
    qc = QubitCircuit(proc.num_qubits)
    for g in load["gates"]:
        qc.add_gate(g["name"], targets=g.get("targets"), controls=g.get("controls"), arg_value=g.get("arg"))
    try:
        native = proc.transpile(qc)
        comp2 = _fresh_shipped_compiler(dev, proc)
        if load.get("num_samples"):
            comp2.args["num_samples"] = load["num_samples"]
        ins = []
        for g in native.gates:
            r = comp2.gate_compiler[g.name](g, dict(comp2.args))
            if r is not None:
                ins += r
        specs = [_spec_of_instruction(i) for i in ins]
        res["specs"] = specs
        if ins:
            if mode:
                from qutip_qip.compiler import Scheduler
                starts = [float(x) for x in Scheduler(mode).schedule(ins)]
                order = [int(i) for i in np.argsort(starts)]
            else:
                starts = [0.0]
                for sp in specs[:-1]:
                    starts.append(_duration(sp) + starts[-1])
                order = list(range(len(specs)))
            res["starts"], res["order"] = starts, order
    except Exception as e:
        res["aux_error"] = repr(e)[:200]
    try:
        if load.get("num_samples"):
            # a compiler object handed to load_circuit (SC qubits: fewer samples per pulse than the default 101)
            comp = _fresh_shipped_compiler(dev, proc)
            comp.args["num_samples"] = load["num_samples"]
            proc.load_circuit(qc, schedule_mode=mode, compiler=comp)
        else:
            proc.load_circuit(qc, schedule_mode=mode)
        m = {}
        for pulse in proc.pulses:
            if pulse.tlist is None and pulse.coeff is None:
                continue
            m[str(pulse.label)] = ([float(x) for x in np.asarray(pulse.tlist).ravel()],
                                   [float(x) for x in np.asarray(pulse.coeff).ravel()])
        res["out"] = {"map": m}
        # the merged views must be consistent with the stored pulses
        full = proc.get_full_tlist()
        extra = []
        if (full is None) != (not m):
            extra.append("get_full_tlist() is %s although %d pulses are stored" % ("None" if full is None else "a grid", len(m)))
        if full is not None and m:
            end = max(v[0][-1] for v in m.values())
            if full[0] != 0.0 or not _close(full[-1], end):
                extra.append("get_full_tlist() spans [%r, %r], pulses end at %r" % (float(full[0]), float(full[-1]), end))
            try:
                fc = proc.get_full_coeffs(full)
                if np.asarray(fc).shape[0] != len(proc.pulses):
                    extra.append("get_full_coeffs has %d rows for %d pulses" % (np.asarray(fc).shape[0], len(proc.pulses)))
            except Exception:
                pass
        res["observe"] = extra
    except Exception as e:
        res["out"] = {"rejected": repr(e)[:200]}
    return res


def _spec_of_instruction(ins):
    if ins.tlist is None:
        tl = ["none", float(ins.duration)]
    elif np.isscalar(ins.tlist):
        tl = ["scalar", float(ins.tlist)]
    else:
        tl = ["arr", [float(x) for x in ins.tlist]]
    pulses = []
    for name, c in ins.pulse_info:
        pulses.append([name, [float(x) for x in c] if not np.isscalar(c) else float(c)])
    return {"tl": tl, "pulses": pulses}


def _duration(spec):
    kind, val = spec["tl"]
    return float(val) if kind != "arr" else float(val[-1])


def run_real(case, comp=None, offset=0):
    """Runs the real code (one compile() call; `comp` = compiler object to reuse, `offset` = position of this
       call's gates in the synthetic compiler's table). Returns dict:
       out     : {"rejected": repr} | {"map": {name: (tlist list, coeff list)}}
       specs   : instruction specs in the order the gate compilers produced them (None if unavailable)
       starts  : start time of every instruction, computed independently of GateCompiler._schedule
       order   : the time order (indices into specs) the model is given"""
    mode = case.get("mode")
    res = {"specs": None, "starts": None, "order": None}
    try:
        if case["kind"] == "synthetic":
            if comp is None:
                comp = _synthetic_compiler(case["nq"], case["gates"])
            gates = [_mk_gate(g, offset + i) for i, g in enumerate(case["gates"])]
            args = None
            specs = [{"tl": g["tl"], "pulses": g["pulses"]} for g in case["gates"] for _ in range(int(g.get("repeat", 1)))]
            try:
                # the independent side uses one fresh Instruction per list position
                ins = [_mk_instruction(_mk_gate(g, i), g) for i, g in enumerate(case["gates"])
                       for _ in range(int(g.get("repeat", 1)))]
            except Exception:
                ins = None
        else:
            comp_new, gates, args = _shipped(case)
            if comp is None:
                comp = comp_new
            comp2, gates2, _ = _shipped(case)
            comp2.args.update(args)
            ins = []
            for g in gates2:
                r = comp2.gate_compiler[g.name](g, comp2.args)
                if r is not None:
                    ins += r
            specs = [_spec_of_instruction(i) for i in ins]
        res["specs"] = specs
        if ins is not None and ins:
            if mode:
                from qutip_qip.compiler import Scheduler
                starts = [float(x) for x in Scheduler(mode).schedule(ins)]
                order = [int(i) for i in np.argsort(starts)]
            else:
                starts = [0.0]
                for s in specs[:-1]:
                    starts.append(_duration(s) + starts[-1])
                order = list(range(len(specs)))
            res["starts"] = starts
            res["order"] = order
    except Exception as e:  # the independent side could not even build the instructions
        res["aux_error"] = repr(e)[:200]
    try:
        tl, co = comp.compile(gates, schedule_mode=mode, args=args)
        if tl is None and co is None:
            res["out"] = {"map": {}}
        else:
            m = {}
            for k in tl:
                m[str(k)] = ([float(x) for x in np.asarray(tl[k]).ravel()],
                             [float(x) for x in np.asarray(co[k]).ravel()])
            if set(map(str, co.keys())) != set(m.keys()):
                m["__keys_differ__"] = ([], [])
            res["out"] = {"map": m}
    except Exception as e:
        res["out"] = {"rejected": repr(e)[:200]}
    return res


# ----------------------------------------------------------------------------------------------
# Coq side
# ----------------------------------------------------------------------------------------------
def _q(x):
    fr = Fraction(x)
    return f"(Qmake ({fr.numerator}) {fr.denominator})"


def _ql(xs):
    return "[" + "; ".join(_q(x) for x in xs) + "]"


def coq_instr(spec, names):
    kind, val = spec["tl"]
    if kind == "none":
        tl = f"(TNone {_q(val)})"
    elif kind == "scalar":
        tl = f"(TScalar {_q(val)})"
    else:
        tl = f"(TArr {_ql(val)})"
    ps = []
    for name, c in spec["pulses"]:
        cs = f"(CA {_ql(c)})" if isinstance(c, list) else f"(CS {_q(c)})"
        ps.append(f"({names[name]}%nat, {cs})")
    return f"(mkI {tl} [{'; '.join(ps)}])"


def coq_term(specs, starts, order, mode, fx="true true"):
    names = {}
    for s in specs:
        for name, _ in s["pulses"]:
            names.setdefault(name, len(names))
    if mode:
        il = [specs[i] for i in order]
        st = "(Some " + _ql([starts[i] for i in order]) + ")"
    else:
        il = specs
        st = "None"
    term = f"(red_out (compile {fx} {st} [{'; '.join(coq_instr(s, names) for s in il)}]))"
    return term, {v: k for k, v in names.items()}


HEADER = ("From QV Require Import Model.Concat.\nFrom Coq Require Import List QArith.\n"
          "Import ListNotations.\nOpen Scope Q_scope.\n")


def run_model(terms, tag):
    """terms: list of Coq terms; returns list of parsed values (same order).
       The terms are dealt round-robin to the files so that the long ones (101-sample pulses) are spread evenly."""
    if not terms:
        return []
    nfiles = max(1, min(32, (len(terms) + 79) // 80))
    files = []
    for k in range(nfiles):
        body = HEADER + "\n".join(f"Eval vm_compute in {t}." for t in terms[k::nfiles])
        files.append((f"c12_{tag}_{k}", body))
    outs = coq_eval_many(files)
    vals = [None] * len(terms)
    for k, (name, _) in enumerate(files):
        got = parse_evals(outs[name])
        idx = list(range(k, len(terms), nfiles))
        if len(got) != len(idx):
            raise Broken("coq-eval:c12", f"{len(got)} values for {len(idx)} terms in {name}")
        for i, v in zip(idx, got):
            vals[i] = v
    return vals


def model_to_map(val, id2name):
    if val is None:
        return {"rejected": "model"}
    assert val[0] == "Some", val
    m = {}
    for cid, (ts, cs) in val[1]:
        m[id2name[cid]] = ([Fraction(a, b) for a, b in ts], [Fraction(a, b) for a, b in cs])
    return {"map": m}


def _close(a, b):
    a = float(a)
    b = float(b)
    return a == b or abs(a - b) <= 1e-9 * max(abs(a), abs(b))


def compare(real, model):
    """None if equal, else a description"""
    if "rejected" in real or "rejected" in model:
        if ("rejected" in real) != ("rejected" in model):
            return "one side rejects"
        return None
    rm, mm = real["map"], model["map"]
    if set(rm) != set(mm):
        return f"channel sets differ: {sorted(rm)} vs {sorted(mm)}"
    for k in rm:
        for which, a, b in (("tlist", rm[k][0], mm[k][0]), ("coeff", rm[k][1], mm[k][1])):
            if len(a) != len(b):
                return f"{which} of {k}: lengths {len(a)} vs {len(b)}"
            for i, (x, y) in enumerate(zip(a, b)):
                if not _close(x, y):
                    return f"{which} of {k}[{i}]: {x} vs {float(y)}"
    return None


# ----------------------------------------------------------------------------------------------
# windows (what the instructions ask for) and the property oracle
# ----------------------------------------------------------------------------------------------
def windows(specs, starts):
    """{channel: [dict(s, ts(relative, with leading 0), cs, kind, idx)]} in instruction order; None if malformed"""
    ch = {}
    for idx, (spec, s) in enumerate(zip(specs, starts)):
        kind, val = spec["tl"]
        for name, c in spec["pulses"]:
            if kind == "scalar" and not isinstance(c, list):
                w = dict(s=s, ts=[0.0, float(val)], cs=[float(c)], kind="discrete", idx=idx)
            elif kind == "arr" and isinstance(c, list) and len(val) >= 2 and len(val) - 1 == len(c):
                w = dict(s=s, ts=[float(x) for x in val], cs=[float(x) for x in c], kind="discrete", idx=idx)
            elif kind == "arr" and isinstance(c, list) and len(val) >= 2 and len(val) == len(c):
                w = dict(s=s, ts=[float(x) for x in val], cs=[float(x) for x in c], kind="continuous", idx=idx)
            else:
                return None
            # Instruction accepts a sample grid whose first point is within 1e-8 of zero
            if abs(w["ts"][0]) > 1.0e-8 or any(b <= a for a, b in zip(w["ts"], w["ts"][1:])):
                return None
            ch.setdefault(name, []).append(w)
    return ch


def well_formed(specs):
    try:
        return all(_duration(s) >= 0 for s in specs) and windows(specs, [0.0] * len(specs)) is not None
    except Exception:
        return False


def step_eval(tl, co, t):
    """value at time t of the step function with breakpoints tl and values co (tl, t: floats or Fractions)"""
    import bisect
    k = bisect.bisect_right(tl, t) - 1
    if 0 <= k < len(tl) - 1 and k < len(co):
        return float(co[k])
    return 0.0


def oracle(specs, starts, out, exact):
    """Judge the real output against the property text. Returns list of failure dicts (observed part)."""
    fails = []
    if "rejected" in out:
        return [dict(kind="rejected", channel=None, detail=out["rejected"])]
    wins = windows(specs, starts)
    m = out["map"]
    if set(m) != set(wins):
        fails.append(dict(kind="channels", channel=None, got=sorted(m), want=sorted(wins)))
        return fails
    for name in sorted(wins):
        ws = sorted(wins[name], key=lambda w: w["s"])
        tl = np.array(m[name][0], dtype=float)
        co = np.array(m[name][1], dtype=float)

        def bad(kind, **kw):
            fails.append(dict(kind=kind, channel=name, **kw))

        # overlapping windows = the schedule itself is broken on this channel (property C11)
        ov = [(a["idx"], b["idx"]) for a, b in zip(ws, ws[1:])
              if a["s"] + a["ts"][-1] > b["s"] + 1e-9 * max(abs(b["s"]), a["ts"][-1])]
        if ov:
            bad("overlap", pairs=ov)
            continue
        if len(tl) == 0 or tl[0] != 0.0:
            bad("grid-start", got=tl[:3].tolist())
        if not np.all(np.diff(tl) > 0):
            j = int(np.argmin(np.diff(tl) > 0))
            bad("grid-monotonic", at=j, got=tl[max(0, j - 1):j + 3].tolist())
        kinds = {w["kind"] for w in ws}
        if kinds == {"continuous"}:
            if len(co) != len(tl):
                bad("length", got=[len(tl), len(co)], want="len(coeff)=len(tlist)")
        else:
            if len(co) not in (len(tl) - 1, len(tl)) or (kinds == {"discrete"} and len(co) != len(tl) - 1):
                bad("length", got=[len(tl), len(co)], want="len(coeff)=len(tlist)-1")
        if any(f["channel"] == name for f in fails):
            continue
        if kinds == {"discrete"}:
            # dyadic inputs: all evaluation times are computed and compared as exact fractions
            N = Fraction if exact else float
            tlN = [N(x) for x in tl]
            # inside windows
            for w in ws:
                for k, c in enumerate(w["cs"]):
                    a, b = N(w["s"]) + N(w["ts"][k]), N(w["s"]) + N(w["ts"][k + 1])
                    pts = [(a + b) / 2, a + (b - a) / 4, b - (b - a) / 1024]
                    if exact:
                        pts.append(a)
                    for t in pts:
                        got = step_eval(tlN, co, t)
                        if got != c:
                            bad("window", t=float(t), t_exact=str(Fraction(t)), got=got, want=c, instr=w["idx"], seg=k)
                            break
            # outside windows
            prev = N(0)
            segs = []
            for w in ws:
                # (non-dyadic inputs: a gap of a few ulps is float noise of the schedule, not an idle gap)
                w0 = N(w["s"]) + N(w["ts"][0])      # the window starts at start + tlist[0] (= start when tlist[0] = 0)
                if w0 > prev and (exact or w0 - prev > 1e-9 * max(abs(prev), abs(w0))):
                    segs.append((prev, w0))
                prev = N(w["s"]) + N(w["ts"][-1])
            end = tlN[-1]
            segs.append((prev, max(end, prev) + max(N(1), prev)))
            for a, b in segs:
                pts = [(a + b) / 2, a + (b - a) / 4, b - (b - a) / 1024]
                if exact:
                    pts.append(a)
                for t in pts:
                    got = step_eval(tlN, co, t)
                    if got != 0.0:
                        bad("zero", t=float(t), t_exact=str(Fraction(t)), got=got, want=0.0, gap=[float(a), float(b)])
                        break
        elif kinds == {"continuous"}:
            def find(t):
                j = int(np.searchsorted(tl, t))
                for jj in (j - 1, j, j + 1):
                    if 0 <= jj < len(tl) and (tl[jj] == t or (not exact and _close(tl[jj], t))):
                        return jj
                return None
            for w in ws:
                for k in range(1, len(w["ts"])):
                    t = w["ts"][k] + w["s"]
                    j = find(t)
                    if j is None:
                        bad("sample-missing", t=t, instr=w["idx"], seg=k)
                        break
                    if co[j] != w["cs"][k]:
                        bad("window", t=t, got=float(co[j]), want=w["cs"][k], instr=w["idx"], seg=k)
                        break
            # bookkeeping: the grid points inside a window (start, end] are exactly the instruction's samples k >= 1
            for w in ws:
                a, b = w["s"], w["s"] + w["ts"][-1]
                eps = 0.0 if exact else 1e-9 * max(abs(b), 1e-300)
                inside = [float(t) for t in tl if a + eps < t <= b + eps]
                if len(inside) != len(w["ts"]) - 1:
                    bad("window-grid", instr=w["idx"], got=len(inside), want=len(w["ts"]) - 1, window=[a, b])
                    break
            if co[0] != 0.0:
                bad("zero", t=0.0, got=float(co[0]), want=0.0, gap=[0.0, 0.0])
            for j, t in enumerate(tl):
                inside = False
                for w in ws:
                    a, b = w["s"], w["s"] + w["ts"][-1]
                    eps = 0.0 if exact else 1e-9 * max(abs(b), 1e-300)
                    if a - eps < t <= b + eps:     # (a, b]: the first sample of a pulse is dropped by design
                        inside = True
                if not inside and co[j] != 0.0:
                    bad("zero", t=float(t), got=float(co[j]), want=0.0, gap=[float(t), float(t)])
                    break
    return fails


def near_threshold(specs, starts, order, exact=True):
    """True if some comparison of the concatenation is so close to equality that float and exact
       arithmetic might take different branches: the tolerance tests (within 2^-20 relative); and, for inputs
       that are not dyadic (shipped compilers), also gap/step close to an integer (the `> 3*step` test and the
       length of np.arange)."""
    wins = windows(specs, starts)
    if wins is None:
        return False
    pos = {i: p for p, i in enumerate(order)}
    chans = {}
    for name, ws in wins.items():
        chans[name] = sorted(ws, key=lambda w: pos[w["idx"]])
    F = Fraction

    def near(x, thr):
        if thr == 0:
            return False
        r = abs(F(x)) / thr
        return abs(r - 1) < NEAR

    def near_int(g, step):
        if exact or step == 0:
            return False
        r = float(abs(F(g)) / step)
        return r > 0.5 and abs(r - round(r)) < 1e-9 * max(1.0, r)

    ms = None
    lasts = []
    ends = [F(w["s"]) + F(w["ts"][-1]) for ws in chans.values() for w in ws]
    res = RES * max(ends) if ends else F(0)
    for name, ws in chans.items():
        last = F(0)
        for w in ws:
            step = F(w["ts"][1]) - F(w["ts"][0])
            ms = step if ms is None or step < ms else ms
            if near(F(w["s"]) - last, res):
                return True
            if w["kind"] == "continuous" and near_int(F(w["s"]) - last, step):
                return True
            last = F(w["s"]) + F(w["ts"][-1])
        lasts.append(last)
    if not lasts:
        return False
    final = max(lasts)
    any_cont = any(w["kind"] == "continuous" for ws in chans.values() for w in ws)
    for last in lasts:
        if near(final - last, ms * TOL) or (any_cont and near_int(final - last, ms)):
            return True
    return False


# ----------------------------------------------------------------------------------------------
# known-finding classes
# ----------------------------------------------------------------------------------------------
def classify(failure):
    obs = failure.get("observed") or {}
    if not isinstance(obs, dict):
        return None
    kind = obs.get("kind")
    case = failure.get("input") or {}
    starts, specs = obs.get("starts"), obs.get("specs")
    if kind == "overlap" and case.get("mode") in ("ASAP", "ALAP") and starts is not None and specs is not None:
        # class scheduler-overlap-c11: the scheduler's own start times overlap on this channel
        try:
            ws = sorted(windows(specs, starts)[obs["channel"]], key=lambda w: w["s"])
        except Exception:
            return None
        for a, b in zip(ws, ws[1:]):
            if Fraction(a["s"]) + Fraction(a["ts"][-1]) > Fraction(b["s"]):
                return "scheduler-overlap-c11"
        return None
    if kind in ("zero", "window") and starts is not None and specs is not None and "t" in obs:
        # class tlist-offset-ignored: the failing time lies between start and start + tlist[0] of a sampled
        # instruction on that channel whose grid starts at a non-zero offset (|tlist[0]| <= 1e-8, accepted by Instruction)
        try:
            ws0 = windows(specs, starts)[obs["channel"]]
            t0x = Fraction(obs.get("t_exact", obs["t"]))
            for w in ws0:
                off = Fraction(w["ts"][0])
                lo, hi = sorted((Fraction(w["s"]), Fraction(w["s"]) + off))
                if off != 0 and lo <= t0x < hi:
                    return "tlist-offset-ignored"
        except Exception:
            pass
    if kind == "zero" and starts is not None and specs is not None and "t" in obs:
        # class idle-gap-below-tolerance: the failing time lies in an idle gap (0 < gap <= 1e-6 * step of the
        # instruction that follows the gap) on a discrete channel
        try:
            wins = windows(specs, starts)
            ws = sorted(wins[obs["channel"]], key=lambda w: w["s"])
        except Exception:
            return None
        t = Fraction(obs.get("t_exact", obs["t"]))
        prev = Fraction(0)
        for w in ws:
            s = Fraction(w["s"])
            step = Fraction(w["ts"][1]) - Fraction(w["ts"][0])
            if 0 < s - prev <= step * TOL and prev <= t < s and w["kind"] == "discrete":
                return "idle-gap-below-tolerance"
            prev = s + Fraction(w["ts"][-1])
    return None


# ----------------------------------------------------------------------------------------------
# generators
# ----------------------------------------------------------------------------------------------
def _dy(rng, lo=-17, hi=16):
    return float(rng.choice([1, 1, 3, 5, 7])) * 2.0 ** rng.randint(lo, hi)


def _coef(rng, nz=True):
    v = rng.choice([1, 2, 3, 5, -1, -3, 7, -6]) * 2.0 ** rng.randint(-3, 3)
    if not nz and rng.random() < 0.15:
        return 0.0
    return float(v)


def _sampled(rng, continuous, lo, hi):
    n = rng.randint(1, 5) + (1 if continuous else 0)   # number of intervals
    h = _dy(rng, lo, hi)
    ts = [0.0]
    for _ in range(n):
        inc = h if rng.random() < 0.7 else h * rng.choice([0.5, 2.0, 1.5])
        ts.append(ts[-1] + inc)
    return ts


MODES = [None, False, "ASAP", "ALAP"]      # the values compile() documents for schedule_mode


def gen_case(rng, flavor, big=False, mode="random"):
    nq = rng.randint(1, 4)
    if mode == "random":
        mode = rng.choice([None, None, False, "ASAP", "ALAP", "ASAP", "ALAP"])
    ng = rng.randint(1, 12 if big else 7)
    # exponent window: sometimes narrow (comparable durations), mostly the full ten orders of magnitude
    if rng.random() < 0.25:
        c = rng.randint(-10, 10)
        lo, hi = c - 2, c + 2
    else:
        lo, hi = -17, 16
    qkind = {q: rng.choice(["d", "c"]) for q in range(nq)}
    use_global = (not mode and rng.random() < 0.4)
    gates = []
    for _ in range(ng):
        two = nq >= 2 and rng.random() < 0.35 and flavor != "perqubit"
        qs = rng.sample(range(nq), 2 if two else 1)
        g = {"name": "G%d" % rng.randint(0, 2)}
        if two and rng.random() < 0.5:
            g["targets"], g["controls"] = [qs[0]], [qs[1]]
        else:
            g["targets"], g["controls"] = list(qs), None
        if rng.random() < (0.3 if flavor != "ratio" else 0.15):
            # idle instruction: no pulses
            g["tl"] = [rng.choice(["none", "scalar"]), _dy(rng, lo, hi)]
            g["pulses"] = []
            gates.append(g)
            continue
        if flavor in ("discrete", "ratio", "lategap"):
            k = rng.choice(["s", "d"])
        elif flavor == "continuous":
            k = "c"
        elif flavor == "perqubit":
            k = qkind[qs[0]]
            if k == "d" and rng.random() < 0.5:
                k = "s"
        else:
            k = rng.choice(["s", "d", "c"])
        cands = []
        for q in sorted(qs):
            cands += ["x%d" % q, "y%d" % q]
        if two:
            cands.append("zz%d%d" % (min(qs), max(qs)))
        if use_global:
            cands.append("g")
        names = rng.sample(cands, rng.randint(1, min(3, len(cands))))
        if k == "s":
            g["tl"] = ["scalar", _dy(rng, lo, hi)]
            g["pulses"] = [[n, _coef(rng)] for n in names]
        else:
            ts = _sampled(rng, k == "c", lo, hi)
            g["tl"] = ["arr", ts]
            if k == "d":
                g["pulses"] = [[n, [_coef(rng, nz=False) for _ in ts[1:]]] for n in names]
            else:
                g["pulses"] = [[n, [0.0] + [_coef(rng, nz=False) for _ in ts[1:]]] for n in names]
        gates.append(g)
    if flavor == "ratio":
        # a short pulse followed on the same channel by one > 1e6 times longer, and the reverse
        q = rng.randrange(nq)
        e = rng.randint(-17, -8)
        a = {"name": "G0", "targets": [q], "controls": None, "tl": ["scalar", 2.0 ** e], "pulses": [["x%d" % q, _coef(rng)]]}
        b = {"name": "G1", "targets": [q], "controls": None, "tl": ["scalar", 2.0 ** (e + rng.randint(21, 30))],
             "pulses": [["x%d" % q, _coef(rng)]]}
        pair = [a, b] if rng.random() < 0.7 else [b, a]
        at = rng.randint(0, len(gates))
        gates = (gates[:at] if rng.random() < 0.5 else []) + pair + gates[at:]
    if flavor == "lategap":
        # a long pulse, then a very short idle gap late in the sequence, then a short pulse on the same channel
        # (the gap is far below the absolute time at which it occurs, but above 1e-6 x the next step)
        q = rng.randrange(nq)
        ch = "x%d" % q
        long_d = float(rng.choice([1, 3, 5])) * 2.0 ** rng.randint(8, 16)
        gap = 2.0 ** rng.randint(-17, -12)
        nxt = gap * 2.0 ** rng.randint(0, 15)
        a = {"name": "G0", "targets": [q], "controls": None, "tl": ["scalar", long_d], "pulses": [[ch, _coef(rng)]]}
        i = {"name": "G2", "targets": [q], "controls": None, "tl": [rng.choice(["none", "scalar"]), gap], "pulses": []}
        if rng.random() < 0.5:
            b = {"name": "G1", "targets": [q], "controls": None, "tl": ["scalar", nxt], "pulses": [[ch, _coef(rng)]]}
        else:
            b = {"name": "G1", "targets": [q], "controls": None, "tl": ["arr", [0.0, nxt, 2 * nxt]],
                 "pulses": [[ch, [_coef(rng), _coef(rng)]]]}
        gates = [g for g in gates if not any(p[0] == ch or p[0] == "g" for p in g["pulses"])][:3]
        gates = gates + [a, i, b]
        mode = None
    if flavor == "sameobj":
        # a user compiler that returns ONE Instruction object several times: within a gate ("repeat", e.g. X as
        # [half, half]) and for several gates ("share": a cached instruction); unscheduled modes
        nq = rng.randint(1, 3)
        gates = []
        shared = {}
        for _ in range(rng.randint(2, 6)):
            q = rng.randrange(nq)
            r = rng.random()
            if r < 0.35 and q in shared:
                g = dict(shared[q])
            else:
                if rng.random() < 0.5:
                    tl = ["scalar", _dy(rng, -6, 6)]
                    pulses = [["x%d" % q, _coef(rng)]]
                else:
                    ts = _sampled(rng, False, -6, 6)
                    tl = ["arr", ts]
                    pulses = [["x%d" % q, [_coef(rng) for _ in ts[1:]]]]
                    if rng.random() < 0.3:
                        pulses.append(["y%d" % q, [_coef(rng) for _ in ts[1:]]])
                g = {"name": "G%d" % rng.randint(0, 2), "targets": [q], "controls": None, "tl": tl, "pulses": pulses}
                if rng.random() < 0.5:
                    g["share"] = "k%d" % len(gates)
                    shared[q] = g
            if rng.random() < 0.45:
                g = dict(g, repeat=rng.randint(2, 3))
            gates.append(g)
        if not any(g.get("repeat", 1) > 1 or g.get("share") for g in gates):
            gates[0] = dict(gates[0], repeat=2)
        return {"kind": "synthetic", "mode": rng.choice([None, False]), "nq": nq, "gates": gates, "flavor": flavor}
    if flavor == "offset":
        # sampled discrete pulses whose grid starts at a tiny non-zero offset accepted by Instruction (|t0| <= 1e-8),
        # with durations of the same tiny order; unscheduled modes; all times exact in binary64
        nq = rng.randint(1, 2)
        gates = []
        for _ in range(rng.randint(2, 5)):
            q = rng.randrange(nq)
            if rng.random() < 0.25:
                gates.append({"name": "G2", "targets": [q], "controls": None, "tl": ["none", 2.0 ** rng.randint(-27, -22)], "pulses": []})
                continue
            h = 2.0 ** rng.randint(-26, -22)
            t0 = rng.choice([0.0, 2.0 ** -27, 2.0 ** -28, -2.0 ** -27, 2.0 ** -27 + 2.0 ** -29])
            n = rng.randint(1, 3)
            ts = [t0] + [t0 + h * (k + 1) for k in range(n)] if rng.random() < 0.5 else [t0] + [h * (k + 1) for k in range(n)]
            if ts[1] <= ts[0]:
                ts = [t0] + [t0 + h * (k + 1) for k in range(n)]
            gates.append({"name": "G%d" % rng.randint(0, 1), "targets": [q], "controls": None, "tl": ["arr", ts],
                          "pulses": [["x%d" % q, [_coef(rng) for _ in ts[1:]]]]})
        if not any(g["pulses"] and g["tl"][1][0] != 0.0 for g in gates if g["tl"][0] == "arr"):
            h = 2.0 ** -24
            gates.insert(0, {"name": "G0", "targets": [0], "controls": None, "tl": ["arr", [2.0 ** -27, h, 2 * h]],
                             "pulses": [["x0", [_coef(rng), _coef(rng)]]]})
        return {"kind": "synthetic", "mode": rng.choice([None, False]), "nq": nq, "gates": gates, "flavor": flavor}
    if flavor == "cycle":
        # per-qubit chains of non-commuting gates (alternating names), listed qubit after qubit: the start times by
        # list position look like [0, a, a+b, 0, c, 0, d, ...], whose time order is a permutation with cycles of
        # length >= 3; every instruction has its own duration and amplitude
        nq = rng.randint(2, 4)
        gates = []
        used = set()
        for q in range(nq):
            for j in range(rng.randint(1, 3)):
                while True:
                    d = float(rng.choice([1, 3, 5, 7])) * 2.0 ** rng.randint(-3, 4)
                    if d not in used:
                        used.add(d)
                        break
                amp = float(len(gates) + 1) * rng.choice([1.0, -1.0, 0.5])
                gates.append({"name": "G%d" % (j % 2), "targets": [q], "controls": None,
                              "tl": ["scalar", d], "pulses": [["x%d" % q, amp]]})
        if rng.random() < 0.5:
            gates.reverse()
        return {"kind": "synthetic", "mode": rng.choice(["ASAP", "ALAP"]), "nq": nq, "gates": gates, "flavor": flavor}
    if flavor in ("resgap", "resgap_below"):
        # a gap just above (2^-40..2^-45 of the schedule length) or below (2^-47..2^-50) the time resolution
        # 1e-14 ~ 2^-46.5 of the repaired idle-gap test; all times are exact in binary64
        k = rng.randint(20, 28)
        j = rng.randint(40, 45) if flavor == "resgap" else rng.randint(47, 50)
        e = rng.randint(0, 10)
        ch = "x0"
        a = {"name": "G0", "targets": [0], "controls": None, "tl": ["scalar", 2.0 ** k], "pulses": [[ch, _coef(rng)]]}
        i = {"name": "G2", "targets": [0], "controls": None, "tl": [rng.choice(["none", "scalar"]), 2.0 ** (k - j)], "pulses": []}
        if rng.random() < 0.5:
            b = {"name": "G1", "targets": [0], "controls": None, "tl": ["scalar", 2.0 ** (k - j + e)], "pulses": [[ch, _coef(rng)]]}
        else:
            h = 2.0 ** (k - j + e - 1)
            b = {"name": "G1", "targets": [0], "controls": None, "tl": ["arr", [0.0, h, 2 * h]],
                 "pulses": [[ch, [_coef(rng), _coef(rng)]]]}
        case = {"kind": "synthetic", "mode": None, "nq": 1, "gates": [a, i, b], "flavor": flavor}
        if flavor == "resgap_below":
            case["oracle"] = False      # below the float-resolution guard: model correspondence only
        return case
    return {"kind": "synthetic", "mode": mode, "nq": nq, "gates": gates, "flavor": flavor}


def gen_malformed(rng):
    case = gen_case(rng, rng.choice(["discrete", "continuous", "mixed"]))
    gs = [g for g in case["gates"] if g["pulses"]]
    what = rng.choice(["len", "t0", "short", "allidle", "empty", "none-with-pulse", "scalar-coeff"])
    case["flavor"] = "malformed:" + what
    if what == "empty":
        case["gates"] = []
    elif what == "allidle" or not gs:
        case["gates"] = [g for g in case["gates"] if not g["pulses"]] or [
            {"name": "G0", "targets": [0], "controls": None, "tl": ["none", 1.0], "pulses": []}]
    else:
        g = rng.choice(gs)
        if what == "len":
            ts = _sampled(rng, False, -3, 3)
            g["tl"] = ["arr", ts]
            g["pulses"] = [[g["pulses"][0][0], [1.0] * (len(ts) + rng.choice([1, 2, -2]) if len(ts) > 2 else len(ts) + 1)]]
        elif what == "t0":
            ts = _sampled(rng, False, -3, 3)
            ts[0] = rng.choice([2.0 ** -10, -2.0 ** -4, 1.0])
            ts = sorted(ts)
            g["tl"] = ["arr", ts]
            g["pulses"] = [[g["pulses"][0][0], [1.0] * (len(ts) - 1)]]
        elif what == "short":
            g["tl"] = ["arr", [0.0]]
            g["pulses"] = [[g["pulses"][0][0], rng.choice([[], [1.0]])]]
        elif what == "none-with-pulse":
            g["tl"] = ["none", 1.0]
            g["pulses"] = [[g["pulses"][0][0], 1.0]]
        else:
            g["tl"] = ["arr", [0.0, 1.0, 2.0]]
            g["pulses"] = [[g["pulses"][0][0], 1.0]]
    return case


def gen_shipped(rng):
    dev = rng.choice(["spinchain", "circular", "cavityqed", "scqubits"])
    nq = 3
    gates = []
    for _ in range(rng.randint(1, 6)):
        if dev == "scqubits":
            name = rng.choice(["RX", "RY", "CNOT", "RZX"])
        else:
            name = rng.choice(["RX", "RZ", "ISWAP", "SQRTISWAP"])
        arg = rng.choice([0.5, 1.0, 1.5, 0.25, -0.75]) * 3.141592653589793
        if name in ("RX", "RY", "RZ"):
            gates.append({"name": name, "targets": [rng.randrange(nq)], "controls": None, "arg": arg})
        elif name == "CNOT":
            a = rng.randrange(nq - 1)
            t, c = rng.choice([(a, a + 1), (a + 1, a)])
            gates.append({"name": name, "targets": [t], "controls": [c], "arg": None})
        else:
            a = rng.randrange(nq - 1)
            gates.append({"name": name, "targets": [a, a + 1], "controls": None,
                          "arg": arg if name == "RZX" else None})
    shape = rng.choice(["rectangular", "hann", "hamming"]) if dev != "scqubits" else rng.choice(["hann", "hamming"])
    return {"kind": "shipped", "device": dev, "nq": nq, "mode": rng.choice(MODES),
            "shape": shape, "num_samples": rng.choice([3, 5, 8]), "gates": gates, "flavor": "shipped:" + dev}


def _asap_alap_circuit(rng):
    """a small circuit whose ASAP and ALAP schedules give different waveforms: gates of different length on two
       qubits, commuting gates (same name, same target) of different amplitude competing for a qubit, and a
       two-qubit gate that both have to wait for"""
    d = [float(rng.choice([1, 2, 3, 5, 8, 13])) for _ in range(4)]
    if d[0] == d[2]:
        d[2] += 1.0
    a = [_coef(rng) for _ in range(5)]
    gates = [
        {"name": "G0", "targets": [0], "controls": None, "tl": ["scalar", d[0]], "pulses": [["x0", a[0]]]},
        {"name": "G0", "targets": [0], "controls": None, "tl": ["scalar", d[1]], "pulses": [["x0", -a[1]]]},
        {"name": "G1", "targets": [1], "controls": None, "tl": ["scalar", d[2]], "pulses": [["x1", a[2]]]},
    ]
    if rng.random() < 0.6:
        gates.append({"name": "G2", "targets": [1], "controls": [0], "tl": ["arr", [0.0, d[3], 2 * d[3]]],
                      "pulses": [["zz01", [a[3], a[4]]]]})
    if rng.random() < 0.5:
        gates.append({"name": "G1", "targets": [1], "controls": None, "tl": ["scalar", d[1]], "pulses": [["x1", -a[2]]]})
    rng.shuffle(gates)
    return {"kind": "synthetic", "mode": "ASAP", "nq": 2, "gates": gates, "flavor": "history"}


def gen_history(rng):
    """2-4 compile() calls on one compiler object: the same circuit under both scheduled modes (in either order),
       other circuits and the unscheduled values None / False in between"""
    if rng.random() < 0.2:
        base = gen_shipped(rng)
        other = dict(gen_shipped(rng), device=base["device"])
        if base["device"] == "scqubits" or other["shape"] not in ("rectangular", "hann", "hamming"):
            other = dict(base)
        # gates of `other` must be native to the same device
        if base["device"] != other.get("device") or (base["device"] == "scqubits") != any(
                g["name"] in ("RY", "CNOT", "RZX") for g in other["gates"]):
            other = dict(base)
    else:
        if rng.random() < 0.45:
            base = _asap_alap_circuit(rng)
        else:
            base = gen_case(rng, rng.choice(["discrete", "continuous", "perqubit"]), mode=rng.choice(["ASAP", "ALAP"]))
        other = gen_case(rng, rng.choice(["discrete", "continuous"]), mode=rng.choice(["ASAP", "ALAP"]))
    m1, m2 = rng.choice([("ASAP", "ALAP"), ("ALAP", "ASAP")])
    steps = [dict(base, mode=m1), dict(base, mode=m2)]
    r = rng.random()
    if r < 0.35:
        steps.insert(rng.randint(0, 2), dict(other, mode=rng.choice(MODES)))
    elif r < 0.6:
        steps.insert(rng.randint(0, 1), dict(base, mode=rng.choice([None, False])))
    if rng.random() < 0.4 and len(steps) < 4:
        steps.append(dict(rng.choice([base, other]), mode=rng.choice(MODES)))
    return {"kind": "history", "steps": steps, "flavor": "history"}


def gen_processor(rng):
    """(load, load, [load, load]) on one shipped processor, with pulse-free circuits (no gate / GLOBALPHASE only)
       after circuits with pulses"""
    dev = rng.choice(["spinchain", "circular", "cavityqed", "cavityqed", "scqubits"])
    nq = 3

    def circuit(kind):
        if kind == "empty":
            return []
        if kind == "phase":
            return [{"name": "GLOBALPHASE", "targets": None, "controls": None, "arg": rng.choice([0.5, 1.0, -0.25]) * 3.141592653589793}
                    for _ in range(rng.randint(1, 2))]
        gates = []
        for _ in range(rng.randint(1, 4)):
            if dev == "scqubits":
                name = rng.choice(["RX", "RY", "CNOT"])
            else:
                name = rng.choice(["RX", "RZ", "ISWAP", "SQRTISWAP"])
            arg = rng.choice([0.5, 1.0, 1.5, 0.25, -0.75]) * 3.141592653589793
            if name in ("RX", "RY", "RZ"):
                gates.append({"name": name, "targets": [rng.randrange(nq)], "controls": None, "arg": arg})
            elif name == "CNOT":
                a = rng.randrange(nq - 1)
                t, c = rng.choice([(a, a + 1), (a + 1, a)])
                gates.append({"name": name, "targets": [t], "controls": [c], "arg": None})
            else:
                a = rng.randrange(nq - 1)
                gates.append({"name": name, "targets": [a, a + 1], "controls": None, "arg": None})
        if kind == "pulses+phase":
            gates.insert(rng.randint(0, len(gates)), {"name": "GLOBALPHASE", "targets": None, "controls": None, "arg": 1.0})
        return gates

    kinds = ["pulses", rng.choice(["empty", "phase"])]
    r = rng.random()
    if r < 0.5:
        kinds.append(rng.choice(["pulses", "pulses+phase"]))
    if r < 0.25:
        kinds.append(rng.choice(["empty", "phase", "pulses"]))
    if rng.random() < 0.15:
        kinds.insert(0, rng.choice(["empty", "phase"]))
    loads = [{"gates": circuit(kd), "mode": rng.choice(MODES), "what": kd} for kd in kinds]
    if dev == "scqubits":
        ns = rng.choice([5, 8])
        for ld in loads:
            ld["num_samples"] = ns
    return {"kind": "processor", "device": dev, "nq": nq, "loads": loads, "flavor": "processor"}


def corpus_cases():
    out = []
    for p in sorted(glob.glob(os.path.join(VERIF, "corpus", "C12", "*.json"))):
        try:
            d = json.load(open(p))
            out.append(d["input"] if "input" in d and "kind" not in d else d)
        except Exception:
            pass
    return out


# ----------------------------------------------------------------------------------------------
# the check
# ----------------------------------------------------------------------------------------------
def float_exact(specs, starts):
    """all times the compiler computes for this input (start + tlist[k], prefix sums) are exact in binary64"""
    if specs is None or starts is None:
        return True
    try:
        acc = Fraction(0)
        for spec, s in zip(specs, starts):
            kind, val = spec["tl"]
            ts = [float(val)] if kind != "arr" else [float(x) for x in val]
            for t in ts:
                if Fraction(s) + Fraction(t) != Fraction(float(s) + t):
                    return False
    except Exception:
        return True
    return True


def judge(case, comp=None, offset=0):
    """real run + oracle. returns (real result dict, list of observed-failure dicts, exact flag)"""
    real = run_real(case, comp, offset)
    exact = case["kind"] == "synthetic" and float_exact(real["specs"], real["starts"])
    fails = []
    specs, starts = real["specs"], real["starts"]
    if case.get("oracle", True) and specs is not None and starts is not None and well_formed(specs) \
            and any(s["pulses"] for s in specs):
        fails = oracle(specs, starts, real["out"], exact)
        for f in fails:
            f["starts"] = starts
            f["specs"] = specs
    return real, fails, exact


def judge_steps(case):
    """A case is one compile() call, or a HISTORY {"kind": "history", "steps": [case, ...]}: the calls are made one
       after the other on ONE compiler object; every call is judged against the history-free oracle and model.
       Returns [(step case, real, fails, exact)]."""
    if case.get("kind") == "processor":
        # (load, load, ..., observe after each) on ONE processor object
        proc = _new_processor(case["device"], case.get("nq", 3))
        out = []
        for k, load in enumerate(case["loads"]):
            real = run_processor_load(proc, case["device"], load)
            specs, starts = real["specs"], real["starts"]
            fails = []
            if specs is not None and "rejected" not in real["out"]:
                if not any(sp["pulses"] for sp in specs):
                    # pulse-free circuit: no instruction uses any channel, so no channel may carry anything
                    left = {n: v for n, v in real["out"]["map"].items() if any(c != 0.0 for c in v[1])}
                    if left:
                        n0 = sorted(left)[0]
                        fails.append(dict(kind="stale-pulses", channel=n0, got=sorted(left),
                                          want="no non-zero channel: the loaded circuit drives no pulse"))
                elif starts is not None and well_formed(specs):
                    fails = oracle(specs, starts, real["out"], False)
            elif specs is not None and well_formed(specs):
                fails = [dict(kind="rejected", channel=None, detail=real["out"].get("rejected"))]
            for msg in real.get("observe", []):
                fails.append(dict(kind="processor-view", channel=None, detail=msg))
            for f in fails:
                f["starts"], f["specs"], f["step"] = starts, specs, k
            st = dict(load, kind="shipped", device=case["device"])
            out.append((st, real, fails, False))
        return out
    if case.get("kind") != "history":
        real, fails, exact = judge(case)
        return [(case, real, fails, exact)]
    steps = case["steps"]
    comp = None
    offsets = []
    if steps and steps[0]["kind"] == "synthetic":
        table = []
        for st in steps:
            offsets.append(len(table))
            table += st["gates"]
        try:
            comp = _synthetic_compiler(max(st["nq"] for st in steps), table)
        except Exception:
            comp = None
    elif steps:
        comp = _shipped(steps[0])[0]
        offsets = [0] * len(steps)
    out = []
    for k, (st, off) in enumerate(zip(steps, offsets)):
        real, fails, exact = judge(st, comp, off)
        for f in fails:
            f["step"] = k
        out.append((st, real, fails, exact))
    return out


def _branch_key(specs, starts, out):
    """which branches of the model the case exercises (rule for `nontrivial`)"""
    wins = windows(specs, starts) or {}
    feats = set()
    for name, ws in wins.items():
        ws = sorted(ws, key=lambda w: w["s"])
        if len(ws) > 1:
            feats.add("multi")
        prev = 0.0
        for w in ws:
            feats.add(w["kind"] + ("-scalar" if len(w["ts"]) == 2 and w["kind"] == "discrete" else ""))
            if w["s"] > prev:
                feats.add("gap")
                step = w["ts"][1] - w["ts"][0]
                if w["kind"] == "continuous":
                    feats.add("gap-linspace" if w["s"] - prev > 3 * step else "gap-arange")
            elif prev > 0:
                feats.add("adjoining")
            prev = w["s"] + w["ts"][-1]
    if len(wins) > 1:
        feats.add("channels>1")
        if len({w["kind"] for ws in wins.values() for w in ws}) > 1:
            feats.add("mode-leak")
    return feats


def correspond(ctx):
    corr = Corr(rule="nontrivial = the instruction list is accepted and has >= 2 instructions on one channel, or an idle gap, "
                     "or more than one channel (so that concatenation, idle filling or final padding actually runs)")
    rng = ctx.rng
    try:
        from qutip_qip.compiler import GateCompiler, Instruction, Scheduler  # noqa: F401
    except Exception as e:
        raise Broken("correspondence:C12:import", repr(e))
    cases = list(corpus_cases())
    n_corpus = len(cases)
    plan = [("discrete", ctx.n(400, 2500)), ("continuous", ctx.n(300, 2000)), ("perqubit", ctx.n(200, 1200)),
            ("mixed", ctx.n(120, 800)), ("ratio", ctx.n(150, 800)), ("lategap", ctx.n(80, 400)),
            ("resgap", ctx.n(40, 200)), ("resgap_below", ctx.n(20, 100)), ("cycle", ctx.n(50, 300)),
            ("sameobj", ctx.n(60, 300)), ("offset", ctx.n(60, 300))]
    for flavor, n in plan:
        for _ in range(n):
            cases.append(gen_case(rng, flavor, big=ctx.thorough and rng.random() < 0.5))
    for _ in range(ctx.n(80, 400)):
        cases.append(gen_malformed(rng))
    for _ in range(ctx.n(120, 600)):
        cases.append(gen_shipped(rng))

    prepared = []
    terms = []
    for _ in range(ctx.n(110, 600)):
        cases.append(gen_history(rng))
    for _ in range(ctx.n(60, 300)):
        cases.append(gen_processor(rng))
    steps_all = []
    for whole in cases:
        for k, (st, real, fails, exact) in enumerate(judge_steps(whole)):
            steps_all.append((whole, k, st, real, fails, exact))
    for whole, stepno, case, real, fails, exact in steps_all:
        specs, starts, order = real["specs"], real["starts"], real["order"]
        flavor = whole.get("flavor", "corpus")
        if whole.get("kind") in ("history", "processor"):
            corr.tally(whole["kind"] + "-steps")
            if whole["kind"] == "processor" and specs is not None and not any(sp["pulses"] for sp in specs):
                corr.tally("processor-pulse-free-loads")
        if specs is None:
            raise Broken("correspondence:C12:instruction-extraction", real.get("aux_error", "?") + " on " + json.dumps(case)[:500])
        if starts is None:
            # instruction construction failed on the independent side too (malformed) or empty list
            starts, order = [0.0] * len(specs), list(range(len(specs)))
            if case.get("mode") and specs:
                # scheduled + unbuildable instruction: the model is given no start times; use unscheduled form
                pass
        for f in fails:
            rec = dict(input=whole, observed=f, expected=f.get("want"), what="C12 oracle: " + f["kind"])
            corr.oracle_fail(whole, f, f.get("want"), rec["what"])
            corr.tally("oracle-failure:" + f["kind"] + ":" + str(classify(rec)))
        if well_formed(specs) and near_threshold(specs, starts, order, exact):
            # the oracle has judged the case; only the model comparison is skipped
            corr.tally("model-comparison-skipped:near-threshold")
            continue
        mode = case.get("mode") if real["starts"] is not None else None
        term, id2name = coq_term(specs, starts, order, mode)
        terms.append(term)
        prepared.append((case, real, id2name, flavor, specs, starts, bool(fails), whole, stepno))

    vals = run_model(terms, "corr")
    for (case, real, id2name, flavor, specs, starts, failed, whole, stepno), val in zip(prepared, vals):
        model = model_to_map(val, id2name)
        diff = compare(real["out"], model)
        if diff is not None:
            impl = real["out"]
            mod = {"rejected": "model"} if "rejected" in model else \
                {k: ([float(x) for x in v[0]], [float(x) for x in v[1]]) for k, v in model["map"].items()}
            corr.disagree(whole, dict(impl, step=stepno), mod, "compile vs Model.Concat.compile: " + diff.split(":")[0])
        rejected = "rejected" in real["out"]
        feats = set() if rejected or not well_formed(specs) else _branch_key(specs, starts, real["out"])
        nontrivial = bool(feats & {"multi", "gap", "channels>1"})
        corr.count(json.dumps(whole, sort_keys=True) + "#%d" % stepno, nontrivial=nontrivial, sample=whole)
        corr.tally("flavor:" + flavor.split(":")[0])
        corr.tally("mode:" + repr(case.get("mode")))
        od = real.get("order")
        if od and any(od[od[i]] != i for i in range(len(od))):
            corr.tally("branch:time-order-non-involutive")
        corr.tally("rejected" if rejected else "accepted")
        for ft in feats:
            corr.tally("branch:" + ft)
        if failed:
            corr.tally("oracle-failures(cases)")
    corr.extra["corpus_cases"] = n_corpus
    return corr


def replay(ctx, rec):
    case = rec.get("input", rec)
    return any(fails for _, _, fails, _ in judge_steps(case))


def search(ctx, broken):
    """hunt for a failing input on the real code with the property oracle only"""
    out = []
    cands = list(corpus_cases())
    for ob, detail in broken:
        if isinstance(detail, dict) and isinstance(detail.get("input"), dict):
            cands.append(detail["input"])
    rng = ctx.rng
    for flavor in ("ratio", "lategap", "resgap", "cycle", "sameobj", "offset", "discrete", "continuous", "perqubit"):
        for _ in range(ctx.n(150, 800)):
            cands.append(gen_case(rng, flavor))
    for _ in range(ctx.n(150, 600)):
        cands.append(gen_history(rng))
    for _ in range(ctx.n(60, 300)):
        cands.append(gen_processor(rng))
    for case in cands:
        try:
            fails = [f for _, _, fs, _ in judge_steps(case) for f in fs]
        except Exception:
            continue
        for f in fails:
            out.append(dict(input=case, observed=f, expected=f.get("want"), what="C12 oracle: " + f["kind"]))
        if len(out) > 40:
            break
    # smallest inputs first so that the replay is readable
    out.sort(key=lambda f: len(json.dumps(f["input"])))
    return out
