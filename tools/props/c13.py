"""C13 - transpilation targets the device: native gates only, multi-qubit gates on directly coupled qubits, same unitary;
a circuit that cannot be brought into this form is refused.

Implementation under check: qutip_qip.device.ModelProcessor.transpile (+ load_circuit on a sample) of LinearSpinChain,
CircularSpinChain, SCQubits, DispersiveCavityQED.
Model: coq/Model/Transpile.v (`transpile_ops`) = the statements of transpile in the order the translator reads off the source
(Gen/Devices.v), over the C07 routing model (Model/Route.v) and the C03 decomposition model (Model/Resolve.v).

An input is {"processor": class name, "N": processor size, "M": circuit width (optional, default N),
             "gates": [[name, targets, controls, arg], ...], "measure": bool (optional),
             "native": [names] (optional: processor.native_gates is REASSIGNED to this list after construction, before transpile)}
"""
import glob
import itertools
import json
import math
import os
import sys

import numpy as np

sys.path.insert(0, os.path.dirname(os.path.dirname(os.path.abspath(__file__))))
import qoracle as Q  # noqa: E402
from common import Corr, Broken, coq_eval_many, parse_evals, VERIF  # noqa: E402
from translate import gates_tr, decompose_tr, devices_tr, spinchain_tr  # noqa: E402
from props import c03 as C3  # noqa: E402  (canonicalisation helpers of the decomposition harness; its files are not modified)

ID = "C13"
TARGETS = ["Props/C13.vo"]
TRUSTED = [
    "translator tools/translate/devices_tr.py (native_gates literal and topology_map of the four processor classes, ORDER of the "
    "statements of ModelProcessor.transpile, threshold and basis of _decompose_multi_qubit_gates -> Gen/Devices.v; fail-closed); "
    "translators of C03 (decompose_tr) and of the gate matrices (gates_tr)",
    "hand-written models coq/Model/Transpile.v (composition, conversion between the two gate records), Model/Route.v (C07) and "
    "Model/Resolve.v (C03), tied to the code by exact comparison of the gate lists returned by the real processor.transpile "
    "(names, targets, controls, argument values to 1e-12) for all four processors on every run",
    "meaning of a gate = the matrix Gate(name).get_compact_qobj() returns (Gen/Gates.v) on controls ++ targets, GLOBALPHASE(a) = e^{ia}; "
    "C09 ties these tables to the documented matrices",
    "gate attributes other than name/targets/controls/arg_value are not modelled; deep copies are value-preserving and not modelled",
    "functional extensionality (states are functions) - the only axiom",
]
ASSUMES = [
    "the model and the theorems describe the tree WITH fixes/C13-decompose-multi-qubit-gates, C13-circuit-width and C13-rzx-neighbours "
    "applied (Gen/Devices.v records the order of the passes and the per-device rules; on a tree without them `passes_fixed` / `tables_ok` "
    "do not compile and the `_refuted_unfixed` theorems apply)",
    "source gates are well-formed instances of the 20 resolvable kinds on pairwise different qubits inside the circuit",
    "RZX (native gate of SCQubits without decomposition rule) is outside the 20 kinds of the theorems; its handling (kept on "
    "neighbours, refused elsewhere) is covered by the correspondence, the oracle and transpile_refuses_unrouted",
    "parameters range over all reals through the phase-ring quantification (z_j = e^{i theta_j/4} arbitrary units)",
]

PROCESSORS = ["LinearSpinChain", "CircularSpinChain", "SCQubits", "DispersiveCavityQED"]
TOPO = {"LinearSpinChain": "linear", "CircularSpinChain": "ring", "SCQubits": "linear", "DispersiveCavityQED": "any"}
KINDS = C3.KINDS
OTHERS = dict(C3.OTHERS)
# the other library names of SWAPalpha / ISWAP: routed (fixes/C07-alias-names) but without decomposition rule -> refused
ALIASES = {"SWAPALPHA": (0, 2, 1), "iSWAP": (0, 2, 0)}
ONE = [k for k, v in KINDS.items() if v[0] + v[1] == 1]
TWO = [k for k, v in KINDS.items() if v[0] + v[1] == 2]
THREE = [k for k, v in KINDS.items() if v[0] + v[1] == 3]

# other legal native sets a processor may be given AFTER construction (virtual-Z hardware has no RX or no RY pulse; the two-qubit
# natives of the device are kept): resolve_gates must rewrite the missing rotation through the two present ones
NATIVE_SETS = {
    "SCQubits": [["RY", "RZ", "CNOT"], ["RX", "RZ", "CNOT"], ["RZ", "RY", "CNOT", "RZX"], ["RX", "RY", "RZ", "CNOT"]],
    "LinearSpinChain": [["ISWAP", "SQRTISWAP", "RY", "RZ"], ["SQRTISWAP", "ISWAP", "RX", "RY"], ["ISWAP", "RZ", "RY"]],
    "CircularSpinChain": [["ISWAP", "SQRTISWAP", "RY", "RZ"], ["SQRTISWAP", "ISWAP", "RX", "RY"], ["ISWAP", "RY", "RZ"]],
    "DispersiveCavityQED": [["SQRTISWAP", "ISWAP", "RY", "RZ"], ["SQRTISWAP", "ISWAP", "RY", "RX"], ["ISWAP", "RY", "RZ", "RX"]],
}

_gen = {}
_proc_cache = {}


def generate(ctx):
    _gen.clear()
    gates_tr.generate()
    _gen["decompose"] = decompose_tr.generate()
    _gen["devices"] = devices_tr.generate()
    spinchain_tr.generate()          # Proofs/TranspileC06.v states the C06 well-formedness of the transpiled circuit


# ------------------------------------------------------------------------------------------------
# running the real code
# ------------------------------------------------------------------------------------------------
def _width(inp):
    return int(inp.get("M", inp["N"]))


def _processor(name, N, fresh=False):
    import qutip_qip.device as dev
    if fresh:
        return getattr(dev, name)(N)
    key = (name, N)
    if key not in _proc_cache:
        _proc_cache[key] = getattr(dev, name)(N)
    return _proc_cache[key]


def _circuit(inp):
    return C3._mk_circuit(dict(N=_width(inp), gates=inp["gates"], measure=inp.get("measure")))


def run_impl(inp):
    """-> ("ok", canonical gate list, native list) | ("rejected", text, native) | ("unbuildable", text, None)"""
    import warnings
    with warnings.catch_warnings():
        warnings.simplefilter("ignore")
        try:
            proc = _processor(inp["processor"], inp["N"], fresh="native" in inp)
            if "native" in inp:
                proc.native_gates = list(inp["native"])
            qc = _circuit(inp)
        except Exception as e:
            return ("unbuildable", repr(e)[:120], None)
        native = list(proc.native_gates or [])
        try:
            res = proc.transpile(qc)
        except Exception as e:
            return ("rejected", type(e).__name__ + ": " + str(e)[:80], native)
        return ("ok", C3._canon(res.gates), native)


def run_load(inp):
    """load_circuit on a FRESH processor: "ok" | "rejected: ..." """
    import warnings
    with warnings.catch_warnings():
        warnings.simplefilter("ignore")
        try:
            proc = _processor(inp["processor"], inp["N"], fresh=True)
            if "native" in inp:
                proc.native_gates = list(inp["native"])
            qc = _circuit(inp)
        except Exception as e:
            return "unbuildable"
        try:
            proc.load_circuit(qc)
        except Exception as e:
            return "rejected: " + type(e).__name__ + ": " + str(e)[:80]
        return "ok"


# ------------------------------------------------------------------------------------------------
# the property oracle (from the property text; numpy only, nothing of the model)
# ------------------------------------------------------------------------------------------------
def well_formed(g):
    if g[0] in ALIASES:
        nc, nt, na = ALIASES[g[0]]
        a = g[3]
        n = 0 if a is None else (len(a) if isinstance(a, (list, tuple)) else 1)
        return len(g[2]) == nc and len(g[1]) == nt and n == na and len(set(list(g[1]) + list(g[2]))) == nc + nt
    return C3.well_formed(g)


def hw_coupled(proc, N, a, b):
    if a == b or not (0 <= a < N and 0 <= b < N):
        return False
    t = TOPO[proc]
    if t == "any":
        return True
    if abs(a - b) == 1:
        return True
    return t == "ring" and {a, b} == {0, N - 1}


def resolvable_on(proc, name, native):
    """can a gate of this name be brought into the native set of the processor at all?"""
    if name in native:
        return True
    if name in ("SQRTSWAP", "SQRTISWAP"):
        return False
    return name in KINDS


def _unitary_big(gates, N):
    """the matrix of Q.circuit_unitary, gate by gate on the tensor of the matrix (no 2^N x 2^N factor per gate): used from 6
    qubits on; same gate matrices (Q.np_gate), same qubit order (qubit 0 = most significant)"""
    import cmath
    U = np.eye(2 ** N, dtype=complex).reshape([2] * N + [2 ** N])
    for name, t, c, a in gates:
        args = [x.real for x in a]
        args = args if len(args) != 1 else args[0]
        if name == "GLOBALPHASE":
            U = cmath.exp(1j * (args[0] if isinstance(args, (list, tuple)) else args)) * U
            continue
        qs = list(c) + list(t)
        k = len(qs)
        G = np.asarray(Q.np_gate(name, args)).reshape([2] * (2 * k))
        U = np.tensordot(G, U, axes=(list(range(k, 2 * k)), qs))
        U = np.moveaxis(U, list(range(k)), qs)
    return U.reshape(2 ** N, 2 ** N)


def oracle(inp, impl):
    """-> list of (what, observed, expected)"""
    fails = []
    N, M, proc = inp["N"], _width(inp), inp["processor"]
    if not all(well_formed(g) for g in inp["gates"]):
        return fails                                    # ill-formed gates: only Ok/Rejected and output equality are compared
    if not all(all(0 <= q < M for q in list(g[1]) + list(g[2])) for g in inp["gates"]):
        return fails
    native = impl[2] or []
    cannot = [g[0] for g in inp["gates"] if not resolvable_on(proc, g[0], native)]
    if inp.get("measure"):
        cannot.append("measurement")
    # a native gate that has no decomposition (RZX of SCQubits) can only stay where it is: on an uncoupled pair it cannot be
    # brought into the required form
    for g in inp["gates"]:
        qs = list(g[2]) + list(g[1])
        if g[0] in native and g[0] not in KINDS and len(qs) >= 2 and not (len(qs) == 2 and hw_coupled(proc, N, qs[0], qs[1])):
            cannot.append(g[0] + " on uncoupled qubits")
    if M > N:
        cannot.append("circuit wider than the processor")
    if impl[0] == "rejected":
        if not cannot:
            fails.append(("a circuit of resolvable gates is refused by transpile", impl[1], "transpiled circuit"))
        return fails
    out = impl[1]
    if cannot:
        fails.append(("a circuit that cannot be brought into native form is not refused", dict(gate=cannot[0], output=[g[0] for g in out][:12]),
                      "an error"))
        return fails
    # 1. native gates only (plus phase / idle markers)
    bad = sorted(set(g[0] for g in out if g[0] not in set(native) | {"GLOBALPHASE", "IDLE"}))
    if bad:
        fails.append(("transpiled circuit contains non-native gates", bad, sorted(native)))
    # 2. every multi-qubit gate on directly coupled qubits of the HARDWARE (processor size N)
    for g in out:
        qs = list(g[2]) + list(g[1])
        if len(qs) >= 2 and not (len(qs) == 2 and hw_coupled(proc, N, qs[0], qs[1])):
            fails.append(("transpiled circuit has a multi-qubit gate on qubits the hardware does not couple",
                          dict(gate=g[0], qubits=qs, topology=TOPO[proc], processor_qubits=N), "directly coupled qubits"))
            break
        if any(not (0 <= q < N) for q in qs):
            fails.append(("transpiled circuit uses a qubit the processor does not have", dict(gate=g[0], qubits=qs, processor_qubits=N),
                          "qubits of the processor"))
            break
    # 3. same unitary, global phase included
    names = [g[0] for g in inp["gates"]] + [g[0] for g in out]
    if all(C3._known_for_unitary(n) for n in names):
        try:
            src = [[g[0], g[1], g[2], C3._canon_arg(C3._arg(g[3]))] for g in inp["gates"]]
            uni = C3._unitary if M < 6 else _unitary_big
            U0 = uni(src, M)
            U1 = uni(out, M)
            if not np.allclose(U0, U1, atol=1e-9):
                fails.append(("transpiled circuit has a different unitary", "max |dU| = %.3g" % float(np.max(np.abs(U0 - U1))),
                              "equal unitaries, global phase included"))
        except Exception as e:
            fails.append(("transpiled circuit cannot be evaluated", repr(e)[:200], "a unitary"))
    return fails


def oracle_load(inp, impl, load):
    """second observation point: load_circuit rejects exactly what transpile rejects (on circuits that drive at least one pulse)"""
    fails = []
    if load == "unbuildable" or not all(well_formed(g) for g in inp["gates"]):
        return fails
    if impl[0] == "rejected" and load == "ok":
        fails.append(("load_circuit compiles a circuit that transpile refuses", load, "an error"))
    if impl[0] == "ok" and load != "ok" and not oracle(inp, impl):
        if any(g[0] not in ("GLOBALPHASE", "IDLE") for g in impl[1]):      # C06 finding: an empty pulse table cannot be stored
            fails.append(("load_circuit refuses a circuit whose transpiled form meets the device", load, "compiled pulses"))
    return fails


# ------------------------------------------------------------------------------------------------
# Coq side
# ------------------------------------------------------------------------------------------------
HEADER = C3.HEADER.replace("Model.Resolve.", "Model.Resolve Model.TranspileTypes Gen.Devices Model.Transpile.") + r"""
Definition run13 (p : string) (Ndev M : nat) (ops : list op) :=
  match device_of p with Some d => dump (transpile_ops d Ndev M ops) | None => None end.
(* the same device after `processor.native_gates = nat` *)
Definition run13n (p : string) (nl : list string) (Ndev M : nat) (ops : list op) :=
  match device_of p with
  | Some d => dump (transpile_ops (mkDev (dname d) (Some nl) (dtopo d) (dnarrow d) (dunrouted d)) Ndev M ops)
  | None => None end.
"""


def _safe(inp):
    ok = lambda s: isinstance(s, str) and all(ch.isalnum() or ch == "_" for ch in s)
    if "native" in inp and not (isinstance(inp["native"], list) and all(ok(x) for x in inp["native"])):
        return False
    return (inp.get("processor") in PROCESSORS and 0 < inp["N"] <= 12 and 0 < _width(inp) <= 12
            and all(ok(g[0]) and all(isinstance(x, int) and 0 <= x < 64 for x in list(g[1]) + list(g[2])) for g in inp["gates"]))


_model_runs = [0]


def run_model(inputs):
    # case files are named per process and per call: concurrent checks sharing a Coq tree must not overwrite each other's
    _model_runs[0] += 1
    tag = f"c13_{os.getpid()}_{_model_runs[0]}"
    files = []
    for k in range(0, len(inputs), 300):
        body = [HEADER]
        for inp in inputs[k:k + 300]:
            ops = [C3._cgate(i, g) for i, g in enumerate(inp["gates"])]
            if inp.get("measure"):
                ops.append("OpMeasure")
            if "native" in inp:
                nat = "[" + "; ".join('"%s"' % x for x in inp["native"]) + "]"
                body.append(f'Eval vm_compute in run13n "{inp["processor"]}" {nat} {int(inp["N"])}%nat {_width(inp)}%nat [{"; ".join(ops)}].')
                continue
            body.append(f'Eval vm_compute in run13 "{inp["processor"]}" {int(inp["N"])}%nat {_width(inp)}%nat [{"; ".join(ops)}].')
        files.append((f"{tag}_{k // 300}", "\n".join(body) + "\n"))
    try:
        outs = coq_eval_many(files, timeout=900)
    finally:
        import common as _c
        for name, _ in files:
            for ext in (".v", ".vo", ".vok", ".vos", ".glob"):
                try:
                    os.remove(os.path.join(_c.COQ, "Cases", name + ext))
                except OSError:
                    pass
            try:
                os.remove(os.path.join(_c.COQ, "Cases", "." + name + ".aux"))
            except OSError:
                pass
    vals = []
    for name, _ in files:
        vals += parse_evals(outs[name])
    if len(vals) != len(inputs):
        raise Broken("correspondence:c13-cases", f"{len(vals)} results for {len(inputs)} cases")
    return vals


# ------------------------------------------------------------------------------------------------
# generators
# ------------------------------------------------------------------------------------------------
def _place(name, M, p):
    nc, nt, _ = KINDS.get(name) or OTHERS[name]
    return list(p[nc:nc + nt]), list(p[:nc])


def gen_inputs(ctx):
    rng = ctx.rng
    out = []
    sizes = {"LinearSpinChain": [1, 2, 3, 4, 5], "CircularSpinChain": [2, 3, 4, 5], "SCQubits": [1, 2, 3, 4, 5],
             "DispersiveCavityQED": [1, 2, 3, 4, 5]}
    # 1. every kind on every processor, 1-5 qubits: two-qubit gates on EVERY ordered pair (= every distance, both directions),
    #    three-qubit gates on every ordered triple (thorough) or a sample, one-qubit gates on a sample of positions
    for proc in PROCESSORS:
        for N in sizes[proc]:
            for name in TWO:
                for p in itertools.permutations(range(N), 2):
                    t, c = _place(name, N, p)
                    out.append(("pair", dict(processor=proc, N=N, gates=[C3.mk_gate(name, t, c, rng)])))
            for name in THREE:
                trip = list(itertools.permutations(range(N), 3))
                if not ctx.thorough and len(trip) > 6:
                    trip = rng.sample(trip, 6)
                for p in trip:
                    t, c = _place(name, N, p)
                    out.append(("triple", dict(processor=proc, N=N, gates=[C3.mk_gate(name, t, c, rng)])))
            for name in ONE + ["GLOBALPHASE"]:
                for q in (range(N) if ctx.thorough else [rng.randrange(N)]):
                    t, c = ([], []) if name == "GLOBALPHASE" else ([q], [])
                    out.append(("single", dict(processor=proc, N=N, gates=[C3.mk_gate(name, t, c, rng)])))
    # 2. random sequences mixing all kinds (three-qubit gates and far pairs weighted up)
    pool = ONE * 2 + TWO * 4 + THREE * 4 + ["GLOBALPHASE"]
    for _ in range(ctx.n(160, 700)):
        proc = rng.choice(PROCESSORS)
        N = rng.choice(sizes[proc])
        gs = []
        for _ in range(rng.randint(1, 5)):
            name = rng.choice(pool)
            k = KINDS[name]
            if k[0] + k[1] > N:
                continue
            if name == "SQRTSWAP" or (name == "SQRTISWAP" and proc == "SCQubits"):
                if rng.random() < 0.9:
                    continue
            p = rng.sample(range(N), k[0] + k[1])
            t, c = _place(name, N, p)
            gs.append(C3.mk_gate(name, t, c, rng))
        if gs:
            out.append(("sequence", dict(processor=proc, N=N, gates=gs)))
    # 3. circuits that must be refused: gates without a rule, SQRTSWAP, SQRTISWAP on SCQubits, measurements
    for proc in PROCESSORS:
        for name in list(OTHERS) + ["SQRTSWAP", "SQRTISWAP"]:
            N = rng.choice([n for n in sizes[proc] if n >= 2])
            k = KINDS.get(name) or OTHERS[name]
            p = rng.sample(range(N), k[0] + k[1])
            t, c = _place(name, N, p)
            g = C3.mk_gate(name, t, c, rng)
            pre = [C3.mk_gate("RX", [0], [], rng)] if rng.random() < 0.5 else []
            out.append(("refuse", dict(processor=proc, N=N, gates=pre + [g])))
        for name, (nc, nt, na) in ALIASES.items():
            for N in (2, 3, 4, 5):
                for p in ([(0, N - 1), (N - 1, 0)] + [tuple(rng.sample(range(N), 2))]):
                    pre = [C3.mk_gate("RX", [0], [], rng)] if rng.random() < 0.3 else []
                    out.append(("refuse", dict(processor=proc, N=N, gates=pre + [[name, list(p), [], (0.5 if na else None)]])))
        out.append(("refuse", dict(processor=proc, N=2, gates=[["X", [0], [], None]], measure=True)))
        out.append(("refuse", dict(processor=proc, N=3, gates=[["CNOT", [0], [2], None]], measure=True)))
    # 4. circuit narrower / wider than the processor: the end pair (0, M-1) of the circuit (its own wrap-around pair), every
    #    other ordered pair (thorough) or a sample, three-qubit gates, short sequences
    for proc in PROCESSORS:
        for N, M in ((5, 3), (5, 4), (4, 2), (4, 3), (3, 2), (5, 2), (2, 1), (3, 5), (2, 4), (3, 4), (1, 2), (4, 5)):
            if N not in sizes[proc]:
                continue
            for name in ("CNOT", "CSIGN", "ISWAP", "SWAP", "SQRTISWAP"):
                if M < 2:
                    continue
                pairs = list(itertools.permutations(range(M), 2))
                chosen = [(0, M - 1), (M - 1, 0)] + (pairs if ctx.thorough else rng.sample(pairs, min(2, len(pairs))))
                for p in chosen:
                    t, c = _place(name, M, p)
                    out.append(("width", dict(processor=proc, N=N, M=M, gates=[C3.mk_gate(name, t, c, rng)])))
            if M >= 3:
                for name in THREE:
                    p = rng.sample(range(M), 3)
                    t, c = _place(name, M, p)
                    out.append(("width", dict(processor=proc, N=N, M=M, gates=[C3.mk_gate(name, t, c, rng)])))
            gs = []
            for _ in range(3):
                name = rng.choice(ONE + TWO)
                k = KINDS[name]
                if k[0] + k[1] > M or name == "SQRTSWAP" or (name == "SQRTISWAP" and proc == "SCQubits"):
                    continue
                t, c = _place(name, M, rng.sample(range(M), k[0] + k[1]))
                gs.append(C3.mk_gate(name, t, c, rng))
            if gs:
                out.append(("width", dict(processor=proc, N=N, M=M, gates=gs)))
    # 4b. RZX: native gate of SCQubits without decomposition rule - kept on neighbours, refused elsewhere; not native elsewhere
    for proc in PROCESSORS:
        for N in (2, 3, 4, 5):
            pairs = list(itertools.permutations(range(N), 2))
            for p in (pairs if (proc == "SCQubits" or ctx.thorough) else rng.sample(pairs, 2)):
                pre = [C3.mk_gate("RY", [rng.randrange(N)], [], rng)] if rng.random() < 0.4 else []
                post = [C3.mk_gate("CNOT", [p[0]], [p[1]], rng)] if rng.random() < 0.3 else []
                out.append(("rzx", dict(processor=proc, N=N, gates=pre + [["RZX", list(p), [], rng.choice(C3.ANGLES)]] + post)))
        out.append(("rzx", dict(processor=proc, N=5, M=3, gates=[["RZX", [0, 2], [], 0.5]])))
        out.append(("rzx", dict(processor=proc, N=5, M=3, gates=[["RZX", [2, 1], [], 0.5]])))
    # 4c. larger rings: CNOT / CSIGN whose shorter way leads through the closing edge (index distance > N//2; wrap-around paths of
    #     2, 3 and more edges exist only from 7 qubits on), both directions; exchange-type gates on a sample of these pairs
    for N in (7, 8):
        back = [(a, b) for a in range(N) for b in range(N) if abs(a - b) > N // 2]
        for p in back:
            for name in ("CNOT", "CSIGN"):
                t, c = _place(name, N, p)
                out.append(("bigring", dict(processor="CircularSpinChain", N=N, gates=[C3.mk_gate(name, t, c, rng)])))
        for p in rng.sample(back, 3):
            t, c = _place("ISWAP", N, p)
            out.append(("bigring", dict(processor="CircularSpinChain", N=N, gates=[C3.mk_gate("ISWAP", t, c, rng)])))
        p = rng.choice(back)
        out.append(("bigring", dict(processor="LinearSpinChain", N=N, gates=[C3.mk_gate("CNOT", [p[0]], [p[1]], rng)])))
    # 4d. native_gates reassigned after construction to another legal set (no RX / no RY / other order): every one-qubit kind,
    #     the two-qubit kinds that are resolved through one-qubit rotations, short sequences
    for proc in PROCESSORS:
        for nat in NATIVE_SETS[proc]:
            for name in ONE + ["GLOBALPHASE"]:
                N = rng.choice([1, 2, 3])
                t, c = ([], []) if name == "GLOBALPHASE" else ([rng.randrange(N)], [])
                out.append(("native", dict(processor=proc, N=N, native=nat, gates=[C3.mk_gate(name, t, c, rng)])))
            for name in ("CNOT", "CSIGN", "ISWAP", "SWAP", "SQRTISWAP", "CPHASE", "TOFFOLI"):
                k = KINDS.get(name)
                if k is None:
                    continue
                N = 3
                t, c = _place(name, N, rng.sample(range(N), k[0] + k[1]))
                out.append(("native", dict(processor=proc, N=N, native=nat, gates=[C3.mk_gate(name, t, c, rng)])))
            for _ in range(3):
                N = rng.choice([2, 3, 4])
                gs = []
                for _ in range(rng.randint(2, 4)):
                    name = rng.choice(ONE * 2 + ["CNOT", "CSIGN", "ISWAP"])
                    k = KINDS[name]
                    t, c = _place(name, N, rng.sample(range(N), k[0] + k[1]))
                    gs.append(C3.mk_gate(name, t, c, rng))
                out.append(("native", dict(processor=proc, N=N, native=nat, gates=gs)))
    # 5. malformed gates (Ok/Rejected and output equality only)
    mal = [
        [["TOFFOLI", [2], [0], None]], [["TOFFOLI", [2], [], None]], [["FREDKIN", [1], [0], None]], [["SWAP", [1], [], None]],
        [["CNOT", [1], [], None]], [["CNOT", [], [1], None]], [["ISWAP", [], [], None]], [["PHASEGATE", [1], [], None]],
        [["CSIGN", [0, 2], [], None]], [["RX", [0, 2], [1], 0.5]], [["X", [1], [0], None]], [["CNOT", [2], [0], 0.5]],
        [["ISWAP", [0, 2], [], 0.25]], [["TOFFOLI", [0], [1, 2], 0.5]], [["GLOBALPHASE", [1], [0], 0.5]], [["SWAP", [0, 1, 2], [], None]],
        [["RZX", [0, 2], [], 0.5]], [["RZX", [1, 2], [], 0.5]], [],
    ]
    for proc in PROCESSORS:
        for gs in mal:
            out.append(("malformed", dict(processor=proc, N=3, gates=gs)))
    return out


# ------------------------------------------------------------------------------------------------
# histories: ONE processor, circuit objects that are edited IN PLACE between transpile calls
# ------------------------------------------------------------------------------------------------
# {"processor", "N", "M"?, "history": [{"gates": [...], "how": "new" | "attr" | "replace" | "rebuild" | "same", "load": bool}, ...]}
#   how = how the circuit object of the previous step becomes the circuit of this step:
#     new      a fresh QubitCircuit object (the processor is reused)
#     same     the very same object, untouched
#     attr     the same object; gates that differ are edited through their attributes (arg_value, targets, controls) when the
#              name is unchanged, otherwise the list entry is replaced (qc.gates[k] = other gate); same number of gates
#     replace  the same object; every differing list entry is replaced by a new Gate; same number of gates
#     rebuild  the same object; qc.gates[:] = new gates (any length)
#   load = call processor.load_circuit(qc) after the transpile of this step (it transpiles again internally)
#   native = [names]: processor.native_gates is reassigned to this list before the transpile of this step (and stays)
# Every transpile is compared with the HISTORY-FREE model and judged by the oracle against the circuit AS IT IS at that call.
def _step_inp(inp, k):
    d = dict(processor=inp["processor"], N=inp["N"], gates=inp["history"][k]["gates"])
    for st in inp["history"][:k + 1]:
        if "native" in st:
            d["native"] = st["native"]
    if "M" in inp:
        d["M"] = inp["M"]
    return d


def _apply_edit(qc, prev, step, M):
    new_gates = C3._mk_circuit(dict(N=M, gates=step["gates"])).gates
    how = step["how"]
    if how == "same":
        return
    if how == "rebuild" or len(prev) != len(step["gates"]):
        qc.gates[:] = new_gates
        return
    for i, (old, new) in enumerate(zip(prev, step["gates"])):
        if old == new:
            continue
        if how == "attr" and old[0] == new[0]:
            g = qc.gates[i]
            g.arg_value = new_gates[i].arg_value
            g.targets = new_gates[i].targets
            g.controls = new_gates[i].controls
        else:
            qc.gates[i] = new_gates[i]


def run_history(inp):
    """-> one run_impl-style result per step"""
    import warnings
    res = []
    with warnings.catch_warnings():
        warnings.simplefilter("ignore")
        try:
            proc = _processor(inp["processor"], inp["N"], fresh=True)
        except Exception as e:
            return [("unbuildable", repr(e)[:120], None)] * len(inp["history"])
        native = list(proc.native_gates or [])
        qc, prev = None, None
        M = _width(inp)
        for step in inp["history"]:
            try:
                if qc is None or step["how"] == "new":
                    qc = C3._mk_circuit(dict(N=M, gates=step["gates"]))
                else:
                    _apply_edit(qc, prev, step, M)
            except Exception as e:
                res.append(("unbuildable", repr(e)[:120], None))
                qc, prev = None, None
                continue
            prev = step["gates"]
            if "native" in step:
                proc.native_gates = list(step["native"])
                native = list(proc.native_gates)
            try:
                out = proc.transpile(qc)
                res.append(("ok", C3._canon(out.gates), native))
            except Exception as e:
                res.append(("rejected", type(e).__name__ + ": " + str(e)[:80], native))
            if step.get("load"):
                try:
                    proc.load_circuit(qc)
                except Exception:
                    pass
    return res


def history_fails(inp):
    """oracle failures of every step: [(step, what, observed, expected)]"""
    out = []
    for k, impl in enumerate(run_history(inp)):
        if impl[0] == "unbuildable":
            continue
        for what, obs, exp in oracle(_step_inp(inp, k), impl):
            out.append((k, what + " (call %d of a history on one processor; the circuit object was edited in place)" % (k + 1), obs, exp))
    return out


def _edit(gs, N, rng, kind):
    """a variant of the gate list gs (same length unless kind is append/pop)"""
    gs = [list(g) for g in gs]
    idx = list(range(len(gs)))
    rng.shuffle(idx)
    if kind == "angle":
        for i in idx:
            if KINDS[gs[i][0]][2] == 1:
                old = gs[i][3]
                new = rng.choice([a for a in C3.ANGLES if a != old])
                gs[i] = [gs[i][0], gs[i][1], gs[i][2], new]
                return gs
    if kind == "retarget":
        for i in idx:
            k = KINDS[gs[i][0]]
            if 0 < k[0] + k[1] <= N:
                for _ in range(6):
                    p = rng.sample(range(N), k[0] + k[1])
                    t, c = _place(gs[i][0], N, p)
                    if (t, c) != (gs[i][1], gs[i][2]):
                        gs[i] = [gs[i][0], t, c, gs[i][3]]
                        return gs
    if kind == "pop" and len(gs) > 1:
        gs.pop(rng.randrange(len(gs)))
        return gs
    # replace / append (also the fallback)
    for _ in range(8):
        name = rng.choice(ONE + ["CNOT", "CSIGN", "ISWAP", "SWAP", "TOFFOLI", "FREDKIN"])
        k = KINDS[name]
        if k[0] + k[1] <= N:
            break
    else:
        name, k = "RX", KINDS["RX"]
    t, c = _place(name, N, rng.sample(range(N), k[0] + k[1]))
    g = C3.mk_gate(name, t, c, rng)
    if kind == "append":
        gs.append(g)
    else:
        gs[rng.randrange(len(gs))] = g
    return gs


def gen_histories(ctx):
    rng = ctx.rng
    out = []
    sizes = {"LinearSpinChain": [2, 3, 4, 5], "CircularSpinChain": [2, 3, 4, 5], "SCQubits": [2, 3, 4, 5], "DispersiveCavityQED": [2, 3, 4, 5]}
    # the variational sweep: one rotation angle updated in place, on every processor
    for proc in PROCESSORS:
        base = [["RX", [0], [], 0.3], ["CNOT", [2], [0], None], ["RZ", [2], [], 0.5], ["ISWAP", [1, 2], [], None]]
        if proc == "SCQubits":
            base[3] = ["CSIGN", [1], [2], None]
        hs = [dict(gates=base, how="new")]
        for th in (1.1, 2.0):
            hs.append(dict(gates=[["RX", [0], [], th]] + base[1:], how="attr"))
        out.append(dict(processor=proc, N=3, history=hs))
    pool = ONE * 2 + ["CNOT", "CSIGN", "ISWAP", "SWAP", "TOFFOLI", "FREDKIN", "RX", "RZ", "PHASEGATE"]
    for _ in range(ctx.n(70, 500)):
        proc = rng.choice(PROCESSORS)
        N = rng.choice(sizes[proc])
        M = N if rng.random() < 0.85 else rng.randrange(1, N + 1)
        gs = []
        while len(gs) < rng.randint(2, 4):
            name = rng.choice(pool)
            k = KINDS[name]
            if k[0] + k[1] > M:
                continue
            t, c = _place(name, M, rng.sample(range(M), k[0] + k[1]))
            gs.append(C3.mk_gate(name, t, c, rng))
        if not any(KINDS[g[0]][2] == 1 for g in gs):
            gs[0] = C3.mk_gate("RX", [rng.randrange(M)], [], rng)
        hs = [dict(gates=gs, how="new", load=rng.random() < 0.15)]
        cur = gs
        for _ in range(rng.randint(2, 4)):
            kind = rng.choice(["angle", "angle", "retarget", "replace", "append", "pop", "same", "new", "newsame"])
            if kind == "same":
                hs.append(dict(gates=cur, how="same"))
                continue
            if kind == "newsame":
                hs.append(dict(gates=cur, how="new"))
                continue
            nxt = _edit(cur, M, rng, "replace" if kind == "new" else kind)
            if kind == "new":
                how = "new"
            elif len(nxt) != len(cur):
                how = "rebuild"
            else:
                how = rng.choice(["attr", "attr", "replace", "rebuild"])
            hs.append(dict(gates=nxt, how=how, load=rng.random() < 0.15))
            cur = nxt
        if rng.random() < 0.3:      # the native set is changed between two calls (and stays changed)
            hs[rng.randrange(len(hs))]["native"] = rng.choice(NATIVE_SETS[proc])
        h = dict(processor=proc, N=N, history=hs)
        if M != N:
            h["M"] = M
        out.append(h)
    return out


def check_histories(corr, hists):
    """run the histories, compare every call with the history-free model and the oracle"""
    flat, where = [], []
    impls = []
    for h in hists:
        if not all(_safe(_step_inp(h, k)) for k in range(len(h["history"]))):
            continue
        res = run_history(h)
        for k, impl in enumerate(res):
            if impl[0] == "unbuildable":
                continue
            flat.append(_step_inp(h, k))
            where.append((h, k))
            impls.append(impl)
    if not flat:
        return
    vals = run_model(flat)
    for inp, (h, k), impl, val in zip(flat, where, impls, vals):
        corr.tally("history-call")
        corr.tally("history:" + h["history"][k]["how"])
        if "native" in inp:
            corr.tally("history:native-reassigned")
        corr.count(_key(dict(h=h, k=k)), nontrivial=(k > 0), sample=h if k == 1 and len(corr.samples) < 5 else None)
        hin = dict(h, step=k)
        try:
            model = C3.model_out(val, inp)
        except Exception as e:
            corr.disagree(hin, _show(impl), repr(val)[:300], f"model output not interpretable: {e!r}")
            continue
        if not C3.same(impl[:2], model):
            corr.disagree(hin, _show(impl), C3._show(model),
                          "processor.transpile output (call %d of a history on one processor) differs from the history-free Model/Transpile.v" % (k + 1))
        for what, obs, exp in oracle(inp, impl):
            corr.oracle_fail(hin, obs, exp, what + " (call %d of a history on one processor; the circuit object was edited in place)" % (k + 1))


def load_corpus():
    out = []
    for p in sorted(glob.glob(os.path.join(VERIF, "corpus", "C13", "*.json"))):
        try:
            d = json.load(open(p))
            out.append(("corpus", d.get("input", d)))
        except Exception:
            pass
    return out


# ------------------------------------------------------------------------------------------------
# harness entry points
# ------------------------------------------------------------------------------------------------
def _key(inp):
    return json.dumps(inp, sort_keys=True)


def _nontrivial(inp, impl):
    return impl[0] != "ok" or any(len(list(g[1]) + list(g[2])) >= 2 for g in inp["gates"])


def _show(r):
    return C3._show(r[:2])


def correspond(ctx):
    corr = Corr(rule="four processors x 1-5 qubits: every two-qubit kind on every ordered pair (every distance, both directions), "
                     "three-qubit kinds on ordered triples, one-qubit kinds, random mixed sequences, refused circuits (no rule, SQRTSWAP, "
                     "measurement), circuits narrower/wider than the processor, RZX, malformed gates, CNOT/CSIGN/ISWAP through the closing edge of 7-8 qubit rings, native_gates reassigned after construction to other legal sets (no RX / no RY); histories of 3-5 transpile calls on ONE "
                     "processor with the circuit object edited in place between the calls (angle, qubits, gate replaced, gates added/removed, "
                     "untouched, fresh object), each call against the history-free model; non-trivial = the circuit holds a gate on two or "
                     "more qubits or is refused / a later call of a history")
    seen = set()
    cases = []
    corpus = load_corpus()
    hists = [inp for _, inp in corpus if "history" in inp]
    for kind, inp in [x for x in corpus if "history" not in x[1]] + gen_inputs(ctx):
        k = _key(inp)
        if k in seen or not _safe(inp):
            continue
        seen.add(k)
        impl = run_impl(inp)
        if impl[0] == "unbuildable":
            continue
        cases.append((kind, inp, impl))
    vals = run_model([c[1] for c in cases])
    n_load = 0
    for (kind, inp, impl), val in zip(cases, vals):
        corr.tally(kind)
        corr.tally("result:" + impl[0])
        corr.tally(inp["processor"])
        corr.count(_key(inp), nontrivial=_nontrivial(inp, impl), sample=inp if kind == "sequence" else None)
        try:
            model = C3.model_out(val, inp)
        except Exception as e:
            corr.disagree(inp, _show(impl), repr(val)[:300], f"model output not interpretable: {e!r}")
            continue
        if not C3.same(impl[:2], model):
            corr.disagree(inp, _show(impl), C3._show(model), "processor.transpile output differs from Model/Transpile.v")
        fails = oracle(inp, impl)
        for what, obs, exp in fails:
            corr.oracle_fail(inp, obs, exp, what)
        # second observation point on a sample (fresh processor each time)
        if kind in ("triple", "refuse", "width", "rzx", "sequence", "corpus") and n_load < ctx.n(60, 400) and ctx.rng.random() < 0.5:
            n_load += 1
            corr.tally("load_circuit")
            for what, obs, exp in oracle_load(inp, impl, run_load(inp)):
                corr.oracle_fail(inp, obs, exp, what)
    # histories on one processor with in-place edits of the circuit object between the calls
    check_histories(corr, hists + gen_histories(ctx))
    corr.extra["translated"] = _gen.get("devices", {})
    return corr


def obligations(ctx):
    # generated boolean obligations behind the theorems: emitted-gate shape per (native configuration, gate kind) = 2 x 20,
    # device table validity (4), parameter-free matrices of the six routed gate kinds (6), pulse-gate table of C06 (4),
    # rules of all routed names (8)
    return 40 + 4 + 6 + 4 + 8


def classify(f):
    inp = f.get("input") or {}
    what = f.get("what", "")
    obs = f.get("observed")
    if not isinstance(inp, dict) or "processor" not in inp or "gates" not in inp:
        return None
    coupling = what in ("transpiled circuit has a multi-qubit gate on qubits the hardware does not couple",
                        "transpiled circuit uses a qubit the processor does not have")
    if coupling and _width(inp) != inp["N"] and all((KINDS.get(g[0]) or (0, 9))[0] + (KINDS.get(g[0]) or (0, 9))[1] <= 2 for g in inp["gates"]):
        return "circuit-width-differs"
    if coupling and inp["processor"] == "SCQubits" and isinstance(obs, dict) and obs.get("gate") == "RZX" \
            and any(g[0] == "RZX" for g in inp["gates"]):
        return "scqubits-rzx-not-routed"
    return None


def _fails(inp):
    if "history" in inp:
        return [(what, obs, exp) for _, what, obs, exp in history_fails(inp)]
    impl = run_impl(inp)
    if impl[0] == "unbuildable":
        return []
    return oracle(inp, impl)


def replay(ctx, rec):
    inp = rec.get("input", rec)
    return bool(_fails(inp))


def search(ctx, broken):
    """an obligation broke and the correspondence run produced no oracle failure: hunt with the oracle alone"""
    out = []
    seen = set()
    cands = [inp for _, inp in load_corpus()]
    # histories first: state kept by the processor between calls is invisible to single calls
    class T:
        rng = ctx.rng
        thorough = False

        def n(self, q, t):
            return q
    cands += gen_histories(T())
    for proc in PROCESSORS:
        for N in (3, 4, 5):
            for name in THREE + TWO:
                k = KINDS[name]
                for p in itertools.permutations(range(N), k[0] + k[1]):
                    t, c = _place(name, N, p)
                    cands.append(dict(processor=proc, N=N, gates=[[name, t, c, None]]))
    for inp in cands:
        for what, obs, exp in _fails(inp):
            f = dict(input=inp, observed=obs, expected=exp, what=what)
            key = (what.split(" (call ")[0] + (" [history]" if "history" in inp else ""), classify(f))
            if key not in seen:
                seen.add(key)
                out.append(f)
        if len(out) >= 6:
            break
    return out
