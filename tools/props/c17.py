"""C17 - single-qubit decompositions and QFT circuits are exact.  See DESIGN.md section 5 (C17).

Model side (what the theorems of coq/Props/C17.v are about):
  Gen/SingleQubit.v  (generated here from decompose_single_qubit_gate.py): the angle arithmetic of _angles_for_ZYZ and
                     the gate tuples of the three methods;   Gen/Gates.v (generated): the gate matrices;
  Model/SingleQubit.v: preparation of the arguments of cmath.phase/np.sqrt/np.arctan2, ordered product of a tuple;
  Model/Qft.v:       qft_gate_sequence / _cphase_to_cnot / qft_steps as functions of (N, swapping, to_cnot).
Correspondence: the Coq terms are evaluated by vm_compute and compared with what the real functions return
(gate names, targets, controls, argument values; step matrices).  Oracle: numpy products of independently written
matrices (tools/qoracle.py) against the input unitary / the DFT matrix, global phase included.
"""
import cmath
import math
import os
import sys
from fractions import Fraction

import numpy as np

sys.path.insert(0, os.path.dirname(os.path.dirname(os.path.abspath(__file__))))
import qoracle as Q  # noqa: E402
from common import Corr, Broken, coq_eval, parse_evals, VERIF  # noqa: E402
from translate import gates_tr, c17_tr  # noqa: E402

ID = "C17"
TARGETS = ["Props/C17.vo"]
TRUSTED = [
    "translators tools/translate/c17_tr.py (gate tuples + angle arithmetic of decompose_single_qubit_gate.py) and "
    "tools/translate/gates_tr.py (gate matrices): Python ast -> Found.Sym expression trees, fail-closed",
    "EXTERNAL numeric functions are Section variables of the Euler theorems, assumed to satisfy: cmath.phase: z = |z| cis(phase z); "
    "complex np.sqrt: s*s = z; np.arctan2: cos/sin(atan2 y x) = x/r, y/r (r = sqrt(x^2+y^2) > 0); np.absolute = modulus; "
    "np.linalg.det = 2x2 determinant; validated numerically on every input of every run",
    "Model/SingleQubit.v [prims] mirrors by hand the five statements of _angles_for_ZYZ that prepare those functions' arguments "
    "(the translator refuses if their source text changes)",
    "Model/Qft.v is a hand model of qft_gate_sequence/_cphase_to_cnot/qft_steps, tied by exact comparison of the generated gate "
    "lists and step matrices for N = 1..7 (quick) / 1..9 (thorough), all options; the options mean their TRUTHINESS (model: bool), "
    "checked with the options spelled True/False, 1/0 and numpy.bool_",
    "Model/Qft.v [rot_angles]: _angles_for_ZYZ(diag(1, e^{i phi})) = (phi/2, 0, phi/2, phi/2) for phi = pi/2^k (principal values of "
    "phase/sqrt/arctan2; cannot follow from the specifications above, which fix angles only mod 2 pi) - validated for k = 1..40",
    "real and complex analysis of Coq's standard library + Coquelicot (classical reals); IEEE round-off, Qobj.isunitary tolerance "
    "and conditioning near 1e-12 are not modelled (numeric oracle only)",
    "QFT = DFT is proved for ALL N by induction (Proofs/QftGen.v) over the complex semantics of the MODEL's gate list; additionally "
    "re-proved for N <= 5 by symbolic table computation; the running code is compared with the DFT numerically for N <= 7/9",
]
ASSUMES = ["U ranges over all complex 2x2 matrices with U^dagger U = 1 (exactly)",
           "angles of QFT gates are the exact reals n*pi/2^d"]

METHODS = ["ZYZ", "ZXZ", "ZYZ_PauliX"]
PROMISED = {"ZYZ": {"RZ", "RY", "GLOBALPHASE"}, "ZXZ": {"RZ", "RX", "GLOBALPHASE"},
            "ZYZ_PauliX": {"RZ", "RY", "X", "GLOBALPHASE"}}
TOL = 1e-9


def generate(ctx):
    gates_tr.generate()
    c17_tr.generate()


# ------------------------------------------------------------------------------------------------
# evaluation of Coq-printed `ex` terms
def ev_ex(t, env):
    if isinstance(t, str):
        if t == "Pi":
            return math.pi
        raise ValueError(t)
    tag = t[0]
    if tag == "Num":
        return float(t[1])
    if tag == "Var":
        return env[t[1]]
    if tag == "Neg":
        return -ev_ex(t[1], env)
    a, b = ev_ex(t[1], env), ev_ex(t[2], env)
    return {"Add": a + b, "Sub": a - b, "Mul": a * b, "Div": a / b if tag == "Div" else None}[tag]


def ang_val(enc):
    return None if not enc else enc[0] * math.pi / 2.0 ** enc[1]


# ------------------------------------------------------------------------------------------------
# inputs
def haar(rng):
    z = np.array([[complex(rng.gauss(0, 1), rng.gauss(0, 1)) for _ in range(2)] for _ in range(2)])
    qm, r = np.linalg.qr(z)
    d = np.diag(r)
    return qm * (d / abs(d))


def rz(t):
    return np.array([[cmath.exp(-0.5j * t), 0], [0, cmath.exp(0.5j * t)]])


def ry(t):
    return np.array([[math.cos(t / 2), -math.sin(t / 2)], [math.sin(t / 2), math.cos(t / 2)]], dtype=complex)


def families(rng, per):
    """(kind, U) for the measure-zero families where the angle extraction degenerates"""
    out = []
    grid = [k * math.pi / 4 for k in range(-4, 5)]

    def ang():
        return rng.choice(grid) if rng.random() < 0.5 else rng.uniform(-math.pi, math.pi)
    for _ in range(per):
        a, b, g = ang(), ang(), ang()
        zs = rng.choice([0.0, -0.0])
        out.append(("diagonal", np.array([[cmath.exp(1j * a), zs], [zs, cmath.exp(1j * b)]])))
        out.append(("antidiagonal", np.array([[zs, cmath.exp(1j * a)], [cmath.exp(1j * b), zs]])))
        out.append(("scalar", cmath.exp(1j * a) * np.eye(2, dtype=complex)))
        # determinant -1: e^{ig} * [[x, y], [conj y, -conj x]]
        V = haar(rng)
        x, y = V[0, 0], V[0, 1]
        n = math.sqrt(abs(x) ** 2 + abs(y) ** 2)
        out.append(("det-1", np.array([[x, y], [np.conj(y), -np.conj(x)]]) / n))
        out.append(("det-1", np.array([[math.cos(a), math.sin(a)], [math.sin(a), -math.cos(a)]], dtype=complex)))
        eps = rng.choice([1e-12, 1e-13, 3e-13, 1e-15, 1e-30, 1e-300])
        out.append(("near-diagonal", cmath.exp(1j * g) * rz(a) @ ry(eps) @ rz(b)))
        out.append(("near-antidiagonal", cmath.exp(1j * g) * rz(a) @ ry(math.pi - eps) @ rz(b)))
        out.append(("det-near-negative-real", cmath.exp(0.5j * (math.pi - eps * rng.choice([1, -1]))) * rz(a) @ ry(b) @ rz(g)))
    named = {"I": np.eye(2), "X": [[0, 1], [1, 0]], "Y": [[0, -1j], [1j, 0]], "Z": [[1, 0], [0, -1]],
             "H": np.array([[1, 1], [1, -1]]) / math.sqrt(2), "S": [[1, 0], [0, 1j]], "T": [[1, 0], [0, cmath.exp(0.25j * math.pi)]],
             "-I": -np.eye(2), "iI": 1j * np.eye(2), "-iX": [[0, -1j], [-1j, 0]],
             "negzero-diag": [[complex(1, -0.0), complex(-0.0, 0.0)], [complex(-0.0, -0.0), complex(-1.0, 0.0)]],
             "negzero-anti": [[complex(-0.0, -0.0), complex(0, 1)], [complex(0, 1), complex(-0.0, 0.0)]]}
    for k, v in named.items():
        out.append(("named:" + k, np.array(v, dtype=complex)))
    for k in range(1, 13):
        out.append(("cphase-rotation", np.array([[1, 0], [0, cmath.exp(1j * math.pi / 2 ** k)]])))
    return out


def enc_u(U):
    return [[float(np.real(U[i, j])), float(np.imag(U[i, j]))] for i in range(2) for j in range(2)]


def dec_u(e):
    return np.array([[complex(*e[0]), complex(*e[1])], [complex(*e[2]), complex(*e[3])]])


# ------------------------------------------------------------------------------------------------
# the property oracle, written from the property text; uses only public functions of the implementation
def gate_tuple(g):
    ctr = list(g.controls) if g.controls else []
    tg = list(g.targets) if g.targets is not None else []
    return g.name, tg, ctr, g.arg_value


def oracle_decompose(U, method):
    """-> (failure-or-None, returned gates as tuples)"""
    from qutip import Qobj
    from qutip_qip.decompose import decompose_one_qubit_gate
    try:
        gs = decompose_one_qubit_gate(Qobj(U), method)
    except Exception as e:
        return dict(observed=f"raised {type(e).__name__}: {e}", expected="a gate tuple", what=f"{method}: unitary input rejected"), None
    tups = [gate_tuple(g) for g in gs]
    names = [t[0] for t in tups]
    if not set(names) <= PROMISED[method]:
        return dict(observed=names, expected=sorted(PROMISED[method]), what=f"{method}: gate outside the promised axes"), tups
    if any(t[1] != [0] or t[2] for t in tups):
        return dict(observed=[(t[1], t[2]) for t in tups], expected="targets [0], no controls", what=f"{method}: wrong qubits"), tups
    P = np.eye(2, dtype=complex)      # independent matrices
    P2 = np.eye(2, dtype=complex)     # the library's own matrix of each returned Gate
    try:
        for g, (name, _, _, arg) in zip(gs, tups):
            if name == "GLOBALPHASE":
                P = cmath.exp(1j * arg) * P
                P2 = cmath.exp(1j * arg) * P2
            else:
                P = Q.np_gate(name, arg) @ P
                P2 = g.get_compact_qobj().full() @ P2
    except Exception as e:
        return dict(observed=f"raised {type(e).__name__}: {e}", expected="matrices", what=f"{method}: returned gate has no matrix"), tups
    err = float(np.abs(P - U).max())
    err2 = float(np.abs(P2 - U).max())
    if not (err <= TOL and err2 <= TOL):
        return dict(observed=dict(error=err, error_library_matrices=err2, gates=[(t[0], t[3]) for t in tups]),
                    expected="ordered product == U within 1e-9, global phase included",
                    what=f"{method}: product of the returned gates differs from the input"), tups
    return None, tups


def dft(N):
    n = 2 ** N
    j, k = np.meshgrid(np.arange(n), np.arange(n), indexing="ij")
    return np.exp(2j * math.pi * ((j * k) % n) / n) / math.sqrt(n)


def bitrev(N):
    n = 2 ** N
    P = np.zeros((n, n))
    for x in range(n):
        P[int(format(x, f"0{N}b")[::-1], 2), x] = 1
    return P


def real_sequence(N, sw, tc):
    from qutip_qip.algorithms.qft import qft_gate_sequence
    qc = qft_gate_sequence(N, swapping=sw, to_cnot=tc)
    return [gate_tuple(g) for g in qc.gates]


def seq_unitary(tups, N):
    gl = []
    for name, tg, ctr, arg in tups:
        if name == "GLOBALPHASE":
            gl.append((name, [], arg))
        else:
            gl.append((name, ctr + tg, arg))
    return Q.circuit_unitary(gl, N)


def upto_phase(U, D):
    """max error of U against c*D for the best unit scalar c; also returns c"""
    c = np.vdot(D, U)  # sum conj(D) * U
    if abs(c) < 1e-12:
        return float("inf"), 0
    c = c / abs(c)
    return float(np.abs(U - c * D).max()), c


FORMS = ("bool", "int", "npbool", "mixed")


def spell(b, form, which):
    """the option value b (truthiness) in one of the spellings callers use: True/False, 1/0, numpy.bool_"""
    if form == "int" or (form == "mixed" and which == "to_cnot"):
        return 1 if b else 0
    if form == "npbool" or (form == "mixed" and which == "swapping"):
        return np.array([1, 0])[0] == (1 if b else 0)   # numpy.bool_ from an array comparison
    return bool(b)


def oracle_qft(N, sw, tc, form="bool"):
    """-> (failure or None, real gate tuples, real step matrices); sw/tc are the TRUTH values of the options, passed to the
    implementation in the spelling `form` (the options mean their truthiness)"""
    from qutip_qip.algorithms.qft import qft, qft_steps
    try:
        tups = real_sequence(N, spell(sw, form, "swapping"), spell(tc, form, "to_cnot"))
        steps = [s.full() for s in qft_steps(N, swapping=spell(sw, form, "swapping"))]
        Fq = qft(N).full()
    except Exception as e:
        return dict(observed=f"raised {type(e).__name__}: {e}", expected="a circuit", what="QFT: valid arguments rejected"), None, None
    n = 2 ** N
    for name, tg, ctr, arg in tups:
        if name != "GLOBALPHASE" and (any(not (0 <= x < N) for x in tg + ctr) or len(set(tg + ctr)) != len(tg + ctr)):
            return dict(observed=(name, tg, ctr), expected=f"distinct qubits < {N}", what="QFT: gate indices out of range"), tups, steps
    try:
        U = seq_unitary(tups, N)
    except Exception as e:
        return dict(observed=f"{type(e).__name__}: {e}", expected="library gates", what="QFT: sequence contains a gate without matrix"), tups, steps
    S = np.eye(n, dtype=complex)
    for M in steps:
        if M.shape != (n, n):
            return dict(observed=M.shape, expected=(n, n), what="QFT: step of the wrong dimension"), tups, steps
        S = M @ S
    D = dft(N)
    if np.abs(Fq - D).max() > TOL:
        return dict(observed=float(np.abs(Fq - D).max()), expected=0, what="qft(N) is not the DFT matrix"), tups, steps
    target = D if sw else bitrev(N) @ D
    tag = f"N={N} swapping={sw} to_cnot={tc}"
    if tc:
        e1, _ = upto_phase(U, S)
        if e1 > TOL:
            return dict(observed=e1, expected="circuit == product(steps) up to a global phase", what="QFT: CNOT-expanded circuit and step list disagree"), tups, steps
        e2, _ = upto_phase(U, target)
        if e2 > TOL:
            return dict(observed=e2, expected="DFT up to a global phase", what="QFT: CNOT-expanded circuit is not the DFT (" + ("" if sw else "bit-reversed, ") + "up to phase)"), tups, steps
    else:
        e1 = float(np.abs(U - S).max())
        if e1 > TOL:
            return dict(observed=e1, expected="circuit == product(steps)", what="QFT: circuit and step list disagree"), tups, steps
        native = [t for t in tups]
        if len(native) != len(steps):
            return dict(observed=(len(native), len(steps)), expected="equal lengths", what="QFT: circuit and step list have different lengths"), tups, steps
        for idx, ((name, tg, ctr, arg), M) in enumerate(zip(native, steps)):
            G = Q.embed(Q.np_gate(name, arg), ctr + tg, N)
            if np.abs(G - M).max() > TOL:
                return dict(observed=dict(position=idx, gate=(name, tg, ctr, arg)), expected="step == matrix of the gate at the same position",
                            what="QFT: circuit and step list disagree"), tups, steps
        e2 = float(np.abs(U - target).max())
        if e2 > TOL:
            return dict(observed=e2, expected="DFT exactly (global phase included)", what="QFT: circuit is not the DFT" + ("" if sw else " (bit-reversed)")), tups, steps
    if np.abs(S - target).max() > TOL:
        return dict(observed=float(np.abs(S - target).max()), expected="DFT", what="QFT: step list does not multiply to the DFT" + ("" if sw else " (bit-reversed)")), tups, steps
    return None, tups, steps


# ------------------------------------------------------------------------------------------------
# model side
def coq_tables(ctx, Ns):
    lines = ["From Coq Require Import List ZArith String.",
             "From QV Require Import Found.Sym Model.Qft Model.SingleQubit.",
             "Import ListNotations.", "Open Scope string_scope.", "Open Scope list_scope.",
             "Eval vm_compute in run_methods.", "Eval vm_compute in run_angles.",
             "Eval vm_compute in map (fun k => option_map (map enc_gate) (cphase_to_cnot [0%nat] [1%nat] (Ang 1 k))) (seq 1 40)."]
    keys = []
    for N in Ns:
        for sw in (True, False):
            for tc in (False, True):
                lines.append(f"Eval vm_compute in run_seq {N}%nat {str(sw).lower()} {str(tc).lower()}.")
                keys.append(("seq", N, sw, tc))
            lines.append(f"Eval vm_compute in run_steps {N}%nat {str(sw).lower()}.")
            keys.append(("steps", N, sw))
    out = coq_eval(f"C17_{ctx.tier}_tables", "\n".join(lines) + "\n", timeout=600)
    vals = parse_evals(out)
    if len(vals) != 3 + len(keys):
        raise Broken("coq-eval:C17", f"expected {3 + len(keys)} values, got {len(vals)}")
    methods = {k: v for k, v in vals[0]}
    return methods, vals[1], vals[2], dict(zip(keys, vals[3:]))


def model_prims(U):
    """Model/SingleQubit.v [prims], the external functions instantiated by the numpy/cmath ones the code calls.
    The same floating-point operations in the same order as the five mirrored statements, so that branch cuts of
    sqrt/phase (det on the negative real axis, signed zeros) are resolved identically on both sides."""
    arr = np.array(U, dtype=complex)
    det = np.linalg.det(arr)
    n = np.sqrt(det)
    arr = arr * (1 / n)
    an = np.real(arr[0][0]) - 1j * np.imag(arr[0][0])
    bn = np.real(arr[0][1]) - 1j * np.imag(arr[0][1])
    det_formula = U[0, 0] * U[1, 1] - U[0, 1] * U[1, 0]
    return [cmath.phase(an), cmath.phase(bn), float(np.arctan2(np.absolute(bn), np.absolute(an))), cmath.phase(1 / n)], (det, n, an, bn, det_formula)


def external_specs_ok(det, n, an, bn, det_formula, prims):
    bad = []
    if abs(det - det_formula) > 1e-12:
        bad.append(("det", str(det)))
    for z, p in ((an, prims[0]), (bn, prims[1]), (1 / n, prims[3])):
        if abs(abs(z) * cmath.exp(1j * p) - z) > 1e-12:
            bad.append(("phase", str(z)))
    if abs(n * n - det) > 1e-12:
        bad.append(("sqrt", str(det)))
    x, y = abs(an), abs(bn)
    r = math.hypot(x, y)
    if r > 0 and (abs(math.cos(prims[2]) - x / r) > 1e-12 or abs(math.sin(prims[2]) - y / r) > 1e-12):
        bad.append(("arctan2", (y, x)))
    return bad


def canon_arg(a):
    return None if a is None else float(a)


def close(a, b, tol=1e-11):
    if a is None or b is None:
        return a is None and b is None
    return abs(a - b) <= tol * max(1.0, abs(a), abs(b))


def check_decompose(corr, ctx, kind, U, method, methods, angles_ex):
    inp = dict(kind="decompose", family=kind, U=enc_u(U), method=method)
    fail, tups = oracle_decompose(U, method)
    if fail:
        corr.oracle_fail(inp, fail["observed"], fail["expected"], fail["what"])
    corr.count((method, tuple(map(tuple, inp["U"]))), nontrivial=True, sample=inp)
    corr.tally("decompose:" + kind.split(":")[0])
    if tups is None:
        return
    prims, aux = model_prims(U)
    bad = external_specs_ok(*aux, prims)
    if bad:
        corr.disagree(inp, str(bad), "specification of the external functions", "external-function specification violated numerically")
    ang = [ev_ex(e, prims) for e in angles_ex]
    model = []
    for name, targets, arg in methods[method]:
        a = None if arg is None else ev_ex(arg[1], ang)
        model.append((name, list(targets), [], a))
    impl = [(t[0], t[1], t[2], canon_arg(t[3])) for t in tups]
    same = len(impl) == len(model) and all(i[0] == m[0] and i[1] == m[1] and i[2] == m[2] and close(i[3], m[3]) for i, m in zip(impl, model))
    if not same:
        corr.disagree(inp, impl, model, f"decompose_one_qubit_gate({method}): returned tuple differs from the generated model")


def check_qft(corr, ctx, N, sw, tc, tables, form="bool"):
    inp = dict(kind="qft", N=N, swapping=sw, to_cnot=tc, form=form)
    fail, tups, steps = oracle_qft(N, sw, tc, form)
    if fail:
        corr.oracle_fail(inp, fail["observed"], fail["expected"], fail["what"] + ("" if form == "bool" else f" [options spelled as {form}]"))
    corr.count(("qft", N, sw, tc, form), nontrivial=N >= 2, sample=inp)
    corr.tally(f"qft:N={N}")
    corr.tally(f"qft:options-as-{form}")
    if tups is None:
        return
    mv = tables[("seq", N, sw, tc)]
    if mv is None:
        corr.disagree(inp, "circuit", "None (error)", "qft_gate_sequence: model rejects, implementation accepts")
        return
    model = [(g[0], list(g[1]), list(g[2]), ang_val(g[3])) for g in mv[1]]
    impl = [(t[0], t[1], t[2], canon_arg(t[3])) for t in tups]
    same = len(impl) == len(model) and all(i[0] == m[0] and i[1] == m[1] and i[2] == m[2] and close(i[3], m[3], 1e-13) for i, m in zip(impl, model))
    if not same:
        first = next((k for k, (i, m) in enumerate(zip(impl, model)) if not (i[:3] == m[:3] and close(i[3], m[3], 1e-13))), min(len(impl), len(model)))
        corr.disagree(inp, dict(length=len(impl), first_difference=first, gate=impl[first] if first < len(impl) else None),
                      dict(length=len(model), gate=model[first] if first < len(model) else None),
                      "qft_gate_sequence: gate list differs from Model/Qft.v")
    if not tc:
        sv = tables[("steps", N, sw)]
        if sv is None:
            corr.disagree(inp, "steps", "None", "qft_steps: model rejects, implementation accepts")
            return
        ms = sv[1]
        ok = len(ms) == len(steps)
        if ok:
            for (name, qubits, a), M in zip(ms, steps):
                G = Q.embed(Q.np_gate(name, ang_val(a)), list(qubits), N)
                if G.shape != M.shape or np.abs(G - M).max() > 1e-12:
                    ok = False
                    break
        if not ok:
            corr.disagree(inp, f"{len(steps)} step matrices", [(s[0], list(s[1])) for s in ms][:12], "qft_steps: step matrices differ from Model/Qft.v")


def rejected_stream(corr, tables0):
    """N < 1 must be rejected by all three functions (model: None)"""
    from qutip_qip.algorithms.qft import qft, qft_steps, qft_gate_sequence
    for N in (0, -1, -3):
        for f, args in ((qft, (N,)), (qft_steps, (N, True)), (qft_gate_sequence, (N, True, False)), (qft_gate_sequence, (N, False, True))):
            try:
                f(*args)
                corr.disagree(dict(kind="qft-rejected", N=N, fn=f.__name__), "accepted", "None", "N < 1 is accepted by the implementation")
            except Exception:
                pass
        corr.tally("qft:rejected")
    for key, v in tables0.items():
        if v is not None:
            corr.disagree(dict(kind="qft-rejected", N=0), "rejected", str(v)[:80], "model accepts N = 0")


def check_rot_angles(corr, rows):
    """Model/Qft.v rot_angles / cphase_to_cnot against the real _cphase_to_cnot for phi = pi/2^k, k = 1..40"""
    import qutip_qip.algorithms.qft as RQ
    f = getattr(RQ, "_cphase_to_cnot", None)
    if f is None:
        return  # refactored away: the sequence comparison still covers k < N
    for k, row in zip(range(1, 41), rows):
        phi = math.pi / 2 ** k
        inp = dict(kind="cphase_to_cnot", k=k)
        try:
            impl = [(g.name, list(g.targets or []), list(g.controls or []), canon_arg(g.arg_value)) for g in f([0], [1], phi)]
        except Exception as e:
            corr.disagree(inp, repr(e), str(row)[:100], "_cphase_to_cnot raised")
            continue
        if row is None:
            corr.disagree(inp, impl, None, "_cphase_to_cnot: model rejects")
            continue
        model = [(g[0], list(g[1]), list(g[2]), ang_val(g[3])) for g in row[1]]
        same = len(impl) == len(model) and all(i[:3] == m[:3] and close(i[3], m[3], 1e-13) for i, m in zip(impl, model))
        if not same:
            corr.disagree(inp, impl, model, "_cphase_to_cnot differs from Model/Qft.v (rot_angles assumption or gate selection)")
        corr.tally("cphase_to_cnot")


def correspond(ctx):
    corr = Corr(rule="a case is non-trivial when both sides ran: every decomposition case (3 methods x generic and degenerate "
                     "unitaries), and every QFT configuration with N >= 2")
    Ns = list(range(1, ctx.n(7, 9) + 1))
    methods, angles_ex, rows, tables = coq_tables(ctx, [0] + Ns)
    if sorted(methods) != sorted(METHODS):
        corr.disagree(dict(kind="methods"), sorted(METHODS), sorted(methods), "method dictionary differs from the methods named by the property")
    tables0 = {k: v for k, v in tables.items() if k[1] == 0}
    # corpus first
    cdir = os.path.join(VERIF, "corpus", ID)
    if os.path.isdir(cdir):
        import json
        for fn in sorted(os.listdir(cdir)):
            rec = json.load(open(os.path.join(cdir, fn)))
            inp = rec.get("input", rec)
            if inp.get("kind") == "decompose":
                for m in METHODS:
                    if m in methods:
                        check_decompose(corr, ctx, "corpus", dec_u(inp["U"]), m, methods, angles_ex)
    # QFT: every configuration
    for N in Ns:
        for sw in (True, False):
            for tc in (False, True):
                for form in FORMS:
                    check_qft(corr, ctx, N, sw, tc, tables, form)
    rejected_stream(corr, tables0)
    check_rot_angles(corr, rows)
    # decompositions
    cases = [("haar", haar(ctx.rng)) for _ in range(ctx.n(1000, 10000))] + families(ctx.rng, ctx.n(60, 500))
    for kind, U in cases:
        for m in METHODS:
            if m in methods:
                check_decompose(corr, ctx, kind, U, m, methods, angles_ex)
    return corr


def classify(failure):
    return None


def search(ctx, broken):
    """hunt on the real code with the property oracle only"""
    out = []
    for N in range(1, 8):
        for form in FORMS:
            for sw in (True, False):
                for tc in (False, True):
                    if out:
                        break
                    fail, _, _ = oracle_qft(N, sw, tc, form)
                    if fail:
                        out.append(dict(input=dict(kind="qft", N=N, swapping=sw, to_cnot=tc, form=form), **fail))
        if out:
            break
    seen = set()
    cases = families(ctx.rng, 100) + [("haar", haar(ctx.rng)) for _ in range(2000)]
    for kind, U in cases:
        for m in METHODS:
            if m in seen:
                continue
            fail, _ = oracle_decompose(U, m)
            if fail:
                seen.add(m)
                out.append(dict(input=dict(kind="decompose", family=kind, U=enc_u(U), method=m), **fail))
    return out


def replay(ctx, rec):
    inp = rec.get("input", rec)
    if inp.get("kind") == "decompose":
        fail, _ = oracle_decompose(dec_u(inp["U"]), inp["method"])
        return fail is not None
    if inp.get("kind") == "qft":
        fail, _, _ = oracle_qft(int(inp["N"]), bool(inp["swapping"]), bool(inp["to_cnot"]), inp.get("form", "bool"))
        return fail is not None
    return False
