"""C03 - basis decomposition (QubitCircuit.resolve_gates) preserves the unitary exactly and stays in the basis.

Implementation under check: qutip_qip.circuit.QubitCircuit.resolve_gates (+ circuit/_decompose.py rule tables).
Model: coq/Model/Resolve.v (`resolve_ops`) over coq/Gen/Decompose.v (regenerated from the sources on every run).

An input is {"N": n, "basis": null | "CSIGN" | ["CNOT", "RX", ...], "gates": [[name, targets, controls, arg], ...],
             "measure": bool (optional; a measurement is appended)}
  arg: null | number | [numbers];  basis null = the default argument of resolve_gates.
A HISTORY on one circuit object adds "edits": [[how, index, gate | null], ...] with how = "assign" (targets / controls / arg_value of
  the existing gate object at index are assigned in place; same name), "replace" (remove_gate_or_measurement(index) + add_gate(...,
  index=[index])), "insert" (add_gate at index) or "remove"; resolve_gates(basis) is called before the first and after every edit,
  and every result is compared with the model's / the oracle's decomposition of the circuit AS IT IS AT THAT CALL.
"""
import cmath
import glob
import itertools
import json
import math
import os
import sys

import numpy as np

sys.path.insert(0, os.path.dirname(os.path.dirname(os.path.abspath(__file__))))
import qoracle as Q  # noqa: E402
from common import Corr, Broken, coq_eval_many, parse_evals, VERIF  # noqa: E402
from translate import gates_tr, decompose_tr  # noqa: E402

ID = "C03"
TARGETS = ["Props/C03.vo"]
TRUSTED = [
    "translators tools/translate/decompose_tr.py (rule bodies of _decompose.py, the elimination branches, name lists and the two "
    "structural flags of resolve_gates -> data of Model/ResolveTypes.v; fail-closed) and tools/translate/gates_tr.py (gate matrices)",
    "hand-written model coq/Model/Resolve.v of the control flow of resolve_gates (basis parsing, Pauli substitution, dispatch "
    "precedence, two-qubit pass, third-rotation elimination), tied to the code by exact comparison of the emitted gate lists "
    "(names, targets, controls, argument values) on every run",
    "abstraction in the model: basis_1q / basis_2q are observed only through membership tests and len(basis_1q) == 2 (record cfg)",
    "meaning of a gate = the matrix Gate(name).get_compact_qobj() returns (Gen/Gates.v `dispatch`, for 'H' the class matrix) on "
    "controls ++ targets, GLOBALPHASE(a) = the scalar e^{ia}; C09 ties these tables to the documented matrices",
    "gate attributes other than name/targets/controls/arg_value (arg_label, classical controls, control_value, style) are not modelled; "
    "the final deepcopy is value-preserving and not modelled",
    "functional extensionality (states are functions) - the only axiom",
]
ASSUMES = [
    "the model and the theorems describe the tree WITH fixes/C03-pauli-phase-marker, C03-string-basis-membership, "
    "C03-basis-rotations-only and C03-iswap-pass-first applied (Gen/Decompose.v records three flags and the pass order; on a tree "
    "without them the `_refuted_unfixed` lemmas apply and the proofs do not go through)",
    "source gates of the resolvable kinds are well formed (arity of the kind, pairwise different qubits) and carry no classical controls",
    "parameters range over all reals through the phase-ring quantification (z_j = e^{i theta_j/4} arbitrary units)",
    "in-basis / success theorems: the accepted basis names at least one two-qubit gate (a list without any is accepted by the code "
    "and leaves CNOT in place: outside 'valid choice', resolve_in_basis_refuted_no_2q)",
]

ROT = ["RX", "RY", "RZ"]
B2 = ["CNOT", "CSIGN", "ISWAP", "SQRTSWAP", "SQRTISWAP"]
# name -> (#controls, #targets, #params)
KINDS = {"X": (0, 1, 0), "Y": (0, 1, 0), "Z": (0, 1, 0), "SNOT": (0, 1, 0), "SQRTNOT": (0, 1, 0), "PHASEGATE": (0, 1, 1),
         "RX": (0, 1, 1), "RY": (0, 1, 1), "RZ": (0, 1, 1), "IDLE": (0, 1, 0), "CNOT": (1, 1, 0), "CSIGN": (1, 1, 0),
         "SWAP": (0, 2, 0), "ISWAP": (0, 2, 0), "SQRTSWAP": (0, 2, 0), "SQRTISWAP": (0, 2, 0), "TOFFOLI": (2, 1, 0),
         "FREDKIN": (1, 2, 0), "GLOBALPHASE": (0, 0, 1), "H": (0, 1, 0)}
ALWAYS = [k for k in KINDS if k not in ("SQRTSWAP", "SQRTISWAP")]          # resolvable in every valid basis
# gates without a rule (must be refused unless requested as part of the basis)
OTHERS = {"T": (0, 1, 0), "S": (0, 1, 0), "CS": (1, 1, 0), "CT": (1, 1, 0), "R": (0, 1, 2), "QASMU": (0, 1, 3), "CRX": (1, 1, 1),
          "CPHASE": (1, 1, 1), "BERKELEY": (0, 2, 0), "SWAPalpha": (0, 2, 1), "CZ": (1, 1, 0), "CX": (1, 1, 0), "CY": (1, 1, 0),
          "MS": (0, 2, 2), "RZX": (0, 2, 1)}
NATIVE = [["SQRTISWAP", "ISWAP", "RX", "RZ"], ["RX", "RY", "CNOT", "RZX"]]
ANGLES = [0.0, math.pi, -math.pi / 2, math.pi / 4, 0.3, -2.75, 7.0, 1e-9, 2 * math.pi]


# ------------------------------------------------------------------------------------------------
# translators
# ------------------------------------------------------------------------------------------------
_gen = {}


def generate(ctx):
    _gen.clear()
    _gen["gates"] = {k: (len(v) if isinstance(v, list) else v) for k, v in gates_tr.generate().items() if k != "class_map"}
    _gen["decompose"] = decompose_tr.generate()


# ------------------------------------------------------------------------------------------------
# running the real code
# ------------------------------------------------------------------------------------------------
def _arg(a):
    if a is None:
        return None
    if isinstance(a, (list, tuple)):
        return tuple(float(x) for x in a)
    return float(a)


def _mk_circuit(inp):
    from qutip_qip.circuit import QubitCircuit
    qc = QubitCircuit(inp["N"], num_cbits=1)
    for name, targets, controls, a in inp["gates"]:
        qc.add_gate(name, targets=(list(targets) if targets else None), controls=(list(controls) if controls else None),
                    arg_value=_arg(a))
    if inp.get("measure"):
        qc.add_measurement("M0", targets=[0], classical_store=0)
    return qc


def _canon_arg(a):
    if a is None:
        return []
    if isinstance(a, (list, tuple, np.ndarray)):
        return [complex(x) for x in a]
    return [complex(a)]


def _canon(gates):
    out = []
    for g in gates:
        out.append([str(g.name), [int(x) for x in (g.targets if g.targets is not None else [])],
                    [int(x) for x in (g.controls if g.controls is not None else [])], _canon_arg(g.arg_value)])
    return out


def _snap(qc):
    """everything observable of a circuit's operation list (gates and measurements), for the 'input is left unchanged' clause"""
    out = []
    for g in qc.gates:
        def lst(x):
            return None if x is None else [int(v) for v in x]
        a = getattr(g, "arg_value", None)
        out.append([type(g).__name__, str(getattr(g, "name", None)), lst(getattr(g, "targets", None)), lst(getattr(g, "controls", None)),
                    None if a is None else repr([complex(x) for x in a] if isinstance(a, (list, tuple, np.ndarray)) else complex(a)),
                    lst(getattr(g, "classical_controls", None)), getattr(g, "control_value", None), getattr(g, "classical_control_value", None),
                    repr(getattr(g, "arg_label", None)), repr(getattr(g, "classical_store", None))])
    return [qc.N, out]


def oracle_unchanged(inp, impl):
    """resolve_gates / transpile must leave the circuit they are called on as it was, and a second call on the same object
    must give the same result (the property compares the decomposition with THE circuit, whenever it is looked at)"""
    fails = []
    x = impl[-1] if isinstance(impl[-1], dict) else None
    if not x:
        return fails
    if x["before"] != x["after"]:
        diff = [[b, a] for b, a in zip(x["before"][1], x["after"][1]) if b != a][:2]
        if len(x["before"][1]) != len(x["after"][1]):
            diff.append(["length", len(x["before"][1]), len(x["after"][1])])
        fails.append(("the call changed the circuit it was called on", dict(changed=diff), "input circuit unchanged"))
    if "basis_before" in x and x["basis_before"] != x["basis_after"]:
        fails.append(("the call changed the basis list it was given", [x["basis_before"], x["basis_after"]], "basis argument unchanged"))
    if "second" in x:
        first = (impl[0], impl[1] if impl[0] == "ok" else None)
        second = (x["second"][0], x["second"][1] if x["second"][0] == "ok" else None)
        if first != second:
            fails.append(("decomposing the same circuit object twice gives different results",
                          dict(first=_show(impl[:2]), second=_show(x["second"])), "equal results"))
    return fails


PROCESSORS = ["LinearSpinChain", "CircularSpinChain", "SCQubits", "DispersiveCavityQED"]


def run_transpile(inp):
    """second observation point: ModelProcessor.transpile (routing + resolve_gates(native_gates)) -> (status, gates, native set)"""
    import qutip_qip.device as dev
    try:
        proc = getattr(dev, inp["processor"])(inp["N"])
        qc = _mk_circuit(inp)
    except Exception as e:
        return ("unbuildable", repr(e), None)
    extra = dict(before=_snap(qc))
    try:
        res = proc.transpile(qc)
    except Exception as e:
        extra["after"] = _snap(qc)
        return ("rejected", type(e).__name__ + ": " + str(e)[:80], list(proc.native_gates or []), extra)
    extra["after"] = _snap(qc)
    return ("ok", _canon(res.gates), list(proc.native_gates or []), extra)


def oracle_transpile(inp, impl):
    fails = oracle_unchanged(inp, impl)
    if impl[0] == "rejected":
        fails.append(("transpile rejects a circuit of resolvable gates", impl[1], "decomposed circuit"))
        return fails
    out, native = impl[1], impl[2]
    N = inp["N"]
    try:
        src = [[g[0], g[1], g[2], _canon_arg(_arg(g[3]))] for g in inp["gates"]]
        if not np.allclose(_unitary(src, N), _unitary(out, N), atol=1e-9):
            fails.append(("transpiled circuit has a different unitary", "differs", "equal unitaries, global phase included"))
    except Exception as e:
        fails.append(("transpiled circuit cannot be evaluated", repr(e), "a unitary"))
    bad = sorted(set(g[0] for g in out if g[0] not in set(native) | {"GLOBALPHASE", "IDLE"}))
    if bad:
        fails.append(("transpiled circuit contains non-native gates", bad, sorted(native)))
    return fails


def _resolve_obs(qc, b):
    """one observation of qc.resolve_gates(b) -> ("ok", gates, extra) | ("rejected", text, extra)"""
    def call(arg):
        try:
            res = qc.resolve_gates() if b is None else qc.resolve_gates(basis=arg)
        except Exception as e:
            return ("rejected", type(e).__name__ + ": " + str(e)[:80])
        return ("ok", _canon(res.gates))
    arg = list(b) if isinstance(b, list) else b
    extra = dict(before=_snap(qc), basis_before=repr(arg))
    first = call(arg)
    extra["after"] = _snap(qc)
    extra["basis_after"] = repr(arg)
    extra["second"] = call(list(b) if isinstance(b, list) else b)
    return first + (extra,)


def run_impl(inp):
    """-> ("ok", canonical gate list, extra) | ("rejected", exception text, extra); extra = snapshots of the input circuit before
    and after the call, and the outcome of a second call on the same circuit object"""
    try:
        qc = _mk_circuit(inp)
    except Exception as e:  # the input itself cannot be built: not a case
        return ("unbuildable", repr(e))
    return _resolve_obs(qc, inp.get("basis"))


def _edit_data(gates, edit):
    """the gate list (input form) after one edit"""
    how, i, g = edit
    gs = [list(x) for x in gates]
    if how in ("assign", "replace"):
        gs[i] = list(g)
    elif how == "insert":
        gs.insert(i, list(g))
    elif how == "remove":
        del gs[i]
    else:
        raise ValueError(how)
    return gs


def _edit_obj(qc, edit):
    """the same edit on the live circuit object, through the public attributes / methods"""
    how, i, g = edit
    if how == "assign":
        obj = qc.gates[i]
        assert obj.name == g[0]
        obj.targets = list(g[1]) if g[1] else None
        obj.controls = list(g[2]) if g[2] else None
        obj.arg_value = _arg(g[3])
        return
    if how in ("replace", "remove"):
        qc.remove_gate_or_measurement(i)
    if how in ("replace", "insert"):
        qc.add_gate(g[0], targets=(list(g[1]) if g[1] else None), controls=(list(g[2]) if g[2] else None), arg_value=_arg(g[3]),
                    index=[i])


def run_history(inp):
    """history on ONE circuit object -> [(flat input describing the circuit at call k, observation of call k), ...] or None"""
    base = {k: v for k, v in inp.items() if k != "edits"}
    try:
        qc = _mk_circuit(base)
    except Exception:
        return None
    steps = [(base, _resolve_obs(qc, inp.get("basis")))]
    gates = base["gates"]
    for e in inp["edits"]:
        try:
            gates = _edit_data(gates, e)
            _edit_obj(qc, e)
        except Exception:
            break
        flat = dict(base, gates=gates)
        if _canon(qc.gates) != [[g[0], list(g[1]), list(g[2]), _canon_arg(_arg(g[3]))] for g in gates]:
            break                      # the edit did not do what the description says: not a case of this class
        steps.append((flat, _resolve_obs(qc, inp.get("basis"))))
    return steps


HIST = " (call %d of a history on one circuit object: resolve, edit in place, resolve again)"


# ------------------------------------------------------------------------------------------------
# the property oracle (written from the property text; numpy only)
# ------------------------------------------------------------------------------------------------
def _known_for_unitary(name):
    return name == "GLOBALPHASE" or name in Q.N_QUBITS


def _unitary(gates, N):
    gs = []
    for name, t, c, a in gates:
        args = [x.real for x in a]
        gs.append((name, list(c) + list(t), args if len(args) != 1 else args[0]))
    return Q.circuit_unitary(gs, N)


def requested(basis):
    """the gate names the caller asked for (None = the default basis); rotations default to all three"""
    if basis is None:
        return {"CNOT", "RX", "RY", "RZ"}
    if isinstance(basis, str):
        return {basis} | set(ROT)
    s = set(basis)
    if not (s & set(ROT)):
        s |= set(ROT)
    return s


def spec_valid(basis):
    """a valid choice of target basis per the property text: (at least) one of the five two-qubit gates and at least two
    of the rotations (a specification naming no rotation means all three)"""
    if basis is None:
        return True
    if isinstance(basis, str):
        return basis in B2
    if not all(isinstance(x, str) for x in basis):
        return False
    n2 = [x for x in basis if x in B2]
    r = set(x for x in basis if x in ROT)
    return len(n2) >= 1 and (len(r) >= 2 or len(r) == 0)


def well_formed(g):
    name, t, c, a = g
    k = KINDS.get(name) or OTHERS.get(name)
    if k is None:
        return False
    na = 0 if a is None else (len(a) if isinstance(a, (list, tuple)) else 1)
    return len(c) == k[0] and len(t) == k[1] and na == k[2] and len(set(list(c) + list(t))) == len(c) + len(t)


def oracle(inp, impl):
    """-> list of (what, observed, expected) failures of the property on this input"""
    fails = oracle_unchanged(inp, impl)
    basis = inp.get("basis")
    if inp.get("measure") or not all(well_formed(g) for g in inp["gates"]):
        return fails
    N = inp["N"]
    if not all(all(0 <= q < N for q in list(g[1]) + list(g[2])) for g in inp["gates"]):
        return fails
    valid = spec_valid(basis)
    req = requested(basis) if (basis is None or isinstance(basis, str) or all(isinstance(x, str) for x in basis)) else set()
    if isinstance(basis, str) and not valid:
        if impl[0] == "ok":
            fails.append(("invalid basis string accepted", [g[0] for g in impl[1]], "an error"))
        return fails
    # gates that cannot be expressed: no decomposition rule exists and they were not requested as part of the basis
    cannot = [g[0] for g in inp["gates"] if g[0] not in ALWAYS and g[0] not in req]
    must_succeed = valid and all(g[0] in ALWAYS or (g[0] in req and g[0] in B2) for g in inp["gates"])
    if impl[0] == "rejected":
        if must_succeed:
            fails.append(("a circuit of resolvable gates in a valid basis is rejected", impl[1], "decomposed circuit"))
        return fails
    out = impl[1]
    if valid and cannot:
        fails.append(("a gate that cannot be expressed in the basis is passed through instead of refused",
                      dict(gate=cannot[0], output=[g[0] for g in out]), "an error"))
    # unitary, global phase included
    if all(_known_for_unitary(g[0]) for g in inp["gates"]) and all(_known_for_unitary(g[0]) for g in out):
        try:
            src = [[g[0], g[1], g[2], _canon_arg(_arg(g[3]))] for g in inp["gates"]]
            U0 = _unitary(src, N)
            U1 = _unitary(out, N)
            if not np.allclose(U0, U1, atol=1e-9):
                k = int(np.argmax(np.abs(U0).ravel() > 0.1))
                ratio = (U1.ravel()[k] / U0.ravel()[k])
                phase_only = abs(abs(ratio) - 1) < 1e-9 and np.allclose(U0 * ratio, U1, atol=1e-9)
                fails.append(("decomposed circuit has a different unitary" + (" (off by a global phase)" if phase_only else ""),
                              ("global phase %.6f rad; " % cmath.phase(ratio) if phase_only else "") +
                              "max |dU| = %.3g" % float(np.max(np.abs(U0 - U1))), "equal unitaries, global phase included"))
        except Exception as e:
            fails.append(("decomposed circuit cannot be evaluated", repr(e), "a unitary"))
    # basis membership
    if valid and not cannot:
        allowed = req | {"GLOBALPHASE", "IDLE"}
        bad = sorted(set(g[0] for g in out if g[0] not in allowed))
        if bad:
            fails.append(("output contains gates outside the requested basis", bad, sorted(allowed)))
    return fails


# ------------------------------------------------------------------------------------------------
# Coq side
# ------------------------------------------------------------------------------------------------
HEADER = r"""
From Coq Require Import List String ZArith.
From QV Require Import Found.Sym Model.ResolveTypes Gen.Decompose Model.Resolve.
Import ListNotations.
Local Open Scope string_scope.
Inductive dx := DNum (n d : Z) | DImag (n d : Z) | DPi | DVar (j : nat) | DAdd (a b : dx) | DSub (a b : dx) | DMul (a b : dx)
  | DDiv (a b : dx) | DNeg (a : dx) | DFun (a : dx).
Fixpoint dex (e : ex) : dx :=
  match e with
  | Num q => DNum (Qnum q) (Zpos (Qden q)) | Imag q => DImag (Qnum q) (Zpos (Qden q)) | Pi => DPi | Var j => DVar j
  | Add a b => DAdd (dex a) (dex b) | Sub a b => DSub (dex a) (dex b) | Mul a b => DMul (dex a) (dex b)
  | Div a b => DDiv (dex a) (dex b) | Neg a => DNeg (dex a) | Cos a | Sin a | Exp a | Sqrt a => DFun (dex a)
  end.
Definition dump (r : result (list mgate)) :=
  match r with
  | Ok gs => Some (map (fun g => (gname g, gtargets g, gcontrols g, map dex (gargs g), gsrc g)) gs)
  | Error => None
  end.
"""


def _cnat(n):
    return f"{int(n)}%nat"


def _cgate(i, g):
    name, t, c, a = g
    na = 0 if a is None else (len(a) if isinstance(a, (list, tuple)) else 1)
    args = "; ".join(f"Var {j}" for j in range(na))
    return (f'OpGate (MG "{name}" [{"; ".join(_cnat(x) for x in t)}] [{"; ".join(_cnat(x) for x in c)}] [{args}] {_cnat(i)})')


def _cbasis(b, default):
    if b is None:
        return "BList default_basis"
    if isinstance(b, str):
        return f'BStr "{b}"'
    return "BList [" + "; ".join(f'"{x}"' for x in b) + "]"


def _safe(inp):
    ok = lambda s: isinstance(s, str) and all(ch.isalnum() or ch == "_" for ch in s)
    b = inp.get("basis")
    if not (b is None or (isinstance(b, str) and ok(b)) or (isinstance(b, list) and all(ok(x) for x in b))):
        return False
    return all(ok(g[0]) and all(isinstance(x, int) and 0 <= x < 64 for x in list(g[1]) + list(g[2])) for g in inp["gates"])


def run_model(inputs):
    files = []
    for k in range(0, len(inputs), 400):
        body = [HEADER]
        for inp in inputs[k:k + 400]:
            ops = [_cgate(i, g) for i, g in enumerate(inp["gates"])]
            if inp.get("measure"):
                ops.append("OpMeasure")
            body.append(f"Eval vm_compute in dump (resolve_ops ({_cbasis(inp.get('basis'), None)}) [{'; '.join(ops)}]).")
        files.append((f"c03_cases_{k // 400}", "\n".join(body) + "\n"))
    outs = coq_eval_many(files, timeout=600)
    vals = []
    for name, _ in files:
        vals += parse_evals(outs[name])
    if len(vals) != len(inputs):
        raise Broken("correspondence:c03-cases", f"{len(vals)} results for {len(inputs)} cases")
    return vals


def _evdx(d, env):
    if isinstance(d, str):
        if d == "DPi":
            return math.pi
        raise ValueError(d)
    tag = d[0]
    if tag == "DNum":
        return d[1] / d[2]
    if tag == "DImag":
        return 1j * d[1] / d[2]
    if tag == "DVar":
        return env[d[1]]
    if tag == "DNeg":
        return -_evdx(d[1], env)
    if tag in ("DAdd", "DSub", "DMul", "DDiv"):
        a, b = _evdx(d[1], env), _evdx(d[2], env)
        return a + b if tag == "DAdd" else a - b if tag == "DSub" else a * b if tag == "DMul" else a / b
    raise ValueError(tag)


def model_out(val, inp):
    """parsed Coq value -> ("ok", canonical gates) | ("rejected",)"""
    if val is None:
        return ("rejected", "Error")
    gs = val[1]
    out = []
    for name, t, c, args, src in gs:
        a = inp["gates"][src][3]
        env = [] if a is None else ([complex(x) for x in a] if isinstance(a, (list, tuple)) else [complex(a)])
        out.append([name, list(t), list(c), [complex(_evdx(x, env)) for x in args]])
    return ("ok", out)


def same(impl, model):
    if impl[0] != model[0]:
        return False
    if impl[0] != "ok":
        return True
    a, b = impl[1], model[1]
    if len(a) != len(b):
        return False
    for x, y in zip(a, b):
        if x[0] != y[0] or x[1] != y[1] or x[2] != y[2] or len(x[3]) != len(y[3]):
            return False
        if any(abs(u - v) > 1e-12 * max(1.0, abs(u)) for u, v in zip(x[3], y[3])):
            return False
    return True


def _show(r):
    if r[0] != "ok":
        return list(r[:2])
    return ["ok", [[g[0], g[1], g[2], [round(x.real, 12) if abs(x.imag) < 1e-15 else str(x) for x in g[3]]] for g in r[1]]]


# ------------------------------------------------------------------------------------------------
# generators
# ------------------------------------------------------------------------------------------------
def basis_specs():
    """the ~25 valid specifications + native sets + default"""
    out = [None] + list(B2)
    for b2 in B2:
        for rots in (ROT, ["RX", "RY"], ["RX", "RZ"], ["RY", "RZ"]):
            out.append([b2] + rots)
    out += [list(n) for n in NATIVE]
    return out


EDGE_SPECS = [
    [], ["RX", "RY"], ["CNOT"], ["CSIGN"], ["CNOT", "RX"], ["ISWAP", "RZ"], ["CNOT", "RX", "RX"], ["CNOT", "IDLE"],
    ["CNOT", "RX", "RY", "IDLE"], ["CSIGN", "RZ", "RX", "IDLE"], ["CNOT", "RX", "IDLE"], ["CSIGN", "ISWAP", "RX", "RY", "RZ"],
    ["CNOT", "CSIGN", "RX", "RY"], ["RZ", "RY", "SQRTSWAP", "CNOT"], ["CNOT", "RX", "RY", "RZ", "T"], ["CSIGN", "RX", "RZ", "R", "CS"],
    ["ISWAP", "SQRTSWAP", "SQRTISWAP", "RY", "RZ"], ["CNOT", "RX", "RY", "RZ", "BERKELEY"], ["SNOT", "CNOT", "RX", "RY"],
    ["CNOT", "RX", "RY", "RY"], ["CNOT", "IDLE", "RZ", "RX", "IDLE"], ["CSIGN", "ISWAP", "RX", "RY"], ["CNOT", "RX", "RX", "RY"],
    ["ISWAP", "CSIGN", "SQRTSWAP", "RY", "RZ"], ["IDLE", "ISWAP", "CSIGN"], ["CSIGN", "SQRTISWAP", "IDLE", "RX", "RZ"],
    "FOO", "RX", "", "CNOTX", "NOT", "SWAP", "cnot",
]


def placements(name, N, rng, all_of_them):
    nc, nt, _ = KINDS.get(name) or OTHERS[name]
    k = nc + nt
    perms = list(itertools.permutations(range(N), k))
    if not all_of_them and len(perms) > 2:
        perms = rng.sample(perms, 2)
    return [(list(p[nc:]), list(p[:nc])) for p in perms]


def mk_gate(name, t, c, rng):
    k = KINDS.get(name) or OTHERS[name]
    if k[2] == 0:
        a = None
    elif k[2] == 1:
        a = rng.choice(ANGLES) if rng.random() < 0.7 else round(rng.uniform(-7, 7), 6)
    else:
        a = [rng.choice(ANGLES) for _ in range(k[2])]
    return [name, t, c, a]


def gen_inputs(ctx):
    rng = ctx.rng
    inputs = []
    specs = basis_specs()
    # 1. every gate kind x every valid specification x placements on 3 qubits
    for name in KINDS:
        for b in specs:
            for t, c in placements(name, 3, rng, ctx.thorough or name in ("TOFFOLI", "FREDKIN", "SWAP", "ISWAP", "CNOT", "CSIGN")):
                inputs.append(("kind", dict(N=3, basis=b, gates=[mk_gate(name, t, c, rng)])))
    # 1b. explicit GLOBALPHASE gates next to every kind whose decomposition emits a phase marker (before, after, between), and
    #     pairs of such kinds: adjacent markers in the intermediate lists
    phase_kinds = ["GLOBALPHASE", "SNOT", "H", "SQRTNOT", "PHASEGATE", "X", "Y", "Z", "TOFFOLI", "CSIGN", "ISWAP", "FREDKIN", "SWAP", "CNOT"]
    pspecs = [None, "CSIGN", "ISWAP", "SQRTISWAP", ["ISWAP", "RX", "RZ"], ["CNOT", "RY", "RZ"], ["SQRTSWAP", "RX", "RY"], NATIVE[0]]

    def gp():
        return ["GLOBALPHASE", [], [], rng.choice([0.3, -2.75, math.pi / 4, 7.0])]
    for name in phase_kinds:
        for b in (pspecs if ctx.thorough else rng.sample(pspecs, 4)):
            t, c = placements(name, 3, rng, False)[0]
            g = mk_gate(name, t, c, rng)
            for gs in ([gp(), g], [g, gp()], [gp(), g, gp()]):
                inputs.append(("phase-adjacent", dict(N=3, basis=b, gates=gs)))
    for _ in range(ctx.n(30, 300)):
        n1, n2 = rng.choice(phase_kinds), rng.choice(phase_kinds)
        gs = []
        for nm in (n1, n2):
            t, c = placements(nm, 3, rng, False)[0]
            gs.append(mk_gate(nm, t, c, rng))
        if rng.random() < 0.5:
            gs.insert(rng.randrange(3), gp())
        inputs.append(("phase-adjacent", dict(N=3, basis=rng.choice(pspecs), gates=gs)))
    # 1c. list bases naming two or more two-qubit gates (every ordered pair, some triples, all five), with circuits holding
    #     SWAP and each two-qubit kind: which pass runs and what is kept for it must fit together
    multi = [[a, b2] for a in B2 for b2 in B2 if a != b2]
    multi += [rng.sample(B2, 3) for _ in range(ctx.n(4, 20))] + [list(B2), list(reversed(B2))]
    two_q_kinds = ["SWAP", "CNOT", "CSIGN", "ISWAP", "SQRTSWAP", "SQRTISWAP", "FREDKIN", "TOFFOLI"]
    for m2 in multi:
        rots = rng.choice([ROT, ["RX", "RY"], ["RX", "RZ"], ["RY", "RZ"], []])
        b = m2 + rots if rng.random() < 0.7 else rots + m2
        names = [k for k in two_q_kinds if k not in ("SQRTSWAP", "SQRTISWAP") or k in m2]
        pick = names if ctx.thorough else ["SWAP"] + rng.sample(names[1:], 2)
        for name in pick:
            t, c = placements(name, 3, rng, False)[0]
            inputs.append(("multi-2q-basis", dict(N=3, basis=b, gates=[mk_gate(name, t, c, rng)])))
        t, c = placements("SWAP", 3, rng, False)[0]
        t2, c2 = placements("CNOT", 3, rng, False)[0]
        inputs.append(("multi-2q-basis", dict(N=3, basis=b, gates=[mk_gate("CNOT", t2, c2, rng), mk_gate("SWAP", t, c, rng), mk_gate("X", [0], [], rng)])))
    # 2. gates without a rule: refused unless requested; edge / invalid specifications
    for name in OTHERS:
        for b in rng.sample(specs, ctx.n(6, len(specs))) + ["CNOT", "CSIGN", "ISWAP", "SQRTSWAP", "SQRTISWAP"]:
            t, c = placements(name, 3, rng, False)[0]
            inputs.append(("norule", dict(N=3, basis=b, gates=[mk_gate(name, t, c, rng)])))
    for b in EDGE_SPECS:
        names = list(KINDS) + (["T", "R", "CS", "BERKELEY"] if isinstance(b, list) else ["T", "S", "R", "CS", "CT"])
        for name in (names if ctx.thorough else rng.sample(names, 9) + ["X", "RZ", "SWAP", "CNOT", "T"]):
            t, c = placements(name, 3, rng, False)[0]
            inputs.append(("edge", dict(N=3, basis=b, gates=[mk_gate(name, t, c, rng)])))
    # 3. random sequences
    pool = list(KINDS) * 3 + ["T", "S", "CS", "R", "BERKELEY"]
    for _ in range(ctx.n(250, 2500)):
        N = rng.choice([2, 3, 3, 4])
        b = rng.choice(specs) if rng.random() < 0.85 else rng.choice(EDGE_SPECS)
        gs = []
        for _ in range(rng.randint(1, 6)):
            name = rng.choice(pool)
            k = KINDS.get(name) or OTHERS[name]
            if k[0] + k[1] > N:
                continue
            if isinstance(b, list) and name in ("SQRTSWAP", "SQRTISWAP") and name not in b and rng.random() < 0.8:
                continue
            if isinstance(b, str) and name in ("SQRTSWAP", "SQRTISWAP") and name != b and rng.random() < 0.8:
                continue
            if name in OTHERS and rng.random() < 0.7:
                continue
            t, c = placements(name, N, rng, False)[0]
            gs.append(mk_gate(name, t, c, rng))
        if gs:
            inputs.append(("sequence", dict(N=N, basis=b, gates=gs)))
    # 4. malformed stream (Ok/Rejected and output equality only)
    mal = [
        dict(N=3, basis=None, gates=[["X", [0], [], None]], measure=True),
        dict(N=3, basis="CSIGN", gates=[["CNOT", [1], [0], None]], measure=True),
        dict(N=3, basis=None, gates=[["TOFFOLI", [2], [0], None]]),
        dict(N=3, basis=None, gates=[["TOFFOLI", [2], [], None]]),
        dict(N=3, basis=None, gates=[["FREDKIN", [1], [0], None]]),
        dict(N=3, basis=None, gates=[["SWAP", [1], [], None]]),
        dict(N=3, basis=None, gates=[["ISWAP", [], [], None]]),
        dict(N=3, basis=None, gates=[["PHASEGATE", [1], [], None]]),
        dict(N=3, basis=None, gates=[["PHASEGATE", [1], [], [0.5, 0.25]]]),
        dict(N=3, basis="ISWAP", gates=[["CNOT", [1], [], None]]),
        dict(N=3, basis="CSIGN", gates=[["CNOT", [1], [], None]]),
        dict(N=3, basis="SQRTSWAP", gates=[["CNOT", [], [1], None]]),
        dict(N=3, basis="ISWAP", gates=[["SWAP", [1], [], None]]),
        dict(N=3, basis=["CNOT", "RX", "RY"], gates=[["RZ", [1], [], None]]),
        dict(N=3, basis=["CNOT", "RX", "RY"], gates=[["RZ", [1, 2], [0], 0.5]]),
        dict(N=3, basis=None, gates=[["X", [1], [0], None]]),
        dict(N=3, basis="CSIGN", gates=[["Y", [1, 2], [], 0.5]]),
        dict(N=3, basis=None, gates=[["GLOBALPHASE", [1], [0], 0.5]]),
        dict(N=3, basis=None, gates=[["IGNORED", [1], [0], 0.5]]),
        dict(N=3, basis=None, gates=[["basis_2q", [1], [], None]]),
        dict(N=3, basis=None, gates=[["NOTIMPLEMENTED", [1], [], None]]),
        dict(N=3, basis=None, gates=[["H", [1], [], None], ["RX", [0], [], None]]),
        dict(N=3, basis=["CNOT", "RX"], gates=[]),
        dict(N=3, basis="CSIGN", gates=[]),
        dict(N=3, basis=["CSIGN", "FOO", "RX", "RY"], gates=[["FOO", [0], [], 0.5], ["CNOT", [0], [1], None]]),
    ]
    inputs += [("malformed", m) for m in mal]
    return inputs


def gen_histories(ctx):
    """histories on one circuit object: resolve, edit (in-place assignment of another angle / other qubits to the same gate, or
    remove + insert at the same index, or insert / remove), resolve again with the same basis; 1-3 edits"""
    rng = ctx.rng
    specs = basis_specs()
    out = []

    def other(g, N):
        for _ in range(8):
            t, c = rng.choice(placements(g[0], N, rng, True))
            h = mk_gate(g[0], t, c, rng)
            if h != g:
                return h
        return None

    def fresh(N, b):
        for _ in range(20):
            name = rng.choice(ALWAYS)
            k = KINDS[name]
            if k[0] + k[1] <= N:
                t, c = rng.choice(placements(name, N, rng, True))
                return mk_gate(name, t, c, rng)

    # a. every parametrised kind / every multi-qubit kind: same name at the same index with another angle / other qubits
    for name in ["RX", "RY", "RZ", "PHASEGATE", "GLOBALPHASE", "CNOT", "CSIGN", "SWAP", "ISWAP", "TOFFOLI", "FREDKIN", "X", "SNOT"]:
        for b in rng.sample(specs, ctx.n(2, 8)):
            N = 3
            gs = [fresh(N, b), None, fresh(N, b)]
            t, c = rng.choice(placements(name, N, rng, True))
            gs[1] = mk_gate(name, t, c, rng)
            h = other(gs[1], N)
            if h is not None:
                out.append(dict(N=N, basis=b, gates=gs, edits=[[rng.choice(["assign", "replace"]), 1, h]]))
    # b. random histories
    for _ in range(ctx.n(40, 400)):
        N = rng.choice([2, 3])
        b = rng.choice(specs)
        gs = [fresh(N, b) for _ in range(rng.randint(1, 4))]
        cur = [list(g) for g in gs]
        edits = []
        for _ in range(rng.randint(1, 3)):
            r = rng.random()
            i = rng.randrange(len(cur))
            if r < 0.75 or len(cur) == 1:
                h = other(cur[i], N)
                e = [rng.choice(["assign", "replace"]), i, h] if h is not None else ["replace", i, fresh(N, b)]
            elif r < 0.85:
                e = ["replace", i, fresh(N, b)]
            elif r < 0.93:
                e = ["insert", i, fresh(N, b)]
            else:
                e = ["remove", i, None]
            edits.append(e)
            cur = _edit_data(cur, e)
        out.append(dict(N=N, basis=b, gates=gs, edits=edits))
    return out


def gen_transpile(ctx):
    rng = ctx.rng
    out = []
    one = ["X", "Y", "Z", "SNOT", "SQRTNOT", "PHASEGATE", "RX", "RY", "RZ"]
    # (explicit GLOBALPHASE gates are not offered to transpile: the routing pass is outside this property)
    for _ in range(ctx.n(24, 160)):
        N = rng.choice([2, 3])
        gs = []
        for _ in range(rng.randint(1, 4)):
            if rng.random() < 0.6:
                gs.append(mk_gate(rng.choice(one), [rng.randrange(N)], [], rng))
            else:
                i = rng.randrange(N - 1)
                a, b = (i, i + 1) if rng.random() < 0.5 else (i + 1, i)
                name = rng.choice(["CNOT", "CSIGN", "SWAP", "ISWAP"])
                gs.append(mk_gate(name, [a, b], [], rng) if name in ("SWAP", "ISWAP") else mk_gate(name, [a], [b], rng))
        out.append(dict(processor=rng.choice(PROCESSORS), N=N, gates=gs))
    return out


def load_corpus():
    out = []
    for p in sorted(glob.glob(os.path.join(VERIF, "corpus", "C03", "*.json"))):
        try:
            d = json.load(open(p))
            out.append(("corpus", d.get("input", d)))
        except Exception:
            pass
    return out


# ------------------------------------------------------------------------------------------------
# harness entry points
# ------------------------------------------------------------------------------------------------
def _key(inp):
    return json.dumps(inp, sort_keys=True)


def _nontrivial(inp, impl):
    if impl[0] != "ok":
        return True
    src = [[g[0], list(g[1]), list(g[2])] for g in inp["gates"]]
    return [[g[0], g[1], g[2]] for g in impl[1]] != src


def correspond(ctx):
    corr = Corr(rule="every gate kind x every valid basis specification (5 strings, 5x4 lists, native sets, default) x placements on "
                     "3 qubits, explicit GLOBALPHASE gates next to every phase-producing kind, list bases naming several two-qubit gates (all ordered "
                     "pairs) with SWAP and every two-qubit kind, gates without a rule, edge/invalid specifications, random sequences on 2-4 qubits, malformed stream, "
                     "histories on one circuit object (resolve, in-place edit keeping or changing the name sequence, resolve again; every call a case); "
                     "non-trivial = the decomposition changes the gate list or is refused")
    inputs = load_corpus() + gen_inputs(ctx)
    seen = set()
    cases = []
    for kind, inp in inputs:
        k = _key(inp)
        if k in seen or not _safe(inp):
            continue
        seen.add(k)
        impl = run_impl(inp)
        if impl[0] == "unbuildable":
            continue
        cases.append((kind, inp, impl, inp, ""))
    # histories on one circuit object: every call is a case of its own, judged against the circuit as it is at that call
    for hist in gen_histories(ctx):
        k = _key(hist)
        if k in seen:
            continue
        seen.add(k)
        steps = run_history(hist)
        if not steps or len(steps) < 2 or not all(_safe(f) for f, _ in steps):
            continue
        for j, (flat, impl) in enumerate(steps):
            cases.append(("history", flat, impl, dict(hist, edits=hist["edits"][:j]) if j else flat, (HIST % (j + 1)) if j else ""))
    vals = run_model([c[1] for c in cases])
    for (kind, inp, impl, rep, tag), val in zip(cases, vals):
        corr.tally(kind)
        corr.tally("result:" + impl[0])
        corr.count(_key(rep), nontrivial=_nontrivial(inp, impl), sample=inp if kind == "sequence" else None)
        try:
            model = model_out(val, inp)
        except Exception as e:
            corr.disagree(rep, _show(impl), repr(val)[:300], f"model output not interpretable: {e!r}")
            continue
        if not same(impl, model):
            corr.disagree(rep, _show(impl), _show(model), "resolve_gates output differs from Model/Resolve.v" + tag)
        for what, obs, exp in oracle(inp, impl):
            corr.oracle_fail(rep, obs, exp, what + tag)
    for inp in gen_transpile(ctx):
        impl = run_transpile(inp)
        if impl[0] == "unbuildable":
            continue
        corr.tally("transpile")
        corr.count(_key(inp), nontrivial=True)
        for what, obs, exp in oracle_transpile(inp, impl):
            corr.oracle_fail(inp, obs, exp, what)
    corr.extra["translated"] = {k: v for k, v in _gen.get("decompose", {}).items() if k in ("rules", "passes", "elim", "marker_to_temp", "str_basis_listified", "n_emits")}
    return corr


def obligations(ctx):
    # generated symbolic obligations behind the theorems: 204 distinct symbolic decompositions (covering all 512 configurations x
    # 20 kinds through canon/agree/outs_eq), 124 valid configurations x 20 kinds for membership and for success, 20 rule checks,
    # 8 rotation cases of the parser
    return 204 + 2 * 20 * 124 + 20 + 8


def classify(f):
    inp = f.get("input") or {}
    what = f.get("what", "")
    b = inp.get("basis")
    bad = f.get("observed")
    if isinstance(b, list) and "IDLE" in b and not any(x in ROT for x in b) and isinstance(bad, str) \
            and what == "a circuit of resolvable gates in a valid basis is rejected" and bad.startswith("ValueError: Not sufficient"):
        return "idle-counted-as-rotation"
    if isinstance(b, list) and what == "output contains gates outside the requested basis" and isinstance(bad, list):
        rots = set(x for x in b if x in ROT)
        if "IDLE" in b and len(rots) == 2 and set(bad) <= set(ROT) - rots:
            return "idle-counted-as-rotation"
        if "CSIGN" in b and "ISWAP" in b and bad == ["SWAP"] and any(g[0] == "SWAP" for g in inp.get("gates", [])):
            return "csign-iswap-swap-kept"
    return None


def _fails(inp):
    if "processor" in inp:
        impl = run_transpile(inp)
        return [] if impl[0] == "unbuildable" else oracle_transpile(inp, impl)
    if inp.get("edits"):
        out = []
        for j, (flat, impl) in enumerate(run_history(inp) or []):
            out += [(what + ((HIST % (j + 1)) if j else ""), obs, exp) for what, obs, exp in oracle(flat, impl)]
        return out
    impl = run_impl(inp)
    if impl[0] == "unbuildable":
        return []
    return oracle(inp, impl)


def replay(ctx, rec):
    inp = rec.get("input", rec)
    return bool(_fails(inp))


def search(ctx, broken):
    """an obligation broke and the correspondence run produced no oracle failure: hunt with the oracle alone"""
    class T:
        rng = ctx.rng
        thorough = True

        def n(self, q, t):
            return t
    out = []
    seen = set()
    t = T()
    for kind, inp in load_corpus() + [("history", h) for h in gen_histories(t)] + gen_inputs(t):
        for what, obs, exp in _fails(inp):
            if what not in seen:
                seen.add(what)
                out.append(dict(input=inp, observed=obs, expected=exp, what=what))
        if len(out) >= 8:
            break
    return out
