"""C14 -- pulse evolution is the time-ordered propagator of the stated Hamiltonian (partial).

Correspondence: Processor.get_full_tlist / get_full_coeffs / run_analytically / save_coeff / read_coeff of
the tree under check against the executable Coq model coq/Model/Fill.v (exact, dyadic inputs).
Oracle (written from the property text, independent of the model): step function of every pulse on its
own grid, H(t) = drift + sum c_m(t) H_m, ordered product of scipy expm over the distinct grid points.
"""
import bisect
import json
import os
for _v in ("OMP_NUM_THREADS", "OPENBLAS_NUM_THREADS", "MKL_NUM_THREADS"):
    os.environ.setdefault(_v, "1")      # tiny matrices: BLAS threads only fight the other checks for cores
import shutil
import tempfile
import warnings
from fractions import Fraction

import numpy as np

from common import (Corr, Broken, coq_eval_many, parse_evals, cq, cstr, cbool, clist, VERIF)

ID = "C14"
TARGETS = ["Props/C14.vo"]
TRUSTED = [
    "hand-written model coq/Model/Fill.v of get_full_tlist, _is_pulses_valid, get_full_coeffs, _fill_coeff (step "
    "branch), the slice loop of run_analytically and the save_coeff/read_coeff header/column bookkeeping; tied to the "
    "code by exact comparison on generated dyadic inputs (floats are exact on them), not by translation",
    "floats modelled as exact rationals; tol = exact value of the double 1e-10; IEEE round-off absent from every theorem",
    "NOT modelled, external numerics (meaning validated numerically by the harness only): scipy/qutip expm, "
    "qutip expand_operator/tensor, QobjEvo step interpolation (order=0), mesolve/sesolve, scipy CubicSpline, "
    "numpy savetxt/loadtxt and the %1.16f rounding",
    "reduction stated in Spec/FillSpec.v: the time-ordered exponential of a piecewise-constant H(t) is by definition "
    "the ordered product of exp(-i H_n dt_n); the theorems speak about the (dt_n, H_n) list, expm itself is assumed",
    "solver clause: the installed qutip 5.3.1 has no qutip.Options, so Processor.run_state(solver path) raises "
    "AttributeError before solving; the harness exercises that path only under an in-process shim "
    "qutip.Options=dict and only as a numerical oracle (tolerance 2e-3)",
    "save/reload is not checked on the scale families: the %1.16f file format is absolute (external numerics)",
    "cubic pulses: only numerical oracles on get_full_coeffs: 'interpolates its samples / zero outside its grid', equality with scipy "
    "CubicSpline through the channel's own samples on the merged grid (2-5 samples per channel, interleaved grids; exact line / parabola for "
    "2 / 3 samples), and agreement with the get_qobjevo operator at merged grid points inside every channel's grid",
    "the solver-operator oracle evaluates QobjEvo only at midpoints of merged intervals longer than 1e-6 "
    "(qutip's step interpolation applies its own tolerance next to grid points)",
]
ASSUMES = [
    "theorems assume inputs_okb: tol >= 0, every array pulse has a NON-DECREASING grid (repeated time points "
    "allowed) of >= 1 point and len(coeff) in {len(tlist)-1, len(tlist)}, distinct grid points of all pulses "
    "further apart than tol",
    "the solver-side oracles (QobjEvo operator, solver, save/reload) run only on strictly increasing grids",
    "the model describes the tree with fixes/C14-step-last-sample.diff, fixes/C14-read-coeff.diff and "
    "fixes/C14-fill-coeff-repeated-points.diff applied; whether run_analytically guards `tlist is None` "
    "(fixes/C06-empty-pulse-table.diff) is read from the source and selects run_slices or run_slices_v2",
]

TOL = Fraction(1e-10)           # exact value of the double used by the code
EPS_BELOW = Fraction(1, 2 ** 34)   # 5.8e-11 < tol
EPS_ABOVE = Fraction(1, 2 ** 33)   # 1.16e-10 > tol
CORPUS = os.path.join(VERIF, "corpus", "C14")


# ------------------------------------------------------------------------------------------------
# helpers
# ------------------------------------------------------------------------------------------------
def fr(x):
    return Fraction(int(x[0]), int(x[1]))


def enc(f):
    f = Fraction(f)
    return [f.numerator, f.denominator]


def rand_herm(seed, dim):
    """deterministic small dyadic hermitian matrix"""
    rs = np.random.RandomState(seed % (2 ** 31))
    a = rs.randint(-4, 5, size=(dim, dim)) / 4.0 + 1j * rs.randint(-4, 5, size=(dim, dim)) / 4.0
    return (a + a.conj().T) / 2.0


def embed(op, targets, dims):
    """independent embedding: op acts on the listed subsystems (in that order), identity elsewhere"""
    n = len(dims)
    rest = [q for q in range(n) if q not in targets]
    perm = list(targets) + rest
    dperm = [dims[q] for q in perm]
    drest = int(np.prod([dims[q] for q in rest])) if rest else 1
    big = np.kron(op, np.eye(drest))
    big = big.reshape(dperm + dperm)
    # axis a of `big` is subsystem perm[a]; bring subsystem q to axis q
    inv = [perm.index(q) for q in range(n)]
    big = big.transpose(inv + [n + i for i in inv])
    d = int(np.prod(dims))
    return big.reshape(d, d)


def step_value(tl, cf, t):
    """the property text: value held from one grid point to the next, zero before the grid starts, once it
    has ended, and where no sample is given"""
    i = bisect.bisect_right(tl, t) - 1
    if 0 <= i < len(tl) - 1 and i < len(cf):
        return cf[i]
    return Fraction(0)


def chan_value(ch, t):
    co = ch["coeff"]
    if co is None:
        return Fraction(0)
    if isinstance(co, bool):
        return Fraction(1 if co else 0)
    tl = [fr(x) for x in ch["tlist"]]
    return step_value(tl, [fr(x) for x in co], t)


def all_points(inp):
    pts = []
    for ch in inp["channels"]:
        if ch["tlist"] is not None:
            pts += [fr(x) for x in ch["tlist"]]
    return pts


def in_theorem_domain(inp, need_sep=True):
    """independent re-statement of inputs_okb (need_sep=False: without the well-separation clause)"""
    if inp.get("kind", "step") != "step":
        return False
    has = False
    for ch in inp["channels"]:
        co, tl = ch["coeff"], ch["tlist"]
        if tl is not None:
            has = True
        if isinstance(co, list):
            if tl is None:
                return False
            t = [fr(x) for x in tl]
            # non-decreasing grid with at least one point (a repeated time point = zero-duration slot)
            if len(t) < 1 or any(t[i] > t[i + 1] for i in range(len(t) - 1)):
                return False
            if len(co) not in (len(t) - 1, len(t)):
                return False
        elif co is None and tl is not None:
            return False
    if not has:
        return False
    if not need_sep:
        return True
    pts = sorted(set(all_points(inp)))
    return all(pts[i + 1] - pts[i] > TOL for i in range(len(pts) - 1))


def in_property_domain(inp):
    """the quantifier of the property: array pulses whose (strictly increasing) grids start at zero"""
    if not in_theorem_domain(inp):
        return False
    for ch in inp["channels"]:
        if not isinstance(ch["coeff"], list):
            return False
        t = [fr(x) for x in ch["tlist"]]
        if t[0] != 0 or len(t) < 2 or any(t[i] >= t[i + 1] for i in range(len(t) - 1)):
            return False
    return True


# ------------------------------------------------------------------------------------------------
# running the real implementation
# ------------------------------------------------------------------------------------------------
def _strip_edits(inp):
    out = {k: v for k, v in inp.items() if k not in ("edits", "pre")}
    return out


def initial_config(inp):
    """the configuration the processor is FIRST built with; the edits then lead to the configuration `inp`"""
    ini = json.loads(json.dumps(_strip_edits(inp)))
    ini["history"] = []
    for e in inp["edits"]:
        op = e["op"]
        if op == "targets":
            ini["channels"][e["ch"]]["targets"] = e["old"]
        elif op == "qobj":
            ini["channels"][e["ch"]]["seed"] = e["old_seed"]
        elif op == "coeff":
            ini["channels"][e["ch"]]["coeff"] = e["old"]
        elif op == "tlist":
            ini["channels"][e["ch"]]["tlist"] = e["old"]
        elif op == "add_pulse":
            ini["channels"][e["ch"]]["nopulse"] = True
        elif op == "remove_pulse":
            ini["channels"].append(dict(e["extra"], ctrl=False))
        elif op == "drift":
            ini["drift"] = ini["drift"][:-1]
    ini["ctrl_order"] = None
    return ini


def build(inp):
    """the processor in the configuration `inp`.  With "edits": it is first built in an earlier configuration, the
    calls in "pre" run on it, and it is then edited through the public setters into the configuration `inp`;
    everything observed afterwards is compared with the history-free model/oracle of the CURRENT configuration."""
    if not inp.get("edits"):
        return _build_raw(inp)
    import qutip
    from qutip_qip.pulse import Pulse
    proc, _ = _build_raw(initial_config(inp))
    log = []
    run_history(proc, dict(inp, history=inp.get("pre", [])), log)
    dims = inp["dims"]
    kind = "step_func"

    def arr(x, what):
        a = np.array([float(fr(v)) for v in x], dtype=float)
        proc._c14_user.append((what, a, a.copy()))
        return a

    def qobj_of(e):
        dd = [dims[q] for q in e["targets"]]
        m = rand_herm(e["seed"], int(np.prod(dd))) * float(fr(e.get("scale", [1, 1])))
        return qutip.Qobj(m, dims=[dd, dd])

    for e in inp["edits"]:
        op = e["op"]
        if op == "remove_pulse":
            proc.remove_pulse(indices=[len(proc.pulses) - 1])      # the extra pulse was appended last
            continue
        if op == "drift":
            d = inp["drift"][-1]
            proc.add_drift(qobj_of(d), targets=list(d["targets"]))
            continue
        ch = inp["channels"][e["ch"]]
        if op == "add_pulse":
            proc.add_pulse(Pulse(qobj_of(ch), list(ch["targets"]), tlist=arr(ch["tlist"], "tlist (edit)"),
                                 coeff=arr(ch["coeff"], "coeff (edit)"), spline_kind=kind, label=ch["label"]))
            continue
        pulse = proc.pulses[e["ch"]]
        if op == "targets":
            pulse.targets = list(ch["targets"])
        elif op == "qobj":
            pulse.qobj = qobj_of(ch)
        elif op == "coeff":
            pulse.coeff = arr(ch["coeff"], "coeff (edit)")
        elif op == "tlist":
            pulse.tlist = arr(ch["tlist"], "tlist (edit)")
    _, mats = _build_raw(_strip_edits(inp))
    if log:
        proc._c14_prelog = log
    return proc, mats


def _build_raw(inp):
    import qutip
    from qutip_qip.device import Processor
    from qutip_qip.pulse import Pulse
    dims = inp["dims"]
    kind = "step_func" if inp.get("kind", "step") == "step" else "cubic"
    proc = Processor(len(dims), dims=list(dims), spline_kind=kind)
    mats = {"drift": [], "ctrl": []}
    nsub = len(dims)

    def targets_arg(e):
        """the forms the public methods accept: a list, a bare int, or None (= the first k subsystems)"""
        form = e.get("targets_form", "list")
        if form == "int":
            return e["targets"][0]
        if form == "none":
            return None
        return list(e["targets"])

    for d in inp.get("drift", []):
        dd = [dims[q] for q in d["targets"]]
        m = rand_herm(d["seed"], int(np.prod(dd))) * float(fr(d.get("scale", [1, 1])))
        kw = {}
        if "cyclic" in d:               # keyword given explicitly (True or False)
            kw["cyclic_permutation"] = bool(d["cyclic"])
        proc.add_drift(qutip.Qobj(m, dims=[dd, dd]), targets=targets_arg(d), **kw)
        if d.get("cyclic"):
            # docstring: one term per cyclic shift of the target list modulo the number of subsystems
            for i in range(nsub):
                mats["drift"].append(embed(m, [(t + i) % nsub for t in d["targets"]], dims))
        else:
            mats["drift"].append(embed(m, d["targets"], dims))
    ops = []
    for ch in inp["channels"]:
        dd = [dims[q] for q in ch["targets"]]
        m = rand_herm(ch["seed"], int(np.prod(dd))) * float(fr(ch.get("scale", [1, 1])))
        ops.append(qutip.Qobj(m, dims=[dd, dd]))
        mats["ctrl"].append(embed(m, ch["targets"], dims))
    # add_control registration order: "ctrl_order" (channel indices) may differ from the order in which the
    # pulses / the coefficient dict are given
    order = inp.get("ctrl_order") or list(range(len(inp["channels"])))
    groups = inp.get("cyclic_controls", [])
    registered = set()
    for k in order:
        ch = inp["channels"][k]
        if "cyc" in ch:
            # the channel is shift ch["cyc"][1] of a control registered ONCE with cyclic_permutation=True;
            # its label is then (label, tuple(shifted targets)) and ch["targets"] is that shifted list
            g = ch["cyc"][0]
            if g not in registered:
                registered.add(g)
                grp = groups[g]
                dd = [dims[q] for q in grp["targets"]]
                mg = rand_herm(grp["seed"], int(np.prod(dd))) * float(fr(ch.get("scale", [1, 1])))
                proc.add_control(qutip.Qobj(mg, dims=[dd, dd]), targets=targets_arg(grp),
                                 cyclic_permutation=True, label=grp["label"])
        elif ch.get("ctrl", True):     # False: the channel exists only as a Pulse object given to add_pulse
            kw = {}
            if "cyclic" in ch:
                kw["cyclic_permutation"] = bool(ch["cyclic"])     # explicit False
            proc.add_control(ops[k], targets=targets_arg(ch), label=ch["label"], **kw)

    def real_label(ch):
        if "cyc" in ch:
            return (groups[ch["cyc"][0]]["label"], tuple(ch["targets"]))
        return ch["label"]

    user = []       # (description, the caller's ndarray, pristine copy): must be bit-identical after every call

    def arr(x, what="array"):
        if x is None:
            return None
        a = np.array([float(fr(v)) for v in x], dtype=float)
        user.append((what, a, a.copy()))
        return a

    # coefficient arrays that several channels SHARE: "pool" = value lists; a channel with
    # "share": [i, start, stop] gets pool[i] itself (full range) or the view pool[i][start:stop];
    # with "pool2d" the pool arrays are the rows (views) of one 2-D user array
    pool = []
    if inp.get("pool"):
        if inp.get("pool2d"):
            big = np.array([[float(fr(v)) for v in row] for row in inp["pool"]], dtype=float)
            user.append(("shared 2-D coefficient array", big, big.copy()))
            pool = [big[i] for i in range(big.shape[0])]
        else:
            pool = [arr(row, "shared coefficient array %d" % i) for i, row in enumerate(inp["pool"])]

    def cof(ch):
        x = ch["coeff"]
        if x is None or isinstance(x, bool):
            return x
        sh = ch.get("share")
        if sh is not None:
            base = pool[sh[0]]
            return base if (sh[1] == 0 and sh[2] == len(base)) else base[sh[1]:sh[2]]
        return arr(x, "coeff of %s" % ch["label"])

    if inp.get("mode", "direct") == "setters":
        proc.set_coeffs({real_label(ch): cof(ch) for ch in inp["channels"]})
        proc.set_tlist({real_label(ch): arr(ch["tlist"], "tlist of %s" % ch["label"]) for ch in inp["channels"]})
    else:
        for ch, q in zip(inp["channels"], ops):
            if ch.get("nopulse"):
                continue
            if "cyc" in ch:
                # Hamiltonian and targets as REGISTERED by add_control(cyclic_permutation=True)
                ham, tg = proc.get_control(real_label(ch))
                proc.add_pulse(Pulse(ham, tg, tlist=arr(ch["tlist"], "tlist of %s" % ch["label"]),
                                     coeff=cof(ch), spline_kind=kind, label=real_label(ch)))
                continue
            kw = pulse_label_kw(ch)
            proc.add_pulse(Pulse(q, list(ch["targets"]), tlist=arr(ch["tlist"], "tlist of %s" % ch["label"]),
                                 coeff=cof(ch), spline_kind=kind, **kw))
    proc._c14_user = user
    return proc, mats


def mutated(proc):
    """descriptions of the caller's input arrays that are no longer bit-identical to what was passed in"""
    return [w for w, a, c in getattr(proc, "_c14_user", [])
            if a.shape != c.shape or a.tobytes() != c.tobytes()]


def run_history(proc, inp, log):
    """earlier calls on the SAME processor (the model is history-free, so nothing observed later may change)"""
    import qutip
    for op in inp.get("history", []):
        try:
            if op == "qobjevo0":
                proc.get_qobjevo(noisy=False)
            elif op == "qobjevo1":
                proc.get_qobjevo(noisy=True)
            elif op == "analytic":
                proc.run_analytically()
            elif op == "coeffs":
                proc.get_full_coeffs()
            elif op == "tlist":
                proc.get_full_tlist()
            elif op == "save":
                tmp = tempfile.mkdtemp(prefix="c14-")
                try:
                    proc.save_coeff(os.path.join(tmp, "h.txt"), inctime=True)
                finally:
                    shutil.rmtree(tmp, ignore_errors=True)
            elif op == "solver":
                shim = not hasattr(qutip, "Options")
                if shim:
                    qutip.Options = dict
                try:
                    d = int(np.prod(inp["dims"]))
                    ket = qutip.basis(d, 0)
                    ket.dims = [list(inp["dims"]), [1] * len(inp["dims"])]
                    proc.run_state(init_state=ket)
                finally:
                    if shim:
                        del qutip.Options
        except Exception:
            pass
        bad = mutated(proc)
        if bad and not log:
            log.append("%s: %s" % (op, ", ".join(bad)))


def pulse_label_kw(ch):
    """label given to the Pulse object: the channel's own label (default), Pulse's default label (argument
    omitted), None, or an explicit string that several pulses may share"""
    pl = ch.get("pulse_label")
    if pl is None or pl.get("kind") == "own":
        return {"label": ch["label"]}
    if pl["kind"] == "default":
        return {}
    if pl["kind"] == "none":
        return {"label": None}
    return {"label": pl["value"]}


def labels_own(inp):
    """every pulse carries its own unique control label and the control is registered (needed by the file
    format of save_coeff/read_coeff, which identifies columns by label)"""
    return all(ch.get("ctrl", True) and "cyc" not in ch
               and (ch.get("pulse_label") is None or ch["pulse_label"].get("kind") == "own")
               for ch in inp["channels"])


def fracs(a):
    return [Fraction(float(x)) for x in np.asarray(a, dtype=float).ravel()]


def run_impl(inp):
    """observable outputs of the public functions; None = rejected (exception)"""
    out = {"full": None, "rows": None, "props": None, "err": {}, "mutated": []}
    with warnings.catch_warnings():
        warnings.simplefilter("ignore")
        try:
            proc, mats = build(inp)
        except Exception as e:  # construction itself refused
            out["err"]["build"] = repr(e)[:200]
            return out, None, None
        out["mutated"] += getattr(proc, "_c14_prelog", [])
        run_history(proc, inp, out["mutated"])
        try:
            f = proc.get_full_tlist()
            out["full"] = None if f is None else fracs(f)
        except Exception as e:
            out["err"]["full"] = repr(e)[:200]
        try:
            c = proc.get_full_coeffs()
            c = np.asarray(c, dtype=float)
            if len(proc.pulses) == 0 or c.ndim != 2:
                out["rows"] = None          # degenerate np.array((0,0)) of the empty processor
            else:
                out["rows"] = [fracs(r) for r in c]
        except Exception as e:
            out["err"]["rows"] = repr(e)[:200]
        try:
            us = proc.run_analytically()
            out["props"] = [np.asarray(u.full()) for u in us]
        except Exception as e:
            out["err"]["props"] = repr(e)[:200]
        bad = mutated(proc)
        if bad and not out["mutated"]:
            out["mutated"].append("get_full_tlist/get_full_coeffs/run_analytically: " + ", ".join(bad))
    return out, proc, mats


def hmat(mats, cs):
    d = mats["ctrl"][0].shape[0] if mats["ctrl"] else 1
    h = np.zeros((d, d), dtype=complex)
    for m in mats["drift"]:
        h = h + m
    for c, m in zip(cs, mats["ctrl"]):
        h = h + float(c) * m
    return h


def expm_i(h, dt):
    from scipy.linalg import expm
    return expm(-1j * h * float(dt))


# ------------------------------------------------------------------------------------------------
# Coq side
# ------------------------------------------------------------------------------------------------
HEADER = """From Coq Require Import String.
From Coq Require Import List QArith ZArith.
From QV Require Import Model.Fill Spec.FillSpec.
Import ListNotations.
Definition tol : Q := %s.
Definition eq_ (q : Q) : Z * Z := (Qnum q, Zpos (Qden q)).
Definition el (l : list Q) := map eq_ l.
Definition run (ps : list pulse) :=
  (option_map el (get_full_tlist tol ps),
   option_map (map el) (get_full_coeffs tol ps),
   option_map (map (fun s => (eq_ (fst s), el (snd s)))) (run_slices tol ps),
   inputs_okb tol ps,
   option_map (map el) (get_full_coeffs_v0 tol ps),
   option_map (map el) (get_full_coeffs_v1 tol ps),
   option_map (map (fun s => (eq_ (fst s), el (snd s)))) (run_slices_v2 tol ps)).
Definition runfile (inct : bool) (labels : list string) (ps : list pulse) :=
  match get_full_tlist tol ps, get_full_coeffs tol ps with
  | Some full, Some rows =>
      let f := save_file inct labels full rows in
      Some (fst f, map el (snd f),
            option_map (fun r => (option_map el (fst r), map (fun lc => (fst lc, el (snd lc))) (snd r)))
                       (read_file inct f),
            file_okb labels full rows)
  | _, _ => None
  end.
""" % cq(TOL)


_GUARD = {}


def guards_none_grid():
    """configuration flag read from the source under check: does Processor.run_analytically turn a None time
    grid into [] (fixes/C06-empty-pulse-table.diff)?  Selects run_slices (guard) or run_slices_v2 (no guard)."""
    if "v" not in _GUARD:
        import inspect
        import re
        from qutip_qip.device import Processor
        src = inspect.getsource(Processor.run_analytically)
        _GUARD["v"] = bool(re.search(r"if\s+tlist\s+is\s+None\s*:", src))
    return _GUARD["v"]


def coq_pulse(ch):
    tl = "None" if ch["tlist"] is None else "(Some %s)" % clist([cq(fr(x)) for x in ch["tlist"]])
    co = ch["coeff"]
    if co is None:
        c = "CNone"
    elif isinstance(co, bool):
        c = "(CBool %s)" % cbool(co)
    else:
        c = "(CArr %s)" % clist([cq(fr(x)) for x in co])
    return "(mkPulse %s %s)" % (tl, c)


def coq_pulses(inp):
    return clist([coq_pulse(ch) for ch in inp["channels"]])


def qv(p):
    return Fraction(p[0], p[1])


def dec_list(l):
    return [qv(p) for p in l]


def dec_opt(o, f):
    return None if o is None else f(o[1])


def run_models(ctx_name, cases, filecases):
    """cases: list of inputs (step kind). filecases: list of (index into cases, inctime)."""
    files = []
    chunk = 150
    for k in range(0, len(cases), chunk):
        body = HEADER + "".join("Eval vm_compute in run %s.\n" % coq_pulses(c) for c in cases[k:k + chunk])
        files.append(("c14_%s_%d" % (ctx_name, k // chunk), body))
    if filecases:
        body = HEADER
        for idx, inct in filecases:
            c = cases[idx]
            labels = clist([cstr(ch["label"]) + "%string" for ch in c["channels"]])
            body += "Eval vm_compute in runfile %s %s %s.\n" % (cbool(inct), labels, coq_pulses(c))
        files.append(("c14_%s_file" % ctx_name, body))
    outs = coq_eval_many(files)
    res = []
    for name, _ in files:
        if name.endswith("_file"):
            continue
        res += parse_evals(outs[name])
    if len(res) != len(cases):
        raise Broken("coq-eval:c14", "expected %d results, got %d" % (len(cases), len(res)))
    models = []
    for r in res:
        full, rows, sl, okb, rows0, rows1, sl2 = r
        if not guards_none_grid():
            sl = sl2          # the tree has no `tlist is None` guard in run_analytically: model run_slices_v2
        models.append(dict(
            full=dec_opt(full, dec_list),
            rows=dec_opt(rows, lambda x: [dec_list(y) for y in x]),
            # ((num, den), coeffs) is printed by Coq as the flat triple (num, den, coeffs)
            slices=dec_opt(sl, lambda x: [(qv((s[0], s[1])), dec_list(s[2])) for s in x]),
            okb=okb,
            rows_v0=dec_opt(rows0, lambda x: [dec_list(y) for y in x]),
            rows_v1=dec_opt(rows1, lambda x: [dec_list(y) for y in x])))
    fres = []
    if filecases:
        fres = parse_evals(outs["c14_%s_file" % ctx_name])
        if len(fres) != len(filecases):
            raise Broken("coq-eval:c14-file", "expected %d results, got %d" % (len(filecases), len(fres)))
    return models, fres


# ------------------------------------------------------------------------------------------------
# the property oracle on one input (real code only)
# ------------------------------------------------------------------------------------------------
def total_product(us, d):
    p = np.eye(d, dtype=complex)
    for u in us:
        p = u @ p
    return p


def oracle_case(inp, impl=None, proc=None, mats=None, solver=False, files=True, states=True,
                solver_max_step=None):
    """returns list of failure dicts (observed/expected/what) for this input"""
    fails = []

    def fail(what, observed, expected):
        fails.append(dict(input=inp, observed=observed, expected=expected, what=what))

    if impl is None:
        impl, proc, mats = run_impl(inp)
    kind = inp.get("kind", "step")
    if impl.get("mutated"):
        fail("a call modified the caller's input array in place", impl["mutated"], "input arrays bit-identical")
    if not inp["channels"]:
        # no pulse at all: if the processor is accepted, zero time elapses -- the ordered product is empty
        if impl["props"] is not None and len(impl["props"]) != 0:
            fail("a processor without pulses yields propagators", len(impl["props"]), 0)
        return fails
    if kind == "cubic":
        oracle_cubic(inp, impl, fail)
        if not fails and proc is not None and mats is not None:
            oracle_cubic_operator(inp, impl, proc, mats, fail)
        return fails
    if not in_theorem_domain(inp):
        if in_theorem_domain(inp, need_sep=False) and all(isinstance(c["coeff"], list) for c in inp["channels"]):
            oracle_subtol(inp, impl, mats, fail)
        return fails
    grid = sorted(set(all_points(inp)))
    if impl["full"] is None or impl["rows"] is None or impl["props"] is None:
        fail("valid input rejected", impl["err"], "merged grid, coefficients and propagators")
        return fails
    if impl["full"] != grid:
        fail("merged grid is not the sorted set of all grid points", [str(x) for x in impl["full"]],
             [str(x) for x in grid])
        return fails
    exp_rows = []
    for ch in inp["channels"]:
        exp_rows.append([chan_value(ch, (grid[n] + grid[n + 1]) / 2) for n in range(len(grid) - 1)])
    for m, (er, ir) in enumerate(zip(exp_rows, impl["rows"])):
        if len(ir) != len(grid) or ir[:len(grid) - 1] != er:
            fail("resampled coefficient differs from the pulse's step function on a merged interval",
                 dict(channel=m, row=[str(x) for x in ir]), dict(channel=m, row=[str(x) for x in er] + ["*"]))
            break
    if len(impl["rows"]) != len(inp["channels"]):
        fail("number of coefficient rows", len(impl["rows"]), len(inp["channels"]))
    # evolution = ordered product of exp(-i H(t_mid) dt) over the distinct grid points
    d = int(np.prod(inp["dims"]))
    exp_us = [expm_i(hmat(mats, [r[n] for r in exp_rows]), grid[n + 1] - grid[n]) for n in range(len(grid) - 1)]
    exp_tot = total_product(exp_us, d)
    got_tot = total_product(impl["props"], d)
    err = float(np.max(np.abs(exp_tot - got_tot)))
    if err > 1e-9:
        fail("analytic evolution differs from the time-ordered exponential of H(t)", dict(max_abs_err=err),
             dict(max_abs_err="<= 1e-9"))
    # state evolution through run_state(analytical=True): ket and density matrix
    try:
        import qutip
        if not states:
            raise StopIteration
        with warnings.catch_warnings():
            warnings.simplefilter("ignore")
            rs = np.random.RandomState(inp.get("state_seed", 7))
            v = rs.randn(d) + 1j * rs.randn(d)
            v = v / np.linalg.norm(v)
            ket = qutip.Qobj(v.reshape(d, 1), dims=[list(inp["dims"]), [1] * len(inp["dims"])])
            for st, mode in ((ket, "ket"), (qutip.ket2dm(ket), "dm")):
                lst = proc.run_state(init_state=st, analytical=True)
                if not (np.allclose(lst[0].full(), st.full()) and len(lst) == len(impl["props"]) + 1):
                    fail("run_state(analytical=True) does not start from the given %s state" % mode,
                         len(lst), len(impl["props"]) + 1)
    except StopIteration:
        pass
    except Exception as e:
        fail("run_state(analytical=True) raised on a valid input", repr(e)[:200], "list of state and propagators")
    # operator assembly for the solvers: H(t) at interval midpoints (and no collapse operators)
    if in_property_domain(inp):
        try:
            with warnings.catch_warnings():
                warnings.simplefilter("ignore")
                proc2, _ = build(inp)
                qe, cops = proc2.get_qobjevo(noisy=True)
                if cops:
                    fail("collapse operators on a noise-free processor", len(cops), 0)
                if mutated(proc2):
                    fail("a call modified the caller's input array in place",
                         ["get_qobjevo(noisy=True): " + ", ".join(mutated(proc2))], "input arrays bit-identical")
                qe0, _ = proc2.get_qobjevo(noisy=False)      # same operator without the drift
                nodrift = dict(mats, drift=[])
                for n in range(len(grid) - 1):
                    if grid[n + 1] - grid[n] < Fraction(1, 10 ** 6):
                        continue
                    t = (grid[n] + grid[n + 1]) / 2
                    er = float(np.max(np.abs(np.asarray(qe0(float(t)).full()) - hmat(nodrift, [r[n] for r in exp_rows]))))
                    if er > 1e-9:
                        fail("solver operator H(t) differs from drift + sum c_m(t) H_m",
                             dict(t=str(t), max_abs_err=er, noisy=False), dict(max_abs_err="<= 1e-9"))
                        break
                if mutated(proc2):
                    fail("a call modified the caller's input array in place",
                         ["get_qobjevo(noisy=False): " + ", ".join(mutated(proc2))], "input arrays bit-identical")
                for n in range(len(grid) - 1):
                    if grid[n + 1] - grid[n] < Fraction(1, 10 ** 6):
                        continue    # qutip's step interpolation has its own 1e-10-scale tolerance at grid points
                    t = (grid[n] + grid[n + 1]) / 2
                    h = np.asarray(qe(float(t)).full())
                    e = hmat(mats, [r[n] for r in exp_rows])
                    er = float(np.max(np.abs(h - e)))
                    if er > 1e-9:
                        fail("solver operator H(t) differs from drift + sum c_m(t) H_m",
                             dict(t=str(t), max_abs_err=er), dict(max_abs_err="<= 1e-9"))
                        break
        except Exception as e:
            fail("get_qobjevo raised on a valid input", repr(e)[:200], "QobjEvo")
        if solver:
            fails += oracle_solver(inp, exp_tot, solver_max_step)
        # (a pulse whose qobj/targets were edited no longer matches its registered control, which is what a
        #  reload through set_coeffs rebuilds the pulse from)
        if files and labels_own(inp) and not inp.get("family", "").startswith("scale") \
                and not any(e["op"] in ("qobj", "targets") for e in (inp.get("edits") or [])):
            fails += oracle_files(inp, impl, got_tot)
    return fails


SUBTOL_WHAT = "evolution differs from the time-ordered exponential of H(t) on a grid with points closer than 1e-10"


def oracle_subtol(inp, impl, mats, fail):
    """valid pulses whose distinct grid points come closer than the code's ABSOLUTE merging tolerance 1e-10: the
    property text still demands the time-ordered exponential over the true grid (evolution only; 1e-8)"""
    if impl["props"] is None or mats is None:
        fail(SUBTOL_WHAT, impl["err"], "propagators")
        return
    grid = sorted(set(all_points(inp)))
    d = int(np.prod(inp["dims"]))
    us = [expm_i(hmat(mats, [chan_value(ch, (grid[n] + grid[n + 1]) / 2) for ch in inp["channels"]]),
                 grid[n + 1] - grid[n]) for n in range(len(grid) - 1)]
    err = float(np.max(np.abs(total_product(us, d) - total_product(impl["props"], d))))
    if err > 1e-8:
        fail(SUBTOL_WHAT, dict(max_abs_err=err), dict(max_abs_err="<= 1e-8"))


def rescale_time(inp, k):
    """the same physics in a time unit 2^k times smaller: times * 2^k, every Hamiltonian term / 2^k"""
    out = json.loads(json.dumps(inp))
    out.pop("pool", None)
    out.pop("pool2d", None)
    f = Fraction(2) ** k
    for dr in out.get("drift", []):
        dr["scale"] = enc(fr(dr.get("scale", [1, 1])) / f)
    for ch in out["channels"]:
        ch.pop("share", None)
        if ch["tlist"] is not None:
            ch["tlist"] = [enc(fr(x) * f) for x in ch["tlist"]]
        if isinstance(ch["coeff"], list):
            ch["coeff"] = [enc(fr(x) / f) for x in ch["coeff"]]
        elif ch["coeff"] is True:
            ch["scale"] = enc(fr(ch.get("scale", [1, 1])) / f)
    return out


def oracle_solver(inp, exp_tot, max_step=None):
    """master-equation / Schroedinger solver path, under the Options shim (environmental)"""
    import qutip
    fails = []
    d = int(np.prod(inp["dims"]))
    shim = not hasattr(qutip, "Options")
    if shim:
        qutip.Options = dict
    try:
        with warnings.catch_warnings():
            warnings.simplefilter("ignore")
            rs = np.random.RandomState(inp.get("state_seed", 7) + 1)
            v = rs.randn(d) + 1j * rs.randn(d)
            v = v / np.linalg.norm(v)
            ket = qutip.Qobj(v.reshape(d, 1), dims=[list(inp["dims"]), [1] * len(inp["dims"])])
            for st, mode in ((ket, "ket"), (qutip.ket2dm(ket), "dm")):
                proc, _ = build(inp)
                try:
                    if max_step is None:
                        res = proc.run_state(init_state=st)
                    else:
                        res = proc.run_state(init_state=st, options={"max_step": float(max_step)})
                    fin = np.asarray(res.states[-1].full())
                except Exception as e:
                    fails.append(dict(input=inp, observed=repr(e)[:200], expected="final state",
                                      what="run_state (solver, Options shim) raised on a valid input"))
                    continue
                exp = exp_tot @ st.full() if mode == "ket" else exp_tot @ st.full() @ exp_tot.conj().T
                er = float(np.max(np.abs(fin - exp)))
                if er > 2e-3:
                    fails.append(dict(input=inp, observed=dict(mode=mode, max_abs_err=er),
                                      expected=dict(max_abs_err="<= 2e-3"),
                                      what="solver evolution differs from the time-ordered exponential of H(t)"))
    finally:
        if shim:
            del qutip.Options
    return fails


def oracle_files(inp, impl, got_tot):
    """save_coeff / read_coeff: a fresh processor (same controls) AND the saving processor itself, after reading
    the file back, have for every LABEL the saved coefficients, the same grid and the same evolution"""
    fails = []
    d = int(np.prod(inp["dims"]))
    labels = [ch["label"] for ch in inp["channels"]]
    want = {l: [float(x) for x in r] for l, r in zip(labels, impl["rows"])}
    full = [float(x) for x in impl["full"]]
    tmp = tempfile.mkdtemp(prefix="c14-")
    try:
        for inct in (True, False):
            for target in ("fresh", "same"):
                with warnings.catch_warnings():
                    warnings.simplefilter("ignore")
                    fn = os.path.join(tmp, "coeff_%d_%s.txt" % (inct, target))
                    tag = "inctime=%s, %s processor" % (inct, target)
                    try:
                        proc, _ = build(inp)
                        proc.save_coeff(fn, inctime=inct)
                        if target == "fresh":
                            blank = dict(inp, channels=[dict(ch, tlist=None, coeff=None) for ch in inp["channels"]],
                                         mode="direct", edits=None, pre=None)
                            proc2, _ = build(blank)
                            proc2.clear_pulses()
                        else:
                            proc2 = proc
                        ret = proc2.read_coeff(fn, inctime=inct)
                        if inct:
                            rt, rc = ret
                            if callable(rt) or not np.allclose(np.asarray(rt, dtype=float), full, atol=1e-12, rtol=0):
                                fails.append(dict(input=inp, observed=repr(rt)[:120],
                                                  expected=[str(x) for x in impl["full"]],
                                                  what="read_coeff(inctime=True) does not return the saved time list"))
                                continue
                        else:
                            rc = ret
                            proc2.set_tlist(np.array(full))
                        ok = sorted(map(str, rc.keys())) == sorted(labels) and all(
                            np.ndim(rc[l]) == 1 and np.allclose(rc[l], want[l], atol=1e-12, rtol=0) for l in labels)
                        if not ok:
                            fails.append(dict(input=inp, observed={str(k): repr(v)[:80] for k, v in rc.items()},
                                              expected={l: [str(x) for x in r] for l, r in zip(labels, impl["rows"])},
                                              what="read_coeff(inctime=%s) does not return the saved coefficients"
                                                   % inct))
                            continue
                        # the processor after the reload: per-label coefficients, grid, evolution
                        f2 = proc2.get_full_tlist()
                        c2 = np.asarray(proc2.get_full_coeffs(), dtype=float)
                        got = {str(p.label): c2[i] for i, p in enumerate(proc2.pulses)} if c2.ndim == 2 else {}
                        same = (np.allclose(f2, full, atol=1e-12, rtol=0) and sorted(got) == sorted(labels)
                                and all(np.allclose(got[l], want[l], atol=1e-12, rtol=0) for l in labels))
                        if not same:
                            fails.append(dict(input=inp, observed={k: [float(x) for x in v] for k, v in got.items()},
                                              expected=want,
                                              what="after save/reload (%s) a control carries other coefficients" % tag))
                            continue
                        us = proc2.run_analytically()
                        tot2 = total_product([np.asarray(u.full()) for u in us], d)
                        err = float(np.max(np.abs(tot2 - got_tot)))
                        if err > 1e-9:
                            fails.append(dict(input=inp, observed=dict(max_abs_err=err), expected="same evolution",
                                              what="save/reload (%s) changes the evolution" % tag))
                    except Exception as e:
                        fails.append(dict(input=inp, observed=repr(e)[:200], expected="round trip",
                                          what="save/reload (%s) raised on a valid input" % tag))
    finally:
        shutil.rmtree(tmp, ignore_errors=True)
    return fails


def oracle_cubic(inp, impl, fail):
    """a spline coefficient interpolates its samples (and is zero outside its own grid)"""
    if impl["full"] is None or impl["rows"] is None:
        fail("valid cubic input rejected", impl["err"], "merged grid and coefficients")
        return
    grid = sorted(set(all_points(inp)))
    if impl["full"] != grid:
        fail("merged grid is not the sorted set of all grid points", [str(x) for x in impl["full"]],
             [str(x) for x in grid])
        return
    for m, ch in enumerate(inp["channels"]):
        tl = [fr(x) for x in ch["tlist"]]
        cf = [fr(x) for x in ch["coeff"]]
        row = impl["rows"][m]
        for n, t in enumerate(grid):
            if t in tl:
                e = cf[tl.index(t)]
            elif t < tl[0] or t > tl[-1]:
                e = Fraction(0)
            else:
                continue
            if abs(float(row[n]) - float(e)) > 1e-9:
                fail("cubic coefficient does not interpolate its samples", dict(channel=m, t=str(t), value=float(row[n])),
                     dict(value=float(e)))
                return
    # BETWEEN the samples: the continuous coefficient is the cubic (not-a-knot) spline through the channel's OWN samples, evaluated
    # on the merged grid (scipy CubicSpline = the external function the model leaves abstract); for 2 samples that is the straight
    # line and for 3 samples the parabola through them, which are evaluated here exactly as well
    from scipy.interpolate import CubicSpline
    g = np.array([float(t) for t in grid])
    for m, ch in enumerate(inp["channels"]):
        tl = [fr(x) for x in ch["tlist"]]
        cf = [fr(x) for x in ch["coeff"]]
        if len(tl) != len(cf) or len(tl) < 2 or any(b <= a for a, b in zip(tl, tl[1:])):
            continue
        a = np.array([float(x) for x in tl])
        exp = CubicSpline(a, np.array([float(x) for x in cf]))(g) * (g <= a[-1]) * (g >= a[0])
        row = [float(x) for x in impl["rows"][m]]
        for n, t in enumerate(grid):
            cands = [float(exp[n])]
            if tl[0] <= t <= tl[-1] and len(tl) in (2, 3):
                # Lagrange form through the 2 / 3 samples, exact rational arithmetic
                v = Fraction(0)
                for i in range(len(tl)):
                    w = cf[i]
                    for j in range(len(tl)):
                        if j != i:
                            w = w * (t - tl[j]) / (tl[i] - tl[j])
                    v += w
                cands.append(float(v))
            for e in cands:
                if abs(row[n] - e) > 1e-9 * max(1.0, abs(e)):
                    fail("cubic coefficient differs from the cubic spline through the channel's own samples",
                         dict(channel=m, samples=len(tl), t=str(t), value=row[n]), dict(value=e))
                    return


CUBIC_HELD_WHAT = ("get_full_coeffs (cubic) is zero after a channel's own grid ended but the operator of get_qobjevo differs "
                   "there")


def _cubic_operator_devs(inp, impl, proc, mats, pts, ref_n, hold=False):
    """max |H(t) - sum_m c_m(t) H_m - (the same at merged point ref_n)| for the merged grid points pts; c_m = rows of
    get_full_coeffs, with hold=True replaced by the channel's last sample strictly after the channel's own last grid point"""
    grid = impl["full"]
    lasts = [(fr(ch["tlist"][-1]), float(fr(ch["coeff"][-1]))) for ch in inp["channels"]]
    with warnings.catch_warnings():
        warnings.simplefilter("ignore")
        qe = proc.get_qobjevo(noisy=False)[0]

        def rest(n):
            t = grid[n]
            h = np.asarray(qe(float(t)).full())
            for m, mat in enumerate(mats["ctrl"]):
                c = float(impl["rows"][m][n])
                if hold and t > lasts[m][0]:
                    c = lasts[m][1]
                h = h - c * mat
            return h

        ref = rest(ref_n)
        scale = max(1.0, float(np.max(np.abs(ref))))
        return [(n, t, float(np.max(np.abs(rest(n) - ref))) / scale) for n, t in pts]


def _cubic_points(inp, impl):
    """merged grid points inside every channel's own grid, and (only when every grid starts at the merged start) those after the
    first channel has ended"""
    grid = impl["full"]
    lo = max(fr(ch["tlist"][0]) for ch in inp["channels"])
    hi = min(fr(ch["tlist"][-1]) for ch in inp["channels"])
    inside = [(n, t) for n, t in enumerate(grid) if lo <= t <= hi]
    after = [(n, t) for n, t in enumerate(grid) if t > hi] if (grid and lo == grid[0]) else []
    return inside, after


def oracle_cubic_operator(inp, impl, proc, mats, fail):
    """get_full_coeffs and the operator get_qobjevo hands to the solvers describe the same H(t): at every merged grid point that is
    not before the start of some channel's own grid, H(t) - sum_m c_m(t) H_m is one constant operator (the drift part).  After a
    channel's own last grid point its row of get_full_coeffs is zero (checked by oracle_cubic), so the operator has to drop that
    channel there as well."""
    inside, after = _cubic_points(inp, impl)
    if len(inside) + len(after) < 2 or not inside:
        return
    try:
        for n, t, dev in _cubic_operator_devs(inp, impl, proc, mats, inside, inside[0][0]):
            if dev > 1e-9:
                fail("get_full_coeffs (cubic) and the operator of get_qobjevo disagree at a merged grid point",
                     dict(t=str(t), max_abs_dev=dev), "the same H(t)")
                return
        bad = [(t, dev) for n, t, dev in _cubic_operator_devs(inp, impl, proc, mats, after, inside[0][0]) if dev > 1e-9] \
            if after else []
        if bad:
            fail(CUBIC_HELD_WHAT, dict(times=[str(t) for t, _ in bad], max_abs_dev=max(d for _, d in bad)),
                 "the same H(t): drift + sum of (row of get_full_coeffs) x (control operator)")
    except Exception as e:
        fail("get_qobjevo raised on a valid cubic input", repr(e)[:200], "an operator")


def _classify_cubic_held(inp):
    """True iff the only mismatching merged points lie strictly after the own last grid point of a channel with a non-zero last
    sample, and the operator agrees once the rows of exactly those channels hold their last sample there"""
    if inp.get("kind") != "cubic":
        return False
    impl, proc, mats = run_impl(inp)
    if impl["full"] is None or impl["rows"] is None or proc is None or mats is None:
        return False
    probe = []
    oracle_cubic(inp, impl, lambda *a: probe.append(a))
    if probe:
        return False
    inside, after = _cubic_points(inp, impl)
    if not inside or not after:
        return False
    pts = inside + after
    plain = _cubic_operator_devs(inp, impl, proc, mats, pts, inside[0][0])
    held = _cubic_operator_devs(inp, impl, proc, mats, pts, inside[0][0], hold=True)
    bad = [t for n, t, dev in plain if dev > 1e-9]
    if not bad or any(dev > 1e-9 for n, t, dev in held):
        return False
    ends = [fr(ch["tlist"][-1]) for ch in inp["channels"] if fr(ch["coeff"][-1]) != 0]
    return all(any(t > e for e in ends) for t in bad)


# ------------------------------------------------------------------------------------------------
# generators
# ------------------------------------------------------------------------------------------------
INCS = [Fraction(1, 8), Fraction(1, 4), Fraction(3, 8), Fraction(1, 2), Fraction(3, 4), Fraction(1), Fraction(5, 4),
        Fraction(2)]
LABELS = ["p%d", "sx%d", "ctrl %d", "g_%d", "Z%d"]


def gen_grid(rng, start0=True, npts=None):
    k = npts if npts is not None else rng.choice([2, 2, 3, 3, 4, 5, 6])
    t = Fraction(0) if start0 else rng.choice(INCS)
    out = [t]
    for _ in range(k - 1):
        t = t + rng.choice(INCS)
        out.append(t)
    return out


def gen_coeff(rng, n):
    return [Fraction(rng.randint(-32, 32), 8) if rng.random() < 0.9 else Fraction(0) for _ in range(n)]


def gen_system(rng):
    n = rng.choice([1, 1, 2, 2, 3])
    dims = [rng.choice([2, 2, 3]) for _ in range(n)]
    return dims


def gen_targets(rng, dims):
    n = len(dims)
    k = 1 if (n == 1 or rng.random() < 0.7) else 2
    return rng.sample(range(n), k)


def gen_edits(rng):
    """edits of the LIVE processor through public setters between calls: pulse.targets, pulse.qobj, pulse.coeff,
    pulse.tlist reassigned, a pulse added / removed, a drift added later"""
    import itertools
    inp = gen_valid(rng, nch=rng.choice([2, 2, 3]))
    inp["mode"] = "direct"
    inp["family"] = "edits"
    dims = inp["dims"]
    chans = inp["channels"]
    kinds = ["targets", "targets", "qobj", "coeff", "tlist", "add_pulse", "remove_pulse", "drift"]
    rng.shuffle(kinds)
    edits, used = [], set()
    for op in kinds:
        if len(edits) >= rng.choice([1, 1, 2, 2, 3]):
            break
        if op in ("remove_pulse", "drift"):
            if op == "drift":
                if not inp["drift"]:
                    inp["drift"] = [dict(targets=gen_targets(rng, dims), seed=rng.randint(0, 10 ** 6))]
                edits.append(dict(op="drift"))
            else:
                tl = gen_grid(rng)
                edits.append(dict(op="remove_pulse", extra=dict(
                    label="gone", targets=gen_targets(rng, dims), seed=rng.randint(0, 10 ** 6),
                    tlist=[enc(x) for x in tl], coeff=[enc(x) for x in gen_coeff(rng, len(tl) - 1)])))
            continue
        m = len(chans) - 1 if op == "add_pulse" else rng.randrange(len(chans))
        if m in used or (op != "add_pulse" and (len(chans) - 1) in used and m == len(chans) - 1):
            continue
        ch = chans[m]
        if op == "targets":
            want = [dims[q] for q in ch["targets"]]
            alts = [list(t) for t in itertools.permutations(range(len(dims)), len(want))
                    if [dims[q] for q in t] == want and list(t) != ch["targets"]]
            if not alts:
                continue
            edits.append(dict(op="targets", ch=m, old=rng.choice(alts)))
        elif op == "qobj":
            edits.append(dict(op="qobj", ch=m, old_seed=ch["seed"] + 17))
        elif op == "coeff":
            edits.append(dict(op="coeff", ch=m, old=[enc(x) for x in gen_coeff(rng, len(ch["coeff"]))]))
        elif op == "tlist":
            old = gen_grid(rng, npts=len(ch["tlist"]))
            edits.append(dict(op="tlist", ch=m, old=[enc(x) for x in old]))
        else:
            edits.append(dict(op="add_pulse", ch=m))
        used.add(m)
    if not edits:
        edits.append(dict(op="qobj", ch=0, old_seed=chans[0]["seed"] + 17))
    # add_pulse must come after in-place edits of existing pulses and a removal of the extra pulse
    edits.sort(key=lambda e: {"remove_pulse": 1, "add_pulse": 2}.get(e["op"], 0))
    inp["edits"] = edits
    pre = [rng.choice(["analytic", "qobjevo0", "qobjevo1"])] + \
          [rng.choice(HISTORY_OPS) for _ in range(rng.choice([0, 0, 1]))]
    rng.shuffle(pre)
    inp["pre"] = pre
    if rng.random() < 0.3:
        add_history(rng, inp)
    return inp


def gen_keywords(rng):
    """the keyword alphabet of the public methods that define H(t): add_drift / add_control with
    cyclic_permutation=True/False, targets as list / int / None, operators on 1, 2 or 3 subsystems with
    non-ascending targets"""
    n = rng.choice([1, 2, 2, 3, 3, 3])
    dm = rng.choice([2, 2, 3])
    dims = [dm] * n                    # uniform dims: every cyclic shift of a target list fits the operator

    def tg(kmax=None):
        k = rng.randint(1, kmax or n)
        return rng.sample(range(n), k)  # any order, e.g. [2, 0]

    def with_form(e):
        t = e["targets"]
        if len(t) == 1 and rng.random() < 0.4:
            e["targets_form"] = "int"
        elif t == list(range(len(t))) and rng.random() < 0.5:
            e["targets_form"] = "none"
        return e

    drift = []
    for _ in range(rng.choice([1, 1, 2])):
        d = with_form(dict(targets=tg(), seed=rng.randint(0, 10 ** 6)))
        r = rng.random()
        if r < 0.65:
            d["cyclic"] = True
        elif r < 0.85:
            d["cyclic"] = False
        drift.append(d)
    chans, groups = [], []
    lab = rng.choice(LABELS)
    # one control family registered with cyclic_permutation=True; a subset of its shifts carries pulses
    base = tg()
    gseed = rng.randint(0, 10 ** 6)
    groups.append(with_form(dict(label="cyc", targets=base, seed=gseed)))
    shifts = rng.sample(range(n), rng.randint(1, n))
    for i in shifts:
        chans.append(dict(label="cyc@%d" % i, cyc=[0, i], targets=[(t + i) % n for t in base], seed=gseed))
    for m in range(rng.choice([0, 1, 2])):
        c = with_form(dict(label=lab % m, targets=tg(), seed=rng.randint(0, 10 ** 6)))
        if rng.random() < 0.5:
            c["cyclic"] = False
        chans.append(c)
    rng.shuffle(chans)
    for ch in chans:
        tl = gen_grid(rng)
        ch["tlist"] = [enc(x) for x in tl]
        ch["coeff"] = [enc(x) for x in gen_coeff(rng, len(tl) - rng.choice([0, 1]))]
    order = list(range(len(chans)))
    rng.shuffle(order)
    inp = dict(dims=dims, drift=drift, channels=chans, cyclic_controls=groups, kind="step", ctrl_order=order,
               mode=rng.choice(["direct", "setters"]), state_seed=rng.randint(0, 10 ** 6), family="keywords")
    if rng.random() < 0.25:
        add_history(rng, inp)
    return inp


def gen_valid(rng, late=False, kind="step", nch=None):
    dims = gen_system(rng)
    nch = nch or rng.choice([1, 2, 2, 3, 3, 4])
    lab = rng.choice(LABELS)
    perm = list(range(nch))
    rng.shuffle(perm)             # labels are NOT in sorted order / not aligned with the channel index
    chans = []
    for m in range(nch):
        tl = gen_grid(rng, start0=not (late and rng.random() < 0.6))
        if kind == "cubic":
            while len(tl) < 3:
                tl.append(tl[-1] + rng.choice(INCS))
            ncf = len(tl)
        else:
            ncf = len(tl) - rng.choice([0, 1])
        cf = gen_coeff(rng, ncf)
        if kind == "step" and ncf == len(tl) and rng.random() < 0.7 and cf[-1] == 0:
            cf[-1] = Fraction(rng.choice([-9, 5, 13]), 8)
        chans.append(dict(label=lab % perm[m], targets=gen_targets(rng, dims), seed=rng.randint(0, 10 ** 6),
                          tlist=[enc(x) for x in tl], coeff=[enc(x) for x in cf]))
    drift = []
    if rng.random() < 0.5:
        for _ in range(rng.choice([1, 1, 2])):
            drift.append(dict(targets=gen_targets(rng, dims), seed=rng.randint(0, 10 ** 6)))
    order = list(range(nch))
    if nch > 1 and rng.random() < 0.65:
        while order == list(range(nch)):
            rng.shuffle(order)         # controls registered in another order than the pulses are stored
    return dict(dims=dims, drift=drift, channels=chans, kind=kind, ctrl_order=order,
                mode=rng.choice(["direct", "setters"]), state_seed=rng.randint(0, 10 ** 6))


def gen_cubic_few(rng):
    """continuous (cubic) pulses with 2, 3, 4 or 5 samples per channel on interleaved grids: most merged grid points of one channel
    fall strictly between the samples of another, where the value is decided by the spline alone"""
    inp = gen_valid(rng, kind="cubic", nch=rng.choice([2, 2, 3]))
    sizes = [2, 3, 4, 5]
    rng.shuffle(sizes)
    for m, ch in enumerate(inp["channels"]):
        n = sizes[m % 4]
        if m == 0:
            step = rng.choice([Fraction(1, 2), Fraction(1), Fraction(3, 2)])
            tl = [k * step for k in range(n)]
        else:
            tl = gen_grid(rng, start0=rng.random() < 0.8, npts=n)
        ch["tlist"] = [enc(x) for x in tl]
        ch["coeff"] = [enc(x) for x in gen_coeff(rng, n)]
    return inp


def gen_shared_labels(rng):
    """processors assembled from ready-made Pulse objects (add_pulse) whose labels are the default '', None or
    explicitly equal, possibly mixed with named add_control channels; the Hamiltonians/targets differ"""
    inp = gen_valid(rng, nch=rng.choice([2, 2, 3, 3, 4]))
    inp["mode"] = "direct"
    chans = inp["channels"]
    policy = rng.choice(["all-default", "all-none", "dup-string", "mixed", "mixed"])
    for m, ch in enumerate(chans):
        if policy == "all-default":
            ch["pulse_label"] = {"kind": "default"}
        elif policy == "all-none":
            ch["pulse_label"] = {"kind": "none"}
        elif policy == "dup-string":
            ch["pulse_label"] = {"kind": "str", "value": "sx" if m != 1 or len(chans) == 2 else "sy"}
        else:
            ch["pulse_label"] = rng.choice([{"kind": "own"}, {"kind": "default"}, {"kind": "default"},
                                            {"kind": "none"}, {"kind": "str", "value": chans[0]["label"]}])
        ch["ctrl"] = rng.random() < 0.5
    if policy == "mixed" and all(ch["pulse_label"]["kind"] == "own" for ch in chans):
        chans[-1]["pulse_label"] = {"kind": "str", "value": chans[0]["label"]}
    # make sure two pulses that share a label have different embedded Hamiltonians
    for m in range(1, len(chans)):
        if chans[m]["targets"] == chans[0]["targets"] and chans[m]["seed"] == chans[0]["seed"]:
            chans[m]["seed"] += 1
    return inp


HISTORY_OPS = ["qobjevo0", "qobjevo0", "qobjevo1", "analytic", "coeffs", "tlist", "save"]


def add_history(rng, inp, solver=False):
    ops = [rng.choice(HISTORY_OPS) for _ in range(rng.choice([1, 1, 2, 3]))]
    if solver:
        ops.insert(rng.randrange(len(ops) + 1), "solver")
    inp["history"] = ops
    return inp


def gen_shared_arrays(rng):
    """several channels are given ONE coefficient ndarray (the same object, or views / rows of one user array),
    mixing the two length conventions: len(coeff) == len(tlist) (last sample unused) and
    len(coeff) == len(tlist) - 1 (last sample acts)"""
    inp = gen_valid(rng, nch=rng.choice([2, 2, 3, 3, 4]))
    chans = inp["channels"]
    n = rng.choice([2, 3, 3, 4, 5])
    style = rng.choice(["same", "same", "views", "rows"])
    base = gen_coeff(rng, n + (2 if style == "views" else 0))
    base = [c if c != 0 else Fraction(7, 8) for c in base]
    if style == "rows":
        other = [c if c != 0 else Fraction(-5, 8) for c in gen_coeff(rng, n)]
        inp["pool"] = [[enc(x) for x in base], [enc(x) for x in other]]
        inp["pool2d"] = True
    else:
        inp["pool"] = [[enc(x) for x in base]]
    sharers = rng.sample(range(len(chans)), rng.choice([2, 2, min(3, len(chans))]))
    sharers.sort()
    if rng.random() < 0.3:
        sharers.reverse()
    for k, m in enumerate(sharers):
        ch = chans[m]
        if style == "views":
            a = rng.choice([0, 1, 2])
            sh = [0, a, a + n]
        elif style == "rows":
            sh = [k % 2, 0, n]
        else:
            sh = [0, 0, n]
        vals = [fr(x) for x in inp["pool"][sh[0]]][sh[1]:sh[2]]
        # the first sharer: one sample per grid point (n points); the others: n + 1 points, last sample acts
        long_conv = (k == 0) if rng.random() < 0.8 else (k != 0)
        tl = gen_grid(rng, npts=n if long_conv else n + 1)
        ch["tlist"] = [enc(x) for x in tl]
        ch["coeff"] = [enc(x) for x in vals]
        ch["share"] = sh
    if rng.random() < 0.6:
        add_history(rng, inp)
    return inp


def gen_scaled(rng):
    """scale families: the same physics expressed in very different units, so that coefficients, durations or
    single channels are many orders of magnitude away from one while every H*dt stays of order one"""
    inp = gen_valid(rng, nch=rng.choice([1, 2, 2, 3]))
    fam = rng.choice(["tiny-coeff", "tiny-coeff", "short-time", "short-time", "mixed", "mixed", "sub-tolerance"])
    inp["family"] = "scale:" + fam
    if fam == "tiny-coeff":            # coefficients ~1e-9..1e-12, durations ~1e9..1e12
        inp = rescale_time(inp, rng.randint(30, 40))
    elif fam == "short-time":          # durations 1e-10..2e-9 (all still above the merging tolerance)
        inp = rescale_time(inp, -rng.randint(24, 30))
    elif fam == "sub-tolerance":       # durations below the absolute merging tolerance 1e-10
        inp = rescale_time(inp, -rng.randint(31, 40))
    else:                              # some channels: tiny coefficient times huge operator, others order one
        ks = rng.sample(range(len(inp["channels"])), rng.choice([1, max(1, len(inp["channels"]) - 1)]))
        for m in ks:
            ch = inp["channels"][m]
            f = Fraction(2) ** rng.randint(30, 40)
            ch["coeff"] = [enc(fr(x) / f) for x in ch["coeff"]]
            ch["scale"] = enc(f)
    inp["family"] = "scale:" + fam
    if rng.random() < 0.25:
        add_history(rng, inp)
        inp["history"] = [h for h in inp["history"] if h != "solver"]
    return inp


def gen_repeated(rng):
    """pulse grids that repeat a time point (zero-duration slots, as compiled for a rotation by angle 0), possibly
    several times, at the start, inside or at the end; sometimes points closer than the tolerance instead"""
    inp = gen_valid(rng, nch=rng.choice([1, 2, 2, 3]))
    near = rng.random() < 0.25
    for ch in inp["channels"]:
        if ch is not inp["channels"][0] and rng.random() < 0.4:
            continue
        tl = [fr(x) for x in ch["tlist"]]
        cf = [fr(x) for x in ch["coeff"]]
        for _ in range(rng.choice([1, 1, 2, 3])):
            i = rng.randrange(len(tl))
            eps = rng.choice([EPS_BELOW, EPS_BELOW / 4]) if near else Fraction(0)
            tl.insert(i + 1, tl[i] + eps)            # zero-length (or sub-tolerance) interval i
            cf.insert(min(i, len(cf)), Fraction(rng.choice([-13, 5, 9, 17]), 8))
            if near:
                tl[i + 2:] = [x + eps for x in tl[i + 2:]]
        ch["tlist"] = [enc(x) for x in tl]
        ch["coeff"] = [enc(x) for x in cf]
    if rng.random() < 0.15:                           # a one-point grid next to the others
        ch = inp["channels"][-1]
        ch["tlist"] = ch["tlist"][:1]
        ch["coeff"] = ch["coeff"][:rng.choice([0, 1])]
    return inp


def gen_consts(rng):
    """array pulses mixed with constant pulses (coeff=True/False, or no coefficient at all)"""
    inp = gen_valid(rng, nch=rng.choice([2, 3, 4]))
    inp["mode"] = "direct"
    for ch in inp["channels"][1:]:
        r = rng.random()
        if r < 0.3:
            ch["coeff"] = rng.choice([True, False])
            if rng.random() < 0.5:
                ch["tlist"] = None
        elif r < 0.45:
            ch["coeff"] = None
            ch["tlist"] = None
    return inp


def gen_neartol(rng):
    """two grids whose points differ by slightly less / slightly more than the tolerance"""
    inp = gen_valid(rng, nch=rng.choice([2, 3]))
    a, b = inp["channels"][0], inp["channels"][1]
    ta = [fr(x) for x in a["tlist"]]
    tb = [fr(x) for x in b["tlist"]]
    for _ in range(rng.choice([1, 1, 2])):
        i = rng.randrange(len(ta))
        j = rng.randrange(1, len(tb))
        eps = rng.choice([EPS_BELOW, -EPS_BELOW, EPS_ABOVE, -EPS_ABOVE, 2 * EPS_BELOW - EPS_ABOVE + EPS_BELOW])
        new = ta[i] + eps
        if new > 0:
            tb[j] = new
    if rng.random() < 0.5:
        tb = sorted(tb)
    b["tlist"] = [enc(x) for x in tb]
    return inp


def gen_malformed(rng):
    inp = gen_valid(rng, nch=rng.choice([1, 2, 3]))
    inp["mode"] = "direct"
    ch = rng.choice(inp["channels"])
    r = rng.randrange(8)
    if r == 0:
        ch["coeff"] = ch["coeff"] + [enc(Fraction(1))] * 2           # too many samples
    elif r == 1:
        ch["coeff"] = ch["coeff"][:max(0, len(ch["tlist"]) - 3)]      # too few
        ch["tlist"] = ch["tlist"] + [enc(fr(ch["tlist"][-1]) + 1), enc(fr(ch["tlist"][-1]) + 2)]
    elif r == 2:
        ch["tlist"] = None                                            # coefficients without a grid
    elif r == 3:
        ch["tlist"] = ch["tlist"][:1]                                 # one-point grid
        ch["coeff"] = ch["coeff"][:rng.choice([0, 1])]
    elif r == 4:
        ch["coeff"] = None                                            # grid without coefficients
    elif r == 5:
        tl = ch["tlist"][:]
        rng.shuffle(tl)                                               # unsorted grid
        ch["tlist"] = tl
    elif r == 6:
        inp["channels"] = []                                          # empty processor
        inp["ctrl_order"] = []
    else:
        for c in inp["channels"]:                                     # nobody has a grid
            c["tlist"] = None
            c["coeff"] = rng.choice([True, False, None])
    return inp


def leak_family(rng):
    """short pulse with one sample per grid point (non-zero last sample) next to a longer pulse"""
    inp = gen_valid(rng, nch=rng.choice([2, 3]))
    a = inp["channels"][0]
    tl = gen_grid(rng, npts=rng.choice([2, 3]))
    a["tlist"] = [enc(x) for x in tl]
    cf = gen_coeff(rng, len(tl))
    cf[-1] = Fraction(rng.choice([3, -7, 11]), 4)
    a["coeff"] = [enc(x) for x in cf]
    b = inp["channels"][1]
    tb = [fr(x) for x in b["tlist"]]
    while tb[-1] <= tl[-1] + 1:
        tb.append(tb[-1] + rng.choice(INCS))
    b["tlist"] = [enc(x) for x in tb]
    b["coeff"] = [enc(x) for x in gen_coeff(rng, len(tb) - 1)]
    return inp


def corpus_inputs():
    out = []
    if os.path.isdir(CORPUS):
        for f in sorted(os.listdir(CORPUS)):
            if f.endswith(".json"):
                try:
                    d = json.load(open(os.path.join(CORPUS, f)))
                    out.append(d.get("input", d))
                except Exception:
                    pass
    return out


def branch_tags(inp):
    tags = set()
    chans = inp["channels"]
    arr = [c for c in chans if isinstance(c["coeff"], list) and c["tlist"] is not None]
    if any(len(c["coeff"]) == len(c["tlist"]) for c in arr):
        tags.add("len(coeff)=len(tlist)")
    if any(len(c["coeff"]) == len(c["tlist"]) - 1 for c in arr):
        tags.add("len(coeff)=len(tlist)-1")
    ends = {tuple(c["tlist"][-1]) for c in arr if c["tlist"]}
    if len(ends) > 1:
        tags.add("different end times")
    if any(c["tlist"] and fr(c["tlist"][0]) != 0 for c in arr):
        tags.add("late start")
    if any(isinstance(c["coeff"], bool) for c in chans):
        tags.add("bool coeff")
    if any(c["coeff"] is None for c in chans):
        tags.add("no coeff")
    if inp.get("drift"):
        tags.add("drift")
    kws = [json.dumps(pulse_label_kw(c), sort_keys=True) for c in chans] if inp.get("mode", "direct") == "direct" else []
    if len(set(kws)) < len(kws):
        tags.add("pulses sharing a label")
    if inp.get("pool"):
        tags.add("channels sharing one coefficient array")
    if inp.get("family"):
        tags.add(inp["family"])
    for e in inp.get("edits") or []:
        tags.add("edit:" + e["op"])
    for d in inp.get("drift", []):
        if "cyclic" in d:
            tags.add("add_drift cyclic_permutation=%s on %d subsystem(s)" % (d["cyclic"], len(d["targets"])))
    for g in inp.get("cyclic_controls", []):
        tags.add("add_control cyclic_permutation=True on %d subsystem(s)" % len(g["targets"]))
    for e in list(inp.get("drift", [])) + list(chans) + list(inp.get("cyclic_controls", [])):
        if e.get("targets_form", "list") != "list":
            tags.add("targets given as " + e["targets_form"])
    for op in inp.get("history", []):
        tags.add("history:" + op)
    for c in arr:
        t = [fr(x) for x in c["tlist"]]
        if any(t[i] == t[i + 1] for i in range(len(t) - 1)):
            tags.add("repeated time point inside a pulse")
        if any(0 < t[i + 1] - t[i] <= TOL for i in range(len(t) - 1)):
            tags.add("points closer than tol inside a pulse")
        if len(t) == 1:
            tags.add("one-point grid")
    if inp.get("ctrl_order") and inp["ctrl_order"] != list(range(len(chans))):
        tags.add("pulse order != add_control order")
    if [c["label"] for c in chans] != sorted(c["label"] for c in chans):
        tags.add("pulse order != sorted labels")
    if any(not c.get("ctrl", True) for c in chans):
        tags.add("pulse without add_control")
    if any(len(c["targets"]) > 1 for c in chans):
        tags.add("two-subsystem control")
    return tags


# ------------------------------------------------------------------------------------------------
# correspondence
# ------------------------------------------------------------------------------------------------
def key_of(inp):
    return json.dumps(inp, sort_keys=True)


def show_rows(rows):
    return None if rows is None else [[str(x) for x in r] for r in rows]


def correspond(ctx):
    corr = Corr(rule="non-trivial = at least two array pulses whose grids differ, so that resampling inserts points "
                     "(merged grid longer than some pulse's own grid)")
    rng = ctx.rng
    inputs = []
    for c in corpus_inputs():
        inputs.append(("corpus", c))
    n_valid = ctx.n(300, 2400)
    for _ in range(n_valid):
        inputs.append(("valid", gen_valid(rng)))
    for _ in range(ctx.n(50, 400)):
        inputs.append(("late-start", gen_valid(rng, late=True)))
    for _ in range(ctx.n(60, 500)):
        inputs.append(("leak-family", leak_family(rng)))
    for _ in range(ctx.n(70, 500)):
        inputs.append(("shared-labels", gen_shared_labels(rng)))
    for _ in range(ctx.n(90, 700)):
        inputs.append(("repeated-points", gen_repeated(rng)))
    for _ in range(ctx.n(80, 600)):
        inputs.append(("shared-arrays", gen_shared_arrays(rng)))
    for _ in range(ctx.n(110, 800)):
        inputs.append(("scaled", gen_scaled(rng)))
    for _ in range(ctx.n(100, 700)):
        inputs.append(("keywords", gen_keywords(rng)))
    for _ in range(ctx.n(110, 700)):
        inputs.append(("edits", gen_edits(rng)))
    # histories on one processor: a third of the valid-family inputs so far run earlier calls first
    nsolv = ctx.n(8, 40)
    for kind, inp in inputs:
        if kind in ("valid", "late-start", "leak-family", "shared-labels", "repeated-points") \
                and "history" not in inp and rng.random() < 0.33:
            add_history(rng, inp, solver=(nsolv > 0 and kind == "valid" and rng.random() < 0.2))
            if "solver" in inp["history"]:
                nsolv -= 1
    for _ in range(ctx.n(50, 400)):
        inputs.append(("constants", gen_consts(rng)))
    for _ in range(ctx.n(80, 600)):
        inputs.append(("near-tolerance", gen_neartol(rng)))
    for _ in range(ctx.n(80, 600)):
        inputs.append(("malformed", gen_malformed(rng)))
    for _ in range(ctx.n(40, 300)):
        inputs.append(("cubic", gen_valid(rng, kind="cubic")))
    for _ in range(ctx.n(40, 300)):
        inputs.append(("cubic-few-samples", gen_cubic_few(rng)))
    if ctx.thorough:
        inputs += exhaustive_small()

    step_cases = [(k, i) for k, i in inputs if i.get("kind", "step") == "step"]
    cases = [i for _, i in step_cases]
    # file-model cases: valid property-domain inputs, every 4th
    filecases = []
    for idx, c in enumerate(cases):
        if in_property_domain(c) and labels_own(c) and not c.get("family", "").startswith("scale") and not c.get("edits") and len(filecases) < ctx.n(60, 300) and idx % 3 == 0:
            filecases.append((idx, bool(idx % 2)))
    models, fres = run_models(ctx.tier, cases, filecases)

    n_solver = ctx.n(24, 120)
    impls = {}
    saw_v0 = 0
    saw_v1 = 0
    for idx, ((kind, inp), mod) in enumerate(zip(step_cases, models)):
        corr.tally(kind)
        impl, proc, mats = run_impl(inp)
        impls[idx] = impl
        for t in branch_tags(inp):
            corr.tally("branch:" + t)
        # --- model vs implementation
        if impl["full"] != mod["full"]:
            corr.disagree(inp, show_rows([impl["full"]] if impl["full"] is not None else None),
                          show_rows([mod["full"]] if mod["full"] is not None else None), "get_full_tlist")
        if impl["rows"] != mod["rows"]:
            if impl["rows"] is not None and impl["rows"] == mod["rows_v1"]:
                saw_v1 += 1
            elif impl["rows"] is not None and impl["rows"] == mod["rows_v0"]:
                saw_v0 += 1
            corr.disagree(inp, show_rows(impl["rows"]), show_rows(mod["rows"]), "get_full_coeffs")
        if (impl["props"] is None) != (mod["slices"] is None):
            corr.disagree(inp, "rejected" if impl["props"] is None else "%d propagators" % len(impl["props"]),
                          "rejected" if mod["slices"] is None else "%d slices" % len(mod["slices"]),
                          "run_analytically accept/reject")
        elif impl["props"] is not None and mats is not None:
            if len(impl["props"]) != len(mod["slices"]):
                corr.disagree(inp, len(impl["props"]), len(mod["slices"]), "run_analytically number of slices")
            else:
                for n, (u, (dt, cs)) in enumerate(zip(impl["props"], mod["slices"])):
                    e = expm_i(hmat(mats, cs), dt)
                    if u.shape != e.shape or float(np.max(np.abs(u - e))) > 1e-9:
                        corr.disagree(inp, dict(slice=n), dict(dt=str(dt), coeffs=[str(c) for c in cs]),
                                      "run_analytically propagator vs expm of the model's slice")
                        break
        dom = in_theorem_domain(inp)
        if dom != mod["okb"]:
            corr.disagree(inp, dom, mod["okb"], "inputs_okb vs the harness's statement of the theorem domain")
        # --- property oracle on the real code
        use_solver = in_property_domain(inp) and n_solver > 0 and (
            kind in ("valid", "leak-family", "corpus") or (kind == "shared-labels" and idx % 5 == 0)
            or (kind == "shared-arrays" and idx % 4 == 0) or (kind == "keywords" and idx % 6 == 0) or (kind == "edits" and idx % 8 == 0))
        if use_solver:
            n_solver -= 1
        light = kind not in ("corpus",) and idx % 2 != 0       # the heavier re-runs on every second case
        for f in oracle_case(inp, impl, proc, mats, solver=use_solver,
                             files=(kind != "near-tolerance" and not light), states=not light):
            corr.oracle_fail(f["input"], f["observed"], f["expected"], f["what"])
        grid = impl["full"] or []
        arr = [c for c in inp["channels"] if isinstance(c["coeff"], list) and c["tlist"] is not None]
        nontriv = len(arr) >= 2 and any(len(c["tlist"]) < len(grid) for c in arr)
        corr.count(key_of(inp), nontrivial=nontriv, sample=inp if kind == "valid" else None)
    # --- file bookkeeping: model vs real file contents and real read_coeff
    for (idx, inct), fr_ in zip(filecases, fres):
        file_corr(corr, cases[idx], inct, fr_, impls[idx])
    # --- cubic: oracle only
    for kind, inp in inputs:
        if inp.get("kind", "step") != "cubic":
            continue
        corr.tally(kind)
        for f in oracle_case(inp):
            corr.oracle_fail(f["input"], f["observed"], f["expected"], f["what"])
        corr.count(key_of(inp), nontrivial=False)
    if saw_v0:
        ctx.notes.append("%d coefficient disagreements match the model of the code as found (get_full_coeffs_v0): "
                         "the tree under check does not contain fixes/C14-step-last-sample.diff" % saw_v0)
    ctx.notes.append("run_analytically %s a None time grid (flag read from the source): slices compared with %s"
                     % (("guards", "run_slices") if guards_none_grid() else ("does not guard", "run_slices_v2")))
    if saw_v1:
        ctx.notes.append("%d coefficient disagreements match the model of the one-step advance "
                         "(get_full_coeffs_v1): the tree under check does not contain "
                         "fixes/C14-fill-coeff-repeated-points.diff" % saw_v1)
    corr.extra["file_cases"] = len(filecases)
    return corr


def file_corr(corr, inp, inct, mres, impl):
    """model save_file/read_file vs the real file written by save_coeff and the dict returned by read_coeff"""
    if mres is None:
        corr.disagree(inp, "file written", None, "save_file model refused a valid input")
        return
    header, table, rd, okb = mres[1]
    tmp = tempfile.mkdtemp(prefix="c14-")
    try:
        with warnings.catch_warnings():
            warnings.simplefilter("ignore")
            fn = os.path.join(tmp, "f.txt")
            try:
                proc, _ = build(inp)
                proc.save_coeff(fn, inctime=inct)
                lines = open(fn).read().split("\n")
            except Exception as e:
                corr.disagree(inp, repr(e)[:200], "file", "save_coeff raised")
                return
            real_header = lines[0][2:]
            real_table = [[float(x) for x in l.split("\t")] for l in lines[1:] if l.strip()]
            mt = [[float(qv(p)) for p in row] for row in table]
            if real_header != header:
                corr.disagree(inp, real_header, header, "save_coeff header")
                return
            if len(mt) != len(real_table) or any(
                    len(a) != len(b) or not np.allclose(a, b, atol=1e-12, rtol=0) for a, b in zip(mt, real_table)):
                corr.disagree(inp, real_table, mt, "save_coeff table layout")
                return
            corr.tally("file-model:inctime=%s" % inct)
            # read side
            try:
                blank = dict(inp, channels=[dict(ch, tlist=None, coeff=None) for ch in inp["channels"]], mode="direct",
                             edits=None, pre=None)
                proc2, _ = build(blank)
                proc2.clear_pulses()
                ret = proc2.read_coeff(fn, inctime=inct)
            except Exception as e:
                ret = e
            if rd is None:
                if not isinstance(ret, Exception):
                    corr.disagree(inp, "accepted", "rejected", "read_coeff accept/reject")
                return
            mtl, mco = rd[1]
            if isinstance(ret, Exception):
                corr.disagree(inp, repr(ret)[:200], "accepted", "read_coeff accept/reject")
                return
            rc = ret[1] if inct else ret
            ok = [str(k) for k in rc.keys()] == [lc[0] for lc in mco] and all(
                np.ndim(v) == 1 and len(v) == len(lc[1]) and
                np.allclose(v, [float(qv(p)) for p in lc[1]], atol=1e-12, rtol=0)
                for v, lc in zip(rc.values(), mco))
            if not ok:
                corr.disagree(inp, {str(k): repr(v)[:60] for k, v in rc.items()},
                              [(lc[0], [str(qv(p)) for p in lc[1]]) for lc in mco], "read_coeff coefficients")
            if inct:
                rt = ret[0]
                mt_ = [float(qv(p)) for p in mtl[1]]
                if callable(rt) or not np.allclose(np.asarray(rt, dtype=float), mt_, atol=1e-12, rtol=0):
                    corr.disagree(inp, repr(rt)[:100], mt_, "read_coeff returned time list")
    finally:
        shutil.rmtree(tmp, ignore_errors=True)


def exhaustive_small():
    """thorough: every pair of grids over a small lattice, both coefficient lengths"""
    out = []
    lattice = [Fraction(k, 2) for k in range(0, 5)]
    grids = []
    for a in range(1, len(lattice)):
        grids.append([lattice[0], lattice[a]])
        for b in range(a + 1, len(lattice)):
            grids.append([lattice[0], lattice[a], lattice[b]])
    s = 0
    for g1 in grids:
        for g2 in grids:
            for l1 in (0, 1):
                for l2 in (0, 1):
                    s += 1
                    c1 = [Fraction(3 + i, 2) for i in range(len(g1) - l1)]
                    c2 = [Fraction(-5 - i, 4) for i in range(len(g2) - l2)]
                    out.append(("exhaustive-pairs", dict(
                        dims=[2], drift=[dict(targets=[0], seed=11)] if s % 2 else [],
                        channels=[dict(label="a", targets=[0], seed=1, tlist=[enc(x) for x in g1],
                                       coeff=[enc(x) for x in c1]),
                                  dict(label="b", targets=[0], seed=2, tlist=[enc(x) for x in g2],
                                       coeff=[enc(x) for x in c2])],
                        kind="step", mode="direct", state_seed=s)))
    return out


# ------------------------------------------------------------------------------------------------
# classification / search / replay
# ------------------------------------------------------------------------------------------------
def _zero_tails(inp):
    """same input with the last sample of every one-sample-per-grid-point array pulse set to zero"""
    out = json.loads(json.dumps(inp))
    out.pop("pool", None)             # the modified channels get arrays of their own
    out.pop("pool2d", None)
    for ch in out["channels"]:
        ch.pop("share", None)
    changed = False
    for ch in out["channels"]:
        if isinstance(ch["coeff"], list) and ch["tlist"] is not None and len(ch["coeff"]) == len(ch["tlist"]) \
                and len(ch["coeff"]) > 0 and fr(ch["coeff"][-1]) != 0:
            ch["coeff"][-1] = [0, 1]
            changed = True
    return out, changed


_CLASSIFY_MEMO = {}


def classify(failure):
    try:
        k = json.dumps([failure.get("input"), failure.get("what")], sort_keys=True, default=str)
    except Exception:
        return _classify(failure)
    if k not in _CLASSIFY_MEMO:
        _CLASSIFY_MEMO[k] = _classify(failure)
    return _CLASSIFY_MEMO[k]


def _drop_repeats(inp):
    """same step functions with the zero-length (or sub-tolerance) intervals of every pulse grid removed"""
    out = json.loads(json.dumps(inp))
    out.pop("pool", None)             # the modified channels get arrays of their own
    out.pop("pool2d", None)
    for ch in out["channels"]:
        ch.pop("share", None)
    changed = False
    for ch in out["channels"]:
        if not (isinstance(ch["coeff"], list) and ch["tlist"] is not None):
            continue
        tl = [fr(x) for x in ch["tlist"]]
        cf = [fr(x) for x in ch["coeff"]]
        i = 0
        while i + 1 < len(tl):
            if tl[i + 1] - tl[i] <= TOL:
                del tl[i]
                if i < len(cf):
                    del cf[i]
                changed = True
            else:
                i += 1
        ch["tlist"] = [enc(x) for x in tl]
        ch["coeff"] = [enc(x) for x in cf]
    return out, changed


def _classify(failure):
    inp = failure.get("input")
    what = failure.get("what", "")
    if not isinstance(inp, dict) or "channels" not in inp:
        return None
    if "read_coeff(inctime=True) does not return the saved time list" in what:
        return "read-coeff-returns-method"
    if "inctime=False" in what and len(inp["channels"]) == 1:
        return "read-coeff-single-column"
    if what == CUBIC_HELD_WHAT:
        try:
            return "cubic-channel-held-after-its-grid" if _classify_cubic_held(inp) else None
        except Exception:
            return None
    if any(k in what for k in ("resampled coefficient", "analytic evolution", "solver operator", "solver evolution",
                               "changes the evolution", "carries other coefficients")):
        z, changed = _zero_tails(inp)
        if changed:
            try:
                again = [f for f in oracle_case(z, solver=("solver evolution" in what),
                                                files=("changes the evolution" in what or "carries other" in what), states=False)
                         if f["what"] == what]
            except Exception:
                return None
            if not again:
                return "step-last-sample-leak"
    if any(k in what for k in ("resampled coefficient", "analytic evolution", "valid input rejected")):
        z, changed = _drop_repeats(inp)
        if changed:
            try:
                again = oracle_case(z, solver=False, files=False, states=False)
            except Exception:
                return None
            if not again:
                return "fill-coeff-repeated-points"
    if what == SUBTOL_WHAT:
        pts = sorted(set(all_points(inp)))
        gaps = [pts[i + 1] - pts[i] for i in range(len(pts) - 1)]
        if gaps and min(gaps) <= TOL:
            k = 0
            while min(gaps) * 2 ** k < Fraction(1, 8):
                k += 1
            try:
                again = oracle_case(rescale_time(inp, k), solver=False, files=False, states=False)
            except Exception:
                return None
            if not again:
                return "absolute-grid-tolerance"
    if "solver evolution" in what and in_property_domain(inp):
        # Processor.run_state caps the integrator step at T/10 only; an interval of the merged grid that is
        # shorter can be stepped over.  Inside the class iff the failure disappears with a step cap below the
        # shortest interval.
        grid = sorted(set(all_points(inp)))
        gaps = [grid[i + 1] - grid[i] for i in range(len(grid) - 1)]
        if gaps and min(gaps) < (grid[-1] - grid[0]) / 10:
            try:
                again = [f for f in oracle_case(inp, solver=True, files=False, states=False,
                                                solver_max_step=min(gaps) / 4) if "solver evolution" in f["what"]]
            except Exception:
                return None
            if not again:
                return "solver-max-step-skips-short-interval"
    return None


def search(ctx, broken):
    found = []
    rng = ctx.rng
    pool = [c for c in corpus_inputs()]
    pool += [leak_family(rng) for _ in range(ctx.n(40, 200))]
    pool += [gen_valid(rng) for _ in range(ctx.n(100, 600))]
    pool += [gen_valid(rng, late=True) for _ in range(ctx.n(30, 100))]
    pool += [gen_consts(rng) for _ in range(ctx.n(30, 100))]
    pool += [gen_shared_labels(rng) for _ in range(ctx.n(40, 150))]
    pool += [gen_repeated(rng) for _ in range(ctx.n(60, 200))]
    pool += [gen_shared_arrays(rng) for _ in range(ctx.n(60, 200))]
    pool += [gen_scaled(rng) for _ in range(ctx.n(80, 200))]
    pool += [gen_keywords(rng) for _ in range(ctx.n(80, 200))]
    pool += [gen_edits(rng) for _ in range(ctx.n(80, 200))]
    for inp in pool:
        try:
            fs = oracle_case(inp)
        except Exception:
            continue
        if fs:
            found.append(min(fs, key=lambda f: len(json.dumps(f["input"]))))
        if len(found) >= 8:
            break
    found.sort(key=lambda f: len(json.dumps(f["input"])))
    return found[:3]


def replay(ctx, rec):
    inp = rec.get("input")
    if not isinstance(inp, dict):
        return False
    want = rec.get("what")
    fs = oracle_case(inp, solver=bool(want and "solver evolution" in want))
    return bool(fs)
