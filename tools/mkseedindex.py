"""Rebuild seeded/INDEX.md and refactors/INDEX.md from the meta.json / result files in each directory."""
import glob, json, os, re

V = "/verif"


def clean(s, n=260):
    s = re.sub(r"\s+", " ", str(s or "")).replace("|", "/")
    return s[:n]


def seeds():
    rows = []
    for d in sorted(glob.glob(V + "/seeded/C*-*")):
        name = os.path.basename(d)
        own = name[:3]
        m = json.load(open(d + "/meta.json")) if os.path.exists(d + "/meta.json") else {}
        res = {}
        for f in glob.glob(d + "/result_C*.json"):
            r = json.load(open(f))
            res[r.get("property", os.path.basename(f)[7:10])] = r
        o = res.get(own)
        if o is None:
            out = "not run"
        elif not o.get("applies", True):
            out = "patch no longer applies to the repaired tree (obsolete)"
        elif o.get("detected") and o.get("concrete"):
            out = "caught (concrete input)"
        elif o.get("detected"):
            out = "caught (broken obligation, no-failing-input-found)"
        elif o.get("demo_rc_with") == 0:
            out = "behaviour-neutral on the repaired tree (its own demo passes) - obsolete"
        else:
            out = "MISSED"
        also = sorted(k for k, r in res.items() if k != own and r.get("detected"))
        rows.append((name, own, out, ", ".join(also), clean(m.get("summary")), clean(m.get("needs"))))
    with open(V + "/seeded/INDEX.md", "w") as f:
        f.write("# Seeded property-breaking changes\n\n"
                "Written by independent sub-agents that saw only the property text and a scratch worktree (never /verif). "
                "Each directory: `patch.diff`, `demo.py` (exit 1 with the patch, 0 without), `meta.json` (property, summary, "
                "what it needs to manifest, what the author ran), `result_<Cxx>.json` (written by `tools/seedtest.py <dir> <Cxx>`: "
                "applies the patch in a scratch worktree of /repo HEAD, runs the demo with and without it, runs "
                "`./check <Cxx> quick` with VERIF_REPO pointing at the worktree).\n\n"
                "Names: `Cxx-i` first round (written on the pristine tree), `CxxB-i` replacements written on the repaired tree, "
                "`CxxR2-i` second round (asked to use different mechanisms), `CxxR3-i` third round (asked for mechanisms different "
                "from rounds 1 and 2: caches, early exits, aliasing, option combinations).\n\n"
                "Regenerate with `tools/mkseedindex.py`.\n\n")
        f.write("| seed | property | outcome of the registered quick check | also caught by | change | needs |\n|---|---|---|---|---|---|\n")
        for r in rows:
            f.write("| " + " | ".join(r) + " |\n")
        n = len(rows)
        c = sum(1 for r in rows if r[2].startswith("caught (concrete"))
        b = sum(1 for r in rows if r[2].startswith("caught (broken"))
        ob = sum(1 for r in rows if "obsolete" in r[2])
        mi = sum(1 for r in rows if r[2] in ("MISSED", "not run"))
        f.write(f"\nTotals: {n} seeds; {c} caught with a concrete input, {b} caught as a broken obligation only, {ob} obsolete, {mi} missed/not run.\n")
    return rows


def refs():
    rows = []
    for d in sorted(glob.glob(V + "/refactors/*-*")):
        name = os.path.basename(d)
        m = json.load(open(d + "/meta.json")) if os.path.exists(d + "/meta.json") else {}
        r = json.load(open(d + "/result.json")) if os.path.exists(d + "/result.json") else {}
        ch = r.get("checks", {})
        if not r.get("applies", True):
            out = "patch does not apply"
        elif not ch:
            out = "not run"
        elif any(v.get("rc") for v in ch.values()):
            out = "ALARM: " + ", ".join(k for k, v in ch.items() if v.get("rc"))
        else:
            out = "no alarm"
        rows.append((name, ", ".join(sorted(ch)), out, clean(m.get("summary") or m.get("description"), 300)))
    with open(V + "/refactors/INDEX.md", "w") as f:
        f.write("# Harmless refactorings (false-alarm measurement)\n\n"
                "Behaviour-preserving rewrites of the anchored source written by independent sub-agents (prompts in "
                "tools/prompts/refactor). `tools/reftest.py <dir> Cxx...` applies the patch in a scratch worktree of /repo HEAD and runs "
                "the registered quick checks against it; every check must exit 0. Regenerate with `tools/mkseedindex.py`.\n\n"
                "| refactoring | checks run | outcome | what was rewritten |\n|---|---|---|---|\n")
        for r in rows:
            f.write("| " + " | ".join(r) + " |\n")
        f.write(f"\nTotals: {len(rows)} refactorings; {sum(1 for r in rows if r[2] == 'no alarm')} without alarm.\n")
    return rows


if __name__ == "__main__":
    s = seeds()
    r = refs()
    print(len(s), "seeds;", sum(1 for x in s if x[2].startswith("caught")), "caught;",
          [x[0] for x in s if x[2] in ("MISSED", "not run")], "missed")
    print(len(r), "refactorings;", [x[0] for x in r if x[2] != "no alarm"], "with alarm")
