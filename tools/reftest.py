"""Run a harmless refactoring (patch) against a list of checks in a scratch worktree; every check should exit 0.
usage: reftest.py <dir with patch.diff> Cxx [Cyy ...]"""
import json, os, subprocess, sys, shutil, time
d = sys.argv[1]; pids = sys.argv[2:]
name = os.path.basename(os.path.normpath(os.path.dirname(os.path.abspath(d + "/x")))) + "-" + os.path.basename(os.path.normpath(d))
wt = f"/tmp/rt-{name}"
subprocess.run(["git", "-C", "/repo", "worktree", "remove", "--force", wt], capture_output=True)
subprocess.run(["git", "-C", "/repo", "worktree", "add", "--detach", wt], capture_output=True, check=True)
res = {"refactoring": name, "checks": {}}
saved = {p: (open(f"/verif/evidence/{p}.json").read() if os.path.exists(f"/verif/evidence/{p}.json") else None) for p in pids}
try:
    shutil.copy("/repo/src/qutip_qip/version.py", wt + "/src/qutip_qip/version.py")
    a = subprocess.run(["git", "-C", wt, "apply", os.path.abspath(os.path.join(d, "patch.diff"))], capture_output=True, text=True)
    res["applies"] = a.returncode == 0
    if a.returncode == 0:
        for p in pids:
            t0 = time.time()
            c = subprocess.run(["./check", p, "quick"], env=dict(os.environ, VERIF_REPO=wt), capture_output=True, text=True, cwd="/verif")
            lines = [l for l in c.stdout.splitlines() if l.startswith("VIOLATION")]
            res["checks"][p] = dict(rc=c.returncode, wall=round(time.time() - t0, 1), violations=lines[:3],
                                    broken=[l.strip()[:300] for l in c.stdout.splitlines() if l.strip().startswith("broken:")][:3])
    else:
        res["apply_err"] = a.stderr[-300:]
finally:
    subprocess.run(["git", "-C", "/repo", "worktree", "remove", "--force", wt], capture_output=True)
    import hashlib as _h
    shutil.rmtree("/tmp/vcoq-" + _h.sha1(os.path.abspath(wt).encode()).hexdigest()[:10], ignore_errors=True)
    for p, s in saved.items():
        if s is not None:
            open(f"/verif/evidence/{p}.json", "w").write(s)
json.dump(res, open(os.path.join(d, "result.json"), "w"), indent=1)
print(json.dumps({"refactoring": name, "applies": res.get("applies"), **{p: v["rc"] for p, v in res["checks"].items()}}))
for p, v in res["checks"].items():
    if v["rc"] != 0:
        print("   ", p, v["violations"][:1], v["broken"][:1])
