"""Assemble MANIFEST.json from tools/manifest.d/Cxx.json fragments (one per claimed property)."""
import json, os, sys
V = os.path.dirname(os.path.dirname(os.path.abspath(__file__)))
NA = {
 "C18": "quantitative approximation bound (process fidelity >= 0.999, leakage < 0.001) on numerically integrated multi-level dynamics over a continuum of angles: no algebraic statement decides it and a certified ODE/expm integrator with rigorous error bounds is out of reach of Coq+Interval here; sampling angles would be testing, not proof (DESIGN.md section 8)",
}
checks = []
claimed = set()
d = os.path.join(V, "tools", "manifest.d")
for f in sorted(os.listdir(d)):
    if not f.endswith(".json"):
        continue
    e = json.load(open(os.path.join(d, f)))
    pid = e["property_id"]
    e.setdefault("quick_cmd", f"./check {pid} quick")
    e.setdefault("thorough_cmd", f"./check {pid} thorough")
    e.setdefault("evidence_file", f"/verif/evidence/{pid}.json")
    e.setdefault("replay_cmd_template", f"./check {pid} --replay {{path}}")
    e.setdefault("engine", "coq-proof")
    checks.append(e)
    claimed.add(pid)
na = []
for i in range(1, 21):
    pid = "C%02d" % i
    if pid in claimed:
        continue
    na.append({"property_id": pid, "reason": NA.get(pid, "check not finished in this session: model/proofs under construction (see DESIGN.md section 5); not claimed until it runs green")})
hooks_commits = []
hp = os.path.join(V, "tools", "hook_commits.txt")
if os.path.exists(hp):
    hooks_commits = [l.strip() for l in open(hp) if l.strip()]
m = {
 "version": 1,
 "setup_cmd": "./check --setup",
 "hooks": {"guard": "QUTIP_QIP_VERIF",
           "enable": "no hook is compiled into /repo: the harnesses import /repo/src through PYTHONPATH and rebind module-level names from outside; QUTIP_QIP_VERIF=1 is exported by ./check but read by nothing in /repo",
           "baseline_off_cmd": "cd /repo && /venv/bin/python -m pytest -ra -q -p no:cacheprovider --timeout=900 --continue-on-collection-errors",
           "source_commits": hooks_commits, "add_only": True},
 "engines": [{"name": "coq-proof", "path": "coq/", "serves_properties": sorted(claimed),
              "kind_free_text": "Coq 8.16.1 models (coq/Model, coq/Gen regenerated from /repo on every run) + theorems (coq/Proofs, coq/Props); driver tools/check.py; model/code correspondence by generated cases evaluated with vm_compute; numeric property oracles only for searching failing inputs"}],
 "checks": checks,
 "notes": "Every check: regenerate Gen/*.v from /repo/src, rebuild the property's Coq targets (full .vo), run the model/implementation correspondence and the property oracle on the same generated inputs, replay known findings; see DESIGN.md.",
 "not_applicable": na,
}
json.dump(m, open(os.path.join(V, "MANIFEST.json"), "w"), indent=1)
print("claimed:", sorted(claimed))
