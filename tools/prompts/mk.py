import json, sys
props = {json.loads(l)['id']: json.loads(l) for l in open('/verif/properties.jsonl')}
pre = open('/verif/tools/prompts/preamble.txt').read()
def mk(pid, pid2=None):
    notes = open(f'/verif/tools/prompts/{pid}.notes').read()
    if pid2:
        notes = notes.replace('{PROP2}', json.dumps(props[pid2], indent=1))
    return pre.replace('{PID}', pid).replace('{pid}', pid.lower()).replace('{PROP}', json.dumps(props[pid], indent=1)).replace('{NOTES}', notes)
if __name__ == '__main__':
    print(mk(sys.argv[1], sys.argv[2] if len(sys.argv) > 2 else None))
