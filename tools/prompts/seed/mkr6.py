"""Round-6 seed prompts: round-5 prompt + the round-5 summaries + a new 'what is left' paragraph."""
import json, sys, glob, re, os
pid = sys.argv[1]
low = pid.lower()
t = open(f'/verif/tools/prompts/seed/{pid}.r5.prompt').read()
t = t.replace(low + 'r5', low + 'r6')
extra = []
for d in sorted(glob.glob(f'/verif/seeded/{pid}R5-*')):
    try:
        m = json.load(open(d + '/meta.json'))
        extra.append('  * ' + str(m.get('summary', ''))[:300])
    except Exception:
        pass
marker = '- Aim for the kind of change'
i = t.index(marker)
t = t[:i] + '\n'.join(extra) + '\n' + t[i:]
j = t.index('- Work quickly')
t = t[:j] + ("- Round 6: the tester now ALSO exercises container and numeric types (tuple/ndarray/numpy ints, int vs float, 0-d arrays), names "
  "differing in case, values agreeing to six digits, one object passed twice, rejected calls inside a history, and dims other than 2. "
  "What may be left: dependence on the ORDER in which independent API calls were made before the observed one; on properties/setters "
  "changed between construction and use; on inheritance (a subclass of a library class, a subclass overriding one method); on copy / "
  "deepcopy / pickle of library objects before use; on the LENGTH parity or a specific size threshold (>= 6, >= 8 qubits, > 10 gates); "
  "on negative or reversed indices that Python accepts; on gates whose targets are given in descending order combined with a second feature; "
  "on the interaction of TWO library passes each correct alone; on default-argument values that are evaluated once; on float values such as "
  "-0.0, subnormals, or angles just above/below a multiple of 2*pi by one ulp; on string options given in another case or with whitespace "
  "where the library documents them as accepted.\n"
  "- Work quickly: you have about 18 minutes in total. Deliver the first change as soon as it is verified; a second one only if time allows.\n")
open(f'/verif/tools/prompts/seed/{pid}.r6.prompt', 'w').write(t)
print(pid, len(t))
