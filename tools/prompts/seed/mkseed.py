import json, sys
props = {json.loads(l)['id']: json.loads(l) for l in open('/verif/properties.jsonl')}
t = open('/verif/tools/prompts/seed/template.txt').read()
pid = sys.argv[1]
p = props[pid]
txt = json.dumps({k: p[k] for k in ('id','title','statement','quantifier','anchors')}, indent=1)
print(t.replace('{pid}', pid.lower()).replace('{PROP}', txt))
