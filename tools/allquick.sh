#!/bin/bash
# Run every registered quick check once on /repo itself, serially (evidence files are rewritten); prints rc and wall per check.
cd /verif
rc_all=0
for p in $(python3 -c "import json;print(' '.join(c['property_id'] for c in json.load(open('MANIFEST.json'))['checks']))"); do
  t0=$(date +%s)
  out=$(./check $p quick 2>&1); rc=$?
  echo "$p rc=$rc wall=$(( $(date +%s) - t0 ))s $(echo "$out" | grep -c '^VIOLATION') violations; $(echo "$out" | grep '^KNOWN-FINDING' | wc -l) known"
  [ $rc -ne 0 ] && { rc_all=1; echo "$out" | grep '^VIOLATION' | head -3; }
done
exit $rc_all
