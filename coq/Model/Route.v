(* C07 - executable model of nearest-neighbour routing.

   Models  qutip_qip/transpiler/chain.py : to_chain_structure(qc, setup)
   and     qutip_qip/circuit/circuit.py  : QubitCircuit.adjacent_gates()
   as list programs over gates (name, targets, controls, arg_value).

   Definitions only.  Python ints are Z; `%` with a positive modulus is Z.modulo, `//` is Z.div.
   The `while i < end` loops are modelled with explicit fuel = distance; fuel exhaustion is
   `None` (proved unreachable in Proofs/Route.v).  A Python exception (missing target/control
   index, NotImplementedError of adjacent_gates) is `None` as well.

   The record `cfg` selects between the code as it is in the unchanged tree (`orig`) and the
   code after the proposed fixes (`fixed`):
     fix_ctrl : backward (around the ring) branch, odd temporary path: control/target of the
                emitted CNOT/CSIGN (fixes/C07-circular-backward.diff)
     fix_mod  : re-indexing of the temporary circuit applies `% N` uniformly instead of the
                case split on the gate counter j (same diff)
     fix_arg  : routed swap-type gates keep the arg_value of the input gate (SWAPalpha)
                (fixes/C07-swapalpha-arg.diff)
     fix_meas : to_chain_structure appends a non-gate operation (Measurement) itself instead of
                wrapping it with add_gate (fixes/C07-measurement-passthrough.diff); only the
                operation-level functions route_ops / adjacent_ops look at it
     fix_adjpass : adjacent_gates keeps a gate it does not resolve instead of raising
                NotImplementedError (fixes/C07-adjacent-gates-passthrough.diff)
   The theorems of Props/C07.v are about `fixed`; the `_refuted` theorems are about `orig`. *)
From Coq Require Import ZArith List String Bool.
Import ListNotations.
Local Open Scope string_scope.
Local Open Scope Z_scope.

Record gate := mkGate {
  gname : string;
  gtargets : list Z;      (* Python None is [] *)
  gcontrols : list Z;     (* Python None is [] *)
  garg : option Z         (* opaque token for arg_value; None = Python None *)
}.

Inductive topo := Linear | Circular.

Record cfg := mkCfg { fix_ctrl : bool; fix_mod : bool; fix_arg : bool; fix_meas : bool; fix_adjpass : bool }.
Definition orig : cfg := mkCfg false false false false false.
(* the tree after the first three fixes (before C07-measurement-passthrough / C07-adjacent-gates-passthrough) *)
Definition stage2 : cfg := mkCfg true true true false false.
Definition fixed : cfg := mkCfg true true true true true.

(* the names both routers list (with fixes/C07-alias-names: the last two are the other names under which the
   library creates the SWAPalpha and ISWAP gates - class SWAPALPHA's default name, GATE_CLASS_MAP alias "iSWAP") *)
Definition swap_gates : list string :=
  ["SWAP"; "ISWAP"; "SQRTISWAP"; "SQRTSWAP"; "BERKELEY"; "SWAPalpha"; "SWAPALPHA"; "iSWAP"].
(* the list before that fix *)
Definition swap_gates_old : list string :=
  ["SWAP"; "ISWAP"; "SQRTISWAP"; "SQRTSWAP"; "BERKELEY"; "SWAPalpha"].

(* the two names added by fixes/C07-alias-names *)
Definition alias_names : list string := ["SWAPALPHA"; "iSWAP"].
Definition is_alias (n : string) : bool := existsb (String.eqb n) alias_names.

Definition is_ctrl (n : string) : bool := String.eqb n "CNOT" || String.eqb n "CSIGN".
Definition is_swapk (n : string) : bool := existsb (String.eqb n) swap_gates.

(* gate constructors used by the code *)
Definition SWAPg (p q : Z) : gate := mkGate "SWAP" [p; q] [] None.
Definition Cg (n : string) (c t : Z) : gate := mkGate n [t] [c] None.
Definition SWg (n : string) (a : option Z) (p q : Z) : gate := mkGate n [p; q] [] a.

(* the CNOT/CSIGN placed on the adjacent pair (lo, hi); [hi_ctrl] = the control is on hi *)
Definition ccore (n : string) (hi_ctrl : bool) (lo hi : Z) : gate :=
  if hi_ctrl then Cg n hi lo else Cg n lo hi.

(* The while loop shared by all branches:
     while i < e:
        if   s+e-i-i == 1 and (e-s+1) % 2 == 0:  emit coreA(i, i+1)
        elif s+e-i-i == 2 and (e-s+1) % 2 == 1:  emit SWAP(i,i+1); coreB(i+1,i+2); SWAP(i,i+1); i += 1
        else:                                    emit SWAP(i,i+1); SWAP(s+e-i-1, s+e-i)
        i += 1                                                                            *)
Fixpoint floop (fuel : nat) (coreA coreB : Z -> Z -> gate) (s e i : Z) : option (list gate) :=
  if i <? e then
    match fuel with
    | O => None
    | S f =>
      if (s + e - i - i =? 1) && ((e - s + 1) mod 2 =? 0) then
        option_map (fun r => coreA i (i + 1) :: r) (floop f coreA coreB s e (i + 1))
      else if (s + e - i - i =? 2) && ((e - s + 1) mod 2 =? 1) then
        option_map (fun r => SWAPg i (i + 1) :: coreB (i + 1) (i + 2) :: SWAPg i (i + 1) :: r)
                   (floop f coreA coreB s e (i + 1 + 1))
      else
        option_map (fun r => SWAPg i (i + 1) :: SWAPg (s + e - i - 1) (s + e - i) :: r)
                   (floop f coreA coreB s e (i + 1))
    end
  else Some [].

(* forward path start..end *)
Definition forward (coreF : Z -> Z -> gate) (s e : Z) : option (list gate) :=
  floop (Z.to_nat (e - s)) coreF coreF s e s.

(* temporary circuit of the backward path: the same loop on positions 0 .. N-end+start *)
Definition backward_temp (coreA coreB : Z -> Z -> gate) (N s e : Z) : option (list gate) :=
  floop (Z.to_nat (N - e + s)) coreA coreB 0 (N - e + s) 0.

(* copy back, unchanged tree: case split on the gate counter j against N-end-2 *)
Fixpoint reindex_orig (keep_arg : bool) (N e j : Z) (l : list gate) : option (list gate) :=
  match l with
  | [] => Some []
  | g :: r =>
    let first x := if j <? N - e - 2 then e + x else if j =? N - e - 2 then e + x else (e + x) mod N in
    let second x := if j <? N - e - 2 then e + x else (e + x) mod N in
    let a := if keep_arg then garg g else None in
    match
      (if is_ctrl (gname g) then
         match gtargets g, gcontrols g with
         | t0 :: _, c0 :: _ => Some (mkGate (gname g) [first t0] [second c0] None)
         | _, _ => None
         end
       else
         match gtargets g with
         | t0 :: t1 :: _ => Some (mkGate (gname g) [first t0; second t1] [] a)
         | _ => None
         end)
    with
    | Some g' => option_map (cons g') (reindex_orig keep_arg N e (j + 1) r)
    | None => None
    end
  end.

(* copy back, fixed: every index is taken modulo N *)
Fixpoint reindex_mod (keep_arg : bool) (N e : Z) (l : list gate) : option (list gate) :=
  match l with
  | [] => Some []
  | g :: r =>
    let a := if keep_arg then garg g else None in
    match
      (if is_ctrl (gname g) then
         match gtargets g, gcontrols g with
         | t0 :: _, c0 :: _ => Some (mkGate (gname g) [(e + t0) mod N] [(e + c0) mod N] None)
         | _, _ => None
         end
       else
         match gtargets g with
         | t0 :: t1 :: _ => Some (mkGate (gname g) [(e + t0) mod N; (e + t1) mod N] [] a)
         | _ => None
         end)
    with
    | Some g' => option_map (cons g') (reindex_mod keep_arg N e r)
    | None => None
    end
  end.

Definition reindex (c : cfg) (N e : Z) (l : list gate) : option (list gate) :=
  if fix_mod c then reindex_mod (fix_arg c) N e l else reindex_orig (fix_arg c) N e 0 l.

Definition obind {A B} (o : option A) (f : A -> option B) : option B :=
  match o with Some x => f x | None => None end.

(* `setup == "linear" or (setup == "circular" and (end - start) <= N // 2)` *)
Definition forward_cond (tp : topo) (N s e : Z) : bool :=
  match tp with Linear => true | Circular => e - s <=? N / 2 end.

(* one iteration of `for gate in qc.gates` of to_chain_structure *)
Definition route1 (c : cfg) (tp : topo) (N : Z) (g : gate) : option (list gate) :=
  let n := gname g in
  if is_ctrl n then
    match gtargets g, gcontrols g with
    | t0 :: _, c0 :: _ =>
      let s := Z.min t0 c0 in
      let e := Z.max t0 c0 in
      if forward_cond tp N s e then
        forward (ccore n (e =? c0)) s e
      else if e - s <? N - 1 then
        obind (backward_temp (ccore n (if fix_ctrl c then negb (e =? c0) else (e =? c0)))
                             (ccore n (negb (e =? c0))) N s e)
              (reindex c N e)
      else if e - s =? N - 1 then
        Some [mkGate n (gtargets g) (gcontrols g) None]
      else Some []
    | _, _ => None
    end
  else if is_swapk n then
    match gtargets g with
    | t0 :: t1 :: _ =>
      let s := Z.min t0 t1 in
      let e := Z.max t0 t1 in
      let a := if fix_arg c then garg g else None in
      if forward_cond tp N s e then
        forward (SWg n a) s e
      else
        obind (backward_temp (SWg n a) (SWg n a) N s e) (reindex c N e)
    | _ => None
    end
  else Some [g].

Fixpoint route (c : cfg) (tp : topo) (N : Z) (gs : list gate) : option (list gate) :=
  match gs with
  | [] => Some []
  | g :: r => obind (route1 c tp N g) (fun o => option_map (app o) (route c tp N r))
  end.

(* QubitCircuit.adjacent_gates: the forward loop only; any other gate raises NotImplementedError *)
Definition adj1 (c : cfg) (g : gate) : option (list gate) :=
  let n := gname g in
  if is_ctrl n then
    match gtargets g, gcontrols g with
    | t0 :: _, c0 :: _ =>
      let s := Z.min t0 c0 in
      let e := Z.max t0 c0 in
      forward (ccore n (e =? c0)) s e
    | _, _ => None
    end
  else if is_swapk n then
    match gtargets g with
    | t0 :: t1 :: _ =>
      let s := Z.min t0 t1 in
      let e := Z.max t0 t1 in
      forward (SWg n (if fix_arg c then garg g else None)) s e
    | _ => None
    end
  else if fix_adjpass c then Some [g] else None.

Fixpoint adjacent_gates (c : cfg) (gs : list gate) : option (list gate) :=
  match gs with
  | [] => Some []
  | g :: r => obind (adj1 c g) (fun o => option_map (app o) (adjacent_gates c r))
  end.

(* ---- circuits with measurements ---------------------------------------------------------- *)
(* `qc.gates` holds Gate and Measurement objects.  A Measurement has a name, targets and a
   classical_store; the routers only look at its name (never "CNOT", ... for a Measurement built
   by add_measurement, but the model does not assume that: see is_meas_name in the theorems). *)
Inductive op :=
| OG (g : gate)
| OM (name : string) (targets : list Z) (cstore : option Z).

(* what `qc_t.add_gate(measurement)` builds: Gate(name=<the Measurement object>, targets=None, ...);
   the harness prints a non-string name as "obj:<type name>" *)
Definition wrapped_measurement : gate := mkGate "obj:Measurement" [] [] None.

(* to_chain_structure on a gate list with measurements.  A Measurement reaches the final `else`
   branch (its name is not one of the eight routed names); there the unchanged tree calls
   add_gate, the fixed tree appends the object. *)
Fixpoint route_ops (c : cfg) (tp : topo) (N : Z) (ops : list op) : option (list op) :=
  match ops with
  | [] => Some []
  | OG g :: r => obind (route1 c tp N g) (fun o => option_map (app (map OG o)) (route_ops c tp N r))
  | OM n t s :: r =>
    if is_ctrl n || is_swapk n then None   (* not modelled: a measurement named like a routed gate *)
    else option_map (cons (if fix_meas c then OM n t s else OG wrapped_measurement)) (route_ops c tp N r)
  end.

Definition is_meas (o : op) : bool := match o with OM _ _ _ => true | OG _ => false end.
Definition op_gates (ops : list op) : list gate :=
  flat_map (fun o => match o with OG g => [g] | OM _ _ _ => [] end) ops.

(* adjacent_gates refuses (NotImplementedError) every circuit that contains a measurement *)
Definition adjacent_ops (c : cfg) (ops : list op) : option (list op) :=
  if existsb is_meas ops then None else option_map (map OG) (adjacent_gates c (op_gates ops)).

(* ---- the predicates of the property ------------------------------------------------------ *)
Definition qubits (g : gate) : list Z := gcontrols g ++ gtargets g.

Definition adjb (tp : topo) (N a b : Z) : bool :=
  match tp with
  | Linear => (a + 1 =? b) || (b + 1 =? a)
  | Circular => ((a + 1) mod N =? b) || ((b + 1) mod N =? a)
  end.

(* a gate on exactly two qubits that are neighbours in the topology *)
Definition adj2b (tp : topo) (N : Z) (g : gate) : bool :=
  match qubits g with
  | [a; b] => adjb tp N a b
  | _ => false
  end.

Definition in_rangeb (N : Z) (g : gate) : bool :=
  forallb (fun q => (0 <=? q) && (q <? N)) (qubits g).

Definition handledb (g : gate) : bool := is_ctrl (gname g) || is_swapk (gname g).

(* the input gates the routing clauses of the property speak about: a CNOT/CSIGN with one
   control and one target, or a swap-type gate with two targets, on two different qubits *)
Definition wf_ctrl (g : gate) : bool :=
  is_ctrl (gname g) &&
  match gtargets g, gcontrols g, garg g with
  | [t], [c], None => negb (t =? c)
  | _, _, _ => false
  end.
Definition wf_swapk (g : gate) : bool :=
  is_swapk (gname g) &&
  match gtargets g, gcontrols g with
  | [a; b], [] => negb (a =? b)
  | _, _ => false
  end.
Definition wf_handled (g : gate) : bool := wf_ctrl g || wf_swapk g.

(* ---- executable permutation tracking (sound by Proofs/Route.v: track_sound) --------------- *)
Definition tau (p q x : Z) : Z := if x =? p then q else if x =? q then p else x.
Definition relab (rho : Z -> Z) (g : gate) : gate :=
  mkGate (gname g) (map rho (gtargets g)) (map rho (gcontrols g)) (garg g).

Definition is_swap_pq (g : gate) : option (Z * Z) :=
  if String.eqb (gname g) "SWAP" then
    match gtargets g, gcontrols g, garg g with
    | [p; q], [], None => if p =? q then None else Some (p, q)
    | _, _, _ => None
    end
  else None.

Definition conj_by (sw : gate) (g : gate) : gate :=
  match is_swap_pq sw with
  | Some (p, q) => relab (tau p q) g
  | None => g
  end.

Definition Z_list_eqb (a b : list Z) : bool :=
  (List.length a =? List.length b)%nat && forallb (fun xy => fst xy =? snd xy) (combine a b).
Definition gate_eqb (a b : gate) : bool :=
  String.eqb (gname a) (gname b) && Z_list_eqb (gtargets a) (gtargets b)
  && Z_list_eqb (gcontrols a) (gcontrols b)
  && match garg a, garg b with Some x, Some y => x =? y | None, None => true | _, _ => false end.
Definition gates_eqb (a b : list gate) : bool :=
  (List.length a =? List.length b)%nat && forallb (fun xy => gate_eqb (fst xy) (snd xy)) (combine a b).

(* l = pre ++ [core] ++ rev pre with pre made of SWAPs: the gate the list denotes *)
Definition track (l : list gate) : option gate :=
  let n := Nat.div (List.length l) 2 in
  let pre := firstn n l in
  match skipn n l with
  | core :: post =>
    if gates_eqb post (rev pre) && forallb (fun g => match is_swap_pq g with Some _ => true | None => false end) pre
       && wf_handled core
    then Some (fold_right conj_by core pre) else None
  | [] => None
  end.

(* flat encoding used by the correspondence harness *)
Definition enc (g : gate) : string * list Z * list Z * option Z :=
  (gname g, gtargets g, gcontrols g, garg g).
Definition enc_out (o : option (list gate)) := option_map (map enc) o.

Definition enc_op (o : op) : string * list Z * list Z * option Z :=
  match o with
  | OG g => enc g
  | OM n t s => ("M:" ++ n, t, [], s)
  end.
Definition enc_ops_out (o : option (list op)) := option_map (map enc_op) o.
