(* C17 (decomposition half): model of decompose/decompose_single_qubit_gate.py over the complex numbers.
   Definitions only.
   * the EXTERNAL numeric functions are Section variables: cmath.phase, complex np.sqrt, np.arctan2
     (np.absolute is modelled by the modulus [Cmod], np.linalg.det by the 2x2 determinant, 1/z by the field inverse);
   * [prims] mirrors the statements of _angles_for_ZYZ that prepare the arguments of those functions (the translator
     tools/translate/c17_tr.py refuses to run if their source text changes);
   * the arithmetic on the extracted angles ([sq_angles]) and the returned gate tuples ([sq_methods]) are GENERATED
     from the source (Gen/SingleQubit.v); gate matrices come from the generated Gen/Gates.v ([dispatch], [globalphase_ex]).
   The returned tuple is read as a circuit: "applying the returned gates in the returned order" = the FIRST element is
   applied first, i.e. the matrix product  M_last * ... * M_2 * M_1. *)
From Coq Require Import Reals List String.
From Coquelicot Require Import Coquelicot.
From QV Require Import Found.Sym Found.CInst Gen.Gates Gen.SingleQubit.
Import ListNotations.
Local Open Scope string_scope.
Local Open Scope list_scope.

Record m2 := M2 { u00 : C; u01 : C; u10 : C; u11 : C }.
Definition entry (U : m2) (i j : nat) : C :=
  match i, j with
  | 0%nat, 0%nat => u00 U | 0%nat, 1%nat => u01 U | 1%nat, 0%nat => u10 U | 1%nat, 1%nat => u11 U
  | _, _ => RtoC 0
  end.
Definition det2 (U : m2) : C := Cminus (Cmult (u00 U) (u11 U)) (Cmult (u01 U) (u10 U)).
(* U^dagger U = 1 (what Qobj.isunitary tests, to tolerance) *)
Definition unitary2 (U : m2) : Prop :=
  Cplus (Cmult (Cconj (u00 U)) (u00 U)) (Cmult (Cconj (u10 U)) (u10 U)) = RtoC 1 /\
  Cplus (Cmult (Cconj (u00 U)) (u01 U)) (Cmult (Cconj (u10 U)) (u11 U)) = RtoC 0 /\
  Cplus (Cmult (Cconj (u01 U)) (u00 U)) (Cmult (Cconj (u11 U)) (u10 U)) = RtoC 0 /\
  Cplus (Cmult (Cconj (u01 U)) (u01 U)) (Cmult (Cconj (u11 U)) (u11 U)) = RtoC 1.

Fixpoint sassoc {A} (k : string) (l : list (string * A)) : option A :=
  match l with [] => None | (k', v) :: l' => if String.eqb k k' then Some v else sassoc k l' end.

Section Extract.
Variable cphase : C -> R.          (* cmath.phase *)
Variable csqrt : C -> C.           (* np.sqrt on a complex scalar *)
Variable atan2 : R -> R -> R.      (* np.arctan2(y, x) *)

(* normalization_constant = np.sqrt(np.linalg.det(input_array)) *)
Definition norm_const (U : m2) : C := csqrt (det2 U).
(* input_array = input_array * (1 / normalization_constant), entry-wise *)
Definition normed (U : m2) (x : C) : C := Cmult x (Cdiv (RtoC 1) (norm_const U)).
(* a_negative = np.real(x) - 1j * np.imag(x)  with x = input_array[0][0];  b_negative likewise with [0][1] *)
Definition negate_im (x : C) : C := Cminus (RtoC (Re x)) (Cmult Ci (RtoC (Im x))).
Definition a_negative (U : m2) : C := negate_im (normed U (u00 U)).
Definition b_negative (U : m2) : C := negate_im (normed U (u01 U)).

(* values of the primitives Var 0..3 of [sq_angles] *)
Definition prims (U : m2) : nat -> R := fun j =>
  match j with
  | 0%nat => cphase (a_negative U)
  | 1%nat => cphase (b_negative U)
  | 2%nat => atan2 (Cmod (b_negative U)) (Cmod (a_negative U))
  | 3%nat => cphase (Cdiv (RtoC 1) (norm_const U))
  | _ => 0%R
  end.

(* (alpha, theta, beta, global_phase_angle) = _angles_for_ZYZ(U): real part of the generated expressions *)
Definition angles (U : m2) : nat -> R := fun j => Re (cden (prims U) (nth j sq_angles (Var j))).
End Extract.

(* matrix of one returned gate as a matrix expression over Var 0..3 = the four returned angles;
   GLOBALPHASE is the scalar exp(i*arg) (Gen.Gates.globalphase_ex); a name outside the dispatch table, or a missing
   argument of GLOBALPHASE, is an error (None) *)
Definition gate_scalar (g : sgen) : option ex :=
  match g with
  | ("GLOBALPHASE", _, Some e) => Some (subst [e] globalphase_ex)
  | _ => None
  end.
Definition gate_mexp (g : sgen) : option mexp :=
  match g with
  | (name, _, Some e) => option_map (msubst [e]) (sassoc name dispatch)
  | (name, _, None) => sassoc name dispatch
  end.
Definition is_phase (g : sgen) : bool := String.eqb (fst (fst g)) "GLOBALPHASE".

Definition mid2 : mexp := MLit [[Num 1; Num 0]; [Num 0; Num 1]].
(* product of the tuple read as a circuit: later gates multiply from the left *)
Fixpoint circuit_product (acc : mexp) (gs : list sgen) : option mexp :=
  match gs with
  | [] => Some acc
  | g :: gs' =>
      if is_phase g then match gate_scalar g with Some s => circuit_product (MScale s acc) gs' | None => None end
      else match gate_mexp g with Some m => circuit_product (MMul m acc) gs' | None => None end
  end.
Definition method_product (method : string) : option mexp :=
  match sassoc method sq_methods with Some gs => circuit_product mid2 gs | None => None end.

(* the promise of each method: which gate names may occur *)
Definition promised (method : string) : list string :=
  if String.eqb method "ZYZ" then ["RZ"; "RY"; "GLOBALPHASE"]
  else if String.eqb method "ZXZ" then ["RZ"; "RX"; "GLOBALPHASE"]
  else if String.eqb method "ZYZ_PauliX" then ["RZ"; "RY"; "X"; "GLOBALPHASE"]
  else [].
Definition names_of (gs : list sgen) : list string := map (fun g => fst (fst g)) gs.
Definition axes_ok (method : string) : bool :=
  match sassoc method sq_methods with
  | Some gs => forallb (fun n => existsb (String.eqb n) (promised method)) (names_of gs)
               && forallb (fun g => match snd (fst g) with [0%nat] => true | _ => false end) gs
  | None => false
  end.

(* output encoding for the harness *)
Definition run_methods := sq_methods.
Definition run_angles := sq_angles.
