(* C15 - the Lindblad generator of the collapse terms emitted by RelaxationNoise, over an arbitrary
   commutative ring with an involution (the complex numbers are the intended instance).  Definitions only.

   Matrices are explicit tables (list of rows).  The generator of one collapse operator C is
       lind C rho = C rho C^dag - 1/2 (C^dag C rho + rho C^dag C)
   which is what qutip.mesolve integrates for every element of c_ops (TRUSTED: external solver). *)
From Coq Require Import List Arith Ring_theory QArith.
Import ListNotations.

(* A commutative ring with involution, 1/2 and sqrt 2 *)
Record cring := {
  K :> Type;
  k0 : K; k1 : K; kadd : K -> K -> K; kmul : K -> K -> K; ksub : K -> K -> K; kopp : K -> K;
  conj : K -> K; half : K; s2 : K;
  kring : ring_theory k0 k1 kadd kmul ksub kopp (@eq K);
  conj_add : forall a b, conj (kadd a b) = kadd (conj a) (conj b);
  conj_mul : forall a b, conj (kmul a b) = kmul (conj a) (conj b);
  conj_inv : forall a, conj (conj a) = a;
  conj_half : conj half = half;
  conj_s2 : conj s2 = s2;
  half_ok : kadd half half = k1;
  s2_ok : kmul s2 s2 = kadd k1 k1
}.

Section Mat.
  Variable R : cring.
  Let K := K R. Let k0 := k0 R. Let k1 := k1 R. Let kadd := kadd R. Let kmul := kmul R. Let ksub := ksub R.
  Let kopp := kopp R. Let conj := conj R. Let half := half R.

  Definition mat := list (list K).
  Definition entry (A : mat) (i j : nat) : K := nth j (nth i A []) k0.
  Definition mk (n : nat) (f : nat -> nat -> K) : mat := map (fun i => map (fun j => f i j) (seq 0 n)) (seq 0 n).
  Fixpoint ksum (l : list K) : K := match l with [] => k0 | x :: r => kadd x (ksum r) end.
  Definition sumn (n : nat) (f : nat -> K) : K := ksum (map f (seq 0 n)).

  Definition mmul (n : nat) (A B : mat) : mat := mk n (fun i j => sumn n (fun k => kmul (entry A i k) (entry B k j))).
  Definition madd (n : nat) (A B : mat) : mat := mk n (fun i j => kadd (entry A i j) (entry B i j)).
  Definition msub (n : nat) (A B : mat) : mat := mk n (fun i j => ksub (entry A i j) (entry B i j)).
  Definition mscale (n : nat) (c : K) (A : mat) : mat := mk n (fun i j => kmul c (entry A i j)).
  Definition adj (n : nat) (A : mat) : mat := mk n (fun i j => conj (entry A j i)).
  Definition mzero (n : nat) : mat := mk n (fun _ _ => k0).
  Definition ident (n : nat) : mat := mk n (fun i j => if Nat.eqb i j then k1 else k0).
  Definition trace (n : nat) (A : mat) : K := sumn n (fun i => entry A i i).

  (* dissipator of one collapse operator C *)
  Definition lind (n : nat) (C rho : mat) : mat :=
    let Cd := adj n C in
    let CdC := mmul n Cd C in
    msub n (mmul n C (mmul n rho Cd)) (mscale n half (madd n (mmul n CdC rho) (mmul n rho CdC))).
  (* dissipator with an explicit RATE g on a unit-free operator A:  g * D[A]  (= D[c A] whenever c conj(c) = g) *)
  Definition lindr (n : nat) (g : K) (A rho : mat) : mat := mscale n g (lind n A rho).
  Fixpoint lindsum (n : nat) (Cs : list mat) (rho : mat) : mat :=
    match Cs with [] => mzero n | C :: r => madd n (lind n C rho) (lindsum n r rho) end.
  (* coherent part -i[H, rho] is written with an explicit element iu (iu * iu = -1) *)
  Definition comm (n : nat) (iu : K) (H rho : mat) : mat :=
    mscale n (kopp iu) (msub n (mmul n H rho) (mmul n rho H)).

  (* bipartite registers: index of (a, b) is a * dB + b  (first subsystem most significant, as qutip.tensor) *)
  Definition kron (dA dB : nat) (A B : mat) : mat :=
    mk (dA * dB) (fun i j => kmul (entry A (i / dB) (j / dB)) (entry B (i mod dB) (j mod dB))).
  Definition ptraceB (dA dB : nat) (R : mat) : mat :=      (* reduced state of the FIRST subsystem *)
    mk dA (fun a a' => sumn dB (fun b => entry R (a * dB + b) (a' * dB + b))).
  Definition ptraceA (dA dB : nat) (R : mat) : mat :=      (* reduced state of the SECOND subsystem *)
    mk dB (fun b b' => sumn dA (fun a => entry R (a * dB + b) (a * dB + b'))).

  (* the operators qutip.destroy(d), qutip.num(d) for d = 2, 3;  s2 stands for sqrt 2 *)
  Definition two : K := kadd k1 k1.
  Definition destroy2 : mat := [[k0; k1]; [k0; k0]].
  Definition num2 : mat := [[k0; k0]; [k0; k1]].
  Definition destroy3 : mat := [[k0; k1; k0]; [k0; k0; s2 R]; [k0; k0; k0]].
  Definition num3 : mat := [[k0; k0; k0]; [k0; k1; k0]; [k0; k0; two]].

  (* generator of one idle subsystem with amplitude-damping rate g1 and number-dephasing rate g2
     (the two terms RelaxationNoise emits for a qubit: coefficients c1, c2 with c1^2 = g1, c2^2 = g2) *)
  Definition relax_gen2 (g1 g2 : K) (rho : mat) : mat :=
    madd 2 (lindr 2 g1 destroy2 rho) (lindr 2 g2 num2 rho).
  Definition relax_gen3 (g1 g2 : K) (rho : mat) : mat :=
    madd 3 (lindr 3 g1 destroy3 rho) (lindr 3 g2 num3 rho).

  Definition gen2 (a b c d : K) : mat := [[a; b]; [c; d]].
  Definition gen3 (a b c d e f g h i : K) : mat := [[a; b; c]; [d; e; f]; [g; h; i]].
End Mat.

(* the rationals inside the ring (t1, t2 and the rates computed by Model.Relax are rationals) *)
Record qhom (R : cring) := {
  phi : Q -> R;
  phi_eq : forall a b, Qeq a b -> phi a = phi b;
  phi_add : forall a b, phi (Qplus a b) = kadd R (phi a) (phi b);
  phi_mul : forall a b, phi (Qmult a b) = kmul R (phi a) (phi b);
  phi_one : phi 1%Q = k1 R;
  phi_real : forall a, conj R (phi a) = phi a
}.
