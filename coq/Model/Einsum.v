(* C01 - the state-vector path of CircuitSimulator: the label lists handed to numpy.einsum by
   _evolve_state_einsum, and what a two-operand einsum over labelled axes computes.  Definitions only.

   Python:   num_site          = len(state.shape)        (qubit axes, plus ONE ancillary axis when an operator is evolved)
             ancillary_indices = range(num_site, num_site + len(targets))
             index_list        = range(num_site)
             new_index_list    = list(index_list);  for j, k in enumerate(targets): new_index_list[k] = j + num_site
             np.einsum(gate_array, list(ancillary_indices) + list(targets), state, index_list, new_index_list)
   gate_array = gate.full().reshape(dims[0] + dims[1]): axes = row bits then column bits, row-major
   (first subsystem = most significant bit), which is how [mat] is indexed. *)
From QV Require Import Found.Base.

Fixpoint set_nth {A} (l : list A) (i : nat) (v : A) : list A :=
  match l, i with
  | [], _ => []
  | _ :: r, 0 => v :: r
  | x :: r, S i' => x :: set_nth r i' v
  end.

Definition lblG (n : nat) (ts : list nat) : list nat := seq n (length ts) ++ ts.
Definition lblS (n : nat) : list nat := seq 0 n.
(* the assignment loop; a target >= num_site is an IndexError (targets are non-negative here) *)
Fixpoint out_loop (n j : nat) (ts : list nat) (acc : list nat) : option (list nat) :=
  match ts with
  | [] => Some acc
  | t :: r => if t <? length acc then out_loop n (S j) r (set_nth acc t (j + n)) else None
  end.
Definition lblOut (n : nat) (ts : list nat) : option (list nat) := out_loop n 0 ts (seq 0 n).
Definition einsum_labels (n : nat) (ts : list nat) : option (list nat * list nat * list nat) :=
  match lblOut n ts with Some o => Some (lblG n ts, lblS n, o) | None => None end.

(* ---- meaning of np.einsum(G, lG, S, lS, lO) (TRUSTED reading of numpy): an axis value is an element of V,
   the axis carrying label l ranges over [dom l];
     out(o) = sum over all assignments of the labels that occur in lG/lS but not in lO of G(e o lG) * S(e o lS)
   where e extends the binding lO |-> o. ---- *)
Section Einsum.
Variable O : Ops.
Variable V : Type.
Variable dom : nat -> list V.
Variable dflt : V.

Definition tensor := list V -> O.
Definition env := nat -> V.
Fixpoint vlookup (l : nat) (ls : list nat) (vs : list V) : option V :=
  match ls, vs with
  | a :: ls', v :: vs' => if Nat.eqb l a then Some v else vlookup l ls' vs'
  | _, _ => None
  end.
Definition bindenv (ls : list nat) (vs : list V) : env :=
  fun l => match vlookup l ls vs with Some v => v | None => dflt end.
Definition eset (e : env) (l : nat) (v : V) : env := fun l' => if Nat.eqb l' l then v else e l'.
Fixpoint assigns (ls : list nat) (e : env) : list env :=
  match ls with
  | [] => [e]
  | l :: ls' => flat_map (fun v => assigns ls' (eset e l v)) (dom l)
  end.
Definition lmem (x : nat) (l : list nat) : bool := existsb (Nat.eqb x) l.
(* distinct labels of [ls] not in [seen], first occurrences *)
Fixpoint fresh (seen ls : list nat) : list nat :=
  match ls with
  | [] => []
  | l :: r => if lmem l seen then fresh seen r else l :: fresh (l :: seen) r
  end.
Definition summed (lG lS lO : list nat) : list nat := fresh lO (lG ++ lS).

Definition einsum2 (G : tensor) (lG : list nat) (S : tensor) (lS lO : list nat) : tensor :=
  fun o => ksum (map (fun e => kmul O (G (map e lG)) (S (map e lS))) (assigns (summed lG lS lO) (bindenv lO o))).
End Einsum.
Arguments einsum2 {O V}. Arguments vlookup {V}.

(* ---- one gate step on a register of [nq] qubits ---- *)
Section Step.
Variable O : Ops.

(* a gate as the simulator sees it: GLOBALPHASE is a scalar, anything else a matrix on get_all_qubits() *)
Inductive sgate := GPhase (c : O) | GMat (M : mat O) (ts : list nat).

(* gate tensor: the 2k axes of gate_array *)
Definition gtensor {V} (unb : V -> bool) (M : mat O) (k : nat) : list V -> O :=
  fun vs => M (map unb (firstn k vs)) (map unb (skipn k vs)).

(* ket mode: V = bool, every axis is a qubit axis *)
Definition bdom : nat -> list bool := fun _ => [false; true].
Definition ket_step (nq : nat) (g : sgate) (v : fvec O) : option (fvec O) :=
  match g with
  | GPhase c => Some (fun r => kmul O c (v r))
  | GMat M ts =>
    match einsum_labels nq ts with
    | Some (lG, lS, lO) => Some (einsum2 bdom false (gtensor (fun b => b) M (length ts)) lG v lS lO)
    | None => None
    end
  end.
Fixpoint ket_run (nq : nat) (c : list sgate) (v : fvec O) : option (fvec O) :=
  match c with
  | [] => Some v
  | g :: c' => match ket_step nq g v with Some v' => ket_run nq c' v' | None => None end
  end.

(* operator mode (compute_unitary): nq qubit axes and one ancillary axis (label nq) whose values are the column
   indices, an arbitrary type A; axis values are [inl bit] or [inr column] *)
Section Oper.
Variable A : Type.
Variable cols : list A.
Definition odom (nq : nat) : nat -> list (bool + A) :=
  fun l => if Nat.eqb l nq then map inr cols else [inl false; inl true].
Definition unb (v : bool + A) : bool := match v with inl b => b | inr _ => false end.
Definition otensor := list (bool + A) -> O.
Definition oper_step (nq : nat) (g : sgate) (X : otensor) : option otensor :=
  match g with
  | GPhase c => Some (fun r => kmul O c (X r))
  | GMat M ts =>
    match einsum_labels (S nq) ts with
    | Some (lG, lS, lO) => Some (einsum2 (odom nq) (inl false) (gtensor unb M (length ts)) lG X lS lO)
    | None => None
    end
  end.
Fixpoint oper_run (nq : nat) (c : list sgate) (X : otensor) : option otensor :=
  match c with
  | [] => Some X
  | g :: c' => match oper_step nq g X with Some X' => oper_run nq c' X' | None => None end
  end.
End Oper.
End Step.
Arguments GPhase {O}. Arguments GMat {O}.
