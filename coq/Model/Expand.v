(* C08 -- executable model of qutip_qip.operations.gates.expand_operator (with _targets_to_list and
   _check_oper_dims) for calls of the form  expand_operator(oper, dims=dims, targets=targets [, dtype=..]).

   Definitions only.  Python semantics kept: list indexing with negative wrap-around and IndexError,
   the order of the checks, `q not in targets`, enumerate, any raised exception = [Error].

   The operator is NOT part of the model: the model computes, for an entry (x,y) of the result (x, y =
   digit lists of the product basis states of the whole system), WHICH entry (r,c) of the operator it
   is a copy of ([Some (r,c)]), or that it is zero ([None]).  So every statement proved about
   [expand_elem] holds for every operator, over every scalar type.

   External functions modelled by their documented meaning (validated by the correspondence run):
     qutip.tensor([A0; A1; ...])  : subsystem lists concatenated; entry = product of the factors' entries
     qutip.identity(d)            : entry (a,b) = delta a b
     Qobj.permute(order)          : rejects unless [order] is a permutation of range(#subsystems);
                                    subsystem a of the result is subsystem order[a] of the argument. *)
From Coq Require Import List ZArith Bool Arith.
Import ListNotations.

Inductive err : Type :=
| TypeError      (* targets contain a non-integer *)
| CountError     (* len(targets) <> number of subsystems of the operator *)
| RangeError     (* some t >= N *)
| NotSquare      (* oper.dims[0] <> oper.dims[1] *)
| IndexError     (* a Python list index out of range *)
| DimsMismatch   (* oper.dims[0] <> [dims[t] for t in targets] *)
| PermuteError   (* Qobj.permute refuses the order *)
| BadBasisLabel. (* not a call error: the queried digit list is not a basis label of the result *)

Inductive result (A : Type) : Type :=
| Ok (a : A)
| Error (e : err).
Arguments Ok {A} a.
Arguments Error {A} e.

Definition bind {A B} (r : result A) (f : A -> result B) : result B :=
  match r with Ok a => f a | Error e => Error e end.

Definition is_ok {A} (r : result A) : bool :=
  match r with Ok _ => true | Error _ => false end.

(* one element of the `targets` iterable: a numbers.Integral, or anything else (float, str, None ...) *)
Inductive tgt : Type := TInt (z : Z) | TOther.
(* the `targets` argument: None | a non-iterable scalar | an iterable *)
Inductive tspec : Type := TsNone | TsScalar (t : tgt) | TsList (l : list tgt).

(* ---- Python list indexing --------------------------------------------------------------- *)
Definition py_index (n : nat) (t : Z) : option nat :=
  if (0 <=? t)%Z then
    if (t <? Z.of_nat n)%Z then Some (Z.to_nat t) else None
  else if (- Z.of_nat n <=? t)%Z then Some (Z.to_nat (t + Z.of_nat n)) else None.

Definition py_get {A} (l : list A) (t : Z) : option A :=
  match py_index (length l) t with Some i => nth_error l i | None => None end.

Fixpoint set_nth {A} (l : list A) (i : nat) (v : A) : list A :=
  match l, i with
  | [], _ => []
  | _ :: r, O => v :: r
  | a :: r, S j => a :: set_nth r j v
  end.

Fixpoint map_opt {A B} (f : A -> option B) (l : list A) : option (list B) :=
  match l with
  | [] => Some []
  | a :: r => match f a, map_opt f r with
              | Some b, Some bs => Some (b :: bs)
              | _, _ => None
              end
  end.

Fixpoint list_eqb (a b : list nat) : bool :=
  match a, b with
  | [], [] => true
  | x :: a', y :: b' => Nat.eqb x y && list_eqb a' b'
  | _, _ => false
  end.

Definition zmem (q : Z) (ts : list Z) : bool := existsb (Z.eqb q) ts.

Fixpoint nodupb (l : list nat) : bool :=
  match l with
  | [] => true
  | a :: r => negb (existsb (Nat.eqb a) r) && nodupb r
  end.

(* ---- _targets_to_list -------------------------------------------------------------------- *)
Definition tgt_int (t : tgt) : option Z := match t with TInt z => Some z | TOther => None end.

Definition targets_to_list (nsub N : nat) (ts : tspec) : result (list Z) :=
  let l := match ts with
           | TsNone => map (fun i => TInt (Z.of_nat i)) (seq 0 nsub)
           | TsScalar t => [t]
           | TsList l => l
           end in
  match map_opt tgt_int l with
  | None => Error TypeError
  | Some zs =>
      if negb (Nat.eqb (length zs) nsub) then Error CountError
      else if negb (forallb (fun t => (t <? Z.of_nat N)%Z) zs) then Error RangeError
      else Ok zs
  end.

(* ---- _check_oper_dims -------------------------------------------------------------------- *)
Definition check_oper_dims (orow ocol dims : list nat) (zs : list Z) : result unit :=
  if negb (list_eqb orow ocol) then Error NotSquare
  else match map_opt (py_get dims) zs with
       | None => Error IndexError
       | Some td => if list_eqb orow td then Ok tt else Error DimsMismatch
       end.

(* ---- the order computation ---------------------------------------------------------------- *)
(* for i, t in enumerate(targets): new_order[t] = i *)
Fixpoint assign_targets (order : list nat) (i : nat) (zs : list Z) : result (list nat) :=
  match zs with
  | [] => Ok order
  | t :: r => match py_index (length order) t with
              | None => Error IndexError
              | Some p => assign_targets (set_nth order p i) (S i) r
              end
  end.

(* [q for q in range(N) if q not in targets] *)
Definition rest_pos (N : nat) (zs : list Z) : list nat :=
  filter (fun q => negb (zmem (Z.of_nat q) zs)) (seq 0 N).

(* list(range(len(targets), N)) *)
Definition rest_qubits (k N : nat) : list nat := seq k (N - k).

(* for i, ind in enumerate(rest_pos): new_order[ind] = rest_qubits[i] *)
Fixpoint assign_rest (order : list nat) (i : nat) (rp rq : list nat) : result (list nat) :=
  match rp with
  | [] => Ok order
  | ind :: r => match nth_error rq i with
                | None => Error IndexError
                | Some v => if ind <? length order
                            then assign_rest (set_nth order ind v) (S i) r rq
                            else Error IndexError
                end
  end.

Definition new_order (N : nat) (zs : list Z) : result (list nat) :=
  bind (assign_targets (repeat 0 N) 0 zs) (fun o =>
  assign_rest o 0 (rest_pos N zs) (rest_qubits (length zs) N)).

(* Qobj.permute's validity test of `order` against the number of subsystems *)
Definition perm_valid (order : list nat) (n : nat) : bool :=
  Nat.eqb (length order) n && forallb (fun v => v <? n) order && nodupb order.

(* everything the call computes before touching matrix data *)
Record plan : Type := mkPlan {
  p_k : nat;              (* number of subsystems of the operator *)
  p_order : list nat;     (* new_order *)
  p_tdims : list nat;     (* dims of tensor([oper] + id_list) *)
  p_rdims : list nat      (* dims of the result *)
}.

Definition expand_plan (dims orow ocol : list nat) (ts : tspec) : result plan :=
  let N := length dims in
  bind (targets_to_list (length orow) N ts) (fun zs =>
  bind (check_oper_dims orow ocol dims zs) (fun _ =>
  bind (new_order N zs) (fun order =>
  match map_opt (nth_error dims) (rest_pos N zs) with      (* identity(dims[i]) for i in rest_pos *)
  | None => Error IndexError
  | Some iddims =>
      let tdims := orow ++ iddims in
      if perm_valid order (length tdims) then
        match map_opt (nth_error tdims) order with           (* [structure[x] for x in order] *)
        | None => Error PermuteError
        | Some rdims => Ok (mkPlan (length orow) order tdims rdims)
        end
      else Error PermuteError
  end))).

(* ---- matrix entries ------------------------------------------------------------------------ *)
Fixpoint index_of (j : nat) (l : list nat) : option nat :=
  match l with
  | [] => None
  | a :: r => if Nat.eqb a j then Some 0
              else match index_of j r with Some i => Some (S i) | None => None end
  end.

(* digits of the permuted object's basis label x, seen as a label of the un-permuted tensor:
   old subsystem j sits at the new position a with order[a] = j *)
Definition unpermute (order x : list nat) : option (list nat) :=
  if Nat.eqb (length x) (length order) then
    map_opt (fun j => match index_of j order with
                      | Some a => nth_error x a
                      | None => None
                      end) (seq 0 (length order))
  else None.

(* entry (X,Y) of tensor([oper] + identities): oper's entry on the first k digits times deltas *)
Definition tensor_elem (k : nat) (X Y : list nat) : option (list nat * list nat) :=
  if list_eqb (skipn k X) (skipn k Y) then Some (firstn k X, firstn k Y) else None.

Definition elem_of (k : nat) (oX oY : option (list nat)) : result (option (list nat * list nat)) :=
  match oX, oY with
  | Some X, Some Y => Ok (tensor_elem k X Y)
  | _, _ => Error BadBasisLabel
  end.

Definition plan_elem (p : plan) (x y : list nat) : result (option (list nat * list nat)) :=
  elem_of (p_k p) (unpermute (p_order p) x) (unpermute (p_order p) y).

(* THE model: entry (x,y) of expand_operator(oper, dims=dims, targets=ts) is
     Ok (Some (r,c))  the operator's entry (r,c)
     Ok None          zero
     Error e          the call raises (or x / y is not a label of the result: BadBasisLabel) *)
Definition expand_elem (dims orow ocol : list nat) (ts : tspec) (x y : list nat)
  : result (option (list nat * list nat)) :=
  bind (expand_plan dims orow ocol ts) (fun p => plan_elem p x y).

Definition expand_entry {A} (zero : A) (op : list nat -> list nat -> A)
           (dims orow ocol : list nat) (ts : tspec) (x y : list nat) : result A :=
  match expand_elem dims orow ocol ts x y with
  | Ok (Some (r, c)) => Ok (op r c)
  | Ok None => Ok zero
  | Error e => Error e
  end.

(* dims of the returned Qobj *)
Definition expand_dims (dims orow ocol : list nat) (ts : tspec) : result (list nat) :=
  bind (expand_plan dims orow ocol ts) (fun p => Ok (p_rdims p)).

Definition expand_order (dims orow ocol : list nat) (ts : tspec) : result (list nat) :=
  bind (expand_plan dims orow ocol ts) (fun p => Ok (p_order p)).

(* ---- whole-table evaluation used by the correspondence run ---------------------------------- *)
(* all digit lists of a dimension vector, in row-major (first subsystem most significant) order *)
Fixpoint all_digits (dims : list nat) : list (list nat) :=
  match dims with
  | [] => [[]]
  | d :: r => flat_map (fun a => map (cons a) (all_digits r)) (seq 0 d)
  end.

(* every entry of the result that is not (Ok None), as (x, y, entry); row-major order *)
Definition expand_table (dims orow ocol : list nat) (ts : tspec)
  : result (list nat * list (list nat * list nat * result (option (list nat * list nat)))) :=
  bind (expand_plan dims orow ocol ts) (fun p =>
  let labels := all_digits (p_rdims p) in
  Ok (p_rdims p,
      flat_map (fun x => flat_map (fun y =>
                 match plan_elem p x y with
                 | Ok None => []
                 | e => [(x, y, e)]
                 end) labels) labels)).

(* ---- flat numeric encodings of the same values (keeps the correspondence output small) -------- *)
Definition flatZ (dims digits : list nat) : Z :=
  fold_left (fun acc dn => (acc * Z.of_nat (snd dn) + Z.of_nat (fst dn))%Z) (combine digits dims) 0%Z.

Definition prodZ (dims : list nat) : Z := fold_left (fun acc n => (acc * Z.of_nat n)%Z) dims 1%Z.

(* 0 = zero entry, 1 + r*C + c = operator entry (r,c) (flat, row-major), -1 = error *)
Definition code_elem (orow ocol : list nat) (e : result (option (list nat * list nat))) : Z :=
  match e with
  | Ok (Some (r, c)) => (1 + flatZ orow r * prodZ ocol + flatZ ocol c)%Z
  | Ok None => 0%Z
  | Error _ => (-1)%Z
  end.

(* Coq prints (and parses) only about 2000-3000 numerals per second, so big tables are returned as
   a digest: two independent polynomial hashes modulo the Mersenne prime 2^61 - 1 over the row-major
   sequence of cells.  The harness computes the same digest from the implementation's matrix and
   asks for the full table (limit = 0 means no limit) when they differ. *)
Definition M61 : Z := 2305843009213693951%Z.   (* 2^61 - 1 *)

(* partial reduction modulo 2^61 - 1 (Z.modulo is far too slow under vm_compute to use per cell) *)
Definition red61 (y : Z) : Z :=
  let y1 := (Z.land y M61 + Z.shiftr y 61)%Z in (Z.land y1 M61 + Z.shiftr y1 61)%Z.

(* h := h * B + c + 1  (mod 2^61 - 1)  with B = 2^31 + 1 resp. 2^37 + 2^11 + 1 *)
Definition hash_cells1 (l : list Z) : Z :=
  (fold_left (fun h c => red61 (Z.shiftl h 31 + h + c + 1)%Z) l 0%Z mod M61)%Z.
Definition hash_cells2 (l : list Z) : Z :=
  (fold_left (fun h c => red61 (Z.shiftl h 37 + Z.shiftl h 11 + h + c + 1)%Z) l 0%Z mod M61)%Z.

(* [1] if the call is rejected, else 0 :: N :: result dims ++ #cells :: body, one cell per entry (x,y)
   that is not zero, in row-major order:  (x*D + y) * (R*C + 1) + code  with code = 1 + r*C + c, or
   code = 0 when the model cannot evaluate the entry.
   body = the cells if limit = 0 or #cells <= limit, else [hash_cells1 cells; hash_cells2 cells] *)
Definition expand_table_z (limit : nat) (dims orow ocol : list nat) (ts : tspec) : list Z :=
  match expand_plan dims orow ocol ts with
  | Error _ => [1%Z]
  | Ok p =>
      let rd := p_rdims p in
      let D := prodZ rd in
      let M := (prodZ orow * prodZ ocol + 1)%Z in
      (* (flat index, unpermuted label) of every basis label; plan_elem p x y is by definition
         elem_of (p_k p) (unpermute (p_order p) x) (unpermute (p_order p) y) *)
      let labels := map (fun x => (flatZ rd x, unpermute (p_order p) x)) (all_digits rd) in
      let cells :=
        flat_map (fun ix => flat_map (fun iy =>
                  let pos := (fst ix * D + fst iy)%Z in
                  match code_elem orow ocol (elem_of (p_k p) (snd ix) (snd iy)) with
                  | Z0 => []
                  | Zpos c => [(pos * M + Zpos c)%Z]
                  | Zneg _ => [(pos * M)%Z]
                  end) labels) labels in
      0%Z :: Z.of_nat (length rd) :: map Z.of_nat rd ++ Z.of_nat (length cells) ::
      (if (Nat.eqb limit 0 || (length cells <=? limit))%bool then cells
       else [hash_cells1 cells; hash_cells2 cells])
  end.

(* same header, then the code of each queried entry *)
Definition expand_pairs_z (dims orow ocol : list nat) (ts : tspec) (pairs : list (list nat * list nat)) : list Z :=
  match expand_dims dims orow ocol ts with
  | Error _ => [1%Z]
  | Ok rd => 0%Z :: Z.of_nat (length rd) :: map Z.of_nat rd ++
             map (fun xy => code_elem orow ocol (expand_elem dims orow ocol ts (fst xy) (snd xy))) pairs
  end.
