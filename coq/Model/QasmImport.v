(* Executable model of the OpenQASM importer of qasm.py (read_qasm after tokenisation):
   QasmProcessor._initialize_pass, _regs_processor, _gate_add, _custom_gate, _add_predefined_gates/_add_qiskit_gates,
   _final_pass.  Input: the abstract syntax of Spec/Qasm.v (the harness prints it one statement per line and runs the
   real read_qasm on the text; the tokenizer/regexes are not modelled).  Output: the operations added to the
   QubitCircuit.  None = an exception is raised (the program is rejected).  Definitions only.

   The tables [signatures], [builtin_names], [qiskit_names], [shortcuts] are regenerated from qasm.py on every run
   (Gen/Qasm.v).  The model describes the tree with the proposed fixes C04-* applied; the behaviour of the unchanged
   code that the fixes remove is kept at the end ("as in the unchanged code") for the refutation lemmas. *)
From QV Require Export Spec.Qasm.
From QV Require Import Gen.Qasm.
Local Open Scope string_scope.
Local Open Scope nat_scope.
Local Open Scope list_scope.

(* a gate of the resulting circuit: Gate(name, targets, controls (empty = None), arg_value) *)
Record igate (A : VAlg) := mkIG { ig_name : string; ig_targets : list nat; ig_controls : list nat; ig_args : list A }.
Arguments mkIG {A}. Arguments ig_name {A}. Arguments ig_targets {A}. Arguments ig_controls {A}. Arguments ig_args {A}.
(* one gate statement instance: classical control (classical_controls, classical_control_value);
   user = None: [gs] are the library gates added for a predefined gate (global qubits);
   user = Some ts: ONE gate on targets ts whose unitary is that of the temporary circuit [gs] (local qubits 0..) *)
Inductive iop (A : VAlg) :=
| IOp (cc : option (list nat * nat)) (user : option (list nat)) (gs : list (igate A))
| IMeas (q c : nat).
Arguments IOp {A}. Arguments IMeas {A}.

Definition predefined : list string := builtin_names ++ qiskit_names.
(* QasmProcessor.__init__: every predefined gate gets a QasmGate with the arity of _PREDEFINED_GATE_SIGNATURES
   (the translator refuses a tree where a predefined name has no signature) *)
Definition sig0 : list (string * (nat * nat)) :=
  map (fun g => (g, match sassoc g signatures with Some s => s | None => (0, 0) end)) predefined.

(* _add_predefined_gates / _add_qiskit_gates *)
Definition pickn (regs : list nat) (ix : list nat) : option (list nat) := omap (fun i => nth_error regs i) ix.
Definition add_predefined {A : VAlg} (g : string) (regs : list nat) (vals : list A) : option (list (igate A)) :=
  match sassoc g shortcuts with
  | Some sc => match pickn regs (sc_targets sc), pickn regs (sc_controls sc) with
               | Some tg, Some ct => Some [mkIG (sc_native sc) tg ct (if sc_args sc then vals else [])]
               | _, _ => None end
  | None => Some []                         (* a predefined name without a branch adds nothing ("id") *)
  end.

(* ---- _initialize_pass: gate definitions ---- *)
Record idef := mkIdef { id_params : list string; id_qubits : list string; id_body : list (string * list expr * list string) }.
(* _check_expr(text, params): no power operator, no call, identifiers among pi and the parameters *)
Definition check_expr (params : list string) (e : expr) : bool := plain e && subset (ids e) ("pi" :: params).
Fixpoint init_body (Sg : list (string * (nat * nat))) (params qubits : list string) (b : list bstmt)
  : option (list (string * list expr * list string)) :=
  match b with
  | [] => Some []
  | BCall h args hq :: b' =>
      match sassoc h Sg with
      | Some (np, nq) =>
          if (length args =? np) && (length hq =? nq) && snodup hq && subset hq qubits && forallb (check_expr params) args
          then match init_body Sg params qubits b' with Some r => Some ((h, args, hq) :: r) | None => None end
          else None
      | None => None                          (* "... is not a valid QASM command" *)
      end
  | BBarrier _ :: b' => init_body Sg params qubits b'
  end.
(* returns gate_names with arities (newest first) and the definitions (newest first) *)
Fixpoint init_gates (Sg : list (string * (nat * nat))) (G : list (string * idef)) (items : list gitem)
  : option (list (string * (nat * nat)) * list (string * idef)) :=
  match items with
  | [] => Some (Sg, G)
  | GOpaque _ _ _ :: _ => None                (* "opaque is not a valid QASM command" (raised in the final pass) *)
  | GDef n d :: items' =>
      match init_body Sg (gd_params d) (gd_qubits d) (gd_body d) with
      | Some body =>                          (* a body without gate applications is the identity *) init_gates ((n, (length (gd_params d), length (gd_qubits d))) :: Sg)
                                ((n, mkIdef (gd_params d) (gd_qubits d) body) :: G) items'
      | None => None
      end
  end.

(* ---- _custom_gate: the temporary circuit of a user gate on local qubits ---- *)
Section Custom.
Variable A : VAlg.
Fixpoint custom (G : list (string * idef)) (g : string) (vals : list A) (regs : list nat) {struct G} : option (list (igate A)) :=
  if smem g predefined then add_predefined g regs vals
  else
    match G with
    | [] => None
    | (g', d) :: G' =>
      if String.eqb g g' then
        if (length vals =? length (id_params d)) && (length regs =? length (id_qubits d)) then
          let args_map := combine (id_params d) vals in
          let regs_map := combine (id_qubits d) regs in
          (fix body (b : list (string * list expr * list string)) : option (list (igate A)) :=
             match b with
             | [] => Some []
             | (h, args, hq) :: b' =>
                 (* whole-identifier substitution of values, then _eval_expr; qubit names -> indices *)
                 match omap (eval A args_map) args, omap (fun x => sassoc x regs_map) hq with
                 | Some vs, Some hqs =>
                     match custom G' h vs hqs, body b' with
                     | Some l, Some rest => Some (l ++ rest)
                     | _, _ => None end
                 | _, _ => None end
             end) (id_body d)
        else None
      else custom G' g vals regs
    end.
End Custom.

(* ---- _regs_processor(regs, "gate") ---- *)
Inductive ireg := IBit (b : nat) | IAll (bs : list nat).
Definition ireg1 (L : list (string * (nat * nat))) (a : qarg) : option ireg :=
  match a with
  | AIdx r i => match sassoc r L with
                | Some (off, n) => if i <? n then Some (IBit (off + i)) else None     (* "qubit index out of bounds" *)
                | None => None end                                                     (* KeyError *)
  | AReg r => match sassoc r L with Some (off, n) => Some (IAll (seq off n)) | None => None end
  end.
(* sizes of the whole-register arguments, in order *)
Fixpoint whole_sizes (l : list ireg) : list nat :=
  match l with [] => [] | IBit _ :: l' => whole_sizes l' | IAll bs :: l' => length bs :: whole_sizes l' end.
Definition all_eq (n : nat) (l : list nat) : bool := forallb (Nat.eqb n) l.
(* zip over [x if list else [x] times expand] : the j-th tuple takes element j of every whole register *)
Definition ielem (j : nat) (a : ireg) : option nat := match a with IBit b => Some b | IAll bs => nth_error bs j end.
Definition regs_gate (check_sizes : bool) (L : list (string * (nat * nat))) (qs : list qarg) : option (list (list nat)) :=
  match omap (ireg1 L) qs with
  | None => None
  | Some rs =>
      match whole_sizes rs with
      | [] => match omap (ielem 0) rs with Some t => Some [t] | None => None end      (* [new_regs] *)
      | n :: ns =>
          if check_sizes && negb (all_eq n ns) then None                (* "registers of different sizes" *)
          else
            let e := last (n :: ns) 0 in                                (* expand = size of the last whole register *)
            if e =? 0 then (if check_sizes then None else Some [])      (* [new_regs] holds a list: TypeError in _gate_add *)
            else omap (fun j => omap (ielem j) rs) (seq 0 (fold_right Nat.min e (n :: ns)))   (* zip stops at the shortest *)
      end
  end.

Section Final.
Variable A : VAlg.

(* to_bits_lsb n k = the n lowest bits of k, lowest first; from_bits_msb reads a list with the first bit highest *)
Fixpoint to_bits_lsb (n k : nat) : list bool := match n with 0 => [] | S n' => Nat.odd k :: to_bits_lsb n' (k / 2) end.
Fixpoint from_bits_msb (acc : nat) (l : list bool) : nat :=
  match l with [] => acc | b :: l' => from_bits_msb (2 * acc + (if b then 1 else 0)) l' end.
(* int(format(k, "0nb")[::-1], 2) for k < 2^n *)
Definition bitrev (n k : nat) : nat := from_bits_msb 0 (to_bits_lsb n k).

(* _gate_add *)
Definition gate_add (Sg : list (string * (nat * nat))) (G : list (string * idef)) (QL : list (string * (nat * nat)))
           (cc : option (list nat * nat)) (g : string) (args : list expr) (qs : list qarg) : option (list (iop A)) :=
  match sassoc g Sg with
  | None => None                                                         (* not a valid QASM command *)
  | Some (np, nq) =>
      match regs_gate true QL qs with
      | None => None
      | Some reg_set =>
          if (length args =? np) && forallb (fun regs => (length regs =? nq) && nnodup regs) reg_set then
            match omap (eval A []) args with                             (* _eval_expr of every parameter *)
            | None => None
            | Some vals =>
                if smem g predefined then
                  omap (fun regs => match add_predefined g regs vals with Some gs => Some (IOp cc None gs) | None => None end) reg_set
                else
                  match custom A G g vals (seq 0 nq) with
                  | Some gs => Some (map (fun regs => IOp cc (Some regs) gs) reg_set)
                  | None => None end
            end
          else None
      end
  end.

Definition final_op (Sg : list (string * (nat * nat))) (G : list (string * idef)) (QL CL : list (string * (nat * nat)))
           (o : op) : option (list (iop A)) :=
  match o with
  | OApp g args qs => gate_add Sg G QL None g args qs
  | OIf c k g args qs =>
      match sassoc c CL with
      | None => None
      | Some (off, n) =>
          if 2 ^ n <=? k then                                            (* never true: checked, nothing added *)
            match gate_add Sg G QL None g args qs with Some _ => Some [] | None => None end
          else gate_add Sg G QL (Some (seq off n, bitrev n k)) g args qs
      end
  | OMeasure q c =>
      match q, c with
      | AIdx qr i, AIdx cr j =>
          match sassoc qr QL, sassoc cr CL with
          | Some (qo, qn), Some (co, cn) => if (i <? qn) && (j <? cn) then Some [IMeas (qo + i) (co + j)] else None
          | _, _ => None end
      | AReg qr, AReg cr =>
          match sassoc qr QL, sassoc cr CL with
          | Some (qo, qn), Some (co, cn) =>
              if qn =? cn then Some (map (fun p => IMeas (fst p) (snd p)) (combine (seq qo qn) (seq co cn))) else None
          | _, _ => None end
      | _, _ => None                                                     (* KeyError 'q[0]' *)
      end
  | OBarrier qs => match regs_gate false QL qs with Some _ => Some [] | None => None end
  | OReset _ => None                                                     (* raised by _initialize_pass *)
  end.

Fixpoint final_ops (Sg : list (string * (nat * nat))) (G : list (string * idef)) (QL CL : list (string * (nat * nat)))
         (os : list op) : option (list (iop A)) :=
  match os with
  | [] => Some []
  | o :: os' => match final_op Sg G QL CL o, final_ops Sg G QL CL os' with Some a, Some b => Some (a ++ b) | _, _ => None end
  end.

Definition has_reset (os : list op) : bool := existsb (fun o => match o with OReset _ => true | _ => false end) os.

(* read_qasm: (N, num_cbits, operations) *)
Definition import_prog (p : prog) : option (nat * nat * list (iop A)) :=
  if has_reset (p_ops p) then None else
  match init_gates sig0 [] (p_gates p) with
  | None => None
  | Some (Sg, G) =>
      match final_ops Sg G (layout 0 (p_qregs p)) (layout 0 (p_cregs p)) (p_ops p) with
      | Some l => Some (total (p_qregs p), total (p_cregs p), l)
      | None => None end
  end.
End Final.

(* ================= the simulator's reading of a classical control (documented in Gate: the first listed classical
   control is the highest bit of classical_control_value) ================= *)
Fixpoint msb_bits (n v : nat) : list bool :=        (* _decimal_to_binary(v, n) for v < 2^n *)
  match n with 0 => [] | S n' => Nat.odd (v / 2 ^ n') :: msb_bits n' v end.
Fixpoint match_bits (cb : nat -> bool) (cs : list nat) (bits : list bool) : bool :=
  match cs, bits with
  | c :: cs', b :: bits' => Bool.eqb (cb c) b && match_bits cb cs' bits'
  | _, _ => true
  end.
Definition cc_fires (cb : nat -> bool) (cc : list nat * nat) : bool := match_bits cb (fst cc) (msb_bits (length (fst cc)) (snd cc)).
(* the standard's reading: the register is the integer sum c[i] 2^i *)
Fixpoint reg_value (cb : nat -> bool) (cs : list nat) : nat :=
  match cs with [] => 0 | c :: cs' => (if cb c then 1 else 0) + 2 * reg_value cb cs' end.
Definition cond_fires (cb : nat -> bool) (cond : list nat * nat) : bool := reg_value cb (fst cond) =? snd cond.

(* ================= as in the unchanged code (removed by the proposed fixes) ================= *)
(* if(c==k): the value is passed on unchanged *)
Definition if_value_unfixed (n k : nat) : nat := k.
(* Python str.replace(old, new) for non-empty old: leftmost non-overlapping occurrences *)
Fixpoint prefixb (p s : string) : option string :=     (* Some rest if s = p ++ rest *)
  match p, s with
  | EmptyString, _ => Some s
  | String a p', String b s' => if Ascii.eqb a b then prefixb p' s' else None
  | _, _ => None
  end.
Fixpoint py_replace_fuel (fuel : nat) (old new s : string) : string :=
  match fuel with
  | 0 => s
  | S f =>
      match s with
      | EmptyString => EmptyString
      | String c s' => match prefixb old s with
                       | Some rest => new ++ py_replace_fuel f old new rest
                       | None => String c (py_replace_fuel f old new s') end
      end
  end.
Definition py_replace (old new s : string) : string :=
  match old with EmptyString => s | _ => py_replace_fuel (S (String.length s)) old new s end.
(* str(n) and int(s) for decimal digit strings *)
Definition digit (d : nat) : string := String (Ascii.ascii_of_nat (48 + d)) EmptyString.
Fixpoint dec_fuel (fuel n : nat) : string :=
  match fuel with 0 => "" | S f => if n <? 10 then digit n else dec_fuel f (n / 10) ++ digit (n mod 10) end.
Definition str_nat (n : nat) : string := dec_fuel (S n) n.
Fixpoint int_digits (acc : nat) (s : string) : option nat :=
  match s with
  | EmptyString => Some acc
  | String c s' => let k := Ascii.nat_of_ascii c in
                   if (48 <=? k) && (k <=? 57) then int_digits (10 * acc + (k - 48)) s' else None
  end.
Definition py_int (s : string) : option nat := match s with EmptyString => None | _ => int_digits 0 s end.
(* _custom_gate, register names: for reg, real_reg in regs_map.items(): com_regs = [c.replace(reg, str(real_reg))]; int(..) *)
Definition subst_regs_unfixed (regs_map : list (string * nat)) (hq : list string) : option (list nat) :=
  omap py_int (fold_left (fun com_regs p => map (py_replace (fst p) (str_nat (snd p))) com_regs) regs_map hq).
(* the same with whole-identifier substitution (what the standard means) *)
Definition subst_regs_word (regs_map : list (string * nat)) (hq : list string) : option (list nat) :=
  omap (fun x => sassoc x regs_map) hq.
(* no formal qubit name occurs inside another name of the body / of the formals *)
Fixpoint occurs_fuel (fuel : nat) (p s : string) : bool :=
  match fuel with
  | 0 => false
  | S f => match prefixb p s with
           | Some _ => true
           | None => match s with EmptyString => false | String _ s' => occurs_fuel f p s' end end
  end.
Definition occurs (p s : string) : bool := match p with EmptyString => false | _ => occurs_fuel (S (String.length s)) p s end.
Definition capture_free (formals : list string) (names : list string) : bool :=
  forallb (fun f => forallb (fun x => String.eqb f x || negb (occurs f x)) names) formals.
(* _regs_processor, unchanged code: an out-of-range index leaves the variable `qubit` as it was (the previous
   argument of the same statement, or unbound = UnboundLocalError for the first argument) *)
Fixpoint regs_stale (L : list (string * (nat * nat))) (prev : option nat) (qs : list qarg) : option (list nat) :=
  match qs with
  | [] => Some []
  | AIdx r i :: qs' =>
      match sassoc r L with
      | Some (off, n) =>
          let cur := if i <? n then Some (off + i) else prev in
          match cur, regs_stale L cur qs' with Some b, Some rest => Some (b :: rest) | _, _ => None end
      | None => None end
  | AReg _ :: _ => None      (* not needed for the witness *)
  end.
