(* C14 -- executable model (exact rationals) of the grid-merge / resampling logic of
     qutip_qip/device/processor.py : Processor.get_full_tlist, _is_pulses_valid, get_full_coeffs,
                                     the slice loop of run_analytically, save_coeff/read_coeff bookkeeping
     qutip_qip/pulse.py            : _fill_coeff (step branch)
   Definitions only.  Floats are modelled as exact rationals (the harness only feeds dyadic inputs on
   which every float operation of the code is exact); `tol` is the exact rational value of the double
   1e-10.  Any Python exception = None.
   The model describes the tree WITH fixes/C14-step-last-sample.diff, fixes/C14-read-coeff.diff and
   fixes/C14-fill-coeff-repeated-points.diff applied, and with the `tlist is None` guard that
   fixes/C06-empty-pulse-table.diff adds to run_analytically (`run_slices_v2` = without it).  Kept for the `_refuted` witnesses:
   `_v0` = the code as first found (last sample not zeroed, one-step advance),
   `_v1` = last sample zeroed but still the one-step advance (`if` instead of `while`). *)
From Coq Require Import String Ascii.
From Coq Require Import List QArith Bool Arith.
Import ListNotations.
Open Scope Q_scope.

Definition Qltb (a b : Q) : bool := negb (Qle_bool b a).

Fixpoint mapM {A B : Type} (f : A -> option B) (l : list A) : option (list B) :=
  match l with
  | [] => Some []
  | x :: l' => match f x, mapM f l' with
               | Some y, Some r => Some (y :: r)
               | _, _ => None
               end
  end.

(* ---------------------------------------------------------------------------------------- *)
(* pulses as the processor stores them                                                       *)

Inductive coeffk := CNone | CBool (b : bool) | CArr (cf : list Q).
Record pulse := mkPulse { ptl : option (list Q); pco : coeffk }.

(* ---------------------------------------------------------------------------------------- *)
(* Processor.get_full_tlist:  np.unique(np.sort(np.hstack(tlists))) then tolerance filter     *)

Fixpoint qinsert (x : Q) (l : list Q) : list Q :=
  match l with
  | [] => [x]
  | y :: l' => if Qle_bool x y then x :: l else y :: qinsert x l'
  end.
Definition qsort (l : list Q) : list Q := fold_right qinsert [] l.

(* np.unique of a sorted array: one representative of each run of equal values *)
Fixpoint uniq_sorted (l : list Q) : list Q :=
  match l with
  | [] => []
  | x :: l' => match l' with
               | [] => [x]
               | y :: _ => if Qeq_bool x y then uniq_sorted l' else x :: uniq_sorted l'
               end
  end.

(* full[1:][np.diff(full) > tol] : element k survives iff its distance to the previous UNIQUE
   element (kept or not) exceeds tol *)
Fixpoint tol_filter (tol prev : Q) (l : list Q) : list Q :=
  match l with
  | [] => []
  | y :: l' => if Qltb tol (y - prev) then y :: tol_filter tol y l' else tol_filter tol y l'
  end.
Definition dedup (tol : Q) (l : list Q) : list Q :=
  match l with [] => [] | x :: l' => x :: tol_filter tol x l' end.

Fixpoint all_tlists (ps : list pulse) : list (list Q) :=
  match ps with
  | [] => []
  | p :: ps' => match ptl p with Some tl => tl :: all_tlists ps' | None => all_tlists ps' end
  end.

Definition get_full_tlist (tol : Q) (ps : list pulse) : option (list Q) :=
  match all_tlists ps with
  | [] => None                                  (* `if not full_tlist: return None` *)
  | tls => Some (dedup tol (uniq_sorted (qsort (List.concat tls))))
  end.

(* ---------------------------------------------------------------------------------------- *)
(* pulse._fill_coeff, step branch                                                            *)

Definition last_opt (l : list Q) : option Q := nth_error l (length l - 1).   (* l[-1] *)

(* the loop AS FIRST WRITTEN (v0/v1): old_ind advances by at most one slot per merged grid point *)
Fixpoint fill_loop_v1 (tol first last : Q) (ot oc : list Q) (full : list Q) (old_ind : nat)
  : option (list Q) :=
  match full with
  | [] => Some []
  | t :: rest =>
      if Qltb tol (first - t) then option_map (cons 0) (fill_loop_v1 tol first last ot oc rest old_ind)
      else if Qltb tol (t - last) then option_map (cons 0) (fill_loop_v1 tol first last ot oc rest old_ind)
      else match nth_error ot (S old_ind) with
           | None => None                                            (* IndexError *)
           | Some nx =>
               let oi := if Qle_bool nx (t + tol) then S old_ind else old_ind in
               match nth_error oc oi with
               | None => None
               | Some c => option_map (cons c) (fill_loop_v1 tol first last ot oc rest oi)
               end
           end
  end.

(* while old_ind + 1 < len(old_tlist) and old_tlist[old_ind + 1] <= t + tol: old_ind += 1
   `nxt` is old_tlist[old_ind+1:], i the current old_ind *)
Fixpoint advance (nxt : list Q) (bound : Q) (i : nat) : nat :=
  match nxt with
  | [] => i
  | nx :: nxt' => if Qle_bool nx bound then advance nxt' bound (S i) else i
  end.

(* the loop of the repaired code; old_ind is the running index into old_tlist / old_coeffs *)
Fixpoint fill_loop (tol first last : Q) (ot oc : list Q) (full : list Q) (old_ind : nat)
  : option (list Q) :=
  match full with
  | [] => Some []
  | t :: rest =>
      if Qltb tol (first - t) then option_map (cons 0) (fill_loop tol first last ot oc rest old_ind)
      else if Qltb tol (t - last) then option_map (cons 0) (fill_loop tol first last ot oc rest old_ind)
      else let oi := advance (skipn (S old_ind) ot) (t + tol) old_ind in
           match nth_error oc oi with
           | None => None                                            (* IndexError *)
           | Some c => option_map (cons c) (fill_loop tol first last ot oc rest oi)
           end
  end.

(* coefficient padding at the head of _fill_coeff:
     if len(c) == len(t)-1: c = c ++ [0]   elif len(c) == len(t): c = c[:-1] ++ [0] *)
Definition pad_coeff (cf tl : list Q) : list Q :=
  if (length cf + 1 =? length tl)%nat then cf ++ [0]
  else if (length cf =? length tl)%nat then removelast cf ++ [0]
  else cf.
(* code as first found: only the first branch *)
Definition pad_coeff_v0 (cf tl : list Q) : list Q :=
  if (length cf + 1 =? length tl)%nat then cf ++ [0] else cf.

Definition fill_gen (loop : Q -> Q -> Q -> list Q -> list Q -> list Q -> nat -> option (list Q))
           (pad : list Q -> list Q -> list Q) (tol : Q) (cf tl full : list Q)
  : option (list Q) :=
  match full with
  | [] => Some []
  | _ => match nth_error tl 0, last_opt tl with
         | Some first, Some last => loop tol first last tl (pad cf tl) full 0%nat
         | _, _ => None
         end
  end.
Definition fill_with := fill_gen fill_loop.
Definition fill_with_v1 := fill_gen fill_loop_v1.
Definition fill_coeff := fill_with pad_coeff.
Definition fill_coeff_v1 := fill_with_v1 pad_coeff.
Definition fill_coeff_v0 := fill_with_v1 pad_coeff_v0.

(* ---------------------------------------------------------------------------------------- *)
(* Processor._is_pulses_valid (step_func) and get_full_coeffs                                 *)

Definition pulse_valid (p : pulse) : bool :=
  match pco p with
  | CArr cf => match ptl p with
               | None => false
               | Some tl => (length cf + 1 =? length tl)%nat || (length cf =? length tl)%nat
               end
  | _ => true
  end.

Definition row_with (fill : Q -> list Q -> list Q -> list Q -> option (list Q))
           (tol : Q) (full : list Q) (p : pulse) : option (list Q) :=
  match pco p, ptl p with
  | CNone, None => Some (repeat 0 (length full))
  | CNone, Some _ => None                         (* ValueError: only ndarray or bool *)
  | CBool b, _ => Some (repeat (if b then 1 else 0) (length full))
  | CArr cf, Some tl => fill tol cf tl full
  | CArr _, None => None
  end.

(* None also for the empty processor, where the code returns the degenerate np.array((0,0)) *)
Definition full_coeffs_with fill (tol : Q) (ps : list pulse) : option (list (list Q)) :=
  if forallb pulse_valid ps then
    match ps with
    | [] => None
    | _ => match get_full_tlist tol ps with
           | None => None                          (* len(None) : TypeError *)
           | Some full => mapM (row_with fill tol full) ps
           end
    end
  else None.
Definition get_full_coeffs := full_coeffs_with fill_coeff.
Definition get_full_coeffs_v1 := full_coeffs_with fill_coeff_v1.
Definition get_full_coeffs_v0 := full_coeffs_with fill_coeff_v0.

(* ---------------------------------------------------------------------------------------- *)
(* run_analytically: for n in range(len(tlist)-1): H = H_drift + sum_m coeffs[m,n] H_m ;
   dt = tlist[n+1]-tlist[n] ; U_n = expm(-i H dt).  The model returns, in loop order, the pairs
   (dt_n, [coeffs[0,n]; ...; coeffs[M-1,n]]) that get exponentiated. *)

Fixpoint slices (full : list Q) (rows : list (list Q)) : option (list (Q * list Q)) :=
  match full with
  | [] => Some []
  | t1 :: rest =>
      match rest with
      | [] => Some []
      | t2 :: _ =>
          match mapM (@hd_error Q) rows, slices rest (map (@tl Q) rows) with
          | Some cs, Some r => Some ((t2 - t1, cs) :: r)
          | _, _ => None
          end
      end
  end.

(* body of run_analytically before fixes/C06-empty-pulse-table.diff: len(None) raises when no pulse has a grid *)
Definition run_slices_strict_with fill (tol : Q) (ps : list pulse) : option (list (Q * list Q)) :=
  match get_full_tlist tol ps, full_coeffs_with fill tol ps with
  | Some full, Some rows => slices full rows
  | _, _ => None
  end.
(* with that diff: `if tlist is None: tlist = []`.  get_full_coeffs is still called: it raises (len(None)) for
   every non-empty pulse list without a grid, and returns its degenerate value, which is then never indexed,
   for the processor without pulses -- which therefore has no time slice to propagate *)
Definition run_slices_with fill (tol : Q) (ps : list pulse) : option (list (Q * list Q)) :=
  match ps with
  | [] => Some []
  | _ => run_slices_strict_with fill tol ps
  end.
Definition run_slices := run_slices_with fill_coeff.
Definition run_slices_v2 := run_slices_strict_with fill_coeff.   (* while-loop, no `tlist is None` guard *)
Definition run_slices_v1 := run_slices_strict_with fill_coeff_v1.
Definition run_slices_v0 := run_slices_strict_with fill_coeff_v0.

(* ---------------------------------------------------------------------------------------- *)
(* save_coeff / read_coeff : header and column bookkeeping (numbers are copied, %1.16f rounding is
   external).  A file = header line (without the "# " that np.savetxt prepends and the newline) +
   the table, one list per row. *)

Definition semi : string := ";"%string.
Fixpoint join_semi (ls : list string) : string :=
  match ls with
  | [] => EmptyString
  | [l] => l
  | l :: ls' => (l ++ semi ++ join_semi ls')%string
  end.
(* str.split(";") *)
Fixpoint split_semi_aux (s acc : string) : list string :=
  match s with
  | EmptyString => [acc]
  | String c s' => if Ascii.eqb c ";"%char then acc :: split_semi_aux s' EmptyString
                   else split_semi_aux s' (acc ++ String c EmptyString)%string
  end.
Definition split_semi (s : string) : list string := split_semi_aux s EmptyString.

Fixpoint transpose (n : nat) (rows : list (list Q)) : list (list Q) :=   (* n = number of columns *)
  match n with
  | O => []
  | S n' => map (hd 0) rows :: transpose n' (map (@tl Q) rows)
  end.

(* save_coeff: header, and data[:,0]=tlist, data[:,1:]=coeffs.T *)
Definition save_file (inctime : bool) (labels : list string) (full : list Q) (rows : list (list Q))
  : string * list (list Q) :=
  let cols := if inctime then full :: rows else rows in
  let header := if inctime then (semi ++ join_semi labels)%string else join_semi labels in
  (header, transpose (length full) cols).

(* read_coeff: label_list = header.split(";") (minus the first when inctime);
   tlist = data[:,0]; coeffs = data[:,1:].T ; dict label -> coeffs[i] *)
Definition read_file (inctime : bool) (file : string * list (list Q))
  : option (option (list Q) * list (string * list Q)) :=
  let '(header, table) := file in
  let labels0 := split_semi header in
  let ncol := match table with [] => O | r :: _ => length r end in
  let cols := transpose ncol table in
  if inctime then
    match cols with
    | [] => None
    | tcol :: ccols =>
        let labels := List.tl labels0 in
        if (length labels <=? length ccols)%nat      (* coeffs[i] for every label: IndexError otherwise *)
        then Some (Some tcol, combine labels ccols) else None
    end
  else
    if (length labels0 <=? length cols)%nat then Some (None, combine labels0 cols) else None.
