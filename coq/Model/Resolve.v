(* C03: executable model of QubitCircuit.resolve_gates (circuit/circuit.py) over the rule tables of Gen/Decompose.v
   (regenerated from circuit/_decompose.py and resolve_gates on every run).  Definitions only.

   A gate is syntactic: name, targets, controls (None = []), arg_value as a list of expressions over the parameters
   Var 0.. of its SOURCE gate (None = [], scalar = [a], tuple = [a; b; ..]) and the number of the source gate whose
   parameter values it uses.  Every Python exception is [Error]. *)
From Coq Require Import List String Bool Arith.
From QV Require Import Found.Sym Found.SymProofs Model.ResolveTypes Gen.Decompose Gen.Gates.
Import ListNotations.
Local Open Scope string_scope.

Inductive result (A : Type) := Ok (a : A) | Error.
Arguments Ok {A}. Arguments Error {A}.
Definition rbind {A B} (r : result A) (f : A -> result B) : result B := match r with Ok a => f a | Error => Error end.
Fixpoint rmapM {A B} (f : A -> result B) (l : list A) : result (list B) :=
  match l with
  | [] => Ok []
  | a :: l' => rbind (f a) (fun b => rbind (rmapM f l') (fun bs => Ok (b :: bs)))
  end.
(* `for x in l: out += f(x)` *)
Definition rflat {A B} (f : A -> result (list B)) (l : list A) : result (list B) :=
  rbind (rmapM f l) (fun ls => Ok (concat ls)).

Definition mem (s : string) (l : list string) : bool := existsb (String.eqb s) l.
Fixpoint assoc {A} (k : string) (l : list (string * A)) : option A :=
  match l with [] => None | (k', v) :: l' => if String.eqb k k' then Some v else assoc k l' end.
(* Python `p in s` for two strings *)
Fixpoint prefixb (p s : string) : bool :=
  match p with
  | EmptyString => true
  | String a p' => match s with EmptyString => false | String b s' => Ascii.eqb a b && prefixb p' s' end
  end.
Fixpoint substrb (p s : string) : bool :=
  prefixb p s || match s with EmptyString => false | String _ s' => substrb p s' end.

Record mgate := MG { gname : string; gtargets : list nat; gcontrols : list nat; gargs : list ex; gsrc : nat }.

Fixpoint has_var (e : ex) : bool :=
  match e with
  | Var _ => true
  | Add a b | Sub a b | Mul a b | Div a b => has_var a || has_var b
  | Neg a | Cos a | Sin a | Exp a | Sqrt a => has_var a
  | _ => false
  end.

(* ---- building the gates a rule appends -------------------------------------------------------------------------- *)
Definition role_qubits (g : mgate) (r : qrole) : result (list nat) :=
  match r with
  | AllT => Ok (gtargets g)
  | AllC => Ok (gcontrols g)
  | TIdx i => match nth_error (gtargets g) i with Some q => Ok [q] | None => Error end     (* IndexError / None[i] *)
  | CIdx i => match nth_error (gcontrols g) i with Some q => Ok [q] | None => Error end
  end.
Definition roles_qubits (g : mgate) (rs : list qrole) : result (list nat) := rflat (role_qubits g) rs.
Definition emit_name (g : mgate) (n : nrole) : string :=
  match n with NConst s => s | NSame => gname g | NPrefix p => p ++ gname g end.
Definition emit_arg (g : mgate) (a : arole) : result (list ex) :=
  match a with
  | ANone => Ok []
  | ACopy => Ok (gargs g)
  | AExpr e => if has_var e then match gargs g with [x] => Ok [subst [x] e] | _ => Error end   (* None / 2, tuple / 2 *)
               else Ok [e]
  end.
Definition emit_gate (g : mgate) (e : emit) : result mgate :=
  match e with
  | ESame => Ok g
  | EGate n t c a =>
      rbind (roles_qubits g t) (fun ts => rbind (roles_qubits g c) (fun cs => rbind (emit_arg g a) (fun ar =>
      Ok (MG (emit_name g n) ts cs ar (gsrc g)))))
  end.
Definition apply_emits (g : mgate) (es : list emit) : result (list mgate) := rmapM (emit_gate g) es.

(* ---- basis parsing ------------------------------------------------------------------------------------------------ *)
Inductive basis_spec := BStr (s : string) | BList (l : list string).
(* what the rest of the code observes of basis_1q / basis_2q: membership questions and len(basis_1q) == 2 *)
Record cfg := Cfg { c2q : list string;    (* the valid two-qubit names that are in basis_2q, in basis_2q_valid order *)
                    crot : list string;   (* the rotation names that are in basis_1q *)
                    celim : bool }.       (* len(basis_1q) == 2 *)
Definition rot_names : list string := map fst elim_rules.
Definition mkcfg (raw1 raw2 : list string) : cfg :=
  Cfg (filter (fun n => mem n raw2) basis_2q_valid) (filter (fun n => mem n raw1) rot_names) (Nat.eqb (List.length raw1) 2).

(* structural variants of the parsing code, read off the source by the translator:
   [f_listified]: the string branch rebinds basis = [basis], so that `gate.name in basis` is list membership (true);
                  otherwise it stays a Python substring test on the string (false)
   [f_rotnorm]:   the list branch reduces basis_1q to [g for g in rot_norm_list if g in basis_1q] before counting (true),
                  so that IDLE and repeated entries are not counted as rotations *)
Record pflags := PF { f_listified : bool; f_rotnorm : bool }.
Definition parse_basis_gen (fl : pflags) (b : basis_spec) : result (cfg * (string -> bool)) :=
  match b with
  | BList l =>
      let raw2 := filter (fun g => mem g basis_2q_valid) l in
      let raw0 := filter (fun g => negb (mem g basis_2q_valid) && mem g basis_1q_valid) l in
      let raw1 := if f_rotnorm fl then filter (fun g => mem g raw0) rot_norm_list else raw0 in
      if Nat.eqb (List.length raw1) 1 then Error                                       (* ValueError *)
      else let raw1' := if Nat.eqb (List.length raw1) 0 then default_1q_list else raw1 in
           Ok (mkcfg raw1' raw2, fun n => mem n l)                         (* `gate.name in basis`, basis a list *)
  | BStr s =>
      if mem s basis_2q_valid
      then Ok (mkcfg default_1q_str [s],
               if f_listified fl then (fun n => mem n [s]) else (fun n => substrb n s))
      else Error                                                           (* ValueError *)
  end.
Definition cur_flags : pflags := PF str_basis_listified rot_normalised.
Definition parse_basis : basis_spec -> result (cfg * (string -> bool)) := parse_basis_gen cur_flags.

(* ---- stage 1: X/Y/Z substitution and _resolve_to_universal ------------------------------------------------------- *)
Definition find_rule (nm : string) : option rule :=
  match assoc nm gate_table with Some x => assoc x gate_defs | None => None end.
Definition run_rule (r : option rule) (g : mgate) : result (list mgate) :=
  match r with Some (REmit es) => apply_emits g es | _ => Error end.
Definition to_universal (c : cfg) (keep : string -> bool) (g : mgate) : result (list mgate) :=
  if mem (gname g) (c2q c) then run_rule (find_rule "basis_2q") g
  else if (gname g =? "SWAP") && mem "ISWAP" (c2q c) then run_rule (find_rule "IGNORED") g
  else match find_rule (gname g) with
       | Some r => run_rule (Some r) g
       | None => if keep (gname g) then Ok [g] else Error          (* except KeyError: kept iff gate.name in basis *)
       end.
(* -> (phase markers, the gate that is dispatched) *)
Definition pauli (g : mgate) : result (list mgate * mgate) :=
  if mem (gname g) pauli_names
  then rbind (emit_gate g pauli_marker) (fun m => rbind (emit_gate g pauli_subst) (fun g' => Ok ([m], g')))
  else Ok ([], g).
Definition stage1 (c : cfg) (keep : string -> bool) (g : mgate) : result (list mgate * list mgate) :=
  rbind (pauli g) (fun p => rbind (to_universal c keep (snd p)) (fun gs => Ok (fst p, gs))).

(* ---- stage 2: rewriting into the requested two-qubit gate -------------------------------------------------------- *)
Definition first_2q (c : cfg) : option string := find (fun u => mem u (c2q c)) basis_2q_order.
Definition pass_gate (br : list (string * list emit)) (g : mgate) : result (list mgate) :=
  match assoc (gname g) br with Some es => apply_emits g es | None => Ok [g] end.
Definition stage2 (c : cfg) (l : list mgate) : result (list mgate) :=
  match first_2q c with
  | Some u => match assoc u basis_passes with Some br => rflat (pass_gate br) l | None => Error end
  | None => Ok l
  end.

(* the same with the precedence list of the passes as a parameter (to speak about other orders than the coded one) *)
Definition first_2q_o (order : list string) (c : cfg) : option string := find (fun u => mem u (c2q c)) order.
Definition stage2_o (order : list string) (c : cfg) (l : list mgate) : result (list mgate) :=
  match first_2q_o order c with
  | Some u => match assoc u basis_passes with Some br => rflat (pass_gate br) l | None => Error end
  | None => Ok l
  end.

(* ---- stage 3: elimination of the rotation that is not in a two-rotation basis ------------------------------------ *)
Definition elim_gate (c : cfg) (g : mgate) : result (list mgate) :=
  match assoc (gname g) elim_rules with
  | Some es => if mem (gname g) (crot c) then Ok [g] else apply_emits g es
  | None => Ok [g]
  end.
Definition stage3 (c : cfg) (l : list mgate) : result (list mgate) :=
  if celim c then rflat (elim_gate c) l else Ok l.

(* ---- resolve_gates ----------------------------------------------------------------------------------------------- *)
(* [to_temp]: the Pauli phase markers are appended to temp_resolved (true) or to qc_temp.gates (false).  In the latter
   case they end up in front of the two-qubit pass output, and are LOST when no pass runs (qc_temp.gates = temp_resolved). *)
Definition resolve_gen (to_temp : bool) (fl : pflags) (order : list string) (b : basis_spec) (circ : list mgate)
  : result (list mgate) :=
  rbind (parse_basis_gen fl b) (fun ck =>
  let c := fst ck in
  rbind (rmapM (stage1 c (snd ck)) circ) (fun parts =>
  let temp := concat (map (fun p => ((if to_temp then fst p else []) ++ snd p)%list) parts) in
  let markers := if to_temp then [] else concat (map fst parts) in
  rbind (match first_2q_o order c with
         | Some _ => rbind (stage2_o order c temp) (fun q => Ok (markers ++ q)%list)
         | None => Ok temp
         end) (fun qc => stage3 c qc))).
(* the code that exists: the structural flags and the pass order are read off the source by the translator *)
Definition resolve : basis_spec -> list mgate -> result (list mgate) :=
  resolve_gen pauli_marker_to_temp cur_flags basis_2q_order.

(* circuits may also contain measurements: resolve_gates refuses them *)
Inductive op := OpGate (g : mgate) | OpMeasure.
Definition gates_of (ops : list op) : list mgate := flat_map (fun o => match o with OpGate g => [g] | OpMeasure => [] end) ops.
Definition resolve_ops (b : basis_spec) (ops : list op) : result (list mgate) :=
  if existsb (fun o => match o with OpMeasure => true | _ => false end) ops then Error else resolve b (gates_of ops).

(* what one source gate becomes when the markers travel with their gate (to_temp = true) *)
Definition resolve_gate (c : cfg) (keep : string -> bool) (g : mgate) : result (list mgate) :=
  rbind (stage1 c keep g) (fun p => rbind (stage2 c (fst p ++ snd p)%list) (stage3 c)).

(* ---- meaning of a syntactic gate: the library matrix of its name with its arguments substituted ------------------- *)
Definition class_matrix (nm : string) : option mexp :=
  match assoc nm class_map with Some c => assoc c class_mat | None => None end.
Definition gate_mexp (g : mgate) : mexp :=
  if gname g =? "GLOBALPHASE" then MLit [[Exp (Mul (Imag 1) (nth 0 (gargs g) (Num 0)))]]
  else match assoc (gname g) dispatch with
       | Some m => msubst (gargs g) m
       | None => match class_matrix (gname g) with Some m => msubst (gargs g) m | None => MLit [[Num 1]] end
       end.
Definition to_sgate (g : mgate) : sgate := (gate_mexp g, (gcontrols g ++ gtargets g)%list).

(* ---- the gate kinds the property is about: name, #controls, #targets, #parameters --------------------------------- *)
Definition kinds : list (string * (nat * nat * nat)) :=
  [("X", (0, 1, 0)); ("Y", (0, 1, 0)); ("Z", (0, 1, 0)); ("SNOT", (0, 1, 0)); ("H", (0, 1, 0)); ("SQRTNOT", (0, 1, 0));
   ("PHASEGATE", (0, 1, 1)); ("RX", (0, 1, 1)); ("RY", (0, 1, 1)); ("RZ", (0, 1, 1)); ("IDLE", (0, 1, 0));
   ("CNOT", (1, 1, 0)); ("CSIGN", (1, 1, 0)); ("SWAP", (0, 2, 0)); ("ISWAP", (0, 2, 0)); ("SQRTSWAP", (0, 2, 0));
   ("SQRTISWAP", (0, 2, 0)); ("TOFFOLI", (2, 1, 0)); ("FREDKIN", (1, 2, 0)); ("GLOBALPHASE", (0, 0, 1))]%nat.
(* the generic instance of a kind: controls 0..nc-1, targets nc..nc+nt-1, arguments Var 0..np-1 *)
Definition generic (nm : string) (k : nat * nat * nat) (src : nat) : mgate :=
  let '(nc, nt, np) := k in MG nm (seq nc nt) (seq 0 nc) (map Var (seq 0 np)) src.
Definition kqubits (k : nat * nat * nat) : nat := let '(nc, nt, _) := k in (nc + nt)%nat.

(* all observable basis configurations *)
Fixpoint sublists {A} (l : list A) : list (list A) :=
  match l with [] => [[]] | a :: l' => (map (cons a) (sublists l') ++ sublists l')%list end.
Definition all_cfgs : list cfg :=
  flat_map (fun q => flat_map (fun r => [Cfg q r true; Cfg q r false]) (sublists rot_names)) (sublists basis_2q_valid).
(* the valid choices of the property: at least one two-qubit gate and a consistent rotation part (at least two rotations,
   elimination exactly when there are two); every configuration the parser produces has a consistent rotation part
   (Proofs/ResolveSem.v parse_rot_ok), so for accepted requests this only asks for a two-qubit gate *)
Definition rot_ok (c : cfg) : bool :=
  (Nat.leb 2 (List.length (crot c))) && Bool.eqb (celim c) (Nat.eqb (List.length (crot c)) 2).
Definition valid_cfg (c : cfg) : bool := negb (Nat.eqb (List.length (c2q c)) 0) && rot_ok c.

(* output-side predicate of the property: the gate is in the requested basis or a phase / idle marker *)
Definition in_basis (c : cfg) (g : mgate) : bool :=
  mem (gname g) (c2q c) || mem (gname g) (crot c) || (gname g =? "GLOBALPHASE") || (gname g =? "IDLE").
