(* C16 -- object-granularity heap model of the sharing / mutation behaviour of the public operations of
   qutip-qip (definitions only; proofs are in Proofs/Heap*.v).

   heap  = list of objects, a location is an index, allocation appends (so "older" = smaller index);
   obj   = list of fields, a field is an abstract token (an immutable Python value: int, float, str, None = Tok 0,
           Qobj) or a reference to another object (list, Gate, QubitCircuit, Instruction, ...).
   Layouts used by the operations:
     index list / cbits list   [Tok a; Tok b; ...]
     gate / measurement        [Tok kind (0 = Measurement); targets; controls; arg_value; classical_controls; Tok (classical_store+1)]
     list of gates             [Ref g1; Ref g2; ...]
     circuit                   [Ref gates; Tok N; Tok num_cbits; Ref input_states; Ref output_states]
     instruction               [Ref gate; Tok duration; Tok graph-attributes]
   Every public operation is a heap program describing ONLY which objects it reads, writes in place, allocates
   and what its result shares, parametrised by the boolean FLAGS that tools/translate/purity_tr.py extracts from
   the current sources (Gen/Purity.v): presence and position of each defensive copy / reset.
   Service objects (simulators, compilers, processors) are records outside the caller heap.
   Values are abstract: result tokens only record which mutable service state flowed into the result. *)
From Coq Require Import List Arith Bool.
Import ListNotations.

Inductive val := Tok (n : nat) | Ref (l : nat).
Definition obj := list val.
Definition heap := list obj.

Definition FUEL := 8.   (* nesting depth bound of the modelled structures; exhaustion = error (None) *)

Fixpoint upd {A} (l : list A) (n : nat) (x : A) : list A :=
  match l, n with
  | [], _ => []
  | _ :: t, 0 => x :: t
  | a :: t, S n' => a :: upd t n' x
  end.

Definition alloc (h : heap) (o : obj) : heap * val := (h ++ [o], Ref (length h)).

Definition objof (h : heap) (v : val) : obj :=
  match v with Ref l => match nth_error h l with Some o => o | None => [] end | Tok _ => [] end.

(* attribute read; a missing attribute / non-object reads as None = Tok 0 (the operations then skip it) *)
Definition fld (h : heap) (v : val) (i : nat) : val := nth i (objof h v) (Tok 0).

(* in-place attribute / item assignment *)
Definition setfld (h : heap) (v : val) (i : nat) (x : val) : heap :=
  match v with Ref l => match nth_error h l with Some o => upd h l (upd o i x) | None => h end | Tok _ => h end.

(* in-place replacement of the whole content of a list object *)
Definition setobj (h : heap) (v : val) (o : obj) : heap :=
  match v with Ref l => match nth_error h l with Some _ => upd h l o | None => h end | Tok _ => h end.

Fixpoint mapH (F : heap -> val -> option (heap * val)) (h : heap) (vs : list val) : option (heap * list val) :=
  match vs with
  | [] => Some (h, [])
  | x :: xs => match F h x with
               | None => None
               | Some (h1, x') => match mapH F h1 xs with
                                  | None => None
                                  | Some (h2, xs') => Some (h2, x' :: xs')
                                  end
               end
  end.

(* copy.deepcopy as a tree copy (sharing INSIDE the copied structure is not reproduced: below what the
   property observes); tokens are immutable and returned as they are *)
Fixpoint dcopy (f : nat) (h : heap) (v : val) : option (heap * val) :=
  match v with
  | Tok n => Some (h, Tok n)
  | Ref l =>
    match f with
    | 0 => None
    | S f' => match nth_error h l with
              | None => None
              | Some o => match mapH (dcopy f') h o with
                          | None => None
                          | Some (h1, o') => Some (alloc h1 o')
                          end
              end
    end
  end.

(* list.sort() on a list of ints, in place *)
Definition tokn (v : val) : nat := match v with Tok n => n | Ref _ => 0 end.
Fixpoint ins_sorted (x : val) (l : list val) : list val :=
  match l with [] => [x] | y :: t => if tokn x <=? tokn y then x :: y :: t else y :: ins_sorted x t end.
Definition sort_toks (l : list val) : list val := fold_right ins_sorted [] l.
Definition sort_fld (h : heap) (g : val) (i : nat) : heap := setobj h (fld h g i) (sort_toks (objof h (fld h g i))).

(* ---------------------------------------------------------------------------------------------- *)
(* flags extracted from the sources                                                               *)
(* ---------------------------------------------------------------------------------------------- *)
Record flags := mkFlags {
  f_resolve_final : bool;      (* resolve_gates ends with  qc_temp.gates = deepcopy(qc_temp.gates)            *)
  f_adjacent_final : bool;     (* adjacent_gates ends with temp.gates = deepcopy(temp.gates)                  *)
  f_adjacent_literals : bool;  (* every Gate(...) built by adjacent_gates takes fresh list literals            *)
  f_chain_input_copy : bool;   (* to_chain_structure starts with qc_t = deepcopy(qc); qc_t.gates = []          *)
  f_chain_final : bool;        (* to_chain_structure ends with a deepcopy of the gates                         *)
  f_reverse_copy : bool;       (* reverse_circuit copies the gates and the input/output state lists            *)
  f_addc_fresh_lists : bool;   (* add_circuit builds new targets / controls lists                              *)
  f_addc_arg_copy : bool;      (* add_circuit copies arg_value                                                 *)
  f_sched_copy : bool;         (* Scheduler.schedule: circuit = deepcopy(circuit)                              *)
  f_graph_copy : bool;         (* InstructionsGraph.__init__: instructions = deepcopy(instructions)            *)
  f_instr_copy : bool;         (* Instruction.__init__: self.gate = deepcopy(gate) before the in-place sorts   *)
  f_sim_cbits_copy : bool;     (* CircuitSimulator.initialize copies the caller's cbits list                   *)
  f_sim_reinit : bool;         (* run() starts with initialize(), which assigns every per-run attribute        *)
  f_gnp_copy : bool;           (* Processor.get_noisy_pulses: pulses = deepcopy(self.pulses)                   *)
  f_pn_copy : bool;            (* process_noise: noisy_pulses = deepcopy(pulses)                               *)
  f_pn_list_copy : bool;       (* process_noise: noise_list = noise_list.copy()                                *)
  f_set_coeffs_clears : bool;  (* Processor.set_coeffs starts with self.clear_pulses()                         *)
  f_load_sets_gp : bool;       (* load_circuit: self.global_phase = compiler.global_phase (assignment)         *)
  f_default_comp_fresh : bool; (* load_circuit constructs a new compiler when none is supplied                 *)
  f_compile_resets_gp : bool;  (* GateCompiler.compile starts the global-phase record afresh                   *)
  f_compile_args_local : bool  (* GateCompiler.compile does not store the per-call args in self.args           *)
}.

(* ---------------------------------------------------------------------------------------------- *)
(* circuit passes: resolve_gates, adjacent_gates, to_chain_structure, reverse_circuit, add_circuit  *)
(* ---------------------------------------------------------------------------------------------- *)
(* how one source gate reaches the output list:
   0 = rebuilt from fresh literals (everything new), 1 = the same object appended, 2 = new gate object holding
   the SAME targets / controls / arg objects, 3 = new gate with new index lists, arg_value shared unless copied *)
Definition gate_step (argcopy : bool) (mode : nat) (h : heap) (g : val) : option (heap * val) :=
  match mode with
  | 0 => dcopy FUEL h g
  | 1 => Some (h, g)
  | 2 => Some (alloc h (objof h g))
  | _ => match dcopy FUEL h (fld h g 1) with
         | None => None
         | Some (h1, t') =>
           match dcopy FUEL h1 (fld h g 2) with
           | None => None
           | Some (h2, c') =>
             match (if argcopy then dcopy FUEL h2 (fld h g 3) else Some (h2, fld h g 3)) with
             | None => None
             | Some (h3, a') => Some (alloc h3 [Tok (tokn (fld h g 0)); t'; c'; a'; Tok 0; Tok (tokn (fld h g 5))])
             end
           end
         end
  end.

Fixpoint map_gates (argcopy : bool) (d : nat) (modes : list nat) (h : heap) (gs : list val) : option (heap * list val) :=
  match gs with
  | [] => Some (h, [])
  | g :: gs' =>
    match gate_step argcopy (hd d modes) h g with
    | None => None
    | Some (h1, g') => match map_gates argcopy d (tl modes) h1 gs' with
                       | None => None
                       | Some (h2, gs'') => Some (h2, g' :: gs'')
                       end
    end
  end.

Definition opt_copy (b : bool) (h : heap) (v : val) : option (heap * val) := if b then dcopy FUEL h v else Some (h, v).

(* in_copy = false models `qc_t = qc` (no input copy): the pass then empties the caller's circuit and returns it *)
Definition op_pass (in_copy final share_io argcopy : bool) (d : nat) (modes : list nat) (h : heap) (qc : val)
  : option (heap * val) :=
  if negb in_copy then let (h1, e) := alloc h [] in Some (setfld h1 qc 0 e, qc) else
  match map_gates argcopy d modes h (objof h (fld h qc 0)) with
  | None => None
  | Some (h1, gs) =>
    let (h2, gl) := alloc h1 gs in
    match opt_copy final h2 gl with
    | None => None
    | Some (h3, gl') =>
      match opt_copy (negb share_io) h3 (fld h qc 3) with
      | None => None
      | Some (h4, ins) =>
        match opt_copy (negb share_io) h4 (fld h qc 4) with
        | None => None
        | Some (h5, outs) => Some (alloc h5 [gl'; Tok (tokn (fld h qc 1)); Tok (tokn (fld h qc 2)); ins; outs])
        end
      end
    end
  end.

Definition op_resolve (fl : flags) := op_pass true (f_resolve_final fl) false false 2 [].
Definition op_adjacent (fl : flags) :=
  op_pass true (f_adjacent_final fl) false false (if f_adjacent_literals fl then 0 else 2) [].
Definition op_chain (fl : flags) (modes : list nat) :=
  op_pass (f_chain_input_copy fl) (f_chain_final fl) false false 0 modes.
Definition op_reverse (fl : flags) :=
  op_pass true (f_reverse_copy fl) (negb (f_reverse_copy fl)) false 1 [].
Definition op_addc (fl : flags) :=
  op_pass true false false (f_addc_arg_copy fl) (if f_addc_fresh_lists fl then 3 else 2) [].

(* ---------------------------------------------------------------------------------------------- *)
(* Instruction / Scheduler                                                                          *)
(* ---------------------------------------------------------------------------------------------- *)
Definition instr_of (ic : bool) (h : heap) (g : val) : option (heap * val) :=
  match opt_copy ic h g with
  | None => None
  | Some (h1, g1) => Some (alloc (sort_fld (sort_fld h1 g1 1) g1 2) [g1; Tok 1; Tok 0])
  end.

(* a list element that already is an Instruction (3 fields) is used as a node: duration default and the
   graph attributes are written on it *)
Definition node_of (ic : bool) (h : heap) (x : val) : option (heap * val) :=
  if length (objof h x) =? 3 then Some (setfld h x 2 (Tok 1), x) else instr_of ic h x.

Definition op_schedule (fl : flags) (is_circ : bool) (h : heap) (a : val) : option (heap * val) :=
  match opt_copy (f_sched_copy fl) h a with
  | None => None
  | Some (h1, a1) =>
    let gl := if is_circ then fld h1 a1 0 else a1 in
    match opt_copy (f_graph_copy fl) h1 gl with
    | None => None
    | Some (h2, gl2) =>
      match mapH (node_of (f_instr_copy fl)) h2 (objof h2 gl2) with
      | None => None
      | Some (h3, nodes) => Some (alloc h3 (map (fun _ => Tok 0) nodes))
      end
    end
  end.

(* ---------------------------------------------------------------------------------------------- *)
(* CircuitSimulator                                                                                 *)
(* ---------------------------------------------------------------------------------------------- *)
Record sim := mkSim { s_qc : val; s_dm : bool; s_cbits : val; s_dirty : nat }.

Definition is_nil {A} (l : list A) : bool := match l with [] => true | _ => false end.

(* `if cbits and len(cbits) == self.qc.num_cbits`; a copy is a new list of the same ints *)
Definition usable (h : heap) (qc cb : val) : bool :=
  match cb with
  | Ref l => match nth_error h l with
             | Some o => negb (is_nil o) && (length o =? tokn (fld h qc 2))
             | None => false
             end
  | Tok _ => false
  end.

Definition init_cbits (cc : bool) (h : heap) (qc cb : val) : heap * val :=
  if usable h qc cb then (if cc then alloc h (map (fun v => Tok (tokn v)) (objof h cb)) else (h, cb))
  else match tokn (fld h qc 2) with
       | S n => alloc h (repeat (Tok 0) (S n))
       | 0 => (h, Tok 0)
       end.

(* every Measurement with a classical_store writes its outcome into self.cbits in place *)
Fixpoint meas_writes (h : heap) (cbv : val) (gs : list val) (mr : list nat) : heap :=
  match gs with
  | [] => h
  | g :: gs' =>
    match tokn (fld h g 0) with
    | 0 => match tokn (fld h g 5) with
           | S k => meas_writes (setfld h cbv k (Tok (hd 2 mr))) cbv gs' (tl mr)
           | 0 => meas_writes h cbv gs' (tl mr)
           end
    | S _ => meas_writes h cbv gs' mr
    end
  end.

Definition run_core (fl : flags) (dm : bool) (h : heap) (qc cb : val) (mr : list nat) : heap * val :=
  let (h1, cbv) := init_cbits (f_sim_cbits_copy fl) h qc cb in
  ((if dm then h1 else meas_writes h1 cbv (objof h1 (fld h1 qc 0)) mr), cbv).

(* CircuitResult: new lists of values; cbits = [self.cbits] (the simulator's list itself) when truthy *)
Definition result_of (h : heap) (stok : nat) (cbv : val) : heap * val :=
  match cbv with
  | Ref _ => let (h1, l) := alloc h [cbv] in alloc h1 [Tok stok; l]
  | Tok _ => alloc h [Tok stok; Tok 0]
  end.

Fixpoint tuples (m : nat) : list (list nat) :=
  match m with 0 => [[]] | S m' => flat_map (fun b => map (cons b) (tuples m')) [0; 1] end.

Definition n_meas (h : heap) (qc : val) : nat :=
  length (filter (fun g => tokn (fld h g 0) =? 0) (objof h (fld h qc 0))).

Fixpoint stats_loop (fl : flags) (dm : bool) (h : heap) (qc cb : val) (runs : list (list nat)) (acc : list val)
  : heap * list val * val :=
  match runs with
  | [] => (h, acc, Tok 0)
  | mr :: rest =>
    let (h1, cbv) := run_core fl dm h qc cb mr in
    match rest with
    | [] => (h1, acc ++ [cbv], cbv)
    | _ => stats_loop fl dm h1 qc cb rest (acc ++ [cbv])
    end
  end.

Definition stats_result (h : heap) (stok : nat) (cbs : list val) : heap * val :=
  let (h1, l) := alloc h cbs in alloc h1 [Tok stok; l].

(* ---------------------------------------------------------------------------------------------- *)
(* GateCompiler / Processor (records; held pulses as abstract functions of time)                    *)
(* ---------------------------------------------------------------------------------------------- *)
Record comp := mkComp { k_gp0 : nat; k_gp : nat; k_args0 : nat; k_args : nat }.

(* pl_fn: the coefficient as a function of time; pl_repr: how it is stored (array length) -- not protected;
   pl_noise: number of noise elements attached to the pulse *)
Record pulse := mkPulse { pl_fn : nat; pl_repr : nat; pl_noise : nat }.
Record proc := mkProc { p_pulses : list pulse; p_gp : nat; p_nnoise : nat; p_hast : bool;
                        p_base : list pulse; p_base_gp : nat }.

Definition comp_run (fl : flags) (k : comp) (args dphi : nat) : comp * nat * nat :=
  let gp := (if f_compile_resets_gp fl then k_gp0 k else k_gp k) + dphi in
  let eff := match args with 0 => (if f_compile_args_local fl then k_args0 k else k_args k) | S _ => args end in
  let stored := match args with 0 => k_args k | S _ => if f_compile_args_local fl then k_args k else args end in
  (mkComp (k_gp0 k) gp (k_args0 k) stored, eff, gp).

Definition new_pulses (n eff : nat) : list pulse := map (fun i => mkPulse (1 + eff) 0 0) (seq 0 n).

Definition pulses_digest (ps : list pulse) : nat := fold_right (fun p a => pl_fn p + 2 * pl_noise p + a) 0 ps.
Definition pview (p : proc) : list (nat * nat) * nat * nat := (map (fun q => (pl_fn q, pl_noise q)) (p_pulses p), p_gp p, p_nnoise p).

Definition add_noise_to (k : nat) (ps : list pulse) : list pulse :=
  map (fun p => mkPulse (pl_fn p) (pl_repr p) (pl_noise p + k)) ps.

(* get_noisy_pulses: returns the digest of the noisy pulses and the processor afterwards *)
Definition noisy_query (fl : flags) (dn : bool) (p : proc) : proc * nat :=
  let extra := if p_hast p then 1 else 0 in
  let k := p_nnoise p + (if dn then extra else 0) in
  let noisy := add_noise_to k (p_pulses p) in
  let held := if f_gnp_copy fl || f_pn_copy fl then p_pulses p else noisy in
  let nn := if f_pn_list_copy fl then p_nnoise p else p_nnoise p + extra in
  (mkProc held (p_gp p) nn (p_hast p) (p_base p) (p_base_gp p), pulses_digest noisy).

(* ---------------------------------------------------------------------------------------------- *)
(* worlds, calls, histories                                                                         *)
(* ---------------------------------------------------------------------------------------------- *)
Record world := mkWorld { hp : heap; sims : list sim; comps : list comp; procs : list proc }.

Definition dsim := mkSim (Tok 0) false (Tok 0) 0.
Definition dcomp := mkComp 0 0 0 0.
Definition dproc := mkProc [] 0 0 false [] 0.

Inductive call :=
| CSimRun (s : nat) (cb : val) (st : nat) (mr : list nat)
| CSimStats (s : nat) (cb : val) (st : nat)
| CQcRun (qc cb : val) (dm : bool) (st : nat) (mr : list nat)
| CQcStats (qc cb : val) (dm : bool) (st : nat)
| CResolve (qc : val)
| CAdjacent (qc : val)
| CChain (qc : val) (modes : list nat)
| CReverse (qc : val)
| CAddCircuit (qc : val)
| CReadOnly (qc : val) (k : nat)              (* propagators, compute_unitary, QASM export, text drawing *)
| CSchedule (a : val) (is_circ : bool)
| CInstr (g : val)
| CCompile (k : nat) (a : val) (is_circ : bool) (args dphi : nat)
| CLoad (p : nat) (qc : val) (k : option nat) (chain : option (list nat)) (sets_gp : bool) (dphi : nat)
| CQobjevo (p : nat) (noisy : bool)
| CNoisyPulses (p : nat) (dn : bool)
| CRunAnalytic (p : nat)
| CHeld (p : nat)
| CRaise.                                      (* the call raised before touching anything *)

Definition compile_heap (fl : flags) (h : heap) (gl : val) : option heap :=
  match mapH (instr_of (f_instr_copy fl)) h (objof h gl) with None => None | Some (h1, _) => Some h1 end.

Definition exec (fl : flags) (w : world) (c : call) : option (world * val) :=
  let h := hp w in
  match c with
  | CSimRun s cb st mr =>
    let sm := nth s (sims w) dsim in
    let (h1, cbv) := run_core fl (s_dm sm) h (s_qc sm) cb mr in
    let stok := st + (if f_sim_reinit fl then 0 else s_dirty sm) in
    let (h2, r) := result_of h1 stok cbv in
    Some (mkWorld h2 (upd (sims w) s (mkSim (s_qc sm) (s_dm sm) cbv (S (s_dirty sm)))) (comps w) (procs w), r)
  | CSimStats s cb st =>
    let sm := nth s (sims w) dsim in
    let '(h1, cbs, last) := stats_loop fl (s_dm sm) h (s_qc sm) cb (tuples (n_meas h (s_qc sm))) [] in
    let stok := st + (if f_sim_reinit fl then 0 else s_dirty sm) in
    let (h2, r) := stats_result h1 stok cbs in
    Some (mkWorld h2 (upd (sims w) s (mkSim (s_qc sm) (s_dm sm) last (S (s_dirty sm)))) (comps w) (procs w), r)
  | CQcRun qc cb dm st mr =>
    let (h1, _) := run_core fl dm h qc cb mr in
    Some (mkWorld h1 (sims w) (comps w) (procs w), Tok st)       (* the final state only: a value *)
  | CQcStats qc cb dm st =>
    let '(h1, cbs, _) := stats_loop fl dm h qc cb (tuples (n_meas h qc)) [] in
    let (h2, r) := stats_result h1 st cbs in
    Some (mkWorld h2 (sims w) (comps w) (procs w), r)
  | CResolve qc => match op_resolve fl h qc with None => None | Some (h1, r) => Some (mkWorld h1 (sims w) (comps w) (procs w), r) end
  | CAdjacent qc => match op_adjacent fl h qc with None => None | Some (h1, r) => Some (mkWorld h1 (sims w) (comps w) (procs w), r) end
  | CChain qc ms => match op_chain fl ms h qc with None => None | Some (h1, r) => Some (mkWorld h1 (sims w) (comps w) (procs w), r) end
  | CReverse qc => match op_reverse fl h qc with None => None | Some (h1, r) => Some (mkWorld h1 (sims w) (comps w) (procs w), r) end
  | CAddCircuit qc => match op_addc fl h qc with None => None | Some (h1, r) => Some (mkWorld h1 (sims w) (comps w) (procs w), r) end
  | CReadOnly qc k => let (h1, r) := alloc h [Tok k] in Some (mkWorld h1 (sims w) (comps w) (procs w), r)
  | CSchedule a ic => match op_schedule fl ic h a with None => None | Some (h1, r) => Some (mkWorld h1 (sims w) (comps w) (procs w), r) end
  | CInstr g => match instr_of (f_instr_copy fl) h g with None => None | Some (h1, r) => Some (mkWorld h1 (sims w) (comps w) (procs w), r) end
  | CCompile k a ic args dphi =>
    match compile_heap fl h (if ic then fld h a 0 else a) with
    | None => None
    | Some (h1) =>
      let '(k', eff, gp) := comp_run fl (nth k (comps w) dcomp) args dphi in
      let (h2, r) := alloc h1 [Tok eff; Tok gp] in
      Some (mkWorld h2 (sims w) (upd (comps w) k k') (procs w), r)
    end
  | CLoad p qc ko chain sets dphi =>
    match (match chain with Some ms => op_chain fl ms h qc | None => Some (h, qc) end) with
    | None => None
    | Some (h1, qc1) =>
      match op_resolve fl h1 qc1 with
      | None => None
      | Some (h2, qc2) =>
        match compile_heap fl h2 (fld h2 qc2 0) with
        | None => None
        | Some h3 =>
          let pr := nth p (procs w) dproc in
          let kin := match ko with Some k => nth k (comps w) dcomp | None => dcomp end in
          let '(k', eff, gp) := comp_run fl kin 0 dphi in
          let ps := (if f_set_coeffs_clears fl then [] else p_pulses pr) ++ new_pulses (length (objof h2 (fld h2 qc2 0))) eff in
          let pgp := if sets then (if f_load_sets_gp fl then gp else p_gp pr + gp) else p_gp pr in
          (* what a fresh processor and a fresh compiler would hold after the same load *)
          let '(_, eff0, gp0) := comp_run fl (mkComp (k_gp0 kin) (k_gp0 kin) (k_args0 kin) (k_args0 kin)) 0 dphi in
          let ps0 := new_pulses (length (objof h2 (fld h2 qc2 0))) eff0 in
          let pgp0 := if sets then gp0 else 0 in
          let (h4, r) := alloc h3 [Tok (pulses_digest ps); Tok pgp] in
          Some (mkWorld h4 (sims w)
                        (match ko with Some k => upd (comps w) k k' | None => comps w end)
                        (upd (procs w) p (mkProc ps pgp (p_nnoise pr) (p_hast pr) ps0 pgp0)), r)
        end
      end
    end
  | CQobjevo p noisy =>
    let pr := nth p (procs w) dproc in
    if noisy then
      let (pr', d) := noisy_query fl true pr in
      Some (mkWorld h (sims w) (comps w) (upd (procs w) p pr'), Tok d)
    else
      (* the stored coefficient arrays are lengthened: same function of time *)
      Some (mkWorld h (sims w) (comps w)
                    (upd (procs w) p (mkProc (map (fun q => mkPulse (pl_fn q) 1 (pl_noise q)) (p_pulses pr)) (p_gp pr)
                                             (p_nnoise pr) (p_hast pr) (p_base pr) (p_base_gp pr))),
            Tok (pulses_digest (p_pulses pr)))
  | CNoisyPulses p dn =>
    let pr := nth p (procs w) dproc in
    let (pr', d) := noisy_query fl dn pr in
    Some (mkWorld h (sims w) (comps w) (upd (procs w) p pr'), Tok d)
  | CRunAnalytic p =>
    let pr := nth p (procs w) dproc in
    Some (w, Tok (pulses_digest (p_pulses pr) + 11 * p_gp pr))
  | CHeld p =>
    let pr := nth p (procs w) dproc in
    Some (w, Tok (pulses_digest (p_pulses pr) + 11 * p_gp pr + 13 * p_nnoise pr))
  | CRaise => Some (w, Tok 0)
  end.

Fixpoint run_hist (fl : flags) (w : world) (hist : list call) : option (world * list val) :=
  match hist with
  | [] => Some (w, [])
  | c :: rest => match exec fl w c with
                 | None => None
                 | Some (w1, r) => match run_hist fl w1 rest with
                                   | None => None
                                   | Some (w2, rs) => Some (w2, r :: rs)
                                   end
                 end
  end.

(* ---------------------------------------------------------------------------------------------- *)
(* the conditions the theorems need                                                                 *)
(* ---------------------------------------------------------------------------------------------- *)
(* no operation writes an object of the caller *)
Definition flags_pure (fl : flags) : bool :=
  f_chain_input_copy fl && f_instr_copy fl && (f_sched_copy fl || f_graph_copy fl).
(* results are built from new objects only *)
Definition flags_fresh (fl : flags) : bool :=
  flags_pure fl && f_resolve_final fl && (f_adjacent_final fl || f_adjacent_literals fl) && f_chain_final fl
  && f_reverse_copy fl && f_addc_fresh_lists fl && f_addc_arg_copy fl.
(* service objects carry nothing from one call to the next *)
Definition flags_service (fl : flags) : bool :=
  f_sim_reinit fl && (f_gnp_copy fl || f_pn_copy fl) && f_pn_list_copy fl && f_set_coeffs_clears fl
  && f_load_sets_gp fl && f_default_comp_fresh fl && f_compile_resets_gp fl && f_compile_args_local fl.
Definition flags_ok (fl : flags) : bool := flags_fresh fl && flags_service fl.

(* the input class of the open finding "caller's cbits stored by reference": a run / run_statistics call that
   passes a usable classical-bit list while initialize does not copy it *)
Definition passes_cbits (w : world) (c : call) : bool :=
  match c with
  | CSimRun s cb _ _ | CSimStats s cb _ => usable (hp w) (s_qc (nth s (sims w) dsim)) cb
  | CQcRun qc cb _ _ _ | CQcStats qc cb _ _ => usable (hp w) qc cb
  | _ => false
  end.
Definition guard (fl : flags) (w : world) (c : call) : bool := f_sim_cbits_copy fl || negb (passes_cbits w c).

Fixpoint hist_guard (fl : flags) (w : world) (hist : list call) : bool :=
  match hist with
  | [] => true
  | c :: rest => guard fl w c && match exec fl w c with Some (w1, _) => hist_guard fl w1 rest | None => true end
  end.

Definition is_query (c : call) : bool :=
  match c with CQobjevo _ _ | CNoisyPulses _ _ | CRunAnalytic _ | CHeld _ => true | _ => false end.

(* ---------------------------------------------------------------------------------------------- *)
(* observation functions used by the correspondence (evaluated by vm_compute on harness histories)  *)
(* ---------------------------------------------------------------------------------------------- *)
Inductive tree := TT (n : nat) | TN (ts : list tree) | TBot.

Fixpoint snap (f : nat) (h : heap) (v : val) : tree :=
  match v with
  | Tok n => TT n
  | Ref l => match f with
             | 0 => TBot
             | S f' => match nth_error h l with None => TBot | Some o => TN (map (snap f' h) o) end
             end
  end.

Fixpoint tree_eqb (a b : tree) : bool :=
  match a, b with
  | TT n, TT m => n =? m
  | TBot, TBot => true
  | TN xs, TN ys =>
    (fix go (xs ys : list tree) : bool :=
       match xs, ys with
       | [], [] => true
       | x :: xs', y :: ys' => tree_eqb x y && go xs' ys'
       | _, _ => false
       end) xs ys
  | _, _ => false
  end.

Fixpoint reachl (f : nat) (h : heap) (v : val) : list nat :=
  match v with
  | Tok _ => []
  | Ref l => match f with
             | 0 => [l]
             | S f' => l :: flat_map (reachl f' h) (objof h v)
             end
  end.

Definition meets (a b : list nat) : bool := existsb (fun x => existsb (Nat.eqb x) b) a.

(* the same call with the service object it uses replaced by a freshly constructed one *)
Definition fresh_world (w : world) (c : call) : world :=
  match c with
  | CSimRun s _ _ _ | CSimStats s _ _ =>
    let sm := nth s (sims w) dsim in
    mkWorld (hp w) (upd (sims w) s (mkSim (s_qc sm) (s_dm sm) (Tok 0) 0)) (comps w) (procs w)
  | CCompile k _ _ _ _ =>
    let km := nth k (comps w) dcomp in
    mkWorld (hp w) (sims w) (upd (comps w) k (mkComp (k_gp0 km) (k_gp0 km) (k_args0 km) (k_args0 km))) (procs w)
  | CLoad p _ ko _ _ _ =>
    let pr := nth p (procs w) dproc in
    mkWorld (hp w) (sims w)
            (match ko with
             | Some k => let km := nth k (comps w) dcomp in upd (comps w) k (mkComp (k_gp0 km) (k_gp0 km) (k_args0 km) (k_args0 km))
             | None => comps w end)
            (upd (procs w) p (mkProc [] 0 (p_nnoise pr) (p_hast pr) [] 0))
  | CQobjevo p _ | CNoisyPulses p _ | CRunAnalytic p | CHeld p =>
    (* a fresh processor on which the same circuit has been loaded *)
    let pr := nth p (procs w) dproc in
    mkWorld (hp w) (sims w) (comps w)
            (upd (procs w) p (mkProc (p_base pr) (p_base_gp pr) (p_nnoise pr) (p_hast pr) (p_base pr) (p_base_gp pr)))
  | _ => w
  end.

(* per call: (mutated roots, roots aliased by the result, aliases an earlier result, same result as on fresh
   service objects, held pulses changed) *)
Definition obs := (list nat * list nat * bool * bool * bool)%type.

Definition idxs_where {A} (P : A -> bool) (l : list A) : list nat :=
  map fst (filter (fun p => P (snd p)) (combine (seq 0 (length l)) l)).

Definition observe (fl : flags) (roots : list val) (w : world) (prev : list val) (c : call) : option (world * val * obs) :=
  match exec fl w c with
  | None => None
  | Some (w1, r) =>
    let rr := reachl FUEL (hp w1) r in
    let mutated := idxs_where (fun v => negb (tree_eqb (snap FUEL (hp w) v) (snap FUEL (hp w1) v))) roots in
    let alias := idxs_where (fun v => meets rr (reachl FUEL (hp w1) v)) roots in
    let aprev := existsb (fun v => meets rr (reachl FUEL (hp w1) v)) prev in
    let fresh_eq := match exec fl (fresh_world w c) c with
                    | Some (w2, r2) => tree_eqb (snap FUEL (hp w1) r) (snap FUEL (hp w2) r2)
                    | None => false
                    end in
    let held := negb (if is_query c then
                        (fix eqv (a b : list proc) : bool :=
                           match a, b with
                           | [], [] => true
                           | x :: a', y :: b' =>
                             (let '(px, gx, nx) := pview x in let '(py, gy, ny) := pview y in
                              (gx =? gy) && (nx =? ny) && (length px =? length py) &&
                              forallb (fun q => (fst (fst q) =? fst (snd q)) && (snd (fst q) =? snd (snd q))) (combine px py))
                             && eqv a' b'
                           | _, _ => false
                           end) (procs w) (procs w1)
                      else true) in
    Some (w1, r, (mutated, alias, aprev, fresh_eq, held))
  end.

Fixpoint observe_hist (fl : flags) (roots : list val) (w : world) (prev : list val) (hist : list call) : list (option obs) :=
  match hist with
  | [] => []
  | c :: rest => match observe fl roots w prev c with
                 | None => [None]
                 | Some (w1, r, o) => Some o :: observe_hist fl roots w1 (prev ++ [r]) rest
                 end
  end.
