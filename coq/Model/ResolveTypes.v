(* C03: syntax of the decomposition rule tables emitted by tools/translate/decompose_tr.py (data types only). *)
From QV Require Export Found.Sym.

(* which qubits of the SOURCE gate an emitted gate acts on *)
Inductive qrole :=
| AllT                 (* gate.targets  (the whole list) *)
| AllC                 (* gate.controls *)
| TIdx (i : nat)       (* gate.targets[i] *)
| CIdx (i : nat).      (* gate.controls[i] *)
Inductive nrole :=
| NConst (s : string)  (* "RX" *)
| NSame                (* gate.name *)
| NPrefix (p : string).  (* "R" + gate.name *)
Inductive arole :=
| ANone                (* no arg_value *)
| ACopy                (* gate.arg_value, passed on as it is *)
| AExpr (e : ex).      (* an expression; Var 0 = gate.arg_value *)
Inductive emit :=
| ESame                                                   (* append(gate) *)
| EGate (n : nrole) (t c : list qrole) (a : arole).       (* append(Gate(name, targets, controls, arg_value)) *)
Inductive rule :=
| RRaise                                                  (* raise NotImplementedError *)
| REmit (es : list emit).
