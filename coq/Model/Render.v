(* C20 -- executable model of qutip_qip/circuit/text_renderer.py (TextRenderer) and the two
   BaseRenderer helpers it uses (_get_xskip, _manage_layers).  Definitions only.

   Strings are lists of Unicode code points (N).  The renderer state (three dicts of per-wire
   strings + _layer_list) is a list of per-wire records.  Every Python loop over a wire list that
   appends to the strings of that wire is `emit` (a left fold of single-wire updates, in list order).

   [fx : bool] selects the code that is modelled:
     fx = false : the renderer as it is in the unchanged tree;
     fx = true  : the renderer with fixes/C20-bridge-span.diff applied (four small edits, marked FIX).
   Outside the input domain [wf_input] (indices out of range, duplicated wires, no wire at all,
   a wire_label list of the wrong length, ...) Python raises or wraps negative indices; the model
   does not describe that and returns None.                                                        *)
From Coq Require Import List NArith Arith Bool.
Import ListNotations.

Definition str := list N.

(* ---- code points ---- *)
Definition cSP : N := 32.      (* ' ' *)
Definition cCOLON : N := 58.   (* ':' *)
Definition cH  : N := 9472.    (* ─ *)
Definition cV  : N := 9474.    (* │ *)
Definition cTL : N := 9484.    (* ┌ *)
Definition cTR : N := 9488.    (* ┐ *)
Definition cBL : N := 9492.    (* └ *)
Definition cBR : N := 9496.    (* ┘ *)
Definition cLT : N := 9500.    (* ├ *)
Definition cRT : N := 9508.    (* ┤ *)
Definition cTD : N := 9516.    (* ┬ *)
Definition cTU : N := 9524.    (* ┴ *)
Definition cDH : N := 9552.    (* ═ *)
Definition cDV : N := 9553.    (* ║ *)
Definition cMD : N := 9573.    (* ╥ *)
Definition cMU : N := 9576.    (* ╨ *)
Definition cST : N := 9577.    (* ╩ *)
Definition cX  : N := 9587.    (* ╳ *)
Definition cND : N := 9608.    (* █ *)
Definition cQ  : N := 113.     (* q *)
Definition cC  : N := 99.      (* c *)
Definition sM : str := [77%N].                          (* "M" *)
Definition sSWAP : str := [83%N; 87%N; 65%N; 80%N].     (* "SWAP" *)

Definition rep (n : nat) (c : N) : str := repeat c n.

Fixpoint str_eqb (a b : str) : bool :=
  match a, b with
  | [], [] => true
  | x :: a', y :: b' => N.eqb x y && str_eqb a' b'
  | _, _ => false
  end.

Definition mem (x : nat) (l : list nat) : bool := existsb (Nat.eqb x) l.

(* Python  s[:m] + c + s[m+1:]  *)
Definition set_at (m : nat) (c : N) (s : str) : str := firstn m s ++ [c] ++ skipn (S m) s.

(* Python  sorted(l)[0], sorted(l)[-1]  (l non-empty in the domain) *)
Definition lmin (l : list nat) : nat := fold_right Nat.min (hd 0 l) l.
Definition lmax (l : list nat) : nat := fold_right Nat.max 0 l.

(* Python range(a, b) *)
Definition range (a b : nat) : list nat := seq a (b - a).

(* ---- decimal printing for the default labels f"q{i}" ---- *)
Fixpoint uint_str (u : Decimal.uint) : str :=
  match u with
  | Decimal.Nil => []
  | Decimal.D0 u => 48%N :: uint_str u
  | Decimal.D1 u => 49%N :: uint_str u
  | Decimal.D2 u => 50%N :: uint_str u
  | Decimal.D3 u => 51%N :: uint_str u
  | Decimal.D4 u => 52%N :: uint_str u
  | Decimal.D5 u => 53%N :: uint_str u
  | Decimal.D6 u => 54%N :: uint_str u
  | Decimal.D7 u => 55%N :: uint_str u
  | Decimal.D8 u => 56%N :: uint_str u
  | Decimal.D9 u => 57%N :: uint_str u
  end.
Definition dec (n : nat) : str := uint_str (Nat.to_uint n).

(* ---- circuit and style ---- *)
Inductive op :=
| Gate (name : str) (arg_label : option str) (targets : list nat) (controls : option (list nat))
| Meas (target : nat) (store : nat).      (* Measurement(targets=[target], classical_store=store) *)

Record style := mkStyle {
  pad_num : nat; pad_den : nat;           (* gate_pad = pad_num / pad_den  (>= 0) *)
  ext : nat;                              (* end_wire_ext *)
  align : bool;                           (* align_layer *)
  wlabels : option (list str)             (* wire_label *)
}.

(* math.ceil(gate_pad) *)
Definition padw (sty : style) : nat := (pad_num sty + pad_den sty - 1) / pad_den sty.

(* ---- renderer state ---- *)
Record wire := mkW { top : str; mid : str; bot : str; lay : list nat }.
Definition state := list wire.
Definition emptyW : wire := mkW [] [] [] [].
Definition wire_of (st : state) (w : nat) : wire := nth w st emptyW.

Fixpoint upd (i : nat) (f : wire -> wire) (st : state) : state :=
  match st, i with
  | [], _ => []
  | x :: r, O => f x :: r
  | x :: r, S j => x :: upd j f r
  end.

(* for wire in wl: <update wire> *)
Definition emit (F : nat -> wire -> wire) (wl : list nat) (st : state) : state :=
  fold_left (fun s w => upd w (F w) s) wl st.

Definition app3 (a b c : str) (x : wire) : wire :=
  mkW (top x ++ a) (mid x ++ b) (bot x ++ c) (lay x).

Definition fillc (nq w : nat) : N := if w <? nq then cH else cDH.

(* _adjust_layer_pad: one wire *)
Definition pad_wire (nq xskip w : nat) (x : wire) : wire :=
  mkW (top x ++ rep (xskip - length (top x)) cSP)
      (mid x ++ rep (xskip - length (mid x)) (fillc nq w))
      (bot x ++ rep (xskip - length (bot x)) cSP)
      (lay x).
Definition adjust_layer_pad (nq : nat) (wl : list nat) (xskip : nat) (st : state) : state :=
  emit (pad_wire nq xskip) wl st.

(* BaseRenderer._get_xskip *)
Definition get_xskip (sty : style) (nq : nat) (st : state) (wl : list nat) (layer : nat) : nat :=
  let wl' := if align sty then seq 0 nq else wl in
  fold_right Nat.max 0 (map (fun w => list_sum (firstn layer (lay (wire_of st w)))) wl').

Fixpoint replace_nth (i : nat) (v : nat) (l : list nat) : list nat :=
  match l, i with
  | [], _ => []
  | _ :: r, O => v :: r
  | x :: r, S j => x :: replace_nth j v r
  end.

(* BaseRenderer._manage_layers: one wire (gate_margin is forced to 0 by TextRenderer.__init__) *)
Definition manage_wire (width layer xskip : nat) (_w : nat) (x : wire) : wire :=
  if layer <? length (lay x) then
    if nth layer (lay x) 0 <? width
    then mkW (top x) (mid x) (bot x) (replace_nth layer width (lay x))
    else x
  else
    let temp := if xskip =? 0 then 0 else xskip - list_sum (lay x) in
    mkW (top x) (mid x) (bot x) (lay x ++ [temp + width]).

(* Python computes  xskip - sum(layers)  in int; it would be negative here *)
Definition neg_temp (st : state) (wl : list nat) (layer xskip : nat) : bool :=
  existsb (fun w => negb (layer <? length (lay (wire_of st w))) && negb (xskip =? 0)
                    && (xskip <? list_sum (lay (wire_of st w)))) wl.

(* layer = max(len(layer_list[i]) for i in wire_list); xskip; _adjust_layer_pad; _manage_layers.
   Also returns xskip (the column at which the gate is drawn), which the code does not keep. *)
Definition place (sty : style) (nq : nat) (st : state) (wl : list nat) (width : nat)
  : option (state * nat) :=
  let layer := fold_right Nat.max 0 (map (fun w => length (lay (wire_of st w))) wl) in
  let xskip := get_xskip sty nq st wl layer in
  if neg_temp st wl layer xskip then None
  else Some (emit (manage_wire width layer xskip) wl (adjust_layer_pad nq wl xskip st), xskip).

(* ---- glyph assembly ---- *)
Definition draw_singleq (P : nat) (text : str) : (str * str * str) * nat :=
  let lid := rep (P * 2 + length text) cH in
  let pad := rep P cSP in
  let t := [cSP; cTL] ++ lid ++ [cTR; cSP] in
  let m := [cH; cRT] ++ pad ++ text ++ pad ++ [cLT; cH] in
  let b := [cSP; cBL] ++ lid ++ [cBR; cSP] in
  ((t, m, b), length t).

Definition has_controls (controls : option (list nat)) : bool :=
  match controls with Some (_ :: _) => true | _ => false end.
Definition ctl_list (controls : option (list nat)) : list nat :=
  match controls with Some l => l | None => [] end.

(* is_top / is_bot of the unchanged code compare with the WRONG end of the target span *)
Definition is_top (fx : bool) (targets cs : list nat) : bool :=
  if fx then lmax targets <? lmax cs        (* FIX *)
  else lmin targets <? lmax cs.
Definition is_bot (fx : bool) (targets cs : list nat) : bool :=
  if fx then lmin cs <? lmin targets        (* FIX *)
  else lmin cs <? lmax targets.

Record mparts := mkMP { p_top : str; p_mid : str; p_conn : str; p_lab : str; p_bot : str }.

Definition draw_multiq (fx : bool) (P : nat) (text : str) (targets : list nat)
           (controls : option (list nat)) : mparts * nat :=
  let lid := rep (P * 2 + length text) cH in
  let pad := rep P cSP in
  let blank := rep (length text) cSP in
  let t := [cSP; cTL] ++ lid ++ [cTR; cSP] in
  let b := [cSP; cBL] ++ lid ++ [cBR; cSP] in
  let m := [cSP; cV] ++ pad ++ blank ++ pad ++ [cV; cSP] in
  let mc := [cH; cRT] ++ pad ++ blank ++ pad ++ [cLT; cH] in
  let ml := [cH; cRT] ++ pad ++ text ++ pad ++ [cLT; cH] in
  let mi := length b / 2 in
  let cs := ctl_list controls in
  let t' := if has_controls controls && is_top fx targets cs then set_at mi cTU t else t in
  let b' := if has_controls controls && is_bot fx targets cs then set_at mi cTD b else b in
  (mkMP t' m mc ml b', length t').

Definition draw_meas (P nq target store : nat) : (str * str * str) * nat :=
  let '((t, m, b), w) := draw_singleq P sM in
  let mi := length b / 2 in
  if target <? store + nq then ((t, m, set_at mi cMD b), w)
  else ((set_at mi cMU t, m, b), w).

(* ---- _update_* : the body of each `for wire in wire_list` loop is a named per-wire function ---- *)
Definition update_singleq (parts : str * str * str) (wl : list nat) (st : state) : state :=
  let '(t, m, b) := parts in emit (fun _ => app3 t m b) wl st.

Definition cbridge_wire (nq target store width : nat) (w : nat) (x : wire) : wire :=
  let h := width / 2 in
  let bar := rep h cSP ++ [cDV] ++ rep h cSP in
  let mid_bar := rep h cH ++ [cDV] ++ rep h cH in
  let mid_bar_cl := rep h cDH ++ [cDV] ++ rep h cDH in
  let cl_conn := rep h cDH ++ [cST] ++ rep h cDH in
  if w =? target then x
  else if w =? nq + store then app3 bar cl_conn (rep (length bar) cSP) x
  else app3 bar (if nq <? w then mid_bar_cl else mid_bar) bar x.

Definition update_cbridge (nq target store : nat) (wl : list nat) (width : nat) (st : state) : state :=
  emit (cbridge_wire nq target store width) wl st.

(* wire_list = range(lo, hi+1) with lo/hi the smallest/largest target, so  i == 0  is  wire == lo
   and  i == len(wire_list)-1  is  wire == hi *)
Definition target_wire (fx : bool) (targets : list nat) (controls : option (list nat)) (p : mparts)
           (w : nat) (x : wire) : wire :=
  let lo := lmin targets in
  let hi := lmax targets in
  if length targets =? 1 then app3 (p_top p) (p_lab p) (p_bot p) x
  else if (w =? lo) && mem w targets then app3 (p_mid p) (p_lab p) (p_bot p) x
  else if (w =? hi) && mem w targets then app3 (p_top p) (p_conn p) (p_mid p) x
  else if fx && has_controls controls && mem w (ctl_list controls)          (* FIX *)
       then app3 (p_mid p) (set_at (length (p_mid p) / 2) cND (p_mid p)) (p_mid p) x
  else app3 (p_mid p) (p_mid p) (p_mid p) x.

Definition update_target_multiq (fx : bool) (targets : list nat) (controls : option (list nat))
           (wl : list nat) (p : mparts) (st : state) : state :=
  emit (target_wire fx targets controls p) wl st.

Definition qbridge_wire (fx : bool) (targets cs : list nat) (first last_ width : nat) (istop : bool)
           (w : nat) (x : wire) : wire :=
  let h := width / 2 in
  let bar := rep h cSP ++ [cV] ++ rep (h - 1) cSP in
  let mid_bar := rep h cH ++ [cV] ++ rep (h - 1) cH in
  let node := rep h cH ++ [cND] ++ rep (h - 1) cH in
  let blank := rep (length bar) cSP in
  let skip := if fx then (lmin targets <=? w) && (w <=? lmax targets)      (* FIX: wire in box span *)
              else mem w targets in
  if skip then x
  else if mem w cs then
    if (w =? first) || (w =? last_)
    then app3 (if istop then blank else bar) node (if istop then bar else blank) x
    else app3 bar node bar x
  else app3 bar mid_bar bar x.

Definition update_qbridge (fx : bool) (targets cs : list nat) (wl : list nat) (width : nat)
           (istop : bool) (st : state) : state :=
  emit (qbridge_wire fx targets cs (hd 0 wl) (last wl 0) width istop) wl st.

Definition swap_wire (P first last_ : nat) (w : nat) (x : wire) : wire :=
  let width := 4 * P + 1 in
  let h := width / 2 in
  let cross := rep h cH ++ [cX] ++ rep h cH in
  let bar := rep h cSP ++ [cV] ++ rep h cSP in
  let mid_bar := rep h cH ++ [cV] ++ rep h cH in
  let blank := rep (length bar) cSP in
  if w =? last_ then app3 blank cross bar x
  else if w =? first then app3 bar cross blank x
  else app3 bar mid_bar bar x.

Definition update_swap (P : nat) (wl : list nat) (st : state) : state :=
  emit (swap_wire P (hd 0 wl) (last wl 0)) wl st.

(* ---- one iteration of the loop in layout() ---- *)
Definition gate_text (name : str) (arg_label : option str) : str :=
  match arg_label with Some l => l | None => name end.

Definition is_none {A} (o : option A) : bool := match o with None => true | Some _ => false end.

Definition step (fx : bool) (sty : style) (nq nc : nat) (st : state) (o : op)
  : option (state * nat) :=
  let P := padw sty in
  match o with
  | Meas t c =>
      let wl := range 0 (t + 1) ++ range (c + nq) (nq + nc) in
      let '(parts, width) := draw_meas P nq t c in
      match place sty nq st wl width with
      | None => None
      | Some (st1, x) => Some (update_cbridge nq t c wl width (update_singleq parts [t] st1), x)
      end
  | Gate name al targets controls =>
      let text := gate_text name al in
      if (length targets =? 1) && is_none controls then
        let '(parts, width) := draw_singleq P text in
        match place sty nq st targets width with
        | None => None
        | Some (st1, x) => Some (update_singleq parts targets st1, x)
        end
      else if str_eqb name sSWAP then
        let wl := range (lmin targets) (lmax targets + 1) in
        match place sty nq st wl (4 * P + 1) with
        | None => None
        | Some (st1, x) => Some (update_swap P wl st1, x)
        end
      else
        let cs := ctl_list controls in
        let merged := targets ++ cs in
        let wl := range (lmin merged) (lmax merged + 1) in
        let '(parts, width) := draw_multiq fx P text targets controls in
        match place sty nq st wl width with
        | None => None
        | Some (st1, x) =>
            let lo := lmin targets in
            let hi := lmax targets in
            let st2 := update_target_multiq fx targets controls (range lo (hi + 1)) parts st1 in
            if has_controls controls then
              let it := is_top fx targets cs in
              let ib := is_bot fx targets cs in
              let st3 := if it then update_qbridge fx targets cs (range lo (lmax cs + 1)) width it st2
                         else st2 in
              let st4 := if ib then update_qbridge fx targets cs (range (lmin cs) (hi + 1)) width (negb ib) st3
                         else st3 in
              Some (st4, x)
            else Some (st2, x)
        end
  end.

Fixpoint run (fx : bool) (sty : style) (nq nc : nat) (ops : list op) (st : state) (xs : list nat)
  : option (state * list nat) :=
  match ops with
  | [] => Some (st, rev xs)
  | o :: r =>
      match step fx sty nq nc st o with
      | None => None
      | Some (st', x) => run fx sty nq nc r st' (x :: xs)
      end
  end.

(* ---- _add_wire_labels ---- *)
Definition default_labels (sty : style) (nq nc : nat) : list str :=
  match wlabels sty with
  | None => map (fun i => cQ :: dec i) (seq 0 nq) ++ map (fun i => cC :: dec i) (seq 0 nc)
  | Some l => skipn nc l ++ firstn nc l
  end.

Definition init_state (nq nc : nat) : state :=
  map (fun w => mkW [cSP; cSP] [fillc nq w; fillc nq w] [cSP; cSP] []) (seq 0 (nq + nc)).

Definition label_wire (maxlen : nat) (label : str) (x : wire) : wire :=
  let m := [cSP] ++ label ++ [cSP] ++ rep (maxlen - length label) cSP ++ [cCOLON] ++ mid x in
  mkW (rep (length m) cSP) m (rep (length m) cSP) (lay x ++ [length m]).

Definition add_wire_labels (sty : style) (nq nc : nat) (st : state) : option state :=
  let labels := default_labels sty nq nc in
  match labels with
  | [] => None                                           (* max([]) raises ValueError *)
  | _ =>
      if length st <? length labels then None            (* IndexError *)
      else
        let maxlen := fold_right Nat.max 0 (map (@length N) labels) in
        (* for i, label in enumerate(default_labels) *)
        Some (emit (fun i => label_wire maxlen (nth i labels [])) (seq 0 (length labels)) st)
  end.

(* ---- input domain ---- *)
Fixpoint nodupb (l : list nat) : bool :=
  match l with [] => true | x :: r => negb (mem x r) && nodupb r end.

Definition wf_op (nq nc : nat) (o : op) : bool :=
  match o with
  | Meas t c => (t <? nq) && (c <? nc)
  | Gate _ _ targets controls =>
      let cs := ctl_list controls in
      negb (length targets =? 0) && nodupb (targets ++ cs) && forallb (fun w => w <? nq) (targets ++ cs)
  end.

Definition wf_style (sty : style) (nq nc : nat) : bool :=
  negb (pad_den sty =? 0) &&
  match wlabels sty with None => true | Some l => length l =? nq + nc end.

Definition wf_input (sty : style) (nq nc : nat) (ops : list op) : bool :=
  negb (nq =? 0) && wf_style sty nq nc && forallb (wf_op nq nc) ops.

(* ---- layout() and the print / save order ---- *)
Definition rows_of (nq nc : nat) (st : state) : list str :=
  flat_map (fun w => let x := wire_of st w in [top x; mid x; bot x])
           (rev (seq 0 nq) ++ rev (seq nq nc)).

Definition final_pad (sty : style) (nq nc : nat) (st : state) : state :=
  let m := fold_right Nat.max 0 (map (fun x => list_sum (lay x)) st) in
  adjust_layer_pad nq (seq 0 (nq + nc)) (m + ext sty) st.

Definition layout_full (fx : bool) (sty : style) (nq nc : nat) (ops : list op)
  : option (state * list nat) :=
  if negb (wf_input sty nq nc ops) then None
  else match add_wire_labels sty nq nc (init_state nq nc) with
       | None => None
       | Some st0 =>
           match run fx sty nq nc ops st0 [] with
           | None => None
           | Some (st, xs) => Some (final_pad sty nq nc st, xs)
           end
       end.

(* the printed lines *)
Definition layout (fx : bool) (sty : style) (nq nc : nat) (ops : list op) : option (list str) :=
  match layout_full fx sty nq nc ops with
  | None => None
  | Some (st, _) => Some (rows_of nq nc st)
  end.
