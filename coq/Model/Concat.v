(* Model of qutip_qip/compiler/gatecompiler.py : GateCompiler.compile, _schedule (no-schedule branch and
   the time ordering of the scheduled branch), _process_gate_pulse, _process_idling_tlist,
   _concatenate_pulses; and of the duration rule of compiler/instruction.py : Instruction.__init__.
   Exact rationals (Q) stand for the floats.  Definitions only.

   The boolean [fx] selects the first-pulse decision:
     fx = false : the unchanged code,  `abs(last_pulse_time) < step_size * 1.0e-6`
     fx = true  : the repaired code (fixes/C12-first-pulse-flag.diff), an explicit per-channel flag.
   The boolean [gx] selects the idle-gap decision `abs(start_time - last_pulse_time) > T`:
     gx = false : T = step_size * 1.0e-6 of the instruction being placed (unchanged code)
     gx = true  : T = time_resolution = 1.0e-14 * (latest end time of all instructions)
                  (fixes/C12-idle-gap-time-resolution.diff).
   Inside the loops the threshold is the function [gtl : step_size -> T]. *)
From Coq Require Import List QArith Qabs Qround ZArith Bool.
Import ListNotations.
Open Scope Q_scope.

Definition Qlt_b (x y : Q) : bool := negb (Qle_bool y x).

Inductive mode := Discrete | Continuous.

(* one (tlist, coeff) pair as it reaches _process_gate_pulse *)
Inductive wave :=
| Scalar (d c : Q)                (* np.isscalar(tlist): rectangular pulse of duration d, height c *)
| Sampled (ts cs : list Q).       (* tlist / coeff arrays *)

(* one entry (start_time, tlist, coeff) of pulse_instructions[pulse_ind] *)
Record pinstr := mkP { p_start : Q; p_wave : wave }.

Definition tol : Q := 1 # 1000000.          (* 1.0e-6 *)

(* _process_gate_pulse : (gate_tlist, coeffs, step_size, pulse_mode); None = exception *)
Definition process_gate_pulse (w : wave) : option (list Q * list Q * Q * mode) :=
  match w with
  | Scalar d c => Some ([d], [c], d, Discrete)
  | Sampled ts cs =>
      if Nat.eqb (length ts) (S (length cs)) then            (* len(tlist) - 1 == len(coeff) *)
        match ts with
        | t0 :: t1 :: _ => Some (tl ts, cs, t1 - t0, Discrete)
        | _ => None                                          (* tlist[1] : IndexError *)
        end
      else if Nat.eqb (length ts) (length cs) then           (* len(tlist) == len(coeff) *)
        match ts with
        | t0 :: t1 :: _ => Some (tl ts, tl cs, t1 - t0, Continuous)
        | _ => None
        end
      else None                                              (* ValueError *)
  end.

(* np.linspace(a, b, 10) *)
Definition linspace10 (a b : Q) : list Q :=
  map (fun k => a + inject_Z (Z.of_nat k) * ((b - a) / 9)) (seq 0 10).

(* np.arange(a, b, step), step <> 0 *)
Definition arange (a b step : Q) : list Q :=
  map (fun k => a + inject_Z (Z.of_nat k) * step)
      (seq 0 (Z.to_nat (Qceiling ((b - a) / step)))).

(* _process_idling_tlist *)
Definition idle_tlist (m : mode) (start last step : Q) : option (list Q) :=
  match m with
  | Continuous =>
      if Qlt_b (3 * step) (start - last) then
        Some (linspace10 (last + step / 5) (last + step) ++ linspace10 (start - step) start)
      else if Qeq_bool step 0 then None                       (* arange with step 0 raises *)
      else Some (arange (last + step) start step)
  | Discrete => Some [start]
  end.

Definition zeros (l : list Q) : list Q := map (fun _ => 0) l.

Definition qmin_opt (ms : option Q) (s : Q) : option Q :=
  match ms with
  | None => Some s                                           (* min(s, inf) *)
  | Some m => if Qlt_b m s then Some m else Some s           (* min(s, m) *)
  end.

Fixpoint last_opt (l : list Q) : option Q :=
  match l with
  | [] => None
  | [x] => Some x
  | _ :: r => last_opt r
  end.

(* threshold of the idle-gap test as a function of the step size of the instruction being placed *)
Definition gap_tol (gx : bool) (res : Q) (step : Q) : Q := if gx then res else step * tol.

(* inner loop of _concatenate_pulses for one channel.
   first : "no pulse has been placed on this channel yet" (only read when fx = true)
   last  : last_pulse_time;  ms : min_step_size (None = inf);  md : the variable pulse_mode
   result: (times appended, coefficients appended, min_step_size, pulse_mode) *)
Fixpoint concat_chan (fx : bool) (gtl : Q -> Q) (first : bool) (last : Q) (ms : option Q) (md : option mode)
         (instrs : list pinstr) : option (list Q * list Q * option Q * option mode) :=
  match instrs with
  | [] => Some ([], [], ms, md)
  | i :: rest =>
      match process_gate_pulse (p_wave i) with
      | None => None
      | Some (gt, co, step, m) =>
          let ms' := qmin_opt ms step in
          let isfirst := if fx then first else Qlt_b (Qabs last) (step * tol) in
          let h_t := if isfirst then [0] else [] in
          let h_c := if isfirst then match m with Continuous => [0] | Discrete => [] end else [] in
          match (if Qlt_b (gtl step) (Qabs (p_start i - last))
                 then idle_tlist m (p_start i) last step else Some []) with
          | None => None
          | Some idl =>
              let ex := map (fun x => x + p_start i) gt in     (* gate_tlist + start_time *)
              match last_opt ex with
              | None => None                                   (* execution_time[-1] *)
              | Some last' =>
                  match concat_chan fx gtl false last' ms' (Some m) rest with
                  | None => None
                  | Some (ts, cs, ms'', md'') =>
                      Some (h_t ++ idl ++ ex ++ ts, h_c ++ zeros idl ++ co ++ cs, ms'', md'')
                  end
              end
          end
      end
  end.

(* outer loop over the channels; min_step_size and pulse_mode are threaded through *)
Fixpoint concat_all (fx : bool) (gtl : Q -> Q) (ms : option Q) (md : option mode) (chs : list (list pinstr))
  : option (list (list Q * list Q) * option Q * option mode) :=
  match chs with
  | [] => Some ([], ms, md)
  | c :: r =>
      match concat_chan fx gtl true 0 ms md c with
      | None => None
      | Some (ts, cs, ms', md') =>
          match concat_all fx gtl ms' md' r with
          | None => None
          | Some (out, ms'', md'') => Some ((ts, cs) :: out, ms'', md'')
          end
      end
  end.

Fixpoint qmax_list (l : list Q) : option Q :=
  match l with
  | [] => None
  | x :: r => match qmax_list r with
              | None => Some x
              | Some m => if Qlt_b x m then Some m else Some x
              end
  end.

Fixpoint all_some {A} (l : list (option A)) : option (list A) :=
  match l with
  | [] => Some []
  | None :: _ => None
  | Some x :: r => match all_some r with None => None | Some r' => Some (x :: r') end
  end.

(* final padding of one channel; uses the global min_step_size and the LEAKED pulse_mode *)
Definition pad (ms : Q) (md : mode) (final : Q) (tc : list Q * list Q) : option (list Q * list Q) :=
  let (ts, cs) := tc in
  match last_opt ts with
  | None => Some (ts, cs)                                      (* `continue` *)
  | Some last =>
      if Qlt_b (ms * tol) (Qabs (final - last)) then
        match idle_tlist md final last ms with
        | None => None
        | Some idl => Some (ts ++ idl, cs ++ zeros idl)
        end
      else Some (ts, cs)
  end.

(* end time of one entry: start_time + (tlist if np.isscalar(tlist) else tlist[-1]) *)
Definition entry_end (p : pinstr) : option Q :=
  match p_wave p with
  | Scalar d _ => Some (p_start p + d)
  | Sampled ts _ => match last_opt ts with None => None | Some e => Some (p_start p + e) end
  end.

(* time_resolution = 1.0e-14 * max(end_times, default=0.0) *)
Definition resolution (chs : list (list pinstr)) : option Q :=
  match all_some (map entry_end (concat chs)) with
  | None => None                                               (* tlist[-1] of an empty tlist *)
  | Some ends => Some ((1 # 100000000000000) * match qmax_list ends with Some m => m | None => 0 end)
  end.

(* _concatenate_pulses *)
Definition concatenate_pulses (fx gx : bool) (chs : list (list pinstr)) : option (list (list Q * list Q)) :=
  match (if gx then resolution chs else Some 0) with
  | None => None
  | Some res =>
  match concat_all fx (gap_tol gx res) None None chs with
  | None => None
  | Some (out, ms, md) =>
      match all_some (map (fun tc => last_opt (fst tc)) out) with
      | None => None                                           (* tlist[-1] of an empty list *)
      | Some lasts =>
          match qmax_list lasts, ms, md with
          | Some final, Some ms, Some md => all_some (map (pad ms md final) out)
          | _, _, _ => None                                    (* np.max([]) raises *)
          end
      end
  end
  end.

(* ---- Instruction and compile -------------------------------------------------------------- *)

Inductive tlspec := TNone (dur : Q) | TScalar (d : Q) | TArr (ts : list Q).
Inductive cospec := CS (c : Q) | CA (cs : list Q).
Record instr := mkI { i_tl : tlspec; i_pulses : list (nat * cospec) }.   (* pulse names are numbered *)

(* Instruction.__init__ : duration *)
Definition duration (t : tlspec) : option Q :=
  match t with
  | TNone d => Some d
  | TScalar d => Some d
  | TArr ts => match ts with
               | [] => None
               | t0 :: _ => if Qlt_b (1 # 100000000) (Qabs t0) then None else last_opt ts
               end
  end.

Definition mk_wave (t : tlspec) (c : cospec) : option wave :=
  match t, c with
  | TScalar d, CS c => Some (Scalar d c)
  | TArr ts, CA cs => Some (Sampled ts cs)
  | _, _ => None
  end.

(* _schedule, branch `else` (no scheduling): prefix sums of the durations *)
Fixpoint starts_from (acc : Q) (durs : list Q) : list Q :=
  match durs with
  | [] => []
  | d :: r => acc :: starts_from (d + acc) r                  (* instruction.duration + start[-1] *)
  end.

(* _schedule, scheduled branch: np.argsort(start) as a stable insertion sort *)
Fixpoint insert_by_start {A} (x : Q * A) (l : list (Q * A)) : list (Q * A) :=
  match l with
  | [] => [x]
  | y :: r => if Qle_bool (fst x) (fst y) then x :: l else y :: insert_by_start x r
  end.
Definition order_by_start {A} (l : list (Q * A)) : list (Q * A) :=
  fold_right insert_by_start [] l.

(* pulse_ind_map / pulse_instructions: channels in order of first appearance *)
Fixpoint add_pulse (chs : list (nat * list pinstr)) (name : nat) (p : pinstr) : list (nat * list pinstr) :=
  match chs with
  | [] => [(name, [p])]
  | (n, l) :: r => if Nat.eqb n name then (n, l ++ [p]) :: r else (n, l) :: add_pulse r name p
  end.

Definition add_instr (chs : option (list (nat * list pinstr))) (si : Q * instr) :=
  fold_left (fun chs nc =>
               match chs, mk_wave (i_tl (snd si)) (snd nc) with
               | Some chs, Some w => Some (add_pulse chs (fst nc) (mkP (fst si) w))
               | _, _ => None
               end) (i_pulses (snd si)) chs.

Definition build_channels (sil : list (Q * instr)) : option (list (nat * list pinstr)) :=
  fold_left add_instr sil (Some []).

(* compile, after the gate compilers have produced the instruction list.
   sched = None        : schedule_mode None/False
   sched = Some starts : start time of every instruction as returned by Scheduler.schedule *)
Definition compile (fx gx : bool) (sched : option (list Q)) (il : list instr)
  : option (list (nat * (list Q * list Q))) :=
  match il with
  | [] => Some []                                               (* return None, None *)
  | _ =>
      match all_some (map (fun i => duration (i_tl i)) il) with
      | None => None
      | Some durs =>
          let sil := match sched with
                     | None => combine (starts_from 0 durs) il
                     | Some st => order_by_start (combine st il)
                     end in
          match build_channels sil with
          | None => None
          | Some chs =>
              match concatenate_pulses fx gx (map snd chs) with
              | None => None
              | Some out => Some (combine (map fst chs) out)
              end
          end
      end
  end.

(* printing helper for the correspondence: reduced fractions as (numerator, denominator) *)
Definition qz (q : Q) : Z * Z := let r := Qred q in (Qnum r, Zpos (Qden r)).
Definition red_out (o : option (list (nat * (list Q * list Q)))) :=
  match o with
  | None => None
  | Some l => Some (map (fun x => (fst x, (map qz (fst (snd x)), map qz (snd (snd x))))) l)
  end.

(* ---- reading a compiled channel as a function of time ------------------------------------- *)

(* step function with breakpoints t0 :: ts and values cs: cs[k] on [t_k, t_(k+1)), 0 elsewhere *)
Fixpoint eval_segs (t0 : Q) (ts cs : list Q) (t : Q) : Q :=
  match ts, cs with
  | e :: ts', c :: cs' =>
      if Qlt_b t e then (if Qle_bool t0 t then c else 0) else eval_segs e ts' cs' t
  | _, _ => 0
  end.

Definition eval_step (tlist cs : list Q) (t : Q) : Q :=
  match tlist with
  | [] => 0
  | t0 :: ts => eval_segs t0 ts cs t
  end.

(* the waveform an instruction asks for, as (tlist, coeff) of a step function on local time *)
Definition wave_arrays (w : wave) : list Q * list Q :=
  match w with
  | Scalar d c => ([0; d], [c])
  | Sampled ts cs => (ts, cs)
  end.

Definition wave_end (w : wave) : Q := last (fst (wave_arrays w)) 0.

(* specification: the scheduled waveform of a channel = inside the window of an instruction its own
   step function (shifted to its start), zero outside all windows *)
Fixpoint spec_eval (l : list pinstr) (t : Q) : Q :=
  match l with
  | [] => 0
  | i :: r =>
      if Qle_bool (p_start i) t && Qlt_b t (p_start i + wave_end (p_wave i))
      then eval_step (fst (wave_arrays (p_wave i))) (snd (wave_arrays (p_wave i))) (t - p_start i)
      else spec_eval r t
  end.

(* ---- specification predicates (hypotheses of the theorems) -------------------------------- *)

Fixpoint incr_from (a : Q) (l : list Q) : Prop :=
  match l with
  | [] => True
  | x :: r => a < x /\ incr_from x r
  end.

(* a time grid increases strictly *)
Definition strictly_increasing (l : list Q) : Prop :=
  match l with
  | [] => True
  | x :: r => incr_from x r
  end.

Definition w_ts (w : wave) : list Q := fst (wave_arrays w).
Definition w_cs (w : wave) : list Q := snd (wave_arrays w).

Definition step_of (w : wave) : Q :=
  match w with
  | Scalar d _ => d
  | Sampled (t0 :: t1 :: _) _ => t1 - t0
  | Sampled _ _ => 0
  end.

Definition is_discrete (w : wave) : Prop := length (w_ts w) = S (length (w_cs w)).
Definition is_continuous (w : wave) : Prop := length (w_ts w) = length (w_cs w).

(* a well-formed instruction waveform: grid starts at 0, increases strictly, has at least one interval
   (so the duration is positive), and the coefficient array has one of the two admissible lengths *)
Definition wf_wave (w : wave) : Prop :=
  exists t0 r, w_ts w = t0 :: r /\ t0 == 0 /\ r <> [] /\ incr_from t0 r
               /\ (is_discrete w \/ is_continuous w).

Definition p_end (i : pinstr) : Q := p_start i + wave_end (p_wave i).

(* the instructions of one channel are well formed, ordered by start and do not overlap
   ([last] = end of the previous window, 0 for the first) *)
Fixpoint chain_ord (last : Q) (l : list pinstr) : Prop :=
  match l with
  | [] => True
  | i :: r => wf_wave (p_wave i) /\ last <= p_start i /\ chain_ord (p_end i) r
  end.

(* guard: every idle gap is either absent or larger than the threshold of the code's idle-gap test
   (gtl = fun step => step * 1e-6 for the unchanged code, gtl = fun _ => time_resolution after the fix) *)
Fixpoint gaps_ok (gtl : Q -> Q) (last : Q) (l : list pinstr) : Prop :=
  match l with
  | [] => True
  | i :: r => (p_start i == last \/ gtl (step_of (p_wave i)) < p_start i - last)
              /\ gaps_ok gtl (p_end i) r
  end.

(* the time resolution used by a successful compilation (0 when it is not defined) *)
Definition res_of (chs : list (list pinstr)) : Q :=
  match resolution chs with Some r => r | None => 0 end.

(* guard under which the unchanged first-pulse test is right: when an instruction that is not the
   first of its channel is reached, the time elapsed on the channel is at least 1e-6 * its step *)
Fixpoint ratio_ok (last : Q) (l : list pinstr) : Prop :=
  match l with
  | [] => True
  | i :: r => step_of (p_wave i) * tol <= last /\ ratio_ok (p_end i) r
  end.
