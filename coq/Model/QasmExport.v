(* Executable model of the OpenQASM exporter: qasm.py QasmOutput._qasm_output / _qasm_defns / _qasm_str / _qasm_number,
   circuit.py QubitCircuit._to_qasm, gateclass.py Gate._to_qasm, measurement.py Measurement._to_qasm, and
   circuit_to_qasm_str.  None = an exception is raised (the export is refused).  Definitions only.
   Gate parameters are Python values None | int | float | list | tuple | ndarray; the text of repr(float) is an
   ORACLE: a float is given by the shape of its repr ([-]d.d, [-]d[.d]e+-dd, inf, nan).
   The tables [export_names], [export_defns] are regenerated from qasm.py on every run (Gen/Qasm.v).
   The model describes the tree with the proposed fixes C10-* applied; the formatting of the unchanged code is kept
   at the end for the refutation lemmas.  The measure statement is printed as the code prints it (no ';'). *)
From QV Require Export Spec.Qasm.
From QV Require Import Gen.Qasm Model.QasmImport.
Local Open Scope nat_scope.
Local Open Scope list_scope.
Local Open Scope string_scope.

Inductive fshape :=
| FDec (neg : bool) (ip fp : string)                                        (* [-]ip.fp        *)
| FExp (neg : bool) (ip : string) (fp : option string) (eneg : bool) (ed : string)   (* [-]ip[.fp]e(+|-)ed *)
| FInf (neg : bool) | FNan.
Inductive pynum := NInt (neg : bool) (n : nat) | NFloat (f : fshape).
Inductive pyval := PNone | PNum (x : pynum) | PList (l : list pynum) | PTuple (l : list pynum) | PArray (l : list pynum).

Inductive eop :=
| EGate (name : string) (targets controls : list nat) (arg : pyval) (cc : bool)   (* cc: classical_controls is truthy *)
| EMeas (target : nat) (store : option nat).
Record ecirc := mkEC { e_N : nat; e_ncb : nat; e_ops : list eop }.

Definition sgn (neg : bool) : string := if neg then "-" else "".
(* repr(float(x)) *)
Definition repr_float (f : fshape) : string :=
  match f with
  | FDec neg ip fp => sgn neg ++ ip ++ "." ++ fp
  | FExp neg ip fp eneg ed => sgn neg ++ ip ++ (match fp with Some d => "." ++ d | None => "" end) ++ "e" ++ (if eneg then "-" else "+") ++ ed
  | FInf neg => sgn neg ++ "inf"
  | FNan => "nan"
  end.
(* _qasm_number: integers as they are, reals always with a decimal point, inf/nan refused *)
Definition qasm_number (x : pynum) : option string :=
  match x with
  | NInt neg n => Some (sgn neg ++ str_nat n)
  | NFloat (FDec neg ip fp) => Some (sgn neg ++ ip ++ "." ++ fp)
  | NFloat (FExp neg ip fp eneg ed) =>
      Some (sgn neg ++ ip ++ "." ++ (match fp with Some d => d | None => "0" end) ++ "e" ++ (if eneg then "-" else "+") ++ ed)
  | NFloat (FInf _) | NFloat FNan => None
  end.
Fixpoint join (sep : string) (l : list string) : string :=
  match l with [] => "" | [x] => x | x :: l' => x ++ sep ++ join sep l' end.
(* the parameter text of _qasm_str; "" = no parameter list is printed *)
Definition args_text (a : pyval) : option string :=
  match a with
  | PNone => Some ""
  | PNum x => qasm_number x
  | PList l | PTuple l | PArray l => match omap qasm_number l with Some ts => Some (join "," ts) | None => None end
  end.
Definition qreg_text (i : nat) : string := "q[" ++ str_nat i ++ "]".
(* _qasm_str(q_name, q_controls, q_targets, q_args) for integer targets; q_targets[0] raises on an empty list *)
Definition qasm_str (q_name : string) (controls targets : list nat) (a : pyval) : option string :=
  match targets with
  | [] => None
  | _ => match args_text a with
         | Some "" => Some (q_name ++ " " ++ join "," (map qreg_text (List.app controls targets)) ++ ";")
         | Some t => Some (q_name ++ "(" ++ t ++ ") " ++ join "," (map qreg_text (List.app controls targets)) ++ ";")
         | None => None end
  end.

(* lower-case of the upper-case gate names *)
Definition lower_ascii (c : Ascii.ascii) : Ascii.ascii :=
  let n := Ascii.nat_of_ascii c in if Nat.leb 65 n && Nat.leb n 90 then Ascii.ascii_of_nat (n + 32) else c.
Fixpoint lower (s : string) : string := match s with EmptyString => EmptyString | String c s' => String (lower_ascii c) (lower s') end.

(* first loop of QubitCircuit._to_qasm: definitions of the gates without a qelib1 counterpart.
   map = QasmOutput.gate_name_map (newest first) *)
Fixpoint defs_pass (map : list (string * string)) (ops : list eop) : option (list (string * string) * list string) :=
  match ops with
  | [] => Some (map, [])
  | EMeas _ _ :: ops' => defs_pass map ops'
  | EGate name _ _ _ _ :: ops' =>
      match sassoc name map with
      | Some _ => defs_pass map ops'
      | None =>
          match sassoc name export_defns with
          | Some d =>
              match defs_pass ((name, lower name) :: map) ops' with
              | Some (m, ls) => Some (m, ("// QuTiP definition for gate " ++ name) :: d :: ls)
              | None => None end
          | None => None                      (* _qasm_defn_resolve raises *)
          end
      end
  end.
(* Measurement._to_qasm: the statement is emitted WITHOUT the terminating ';' (pinned by tests/test_qasm.py::test_qasm_str;
   open known finding measure-without-semicolon) *)
Definition meas_text (t c : nat) : string := "measure q[" ++ str_nat t ++ "] -> c[" ++ str_nat c ++ "]".
(* second loop: one statement per operation *)
Definition op_text (map : list (string * string)) (o : eop) : option string :=
  match o with
  | EGate name targets controls a cc =>
      match sassoc name map with
      | Some "" | None => None                (* "... gate's qasm defn is not specified" *)
      | Some q => if cc then None             (* "Exporting controlled gates is not implemented yet." *)
                  else qasm_str q controls targets a
      end
  | EMeas t (Some c) => Some (meas_text t c)
  | EMeas _ None => None
  end.
(* the lines of QasmOutput._qasm_output *)
Definition export_lines (c : ecirc) : option (list string) :=
  match defs_pass export_names (e_ops c) with
  | Some (map, defs) =>
      match omap (op_text map) (e_ops c) with
      | Some stmts =>
          Some (List.app ["// QASM 2.0 file generated by QuTiP"; ""; "OPENQASM 2.0;"; "include ""qelib1.inc"";"; "";
                          "qreg q[" ++ str_nat (e_N c) ++ "];"]
                (List.app (if Nat.eqb (e_ncb c) 0 then [] else ["creg c[" ++ str_nat (e_ncb c) ++ "];"])
                (List.app [""] (List.app defs stmts))))
      | None => None end
  | None => None
  end.
Definition nl : string := String (Ascii.ascii_of_nat 10) EmptyString.
(* circuit_to_qasm_str *)
Definition export (c : ecirc) : option string :=
  match export_lines c with Some ls => Some (fold_right (fun l acc => l ++ nl ++ acc) "" ls) | None => None end.

(* ================= as in the unchanged code ================= *)
(* truthiness of a Python value; str() of it *)
Definition is_zero_float (f : fshape) : bool :=
  match f with
  | FDec _ ip fp => forallb (fun c => Nat.eqb (Ascii.nat_of_ascii c) 48) (list_ascii_of_string (ip ++ fp))
  | _ => false end.
Definition truthy_num (x : pynum) : bool := match x with NInt _ n => negb (Nat.eqb n 0) | NFloat f => negb (is_zero_float f) end.
Definition str_num (x : pynum) : string := match x with NInt neg n => sgn neg ++ str_nat n | NFloat f => repr_float f end.
(* _qasm_str of the unchanged code; None = raises (ndarray of more than one element has no truth value) *)
Definition args_text_unfixed (a : pyval) : option string :=
  match a with
  | PNone => Some ""
  | PNum x => Some (if truthy_num x then str_num x else "")
  | PList [] => Some ""
  | PList l => Some (join "," (map str_num l))
  | PTuple [] => Some ""
  | PTuple [x] => Some ("(" ++ str_num x ++ ",)")
  | PTuple l => Some ("(" ++ join ", " (map str_num l) ++ ")")
  | PArray [x] => Some (if truthy_num x then "[" ++ str_num x ++ "]" else "")
  | PArray _ => None
  end.
Definition qasm_str_unfixed (q_name : string) (controls targets : list nat) (a : pyval) : option string :=
  match targets with
  | [] => None
  | _ => match args_text_unfixed a with
         | Some "" => Some (q_name ++ " " ++ join "," (map qreg_text (List.app controls targets)) ++ ";")
         | Some t => Some (q_name ++ "(" ++ t ++ ") " ++ join "," (map qreg_text (List.app controls targets)) ++ ";")
         | None => None end
  end.
(* a circuit without measurements (guard of the validity statement) *)
Definition no_meas (c : ecirc) : bool := forallb (fun o => match o with EMeas _ _ => false | _ => true end) (e_ops c).
