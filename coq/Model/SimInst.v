(* C02 -- the concrete n-qubit instance of Model/Sim.v that the correspondence harness runs
   (exact arithmetic over canonical rationals Qc).   Definitions only.

   ket  (k, v)  denotes  sqrt(k) * v   (k > 0 rational weight, v : 2^n Gaussian-rational amplitudes, qubit 0 =
   most significant index bit, as in qutip).  A gate is  M / sqrt(d)  (M Gaussian-rational, d > 0 rational) on
   the listed qubits (first listed = most significant matrix index bit): X, Y, Z, S, SNOT (d = 2), CNOT, CZ, SWAP,
   TOFFOLI and the rational rotation [[3,-4],[4,3]]/5 are all of this form, so every probability and every
   renormalisation is exact.  Density matrices are 4^n amplitudes indexed by (row bits ++ column bits). *)
From Coq Require Import List Arith NArith Bool QArith Qcanon.
From QV Require Import Model.Sim.
Import ListNotations.
Local Open Scope Qc_scope.

Definition C := (Qc * Qc)%type.
Definition c0 : C := (0, 0).
Definition cadd (a b : C) : C := (fst a + fst b, snd a + snd b).
Definition cmul (a b : C) : C := (fst a * fst b - snd a * snd b, fst a * snd b + snd a * fst b).
Definition cconj (a : C) : C := (fst a, - snd a).
Definition cn2 (a : C) : Qc := fst a * fst a + snd a * snd a.
Definition cscale (k : Qc) (a : C) : C := (k * fst a, k * snd a).
Definition csum (l : list C) : C := fold_right cadd c0 l.
Definition qsum (l : list Qc) : Qc := fold_right Qcplus 0 l.

Fixpoint all_bits (n : nat) : list (list bool) :=
  match n with
  | O => [[]]
  | S k => map (cons false) (all_bits k) ++ map (cons true) (all_bits k)
  end.
Definition idx (bs : list bool) : nat := fold_left (fun a b => 2 * a + Nat.b2n b)%nat bs 0%nat.
Definition getbits (x : list bool) (ts : list nat) : list bool := map (fun t => nth t x false) ts.
Fixpoint set_nth {A} (l : list A) (i : nat) (x : A) : list A :=
  match l, i with
  | [], _ => []
  | _ :: tl, O => x :: tl
  | y :: tl, S k => y :: set_nth tl k x
  end.
Fixpoint setbits (x : list bool) (ts : list nat) (y : list bool) : list bool :=
  match ts, y with
  | t :: ts', b :: y' => setbits (set_nth x t b) ts' y'
  | _, _ => x
  end.

Definition vec := list C.
Definition amp (v : vec) (x : list bool) : C := nth (idx x) v c0.
Definition mat := list (list C).
Definition mat_at (M : mat) (r c : nat) : C := nth c (nth r M []) c0.
Definition mconj (M : mat) : mat := map (map cconj) M.

(* (M on qubits ts) applied to a vector over n index bits *)
Definition vapply (n : nat) (M : mat) (ts : list nat) (v : vec) : vec :=
  map (fun x =>
         csum (map (fun y => cmul (mat_at M (idx (getbits x ts)) (idx y)) (amp v (setbits x ts y)))
                   (all_bits (length ts))))
      (all_bits n).

Definition vproj (n : nat) (sel : list bool -> bool) (v : vec) : vec :=
  map (fun x => if sel x then amp v x else c0) (all_bits n).

Record igate := mkIgate { g_div : Qc; g_mat : mat; g_ts : list nat }.
Definition ket := (Qc * vec)%type.

Definition i_gate (n : nat) (g : igate) (s : ket) : ket :=
  (fst s / g_div g, vapply n (g_mat g) (g_ts g) (snd s)).
Definition i_proj (n : nat) (q : nat) (b : bool) (s : ket) : ket :=
  (fst s, vproj n (fun x => Bool.eqb (nth q x false) b) (snd s)).
Definition i_nrm (s : ket) : Qc := fst s * qsum (map cn2 (snd s)).
Definition i_renorm (p : Qc) (s : ket) : ket := (fst s / p, snd s).

Definition dmat := list C.
Definition i_dm_of (n : nat) (s : ket) : dmat :=
  map (fun xy => cscale (fst s) (cmul (amp (snd s) (firstn n xy)) (cconj (amp (snd s) (skipn n xy)))))
      (all_bits (2 * n)).
Definition i_dzero (n : nat) : dmat := map (fun _ => c0) (all_bits (2 * n)).
Fixpoint map2 {A B D} (f : A -> B -> D) (l : list A) (m : list B) : list D :=
  match l, m with a :: l', b :: m' => f a b :: map2 f l' m' | _, _ => [] end.
Definition i_dadd (a b : dmat) : dmat := map2 cadd a b.
Definition i_dscale (k : Qc) (a : dmat) : dmat := map (cscale k) a.
Definition i_dgate (n : nat) (g : igate) (r : dmat) : dmat :=
  i_dscale (1 / g_div g)
    (vapply (2 * n) (mconj (g_mat g)) (map (fun t => n + t)%nat (g_ts g))
       (vapply (2 * n) (g_mat g) (g_ts g) r)).
Definition i_dproj (n : nat) (q : nat) (b : bool) (r : dmat) : dmat :=
  vproj (2 * n) (fun xy => Bool.eqb (nth q xy false) b && Bool.eqb (nth (n + q) xy false) b) r.
Definition i_dtr (n : nat) (r : dmat) : Qc :=
  qsum (map (fun x => fst (amp r (x ++ x))) (all_bits n)).

(* qutip: keep iff p >= atol (1e-12); qutip-qip: keep iff p > atol**2 *)
Definition atol : Q := 1 # 1000000000000.
Definition i_keepb (p : Qc) : bool :=
  Qle_bool atol (this p) && negb (Qle_bool (this p) (atol * atol)).

Definition inst (n : nat) : Sys :=
  mkSys Qc 0 1 Qcplus Qcmult Qcminus Qcopp Qcdiv Qcinv Qc_eq_bool Qcle i_keepb
        ket igate nat (i_gate n) (i_proj n) i_nrm i_renorm
        dmat (i_dm_of n) (i_dzero n) i_dadd i_dscale (i_dgate n) (i_dproj n) (i_dtr n).

Definition og (n : nat) (g : igate) (cc : option (list nat * N)) : op (inst n) := @OGate (inst n) g cc.
Definition om (n : nat) (q : nat) (store : option nat) : op (inst n) := @OMeas (inst n) q store.
Definition qc (a : Z) (b : positive) : Qc := Q2Qc (a # b).
Definition zc (a b : Z) : C := (qc a 1, qc b 1).

(* ---- drivers for the generated cases ---------------------------------------------------------- *)
(* numbers are printed as [numerator; denominator] (Coq would print some Q literals in decimal/hex notation) *)
Definition qout (x : Qc) : list Z := [Qnum (this x); Zpos (Qden (this x))].
Definition cout (z : C) : list Z := qout (fst z) ++ qout (snd z).
Definition ket_out (s : ket) : list Z * list (list Z) := (qout (fst s), map cout (snd s)).

Definition heap0 (cbarg : option (list nat)) : heap * option nat :=
  match cbarg with Some l => ([l], Some 0%nat) | None => ([], None) end.

Definition entry_out (h : heap) (e : option ket * Qc * option nat) :=
  (match fst (fst e) with Some s => Some (ket_out s) | None => None end,
   qout (snd (fst e)),
   snd e,
   match snd e with Some r => hget h r | None => None end).

(* run_statistics: entries (state, probability, list identity, list value at return time), caller's list afterwards *)
Definition case_stats (n : nat) (alias : bool) (ops : list (op (inst n))) (ncb : nat) (s0 : ket)
           (cbarg : option (list nat)) :=
  let (h, a) := heap0 cbarg in
  match run_statistics (inst n) alias (mkCirc ops ncb) s0 a h with
  | Err => None
  | Ok (h', es) => Some (map (entry_out h') es, hget h' 0)
  end.

Definition case_run (n : nat) (alias : bool) (ops : list (op (inst n))) (ncb : nat) (s0 : ket)
           (cbarg : option (list nat)) (mres : option (list bool)) (orc : list bool) :=
  let (h, a) := heap0 cbarg in
  match run (inst n) alias (mkCirc ops ncb) s0 a mres (fun k => nth k orc false) h with
  | Err => None
  | Ok (h', e) => Some (entry_out h' e, hget h' 0)
  end.

Definition case_dm (n : nat) (alias : bool) (ops : list (op (inst n))) (ncb : nat) (s0 : ket)
           (cbarg : option (list nat)) :=
  let (h, a) := heap0 cbarg in
  match dm_run (inst n) alias (mkCirc ops ncb) (i_dm_of n s0) a h with
  | Err => None
  | Ok (h', (rho, p, cb)) =>
    Some (map cout rho, qout p, cb, match cb with Some r => hget h' r | None => None end, hget h' 0)
  end.
