(* C13: executable model of ModelProcessor.transpile (device/modelprocessor.py) over
     - the device table Gen/Devices.v (regenerated from the processor classes on every run: native_gates, topology_map,
       the ORDER of the statements of transpile, the qubit-count threshold of _decompose_multi_qubit_gates),
     - the C07 routing model  Model/Route.v   (`Route.route Route.fixed` = to_chain_structure as it is in the tree),
     - the C03 decomposition model Model/Resolve.v (`resolve` = QubitCircuit.resolve_gates as it is in the tree).
   Definitions only.  A circuit is a list of C03 gates [mgate] (name, targets, controls, argument expressions over the
   parameters of the source gate, number of the source gate); every Python exception is [Error].

   The two sub-models use different gate records; [toR]/[fromR] convert.  Routing never looks at arg_value, it only
   copies it (swap-type gates) or drops it (CNOT/CSIGN, inserted SWAPs): the Route token `garg` of gate number i of the
   routed circuit is [Some i] (an index into that circuit), except for CNOT/CSIGN, which carry no argument ([None]). *)
From Coq Require Import List String Bool Arith ZArith.
From QV Require Import Found.Sym Model.ResolveTypes Gen.Decompose Model.Resolve Model.TranspileTypes Gen.Devices.
From QV Require Model.Route.
Import ListNotations.
Local Open Scope string_scope.

(* ---- conversion between the two gate records ------------------------------------------------------------------- *)
Definition tokenof (i : nat) (g : mgate) : option Z :=
  if Route.is_ctrl (gname g) then None else Some (Z.of_nat i).
Definition toR (i : nat) (g : mgate) : Route.gate :=
  Route.mkGate (gname g) (map Z.of_nat (gtargets g)) (map Z.of_nat (gcontrols g)) (tokenof i g).
Fixpoint toRs (i : nat) (c : list mgate) : list Route.gate :=
  match c with [] => [] | g :: r => toR i g :: toRs (S i) r end.
(* the argument a token stands for: the arg_value (and source number) of gate number k of the routed circuit *)
Definition arg_of (tbl : list mgate) (a : option Z) : list ex * nat :=
  match a with
  | Some k => match nth_error tbl (Z.to_nat k) with Some h => (gargs h, gsrc h) | None => ([], 0%nat) end
  | None => ([], 0%nat)
  end.
Definition fromR (tbl : list mgate) (g : Route.gate) : mgate :=
  let a := arg_of tbl (Route.garg g) in
  MG (Route.gname g) (map Z.to_nat (Route.gtargets g)) (map Z.to_nat (Route.gcontrols g)) (fst a) (snd a).

(* ---- the three statements of transpile --------------------------------------------------------------------------- *)
(* _decompose_multi_qubit_gates: a gate on more than [expand_threshold] qubits is replaced by
   QubitCircuit([gate]).resolve_gates(basis=native_gates).gates, every other gate is kept *)
Definition nqubits (g : mgate) : nat := List.length (gcontrols g) + List.length (gtargets g).
Definition big (g : mgate) : bool := Nat.ltb expand_threshold (nqubits g).
Definition expand_gate (b : basis_spec) (g : mgate) : result (list mgate) := if big g then resolve b [g] else Ok [g].
Definition expand (b : basis_spec) (c : list mgate) : result (list mgate) := rflat (expand_gate b) c.

(* topology_map = to_chain_structure(qc, setup) on the circuit's own width N *)
Definition topo_pass (tp : Route.topo) (N : nat) (c : list mgate) : result (list mgate) :=
  match Route.route Route.fixed tp (Z.of_nat N) (toRs 0 c) with
  | Some r => Ok (map (fromR c) r)
  | None => Error
  end.

(* the topology the circuit is routed on: a circuit narrower than the processor may be treated differently (a narrower
   circuit on a ring occupies an open segment of it) *)
Definition route_kind (d : device) (Ndev M : nat) : topo_kind :=
  if Nat.ltb M Ndev then match dnarrow d with Some t => t | None => dtopo d end else dtopo d.
(* the guard loop of topology_map: a gate of one of the names [dunrouted] must sit on neighbours targets[0], targets[1]
   (IndexError / TypeError when it has fewer than two targets) *)
Definition near_targets (g : mgate) : bool :=
  match gtargets g with
  | a :: b :: _ => Nat.eqb (S a) b || Nat.eqb (S b) a
  | _ => false
  end.
Definition unrouted_ok (d : device) (c : list mgate) : bool :=
  forallb (fun g => negb (mem (gname g) (dunrouted d)) || near_targets g) c.

(* [Ndev] = number of qubits of the processor, [M] = width of the circuit (qc.N) *)
Definition run_pass (d : device) (Ndev M : nat) (p : pass) (c : list mgate) : result (list mgate) :=
  match p with
  | PWidth => if Nat.ltb Ndev M then Error else Ok c
  | PExpand => match dnative d with Some l => expand (BList l) c | None => Ok c end
  | PTopology => match dtopo d with
                 | TopoNone => Ok c
                 | _ => if unrouted_ok d c then
                          match route_kind d Ndev M with
                          | TopoNone => Ok c
                          | TopoLinear => topo_pass Route.Linear M c
                          | TopoCircular => topo_pass Route.Circular M c
                          end
                        else Error
                 end
  | PResolve => match dnative d with Some l => resolve (BList l) c | None => Ok c end
  end.
Definition transpile_gen (ps : list pass) (d : device) (Ndev M : nat) (c : list mgate) : result (list mgate) :=
  fold_left (fun r p => rbind r (run_pass d Ndev M p)) ps (Ok c).
(* the code that exists: the order of the statements is read off the source by the translator *)
Definition transpile_on : device -> nat -> nat -> list mgate -> result (list mgate) := transpile_gen transpile_passes.
(* the common case: the circuit is as wide as the processor *)
Definition transpile (d : device) (N : nat) (c : list mgate) : result (list mgate) := transpile_on d N N c.
(* the code as it was found: topology map first, decomposition afterwards *)
Definition transpile_unfixed : device -> nat -> nat -> list mgate -> result (list mgate) := transpile_gen [PTopology; PResolve].

(* circuits may also hold measurements: both to_chain_structure (passes them on) and resolve_gates (refuses) see them;
   every processor of the table has native gates, so the circuit is refused *)
Definition transpile_ops (d : device) (Ndev M : nat) (ops : list op) : result (list mgate) :=
  if existsb (fun o => match o with OpMeasure => true | _ => false end) ops
  then match dnative d with Some _ => Error | None => Ok (gates_of ops) end
  else transpile_on d Ndev M (gates_of ops).

(* ---- the predicates of the property ------------------------------------------------------------------------------ *)
Definition qubits (g : mgate) : list nat := (gcontrols g ++ gtargets g)%list.
Definition in_range (N : nat) (g : mgate) : bool := forallb (fun q => Nat.ltb q N) (qubits g).
(* the pairs the hardware couples directly *)
Definition coupled (t : topo_kind) (N a b : nat) : bool :=
  (negb (a =? b) && (a <? N) && (b <? N) &&
  match t with
  | TopoNone => true                                                  (* any pair, through the cavity *)
  | TopoLinear => (S a =? b) || (S b =? a)                            (* neighbours on the open chain *)
  | TopoCircular => (S a mod N =? b) || (S b mod N =? a)              (* neighbours on the ring, (N-1, 0) included *)
  end)%nat.
(* a gate on fewer than two qubits, or a two-qubit gate on a coupled pair *)
Definition coupled_gate (t : topo_kind) (N : nat) (g : mgate) : bool :=
  match qubits g with
  | [] | [_] => true
  | [a; b] => coupled t N a b
  | _ => false
  end.
(* native gate of the device, or a phase / idle marker *)
Definition native_gate (d : device) (g : mgate) : bool :=
  match dnative d with
  | Some l => mem (gname g) l || (gname g =? "GLOBALPHASE") || (gname g =? "IDLE")
  | None => true
  end.

(* flat encoding for the correspondence harness *)
Definition device_of (n : string) : option device := find (fun d => dname d =? n) devices.
