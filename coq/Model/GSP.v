(* C01 - executable model of the compact gate-sequence product of
   qutip_qip/circuit/circuitsimulator.py: _mult_sublists, _expand_overall, _gate_sequence_product.

   Every block matrix is represented by a FORMAL CIRCUIT: a list of (id of the U_list entry, LOCAL qubit list).
   A block with index list [inds] of length k is a circuit over the local qubits 0..k-1; its meaning is the circuit
   placed through [inds] (local qubit j = qubit inds[j]).  On this representation
     qutip.tensor [A; B; ..]                     = concatenation with the local qubits of later factors shifted,
     expand_operator(M, dims=[2]*N, targets=T)   = relabelling j |-> T[j]   (after its checks: len T = arity of M,
                                                   all T[j] < N, no duplicates),
     A * B                                       = B's circuit followed by A's circuit.
   (These three readings are the trusted meaning of the external qutip functions; expand_operator itself is property C08.)
   Python [set] iteration order is the oracle [ord]: [ord a b] is the order in which
   [list(set(a).union(set(b)))] enumerates.  Definitions only. *)
From Coq Require Import List Arith Bool.
Import ListNotations.

Definition fgate := (nat * list nat)%type.
Definition fcirc := list fgate.
Definition block := (fcirc * list nat)%type.

Definition memb (x : nat) (l : list nat) : bool := existsb (Nat.eqb x) l.
Definition inter_nonempty (a b : list nat) : bool := existsb (fun x => memb x b) a.
Fixpoint nodupb (l : list nat) : bool :=
  match l with [] => true | x :: r => negb (memb x r) && nodupb r end.
(* first occurrences kept *)
Fixpoint dedup (l : list nat) : list nat :=
  match l with [] => [] | x :: r => x :: filter (fun y => negb (Nat.eqb y x)) (dedup r) end.

(* Python sorted(): stable insertion sort by key *)
Fixpoint insert_by {A} (key : A -> nat) (x : A) (l : list A) : list A :=
  match l with
  | [] => [x]
  | y :: r => if key y <? key x then y :: insert_by key x r else x :: y :: r
  end.
Definition sort_by {A} (key : A -> nat) (l : list A) : list A := fold_right (insert_by key) [] l.
Definition isort (l : list nat) : list nat := sort_by (fun x => x) l.
(* sorted(range(N), key=lambda k: l[k]) *)
Definition argsort (l : list nat) : list nat := map snd (sort_by fst (combine l (seq 0 (length l)))).

Fixpoint index_of (x : nat) (l : list nat) : option nat :=
  match l with
  | [] => None
  | y :: r => if Nat.eqb x y then Some 0 else option_map S (index_of x r)
  end.
(* dict built from zip(keys, values): the last binding of a key wins; a missing key is a KeyError *)
Fixpoint dict_get (x : nat) (kv : list (nat * nat)) : option nat :=
  match kv with
  | [] => None
  | (k, v) :: r => match dict_get x r with Some w => Some w | None => if Nat.eqb x k then Some v else None end
  end.
Fixpoint map_opt {A B} (f : A -> option B) (l : list A) : option (list B) :=
  match l with
  | [] => Some []
  | x :: r => match f x, map_opt f r with Some y, Some ys => Some (y :: ys) | _, _ => None end
  end.

Definition frelabel (f : nat -> nat) (c : fcirc) : fcirc := map (fun g => (fst g, map f (snd g))) c.
Definition fplace (ts : list nat) (c : fcirc) : fcirc := frelabel (fun j => nth j ts 0) c.
Definition fshift (d : nat) (c : fcirc) : fcirc := frelabel (fun j => d + j) c.

(* qutip.tensor of blocks (circuit, arity) *)
Fixpoint ftensor (off : nat) (bs : list (fcirc * nat)) : fcirc :=
  match bs with
  | [] => []
  | (c, k) :: r => fshift off c ++ ftensor (off + k) r
  end.
Definition with_arity (bs : list block) : list (fcirc * nat) := map (fun b => (fst b, length (snd b))) bs.

(* expand_operator(M, dims=[2]*N, targets=T) for an operator M on k qubits *)
Definition fexpand (k : nat) (c : fcirc) (N : nat) (T : list nat) : option fcirc :=
  if (length T =? k) && forallb (fun t => t <? N) T && nodupb T then Some (fplace T c) else None.

Section GSP.
Variable ord : list nat -> list nat -> list nat.

(* _mult_sublists(tensor_list, overall_inds, U, inds); blocks = zip(tensor_list, overall_inds) *)
Definition hits (inds : list nat) (b : block) : bool := inter_nonempty (snd b) inds.
(* the part after the partition loop: [hit] = intersecting blocks in list order, [keep] = the others *)
Definition mult_merge (hit keep : list block) (U : fcirc) (inds : list nat) : option (list block) :=
  let inds_sub := flat_map snd hit in
  let U_sub := ftensor 0 (with_arity hit) in
  let revised := ord inds_sub inds in
  let N := length revised in
  let ind_map := combine revised (argsort revised) in
  match map_opt (fun i => dict_get i ind_map) inds_sub, map_opt (fun i => dict_get i ind_map) inds with
  | Some t1, Some t2 =>
    match fexpand (length inds_sub) U_sub N t1, fexpand (length inds) U N t2 with
    | Some a, Some b => Some (keep ++ [(a ++ b, revised)])
    | _, _ => None
    end
  | _, _ => None
  end.
Definition mult_sublists (blocks : list block) (U : fcirc) (inds : list nat) : option (list block) :=
  match filter (hits inds) blocks with
  | [] => None                                             (* tensor([]) raises *)
  | _ => mult_merge (filter (hits inds) blocks) (filter (fun b => negb (hits inds b)) blocks) U inds
  end.

(* _expand_overall(tensor_list, overall_inds) *)
Definition expand_overall (blocks : list block) : option (fcirc * list nat) :=
  match blocks with
  | [] => None
  | _ =>
    let flat := flat_map snd blocks in
    match fexpand (length flat) (ftensor 0 (with_arity blocks)) (length flat) flat with
    | Some c => Some (c, isort flat)
    | None => None
    end
  end.

Definition covers (blocks : list block) (num_qubits : nat) : bool :=
  match blocks with [b] => length (snd b) =? num_qubits | _ => false end.

Definition rank_in (sorted_inds : list nat) (inds : list nat) : option (list nat) :=
  map_opt (fun i => index_of i sorted_inds) inds.

Definition back (sorted_inds : list nat) (res : fcirc * list nat) : fcirc * list nat :=
  (fst res, map (fun i => nth i sorted_inds 0) (snd res)).
Definition single (id : nat) (inds : list nat) : block := ([(id, seq 0 (length inds))], inds).

(* the for-loop of _gate_sequence_product; [rec] is the recursive call, [first] stands for the test U_overall == 1 *)
Fixpoint gsp_loop (rec : list (nat * list nat) -> option (fcirc * list nat)) (sorted_inds : list nat)
         (first : bool) (blocks : list block) (rest : list (nat * list nat)) : option (fcirc * list nat) :=
  match rest with
  | [] => option_map (back sorted_inds) (expand_overall blocks)
  | (id, inds) :: rest' =>
    if covers blocks (length sorted_inds) then
      match expand_overall blocks with
      | None => None
      | Some (U_overall, overall_inds) =>
        match rec rest with
        | None => None
        | Some (U_left, rem_inds) =>
          match fexpand (length rem_inds) U_left (length sorted_inds) rem_inds with
          | None => None
          | Some U_left' => Some (back sorted_inds (U_overall ++ U_left', overall_inds))
          end
        end
      end
    else if first then gsp_loop rec sorted_inds false [single id inds] rest'
    else if inter_nonempty (flat_map snd blocks) inds then
      match mult_sublists blocks [(id, seq 0 (length inds))] inds with
      | None => None
      | Some blocks' => gsp_loop rec sorted_inds false blocks' rest'
      end
    else gsp_loop rec sorted_inds false (blocks ++ [single id inds]) rest'
  end.

Definition nonempty_inds (gates : list (nat * list nat)) : bool :=
  forallb (fun g => match snd g with [] => false | _ => true end) gates.
Definition relabel_gates (sorted_inds : list nat) (gates : list (nat * list nat)) : option (list (nat * list nat)) :=
  map_opt (fun g => option_map (fun r => (fst g, r)) (rank_in sorted_inds (snd g))) gates.

(* the gates are (id, index list); [fuel] bounds the nesting of the recursive calls (each one is on a strictly
   shorter list).  None = the Python code raises (or the fuel ran out, which gsp_top's fuel excludes). *)
Fixpoint gsp (fuel : nat) (gates : list (nat * list nat)) : option (fcirc * list nat) :=
  match fuel with
  | 0 => None
  | S fuel' =>
    if nonempty_inds gates then
      let sorted_inds := isort (dedup (flat_map snd gates)) in
      match relabel_gates sorted_inds gates with
      | None => None
      | Some rel => gsp_loop (gsp fuel') sorted_inds true [] rel
      end
    else None
  end.
End GSP.

(* the oracle of the repaired code: sorted(set(a).union(set(b))) *)
Definition ord_sorted (a b : list nat) : list nat := isort (dedup (a ++ b)).

(* an oracle given by a finite table of observed enumerations (used by the correspondence harness to replay
   the order CPython actually produced); unobserved arguments enumerate ascending *)
Fixpoint list_eqb (a b : list nat) : bool :=
  match a, b with
  | [], [] => true
  | x :: a', y :: b' => Nat.eqb x y && list_eqb a' b'
  | _, _ => false
  end.
Fixpoint ord_table (tab : list ((list nat * list nat) * list nat)) (a b : list nat) : list nat :=
  match tab with
  | [] => ord_sorted a b
  | ((a', b'), r) :: t => if list_eqb a a' && list_eqb b b' then r else ord_table t a b
  end.

(* An entry with an EMPTY index list (the propagator of a GLOBALPHASE gate: a scalar matrix) is a scalar factor:
   the repaired _gate_sequence_product takes these entries out, multiplies the others and scales the result
   (phase * U_overall).  In a formal circuit such an entry is the gate (id, []): the scalar on no qubit.
   (The unchanged code raised ValueError here: [gsp] alone, with its guard [nonempty_inds].) *)
Definition is_empty (g : nat * list nat) : bool := match snd g with [] => true | _ => false end.
Definition gsp_any (ord : list nat -> list nat -> list nat) (fuel : nat) (gates : list (nat * list nat))
  : option (fcirc * list nat) :=
  if nonempty_inds gates then gsp ord fuel gates else
  let phases := filter is_empty gates in
  match filter (fun g => negb (is_empty g)) gates with
  | [] => Some (phases, [])
  | ne => match gsp ord fuel ne with
          | Some (c, inds) => Some (c ++ phases, inds)
          | None => None
          end
  end.

(* gate_sequence_product(U_list, inds_list=..., expand=True) for index lists [l] (entry i has id i) *)
Definition number {A} (l : list A) : list (nat * A) := combine (seq 0 (length l)) l.
Definition gsp_top (ord : list nat -> list nat -> list nat) (l : list (list nat)) : option (fcirc * list nat) :=
  gsp_any ord (S (length l)) (number l).
