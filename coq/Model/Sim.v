(* C02 -- executable model of qutip_qip/circuit/circuitsimulator.py (CircuitSimulator.initialize, step,
   _check_classical_control_value, _apply_measurement, run, run_statistics, CircuitResult) and
   operations/measurement.py (Measurement.measurement_comp_basis).     Definitions only.

   The quantum state space is ABSTRACT: a structure [Sys] with kets, gates, computational-basis
   projectors, a norm-square into a field [F], division of a ket by the square root of a probability
   ([renorm p s] = s / sqrt p), and density matrices with their linear operations.  The same definitions
   are (i) used abstractly by the theorems (under the laws [SysLaws] of Proofs/SimLaws.v) and (ii) run by
   the correspondence harness on the concrete n-qubit instance Model/SimInst.v (exact rationals).

   Python heap: classical-bit registers are list OBJECTS.  [heap] maps a location to the current value
   of a list object; the caller's `cbits` argument is a location.  [alias = true] is the code of the
   unchanged tree (initialize keeps the caller's list BY REFERENCE); [alias = false] is the code with
   fixes/C02-copy-cbits.diff applied (initialize copies the list).

   Python exceptions are [Err].  Classical indices are natural numbers (negative Python indices are not
   modelled; the generators never produce them). *)
From Coq Require Import List Arith NArith Bool.
Import ListNotations.

Record Sys := mkSys {
  F : Type;
  f0 : F; f1 : F;
  fadd : F -> F -> F; fmul : F -> F -> F; fsub : F -> F -> F; fopp : F -> F;
  fdiv : F -> F -> F; finv : F -> F;
  feqb : F -> F -> bool;                 (* python  x == 0 / x != 0 on floats *)
  fle : F -> F -> Prop;                  (* order of the field; used by the laws only *)
  keepb : F -> bool;                     (* the outcome survives the tolerance tests: qutip's `p >= atol`
                                            in measurement_statistics and `p > atol**2` in measurement_comp_basis *)
  St : Type;                             (* kets (any norm) *)
  Gt : Type;                             (* gates (already placed on their qubits) *)
  Qb : Type;                             (* qubit names *)
  gate : Gt -> St -> St;                 (* U |s> *)
  proj : Qb -> bool -> St -> St;         (* |b><b| on qubit q *)
  nrm : St -> F;                         (* <s|s> *)
  renorm : F -> St -> St;                (* s / sqrt p *)
  Dm : Type;                             (* operators / density matrices *)
  dm_of : St -> Dm;                      (* |s><s| (ket2dm) *)
  dzero : Dm;
  dadd : Dm -> Dm -> Dm;
  dscale : F -> Dm -> Dm;
  dgate : Gt -> Dm -> Dm;                (* U rho U^dagger *)
  dproj : Qb -> bool -> Dm -> Dm;        (* P rho P^dagger *)
  dtr : Dm -> F
}.

Inductive res (A : Type) := Ok (a : A) | Err.
Arguments Ok {A} a.
Arguments Err {A}.

(* ---- python lists ------------------------------------------------------------------------- *)
Fixpoint upd_nth {A} (l : list A) (i : nat) (x : A) : option (list A) :=
  match l, i with
  | [], _ => None
  | _ :: tl, 0 => Some (x :: tl)
  | y :: tl, S k => match upd_nth tl k x with Some tl' => Some (y :: tl') | None => None end
  end.

Definition heap := list (list nat).
Definition hget (h : heap) (r : nat) : option (list nat) := nth_error h r.
Definition halloc (h : heap) (l : list nat) : heap * nat := (h ++ [l], length h).
Definition hset (h : heap) (r : nat) (l : list nat) : option heap := upd_nth h r l.

Definition is_nil {A} (l : list A) : bool := match l with [] => true | _ => false end.

(* ---- _decimal_to_binary / _check_classical_control_value ------------------------------------ *)
(* "{0:#b}".format(v)[2:]  : binary digits, most significant first *)
Fixpoint pos_digits (p : positive) : list bool :=
  match p with
  | xH => [true]
  | xO p' => pos_digits p' ++ [false]
  | xI p' => pos_digits p' ++ [true]
  end.
Definition bin_digits (v : N) : list bool := match v with N0 => [false] | Npos p => pos_digits p end.
(* [0] * (length - len(binary)) + binary   (a negative repeat count gives []) *)
Definition dec_to_bin (v : N) (len : nat) : list bool :=
  repeat false (len - length (bin_digits v)) ++ bin_digits v.

(* the loop  matched[i] = cbits[classical_controls[i]] == cbits_conditions[i]
   cb = None is `self.cbits is None` (indexing it raises) *)
Fixpoint matched (cc : list nat) (conds : list bool) (cb : option (list nat)) : res (list bool) :=
  match cc with
  | [] => Ok []
  | i :: cc' =>
    match conds with
    | [] => Err
    | c :: conds' =>
      match cb with
      | None => Err
      | Some l =>
        match nth_error l i with
        | None => Err
        | Some x =>
          match matched cc' conds' cb with
          | Err => Err
          | Ok m => Ok (Nat.eqb x (Nat.b2n c) :: m)
          end
        end
      end
    end
  end.

Definition check_cc (cc : list nat) (v : N) (cb : option (list nat)) : res bool :=
  match matched cc (dec_to_bin v (length cc)) cb with
  | Err => Err
  | Ok m => Ok (forallb (fun b => b) m)
  end.

Section Model.
Variable X : Sys.

(* ---- circuits ------------------------------------------------------------------------------ *)
Inductive op :=
| OGate (g : Gt X) (cc : option (list nat * N))   (* classical_controls, classical_control_value *)
| OMeas (q : Qb X) (store : option nat).          (* targets[0], classical_store *)

Record circ := mkCirc { c_ops : list op; c_ncb : nat }.

Definition is_meas (o : op) : bool := match o with OMeas _ _ => true | _ => false end.
Definition nmeas (ops : list op) : nat := length (filter is_meas ops).

(* ---- Measurement.measurement_comp_basis (ket) ------------------------------------------------
   measurement_statistics gives P_b s / sqrt(p_b) and p_b = <s|P_b|s>; outcomes failing the tolerance
   tests become (None, 0.0) *)
Definition meas_out (q : Qb X) (s : St X) (b : bool) : option (St X) * F X :=
  let p := nrm X (proj X q b s) in
  if keepb X p then (Some (renorm X p (proj X q b s)), p) else (None, f0 X).

(* ---- simulator fields ------------------------------------------------------------------------ *)
Record mach := mkMach {
  m_st : option (St X);        (* self._state ; None after a zero-probability post-selection *)
  m_cb : option nat;           (* self.cbits : a list object (location) or None *)
  m_prob : F X;                (* self._probability *)
  m_mind : nat;                (* self._measure_ind *)
  m_rand : nat                 (* ghost: number of calls of np.random.choice so far *)
}.

Definition cur_cbits (h : heap) (m : mach) : res (option (list nat)) :=
  match m_cb m with
  | None => Ok None
  | Some r => match hget h r with Some l => Ok (Some l) | None => Err end
  end.

(* initialize: `if cbits and len(cbits) == num_cbits: self.cbits = cbits
               elif num_cbits > 0: self.cbits = [0] * num_cbits   else: self.cbits = None` *)
Definition initialize (alias : bool) (ncb : nat) (cbarg : option nat) (h : heap)
  : res (heap * option nat) :=
  let dflt := if Nat.ltb 0 ncb
              then let (h', r) := halloc h (repeat 0 ncb) in Ok (h', Some r)
              else Ok (h, None) in
  match cbarg with
  | None => dflt
  | Some r =>
    match hget h r with
    | None => Err
    | Some l =>
      if negb (is_nil l) && Nat.eqb (length l) ncb
      then if alias then Ok (h, Some r)
           else let (h', r') := halloc h l in Ok (h', Some r')
      else dflt
    end
  end.

(* `if self._measure_results:` -- None and the empty tuple are falsy *)
Definition truthy (mres : option (list bool)) : option (list bool) :=
  match mres with Some (b :: l) => Some (b :: l) | _ => None end.

(* self.cbits[classical_store] = i *)
Definition store_bit (store : option nat) (b : bool) (h : heap) (m : mach) : res heap :=
  match store with
  | None => Ok h
  | Some c =>
    match m_cb m with
    | None => Err
    | Some r =>
      match hget h r with
      | None => Err
      | Some l =>
        match upd_nth l c (Nat.b2n b) with
        | None => Err
        | Some l' => match hset h r l' with Some h' => Ok h' | None => Err end
        end
      end
    end
  end.

(* _apply_measurement, state-vector mode.  orc k = the outcome the random generator would like to
   return at its k-th call; np.random.choice never returns an outcome of probability 0. *)
Definition apply_meas (q : Qb X) (store : option nat) (mres : option (list bool)) (orc : nat -> bool)
           (h : heap) (m : mach) (s : St X) : res (heap * mach) :=
  let o0 := meas_out q s false in
  let o1 := meas_out q s true in
  let pick (b : bool) := if b then o1 else o0 in
  match truthy mres with
  | Some l =>
    match nth_error l (m_mind m) with
    | None => Err
    | Some b =>
      let m' := mkMach (fst (pick b)) (m_cb m) (fmul X (m_prob m) (snd (pick b))) (S (m_mind m)) (m_rand m) in
      match store_bit store b h m with Err => Err | Ok h' => Ok (h', m') end
    end
  | None =>
    let tot := fadd X (snd o0) (snd o1) in
    if feqb X tot (f0 X) then Err
    else
      let pr (b : bool) := fdiv X (snd (pick b)) tot in
      let w := orc (m_rand m) in
      let b := if feqb X (pr w) (f0 X) then negb w else w in
      let m' := mkMach (fst (pick b)) (m_cb m) (fmul X (m_prob m) (pr b)) (m_mind m) (S (m_rand m)) in
      match store_bit store b h m with Err => Err | Ok h' => Ok (h', m') end
  end.

(* step (state-vector mode); only called while the state is not None *)
Definition step (mres : option (list bool)) (orc : nat -> bool) (o : op) (h : heap) (m : mach)
  : res (heap * mach) :=
  match m_st m with
  | None => Err
  | Some s =>
    match o with
    | OMeas q store => apply_meas q store mres orc h m s
    | OGate g None =>
      Ok (h, mkMach (Some (gate X g s)) (m_cb m) (m_prob m) (m_mind m) (m_rand m))
    | OGate g (Some (cc, v)) =>
      match cur_cbits h m with
      | Err => Err
      | Ok cb =>
        match check_cc cc v cb with
        | Err => Err
        | Ok true => Ok (h, mkMach (Some (gate X g s)) (m_cb m) (m_prob m) (m_mind m) (m_rand m))
        | Ok false => Ok (h, m)
        end
      end
    end
  end.

(* the loop of run: step; `if self._state is None: break` *)
Fixpoint run_ops (mres : option (list bool)) (orc : nat -> bool) (ops : list op) (h : heap) (m : mach)
  : res (heap * mach) :=
  match ops with
  | [] => Ok (h, m)
  | o :: tl =>
    match step mres orc o h m with
    | Err => Err
    | Ok (h', m') =>
      match m_st m' with
      | None => Ok (h', m')
      | Some _ => run_ops mres orc tl h' m'
      end
    end
  end.

(* CircuitResult(self.state, self._probability, self.cbits) of one run: (state, probability, cbits) *)
Definition result1 := (option (St X) * F X * option nat)%type.

Definition run (alias : bool) (c : circ) (s0 : St X) (cbarg : option nat) (mres : option (list bool))
           (orc : nat -> bool) (h : heap) : res (heap * result1) :=
  match initialize alias (c_ncb c) cbarg h with
  | Err => Err
  | Ok (h1, cb) =>
    match run_ops mres orc (c_ops c) h1 (mkMach (Some s0) cb (f1 X) 0 0) with
    | Err => Err
    | Ok (h2, m) => Ok (h2, (m_st m, m_prob m, m_cb m))
    end
  end.

(* itertools.product("01", repeat=m): first measurement = slowest index *)
Fixpoint all_records (m : nat) : list (list bool) :=
  match m with
  | 0 => [[]]
  | S k => map (cons false) (all_records k) ++ map (cons true) (all_records k)
  end.

Fixpoint stats_loop (alias : bool) (c : circ) (s0 : St X) (cbarg : option nat) (recs : list (list bool))
         (h : heap) : res (heap * list result1) :=
  match recs with
  | [] => Ok (h, [])
  | r :: tl =>
    match run alias c s0 cbarg (Some r) (fun _ => false) h with
    | Err => Err
    | Ok (h', e) =>
      match stats_loop alias c s0 cbarg tl h' with
      | Err => Err
      | Ok (h'', es) => Ok (h'', e :: es)
      end
    end
  end.

Definition has_state (e : result1) : bool := match fst (fst e) with Some _ => true | None => false end.

(* run_statistics + the list branch of CircuitResult.__init__ (drops the None states) *)
Definition run_statistics (alias : bool) (c : circ) (s0 : St X) (cbarg : option nat) (h : heap)
  : res (heap * list result1) :=
  match stats_loop alias c s0 cbarg (all_records (nmeas (c_ops c))) h with
  | Err => Err
  | Ok (h', es) => Ok (h', filter has_state es)
  end.

(* what the caller can see of a result entry once everything has returned:
   the VALUE of the list object at that time *)
Definition view (h : heap) (e : result1) : option (St X) * F X * option (list nat) :=
  (fst (fst e), snd (fst e), match snd e with Some r => hget h r | None => None end).

(* ---- density-matrix mode ---------------------------------------------------------------------- *)
(* measurement_comp_basis on a density matrix: st = P rho P, p = tr st, kept: (st / p, p) *)
Definition dmeas_out (q : Qb X) (rho : Dm X) (b : bool) : option (Dm X * F X) :=
  let x := dproj X q b rho in
  let p := dtr X x in
  if keepb X p then Some (dscale X (finv X p) x, p) else None.

(* state = sum(p * s for s, p in zip(states, probabilities)) after filtering; the empty sum is the int 0 *)
Definition dm_meas (q : Qb X) (rho : Dm X) : res (Dm X) :=
  match dmeas_out q rho false, dmeas_out q rho true with
  | Some (s0, p0), Some (s1, p1) => Ok (dadd X (dscale X p0 s0) (dscale X p1 s1))
  | Some (s0, p0), None => Ok (dscale X p0 s0)
  | None, Some (s1, p1) => Ok (dscale X p1 s1)
  | None, None => Err
  end.

(* step in density-matrix mode: no classical bit is ever written, measure_results is ignored,
   _probability stays 1 *)
Definition dm_step (o : op) (cb : option (list nat)) (rho : Dm X) : res (Dm X) :=
  match o with
  | OMeas q _ => dm_meas q rho
  | OGate g None => Ok (dgate X g rho)
  | OGate g (Some (cc, v)) =>
    match check_cc cc v cb with
    | Err => Err
    | Ok true => Ok (dgate X g rho)
    | Ok false => Ok rho
    end
  end.

Fixpoint dm_ops (ops : list op) (cb : option (list nat)) (rho : Dm X) : res (Dm X) :=
  match ops with
  | [] => Ok rho
  | o :: tl => match dm_step o cb rho with Err => Err | Ok rho' => dm_ops tl cb rho' end
  end.

(* ---- density-matrix mode with classical control (fixes/C02-dm-classical-control.diff) ------------------------
   When the circuit has a classically controlled gate (non-empty control list) AND a measurement with a
   classical store, the ensemble is kept as a dict {tuple(cbits): unnormalised rho} (insertion ordered). *)
Definition bmap := list (list nat * Dm X).

(* branches[key] = branches.get(key, 0) + x *)
Fixpoint badd (k : list nat) (x : Dm X) (m : bmap) : bmap :=
  match m with
  | [] => [(k, x)]
  | (k', y) :: tl => if list_eq_dec Nat.eq_dec k' k then (k', dadd X y x) :: tl else (k', y) :: badd k x tl
  end.

(* new_cbits = list(cbits); new_cbits[classical_store] = i *)
Definition bkey (store : option nat) (b : bool) (k : list nat) : res (list nat) :=
  match store with
  | None => Ok k
  | Some c => match upd_nth k c (Nat.b2n b) with Some k' => Ok k' | None => Err end
  end.

(* what outcome b of one branch adds: nothing when the outcome is discarded, else (new key, p * rho_b) *)
Definition bcontrib (q : Qb X) (store : option nat) (kx : list nat * Dm X) (b : bool) : res bmap :=
  match dmeas_out q (snd kx) b with
  | None => Ok []
  | Some (s, p) => match bkey store b (fst kx) with Err => Err | Ok k' => Ok [(k', dscale X p s)] end
  end.

Fixpoint bcontribs (q : Qb X) (store : option nat) (m : bmap) : res bmap :=
  match m with
  | [] => Ok []
  | kx :: tl =>
    match bcontrib q store kx false, bcontrib q store kx true, bcontribs q store tl with
    | Ok a, Ok b, Ok c => Ok (a ++ b ++ c)
    | _, _, _ => Err
    end
  end.

Definition bmerge (cl : bmap) : bmap := fold_left (fun a kv => badd (fst kv) (snd kv) a) cl [].

Fixpoint bgate (g : Gt X) (cc : list nat) (v : N) (m : bmap) : res bmap :=
  match m with
  | [] => Ok []
  | (k, x) :: tl =>
    match check_cc cc v (Some k), bgate g cc v tl with
    | Ok f, Ok tl' => Ok ((k, if f then dgate X g x else x) :: tl')
    | _, _ => Err
    end
  end.

Definition dm_bstep (o : op) (m : bmap) : res bmap :=
  match o with
  | OMeas q store => match bcontribs q store m with Err => Err | Ok cl => Ok (bmerge cl) end
  | OGate g None => Ok (map (fun kx => (fst kx, dgate X g (snd kx))) m)
  | OGate g (Some (cc, v)) => bgate g cc v m
  end.

Fixpoint dm_bops (ops : list op) (m : bmap) : res bmap :=
  match ops with
  | [] => Ok m
  | o :: tl => match dm_bstep o m with Err => Err | Ok m' => dm_bops tl m' end
  end.

(* self._state = sum(branches.values()); an empty dict gives the int 0, which run() cannot return *)
Definition bsum (m : bmap) : res (Dm X) :=
  match map snd m with
  | [] => Err
  | v :: tl => Ok (fold_left (dadd X) tl v)
  end.

Definition cc_truthy (o : op) : bool := match o with OGate _ (Some (_ :: _, _)) => true | _ => false end.
Definition has_store (o : op) : bool := match o with OMeas _ (Some _) => true | _ => false end.
Definition dm_branching (ops : list op) : bool := existsb cc_truthy ops && existsb has_store ops.

(* the code of the tree BEFORE that fix: conditions tested against the initial register *)
Definition dm_run_orig (alias : bool) (c : circ) (rho0 : Dm X) (cbarg : option nat) (h : heap)
  : res (heap * (Dm X * F X * option nat)) :=
  match initialize alias (c_ncb c) cbarg h with
  | Err => Err
  | Ok (h1, cb) =>
    match (match cb with None => Ok None | Some r => match hget h1 r with Some l => Ok (Some l) | None => Err end end) with
    | Err => Err
    | Ok cbv =>
      match dm_ops (c_ops c) cbv rho0 with
      | Err => Err
      | Ok rho => Ok (h1, (rho, f1 X, cb))
      end
    end
  end.

(* CircuitSimulator(qc, mode="density_matrix_simulator").run(state, cbits) *)
Definition dm_run (alias : bool) (c : circ) (rho0 : Dm X) (cbarg : option nat) (h : heap)
  : res (heap * (Dm X * F X * option nat)) :=
  match initialize alias (c_ncb c) cbarg h with
  | Err => Err
  | Ok (h1, cb) =>
    match (match cb with None => Ok None | Some r => match hget h1 r with Some l => Ok (Some l) | None => Err end end) with
    | Err => Err
    | Ok cbv =>
      match cbv, dm_branching (c_ops c) with
      | Some cb0, true =>
        match dm_bops (c_ops c) [(cb0, rho0)] with
        | Err => Err
        | Ok m => match bsum m with Err => Err | Ok rho => Ok (h1, (rho, f1 X, cb)) end
        end
      | _, _ =>
        match dm_ops (c_ops c) cbv rho0 with
        | Err => Err
        | Ok rho => Ok (h1, (rho, f1 X, cb))
        end
      end
    end
  end.

End Model.

Arguments OGate {X} g cc.
Arguments OMeas {X} q store.
Arguments mkCirc {X} c_ops c_ncb.
