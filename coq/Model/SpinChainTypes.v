(* Types of the tables that tools/translate/spinchain_tr.py emits into Gen/SpinChain.v (property C06).
   Definitions only. *)
From Coq Require Import ZArith QArith String List.
From QV Require Import Found.Sym.

(* index arithmetic of the compiler / the model constructor *)
Inductive iex :=
| IN                 (* self.N / num_qubits *)
| IQ1 | IQ2          (* min(targets), max(targets) *)
| IT0                (* targets[0] *)
| ILoop              (* loop variable of _set_up_controls *)
| INumCoupling       (* self._get_num_coupling() *)
| IConst (z : Z)
| IAdd (a b : iex) | ISub (a b : iex) | IMod (a b : iex).

Inductive bex :=
| BEq (a b : iex) | BNe (a b : iex) | BAnd (a b : bex) | BOr (a b : bex) | BNot (a : bex)
| BSetup (s : string).          (* self.setup == s *)

(* result of a branch of the label choice *)
Inductive lres := LLabel (prefix : string) (i : iex) | LRaise.

(* the three kinds of control Hamiltonian *)
Inductive hkind := HX | HZ | HXY.     (* sigmax, sigmaz, XX+YY *)

(* what a gate compiler method does *)
Inductive method :=
| MRot (op_label param_label : string)     (* return self._rotation_compiler(gate, op_label, param_label, args) *)
| MSwap (area : ex)                        (* return self._swap_compiler(gate, area=area, args=args) *)
| MPhase                                   (* self.global_phase += gate.arg_value  (returns None) *)
| MIdle                                    (* return [Instruction(gate, gate.arg_value, [])] *)
| MNothing.                                (* pass *)

(* controls[prefix + str(n)] = (scale * operator(kind), targets)  for n in range(count) *)
Record ctrl_family := mkCF { cf_prefix : string; cf_kind : hkind; cf_scale : ex; cf_count : iex; cf_targets : list iex }.
