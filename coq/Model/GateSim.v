(* C01 - the remaining gate-level paths of QubitCircuit / CircuitSimulator on a register of N qubits, as dense
   matrices indexed by bit lists: user-gate lookup (_get_gate_unitary), propagators(expand=True/False),
   _gate_sequence_product_with_expansion, the density-matrix step U rho U^dagger.  Definitions only.
   TRUSTED reading of external functions: expand_operator(M, dims=[2]*N, targets=ts) is the matrix [emb N M ts]
   whose column c is M applied on the qubits ts of the basis vector c (property C08 is about that function);
   Qobj * Qobj is the matrix product; Qobj.dag() the conjugate transpose; globalphase(a, N) the scalar matrix. *)
From Coq Require Import ZArith String.
From QV Require Import Found.Base Model.Einsum.

Section Dense.
Variable O : Ops.
Infix "*" := (kmul O).
Definition dmat := list bool -> list bool -> O.

Definition emb (N : nat) (M : mat O) (ts : list nat) : dmat := fun r c => fapp N M ts (delta c) r.
Definition dscal (c : O) : dmat := fun r s => c * (if beqb r s then k1 O else k0 O).
Definition dmm (N : nat) (A B : dmat) : dmat := fun r c => ksum (map (fun m => A r m * B m c) (all_bits N)).
Definition dmv (N : nat) (A : dmat) (v : fvec O) : fvec O := fun r => ksum (map (fun c => A r c * v c) (all_bits N)).
Definition dadj (cj : O -> O) (A : dmat) : dmat := fun r c => cj (A c r).
Definition did : dmat := fun r c => if beqb r c then k1 O else k0 O.

(* propagators(expand=True): GLOBALPHASE -> gate.get_qobj(N) = globalphase(arg, N); else expand_operator(U, dims, all qubits) *)
Definition prop_expand (N : nat) (g : sgate O) : dmat :=
  match g with GPhase c => dscal c | GMat M ts => emb N M ts end.
(* propagators(expand=False): GLOBALPHASE still gives the FULL-SIZE scalar matrix (an N-qubit operator, so its
   index list is all N qubits); any other gate its compact matrix, to be used with get_all_qubits() *)
Definition prop_compact (N : nat) (g : sgate O) : mat O * list nat :=
  match g with GPhase c => (dscal c, seq 0 N) | GMat M ts => (M, ts) end.

(* _gate_sequence_product_with_expansion(U_list, left_to_right=True): U_overall = U * U_overall, starting from 1 *)
Definition gsp_expanded (N : nat) (Us : list dmat) : dmat := fold_left (fun acc U => dmm N U acc) Us did.

(* density-matrix mode: GLOBALPHASE is the complex number e^{i a} (U * rho * conj(U)), else U = expand_operator(...) *)
Definition dm_step (cj : O -> O) (N : nat) (g : sgate O) (rho : dmat) : dmat :=
  let U := prop_expand N g in dmm N (dmm N U rho) (dadj cj U).
Definition dm_run (cj : O -> O) (N : nat) (c : list (sgate O)) (rho : dmat) : dmat :=
  fold_left (fun r g => dm_step cj N g r) c rho.
Definition ket2dm (cj : O -> O) (v : fvec O) : dmat := fun r c => v r * cj (v c).

(* the specification circuit of a gate list: GLOBALPHASE = the 1x1 matrix on no qubit *)
Definition circ_of (c : list (sgate O)) : circ O :=
  map (fun g => match g with GPhase s => ((fun _ _ => s) : mat O, @nil nat) | GMat M ts => (M, ts) end) c.
End Dense.
Arguments emb {O}. Arguments dmm {O}. Arguments dmv {O}. Arguments dadj {O}. Arguments did {O}. Arguments dscal {O}.
Arguments prop_expand {O}. Arguments prop_compact {O}. Arguments gsp_expanded {O}. Arguments dm_step {O}.
Arguments dm_run {O}. Arguments ket2dm {O}. Arguments circ_of {O}.

(* ---- _get_gate_unitary: lookup of user gates ---- *)
Section Lookup.
Variable O : Ops.
Variable Arg : Type.
Inductive uentry :=
| UFun0 (M : mat O)                 (* function without parameter *)
| UFun1 (f : Arg -> mat O)          (* function of one parameter: called with gate.arg_value *)
| UFunMany                          (* function with more parameters: ValueError *)
| UOper (M : mat O)                 (* a fixed Qobj *)
| UOther.                           (* anything else: ValueError *)
Record pgate := mkPG { pg_name : string; pg_controls : option (list nat); pg_targets : option (list nat); pg_arg : Arg }.

Fixpoint assoc_s {B} (s : string) (l : list (string * B)) : option B :=
  match l with [] => None | (k, v) :: r => if String.eqb s k then Some v else assoc_s s r end.

(* [lib g] = gate.get_compact_qobj() of a library gate (property C09), None when it raises *)
Definition get_gate_unitary (user : list (string * uentry)) (lib : pgate -> option (mat O)) (g : pgate) : option (mat O) :=
  match assoc_s (pg_name g) user with
  | Some e =>
    match pg_controls g with
    | Some _ => None
    | None =>
      match e with
      | UFun0 M => Some M
      | UFun1 f => Some (f (pg_arg g))
      | UOper M => Some M
      | UFunMany | UOther => None
      end
    end
  | None => lib g
  end.

Definition all_qubits (g : pgate) : list nat :=
  match pg_controls g, pg_targets g with
  | Some c, Some t => c ++ t
  | Some c, None => c           (* controls + None raises in Python; never built by the harness *)
  | None, Some t => t
  | None, None => []
  end.

(* what the simulator does with one gate: GLOBALPHASE by name, else the looked-up matrix on get_all_qubits() *)
Definition resolve (user : list (string * uentry)) (lib : pgate -> option (mat O)) (phase : Arg -> O) (g : pgate)
  : option (sgate O) :=
  if String.eqb (pg_name g) "GLOBALPHASE" then Some (GPhase (phase (pg_arg g)))
  else match get_gate_unitary user lib g with Some M => Some (GMat M (all_qubits g)) | None => None end.
End Lookup.
Arguments UFun0 {O Arg}. Arguments UFun1 {O Arg}. Arguments UFunMany {O Arg}. Arguments UOper {O Arg}. Arguments UOther {O Arg}.

(* ---- exact scalars for the correspondence runs: Gaussian integers ---- *)
Definition gi := (Z * Z)%type.
Definition gi_add (a b : gi) : gi := (fst a + fst b, snd a + snd b)%Z.
Definition gi_mul (a b : gi) : gi := (fst a * fst b - snd a * snd b, fst a * snd b + snd a * fst b)%Z.
Definition gi_opp (a : gi) : gi := (- fst a, - snd a)%Z.
Definition gi_sub (a b : gi) : gi := gi_add a (gi_opp b).
Definition gi_conj (a : gi) : gi := (fst a, - snd a)%Z.
Definition GI : Ops := mkOps gi (0, 0)%Z (1, 0)%Z gi_add gi_mul gi_sub gi_opp.

(* tables <-> functions, for printing *)
Definition vec_of (O : Ops) (t : list O) : fvec O := fun r => nth (idx r) t (k0 O).
Definition tab_of_vec (O : Ops) (N : nat) (v : fvec O) : list O := map v (all_bits N).
Definition tab_of_dmat (O : Ops) (N : nat) (A : list bool -> list bool -> O) : list (list O) :=
  map (fun r => map (fun c => A r c) (all_bits N)) (all_bits N).
