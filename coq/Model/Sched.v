(* Executable model of qutip_qip/compiler/scheduler.py (InstructionsGraph, Scheduler) and of the parts of
   compiler/instruction.py the scheduler reads.  Shared by C11 (pulse timetables) and C05 (gate cycles).
   Definitions only; proofs are in Proofs/Sched*.v.

   Conventions
   * nodes are the positions 0..n-1 of the input list;
   * a Python `set` of node indices is a list; every place where the *iteration order* of a set (or the result
     of `random.shuffle`) can influence the result takes the order from an oracle argument
       sh : nat -> list nat -> list nat     (k-th call of shuffle on the list of available nodes)
       so : nat -> list nat -> list nat     (k-th iteration over a `successors` set)
     The oracle's answer is used only if it is a permutation of the argument (guard_perm), so the theorems
     quantify over ALL functions sh, so without side conditions.  The correspondence check runs the model with
     so = identity (ascending order: CPython iterates a set of distinct ints < 8 in ascending order) and with
     sh = the permutations the harness injected into the real code.
   * an exception of the Python code is `None`.
   * `fixed : bool` selects the pulse-timing code: false = qutip-qip as shipped, true = with
     fixes/C11-constraint-edges.diff applied (ordering edges between instructions of different cycles that the
     hardware constraint forbids to run in parallel).
   * the commutation predicate is a parameter `comm : nat -> nat -> bool` (comm j d = commuting(j, d, nodes));
     `commutation_rules` below is the library's instance (with fixes/C05-commutation-rules.diff and C05-role-order.diff) and
     `commutation_rules_orig` the shipped one. *)
From Coq Require Import String Ascii.
From Coq Require Import List Arith Bool QArith PeanoNat.
Import ListNotations.
Open Scope nat_scope.

(* ------------------------------------------------------------------------------------------------ *)
(* small list utilities                                                                               *)

Definition memb (x : nat) (l : list nat) : bool := existsb (Nat.eqb x) l.

Definition cart (A B : list nat) : list (nat * nat) :=
  flat_map (fun a => map (fun b => (a, b)) B) A.

Definition edgeb (E : list (nat * nat)) (u v : nat) : bool :=
  existsb (fun e => Nat.eqb (fst e) u && Nat.eqb (snd e) v) E.

Definition preds (E : list (nat * nat)) (v : nat) : list nat :=
  map fst (filter (fun e => Nat.eqb (snd e) v) E).

(* a `successors` set, in ascending order without repetition *)
Definition succs (n : nat) (E : list (nat * nat)) (v : nat) : list nat :=
  filter (fun w => edgeb E v w) (seq 0 n).

Definition swapE (E : list (nat * nat)) : list (nat * nat) := map (fun e => (snd e, fst e)) E.

Fixpoint count (l : list nat) (x : nat) : nat :=
  match l with [] => 0 | y :: r => (if Nat.eqb y x then 1 else 0) + count r x end.

Definition perm_check (l' l : list nat) : bool :=
  forallb (fun x => Nat.eqb (count l' x) (count l x)) (l ++ l').

Definition guard_perm (l' l : list nat) : list nat := if perm_check l' l then l' else l.

(* list.remove(x): first occurrence *)
Fixpoint remove1 (x : nat) (l : list nat) : list nat :=
  match l with [] => [] | y :: r => if Nat.eqb y x then r else y :: remove1 x r end.

(* stable insertion sort; lt a b = "a must come strictly before b" *)
Section Sort.
  Variable lt : nat -> nat -> bool.
  Fixpoint insert (x : nat) (l : list nat) : list nat :=
    match l with
    | [] => [x]
    | y :: r => if lt y x then y :: insert x r else x :: y :: r
    end.
  Fixpoint isort (l : list nat) : list nat :=
    match l with [] => [] | x :: r => insert x (isort r) end.
End Sort.

(* ------------------------------------------------------------------------------------------------ *)
(* InstructionsGraph.generate_dependency_graph                                                        *)
(* The Python loop runs over instructions and, inside, over the qubits each one uses; the per-qubit    *)
(* state (qubits_cycle_last[q], qubits_cycle_current[q]) is only touched by the users of q, and the    *)
(* edges form a set, so the result is the union over the qubits of the edges `blocks` computes for the *)
(* users of that qubit in program order.                                                               *)

Section Graph.
  Variable n : nat.
  Variable used : nat -> list nat.          (* Instruction.used_qubits *)
  Variable comm : nat -> nat -> bool.       (* comm j d = commuting(j, d, self.nodes) *)

  Fixpoint blocks (us last cur : list nat) (E : list (nat * nat)) : list (nat * nat) :=
    match us with
    | [] => cart last cur ++ E              (* final loop: _add_dependency(last, current) *)
    | j :: r =>
        if existsb (fun d => negb (comm j d)) cur
        then blocks r cur [j] (cart last cur ++ E)
        else blocks r last (cur ++ [j]) E
    end.

  Definition all_qubits : list nat := flat_map used (seq 0 n).

  (* max(set().union(...)) + 1 ; max() of an empty set raises ValueError *)
  Definition num_qubits : option nat :=
    match all_qubits with
    | [] => None
    | q :: r => Some (S (fold_right Nat.max q r))
    end.

  Definition users (q : nat) : list nat := filter (fun i => memb q (used i)) (seq 0 n).

  Definition dep_edges (nq : nat) : list (nat * nat) :=
    flat_map (fun q => blocks (users q) [] [] []) (seq 0 nq).
End Graph.

(* qubit_constraint(ind1, ind2) = False  <->  the used qubits intersect *)
Definition shares (used : nat -> list nat) (a b : nat) : bool :=
  existsb (fun q => memb q (used b)) (used a).

(* ------------------------------------------------------------------------------------------------ *)
(* InstructionsGraph.find_topological_order                                                           *)

Section ListSched.
  Variable n : nat.
  Variable E : list (nat * nat).            (* predecessors/successors of the deep-copied graph *)
  Variable conf : nat -> nat -> bool.       (* conf b a = not apply_constraint(b, a, nodes) *)
  Variables sh so : nat -> list nat -> list nat.
  Variables random priority constrained : bool.
  Variable prio_lt : nat -> nat -> bool.    (* _compare_priority(a, b) < 0 *)

  (* _add_dependency_among_commuting_gates: returns the cycle and the conflict edges (ind1 -> ind2) *)
  Fixpoint greedy (cands cyc : list nat) (ec : list (nat * nat)) : list nat * list (nat * nat) :=
    match cands with
    | [] => (cyc, ec)
    | b :: r =>
        match filter (fun a => conf b a) cyc with
        | [] => greedy r (cyc ++ [b]) ec
        | bad => greedy r cyc (ec ++ map (fun a => (a, b)) bad)
        end
    end.

  Definition ready (procd : list nat) (w : nat) : bool :=
    forallb (fun u => memb u procd) (preds E w).

  (* "for node in current_cycle: for successor_ind in graph[node].successors: remove node from the
     successor's predecessors; if none is left, append the successor to available_gates" *)
  Fixpoint release (cyc avail procd : list nat) (ko : nat) : list nat * list nat * nat :=
    match cyc with
    | [] => (avail, procd, ko)
    | v :: r =>
        let ws := guard_perm (so ko (succs n E v)) (succs n E v) in
        let procd' := procd ++ [v] in
        release r (avail ++ filter (ready procd') ws) procd' (S ko)
    end.

  Fixpoint rounds (fuel : nat) (avail procd : list nat) (cycles : list (list nat))
           (ec : list (nat * nat)) (ks ko : nat)
    : option (list (list nat) * list (nat * nat) * nat * nat) :=
    match avail with
    | [] => Some (cycles, ec, ks, ko)
    | _ :: _ =>
        match fuel with
        | 0 => None
        | S f =>
            let a1 := if random then guard_perm (sh ks avail) avail else avail in
            let ks' := if random then S ks else ks in
            let a2 := if priority then isort prio_lt a1 else a1 in
            let '(cyc, ec') := if constrained then greedy a2 [] ec else (a2, ec) in
            let av' := fold_left (fun l x => remove1 x l) cyc a2 in
            let '(av'', procd', ko') := release cyc av' procd ko in
            rounds f av'' procd' (cycles ++ [cyc]) ec' ks' ko'
        end
    end.

  Definition start_nodes : list nat := filter (fun v => match preds E v with [] => true | _ => false end) (seq 0 n).

  Definition find_topological_order (ks ko : nat) :=
    rounds n start_nodes [] [] [] ks ko.
End ListSched.

(* ------------------------------------------------------------------------------------------------ *)
(* InstructionsGraph.compute_distance                                                                 *)

Definition Qltb (a b : Q) : bool := negb (Qle_bool b a).
Definition qmax (a b : Q) : Q := if Qle_bool a b then b else a.

Fixpoint lookup (v : nat) (acc : list (nat * Q)) : option Q :=
  match acc with
  | [] => None
  | (u, x) :: r => if Nat.eqb u v then Some x else lookup v r
  end.

Fixpoint lookups (ps : list nat) (acc : list (nat * Q)) : option (list Q) :=
  match ps with
  | [] => Some []
  | p :: r => match lookup p acc, lookups r acc with
              | Some x, Some xs => Some (x :: xs)
              | _, _ => None          (* a predecessor's distance is still None: TypeError *)
              end
  end.

Section Dist.
  Variable P : nat -> list nat.             (* predecessors *)
  Variable dur : nat -> Q.
  (* _compute_distance_to_start over the flattened cycle list *)
  Fixpoint dist_go (order : list nat) (acc : list (nat * Q)) : option (list (nat * Q)) :=
    match order with
    | [] => Some acc
    | v :: r =>
        match P v with
        | [] => dist_go r ((v, dur v) :: acc)
        | ps => match lookups ps acc with
                | Some (x :: xs) => dist_go r ((v, fold_left qmax xs x + dur v)%Q :: acc)
                | _ => None
                end
        end
    end.
End Dist.

Definition all_some (n : nat) (acc : list (nat * Q)) : bool :=
  forallb (fun v => match lookup v acc with Some _ => true | None => false end) (seq 0 n).

Definition getd (acc : list (nat * Q)) (v : nat) : Q :=
  match lookup v acc with Some x => x | None => 0%Q end.

(* returns (distance_to_start, distance_to_end); None if a distance needed later would still be None *)
Definition compute_distance (n : nat) (E : list (nat * nat)) (dur : nat -> Q) (cycles : list (list nat))
  : option (list (nat * Q) * list (nat * Q)) :=
  match dist_go (preds E) dur (concat cycles) [] with
  | None => None
  | Some ds =>
      match dist_go (preds (swapE E)) dur (concat (rev cycles)) [] with
      | None => None
      | Some de => if all_some n ds && all_some n de then Some (ds, de) else None
      end
  end.

(* _compare_priority(a, b) < 0 : longer distance_to_end first, then shorter distance_to_start *)
Definition prio (ds de : list (nat * Q)) (a b : nat) : bool :=
  Qltb (getd de b) (getd de a) || (Qeq_bool (getd de b) (getd de a) && Qltb (getd ds a) (getd ds b)).

(* ------------------------------------------------------------------------------------------------ *)
(* Scheduler.schedule (one run, repeat_num = 0)                                                       *)

(* added by fixes/C11-constraint-edges.diff: an instruction must wait for every instruction of an EARLIER
   cycle that the hardware constraint forbids to run in parallel with it *)
Section FixEdges.
  Variable conf : nat -> nat -> bool.
  Fixpoint fix_edges (cycles : list (list nat)) (sched : list nat) : list (nat * nat) :=
    match cycles with
    | [] => []
    | c :: r => flat_map (fun b => map (fun a => (a, b)) (filter (fun a => conf b a) sched)) c
                ++ fix_edges r (sched ++ c)
    end.
End FixEdges.

Section Schedule.
  Variable n : nat.
  Variable used : nat -> list nat.
  Variable dur : nat -> Q.
  Variable comm : nat -> nat -> bool.
  Variable alap : bool.                     (* method == "ALAP" *)
  Variable random : bool.                   (* random_shuffle *)
  Variables sh so : nat -> list nat -> list nat.

  Record core_result := mkCore {
    cr_graph : list (nat * nat);            (* dependency edges of the working graph (reversed for ALAP) *)
    cr_cycles : list (list nat);            (* second find_topological_order, before any reversal *)
    cr_conf : list (nat * nat);             (* conflict edges written to self.nodes *)
    cr_ks : nat; cr_ko : nat }.

  Definition core (ks ko : nat) : option core_result :=
    match num_qubits n used with
    | None => None
    | Some nq =>
        let G := dep_edges n used comm nq in
        let W := if alap then swapE G else G in
        match find_topological_order n W (shares used) sh so random false false (fun _ _ => false) ks ko with
        | None => None
        | Some (cyc1, _, ks1, ko1) =>
            match compute_distance n W dur cyc1 with
            | None => None
            | Some (ds, de) =>
                match find_topological_order n W (shares used) sh so random true true (prio ds de) ks1 ko1 with
                | None => None
                | Some (cyc2, ec, ks2, ko2) => Some (mkCore W cyc2 ec ks2 ko2)
                end
            end
        end
    end.

  (* gates_schedule / return_cycles_list=True *)
  Definition schedule_cycles (ks ko : nat) : option (list (list nat) * nat * nat) :=
    match n with
    | 0 => Some ([], ks, ko)
    | _ => match core ks ko with
           | None => None
           | Some r => Some (if alap then rev (cr_cycles r) else cr_cycles r, cr_ks r, cr_ko r)
           end
    end.

  (* gate_cycles_indices[instruction_ind] = cycle_ind *)
  Fixpoint set_nth (i x : nat) (l : list nat) : list nat :=
    match l, i with
    | [], _ => []
    | _ :: r, 0 => x :: r
    | y :: r, S i' => y :: set_nth i' x r
    end.
  Fixpoint cycle_indices (cycles : list (list nat)) (ci : nat) (acc : list nat) : list nat :=
    match cycles with
    | [] => acc
    | c :: r => cycle_indices r (S ci) (fold_left (fun a i => set_nth i ci a) c acc)
    end.
  Definition schedule_indices (ks ko : nat) : option (list nat * nat * nat) :=
    match schedule_cycles ks ko with
    | None => None
    | Some (cycles, ks', ko') => Some (cycle_indices cycles 0 (repeat 0 n), ks', ko')
    end.

  (* pulse schedule: start time of every instruction *)
  Definition schedule_pulse (fixed : bool) (ks ko : nat) : option (list Q) :=
    match n with
    | 0 => Some []
    | _ =>
      match core ks ko with
      | None => None
      | Some r =>
          let EF := cr_graph r ++ cr_conf r ++
                    (if fixed then fix_edges (shares used) (cr_cycles r) [] else []) in
          match compute_distance n EF dur (cr_cycles r) with
          | None => None
          | Some (ds, de) =>
              Some (map (fun v => (getd (if alap then de else ds) v - dur v)%Q) (seq 0 n))
          end
      end
    end.
End Schedule.

(* ------------------------------------------------------------------------------------------------ *)
(* Instruction and the library's commutation rules                                                    *)

(* itargets / icontrols are the qubits the MATRIX of the gate treats as targets / controls, as computed by
   scheduler._controls_and_targets (fixes/C05-role-order.diff): with q = controls ++ targets in the order the gate lists
   them and nc = _NUM_CONTROLS[name], controls = sorted q[:nc], targets = sorted q[nc:] for the library names whose
   matrix is invariant under exchanging controls / targets among themselves (so TOFFOLI(targets=[0,1,2]) has controls
   [0;1], target [2]); for RZX and user-defined names the two lists exactly as the gate gives them (order matters).
   used_qubits is the same set in every case. *)
Record instr := mkInstr {
  iname : string;
  itargets : list nat;
  icontrols : list nat;
  iargs : list Q;           (* gate.arg_value: None = [], scalar = [x], sequence = its items *)
  idur : Q }.

Definition dummy_instr : instr := mkInstr "" [] [] [] 1.

Fixpoint dedup (l : list nat) : list nat :=
  match l with [] => [] | x :: r => if memb x r then dedup r else x :: dedup r end.

(* used_qubits = set(targets) | set(controls) *)
Definition iused (i : instr) : list nat := dedup (itargets i ++ icontrols i).

Fixpoint list_eqb (a b : list nat) : bool :=
  match a, b with
  | [], [] => true
  | x :: a', y :: b' => Nat.eqb x y && list_eqb a' b'
  | _, _ => false
  end.

Definition Qsame (a b : Q) : bool := Z.eqb (Qnum a * Z.pos (Qden b)) (Qnum b * Z.pos (Qden a)).
Fixpoint args_eqb (a b : list Q) : bool :=
  match a, b with
  | [], [] => true
  | x :: a', y :: b' => Qsame x y && args_eqb a' b'
  | _, _ => false
  end.

Definition name_in (s : string) (l : list string) : bool := existsb (String.eqb s) l.

(* rule for two instructions with different names *)
Definition rules_diff_name (a b : instr) : bool :=
  let '(x, y) := if String.ltb (iname b) (iname a) then (b, a) else (a, b) in   (* sorted(key=name) *)
  if String.eqb (iname x) "CNOT" && name_in (iname y) ["X"; "RX"]%string
  then list_eqb (itargets x) (itargets y)
  else if String.eqb (iname x) "CNOT" && name_in (iname y) ["Z"; "RZ"]%string
       then list_eqb (icontrols x) (itargets y)
       else false.

(* Scheduler.commutation_rules as shipped *)
Definition commutation_rules_orig (a b : instr) : bool :=
  if negb (String.eqb (iname a) (iname b)) then rules_diff_name a b
  else if (match icontrols a with [] => false | _ => true end) && list_eqb (icontrols a) (icontrols b)
       then true
       else list_eqb (itargets a) (itargets b).

(* with fixes/C05-commutation-rules.diff and fixes/C05-role-order.diff *)
Definition same_action (a b : instr) : bool :=
  (Nat.leb (length (iargs a)) 1 && Nat.leb (length (iargs b)) 1) || args_eqb (iargs a) (iargs b).

Definition disjointb (a b : list nat) : bool := negb (existsb (fun x => memb x b) a).

(* names with a rule: the keys of scheduler._NUM_CONTROLS, and RZX; every other name is a user-defined gate, which
   commutes only with an identical copy (fixes/C05-role-order.diff) *)
Definition rule_names : list string :=
  ["X"; "Y"; "Z"; "RX"; "RY"; "RZ"; "H"; "SNOT"; "SQRTNOT"; "S"; "T"; "R"; "QASMU"; "PHASEGATE"; "IDLE"; "SWAP"; "ISWAP";
   "iSWAP"; "SQRTSWAP"; "SQRTISWAP"; "SWAPALPHA"; "SWAPalpha"; "BERKELEY"; "MS";
   "CNOT"; "CX"; "CY"; "CZ"; "CSIGN"; "CS"; "CT"; "CRX"; "CRY"; "CRZ"; "CPHASE"; "FREDKIN"; "TOFFOLI"; "RZX"]%string.

Definition commutation_rules (a b : instr) : bool :=
  if negb (String.eqb (iname a) (iname b)) then rules_diff_name a b
  else if negb (name_in (iname a) rule_names)
  then list_eqb (icontrols a) (icontrols b) && list_eqb (itargets a) (itargets b) && args_eqb (iargs a) (iargs b)
  else if list_eqb (itargets a) (itargets b) then same_action a b
       else if (match icontrols a with [] => false | _ => true end) && list_eqb (icontrols a) (icontrols b)
            then disjointb (itargets a) (itargets b)
            else false.

(* ------------------------------------------------------------------------------------------------ *)
(* the scheduler on a list of instructions                                                            *)

Section OnInstrs.
  Variable commI : instr -> instr -> bool.
  Variable allow_permutation : bool.
  Variable instrs : list instr.
  Definition nI := length instrs.
  Definition usedI (i : nat) : list nat := iused (nth i instrs dummy_instr).
  Definition durI (i : nat) : Q := idur (nth i instrs dummy_instr).
  Definition commN (j d : nat) : bool :=
    if allow_permutation then commI (nth j instrs dummy_instr) (nth d instrs dummy_instr) else false.

  Definition sched_cycles alap random sh so ks ko := schedule_cycles nI usedI durI commN alap random sh so ks ko.
  Definition sched_indices alap random sh so ks ko := schedule_indices nI usedI durI commN alap random sh so ks ko.
  Definition sched_pulse alap random sh so fixed ks ko := schedule_pulse nI usedI durI commN alap random sh so fixed ks ko.

  (* repeat_num > 0: random_shuffle is forced; the first strictly better run wins *)
  Fixpoint repeat_indices (rep : nat) alap sh so (ks ko : nat) (best : list nat) (best_len : N)
    : option (list nat) :=
    match rep with
    | 0 => Some best
    | S rep' =>
        match sched_indices alap true sh so ks ko with
        | None => None
        | Some (idx, ks', ko') =>
            let cur := N.of_nat (fold_right Nat.max 0 idx) in
            if N.ltb cur best_len then repeat_indices rep' alap sh so ks' ko' idx cur
            else repeat_indices rep' alap sh so ks' ko' best best_len
        end
    end.
  Definition sched_repeat (rep : nat) alap sh so : option (list nat) :=
    match instrs with
    | [] => None                (* schedule returns [] and max([]) raises ValueError *)
    | _ => repeat_indices rep alap sh so 0 0 [0] 4294967296%N
    end.
End OnInstrs.

(* oracles used by the correspondence check *)
Definition so_asc (k : nat) (l : list nat) : list nat := l.
Definition sh_perms (perms : list (list nat)) (k : nat) (l : list nat) : list nat :=
  map (fun i => nth i l 0) (nth k perms []).
