(* C13: syntax of the device table emitted by tools/translate/devices_tr.py (data types only). *)
From Coq Require Import List String.

(* what `topology_map` of a processor class does *)
Inductive topo_kind :=
| TopoNone                (* not overridden: ModelProcessor.topology_map raises NotImplementedError, which transpile swallows *)
| TopoLinear              (* to_chain_structure(qc, "linear") *)
| TopoCircular.           (* to_chain_structure(qc, "circular") *)

Record device := mkDev {
  dname : string;                     (* class name *)
  dnative : option (list string);     (* self.native_gates (None = Python None) *)
  dtopo : topo_kind;                  (* what topology_map does for a circuit as wide as the processor *)
  dnarrow : option topo_kind;         (* `if qc.N < self.num_qubits: return to_chain_structure(qc, ..)` (None = no such test) *)
  dunrouted : list string }.          (* gates topology_map refuses (ValueError) unless targets[0], targets[1] are neighbours *)

(* the statements of ModelProcessor.transpile, in their order *)
Inductive pass :=
| PWidth                  (* if qc.N > self.num_qubits: raise ValueError *)
| PExpand                 (* if native_gates is not None: qc = self._decompose_multi_qubit_gates(qc) *)
| PTopology               (* try: qc = self.topology_map(qc)  except NotImplementedError: pass *)
| PResolve.               (* if native_gates is not None: qc = qc.resolve_gates(basis=self.native_gates) *)
