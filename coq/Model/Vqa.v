(* C19 -- executable model of qutip_qip/vqa.py (index bookkeeping of the VQA gradient).
   Definitions only.  Anchors: VQA.get_block_series, get_free_parameters_num, construct_circuit,
   get_unitary_products, cost_derivative, compute_jac, VQABlock.__init__/get_unitary/
   get_unitary_derivative.

   Angles are NAMES (nat); the angle vector handed to the code is a list of names, normally
   [0; 1; ...; L-1].  Operators live in an arbitrary algebra A (Section variables below); the same
   definitions are run (i) abstractly in the theorems and (ii) on the symbolic algebra [ex] by the
   correspondence harness, which evaluates the resulting expression trees numerically.

   [compute_jac]      = the code WITH fixes/C19-jac-per-parameter.diff applied (one entry per parameter)
   [compute_jac_orig] = the code as it is in the unchanged tree (one entry per parameterised block).  *)
From Coq Require Import List Arith Bool.
Import ListNotations.

(* ---- blocks (VQABlock.__init__) ----------------------------------------------------------- *)
Inductive kind :=
| KHam                          (* operator: Qobj, is_unitary=False  -> exp(-i theta H), 1 parameter *)
| KPH (m : nat)                 (* operator: multi-term parameterised Hamiltonian, m terms (class PH of vqa.py)*)
| KUnit                         (* operator: Qobj, is_unitary=True   -> fixed unitary, 0 parameters  *)
| KNative (needs_arg : bool)    (* operator: str (library gate); needs_arg = the gate wants an angle *)
| KFunc.                        (* operator: python function t -> unitary, 1 parameter               *)

Record block := mkBlock { b_kind : kind; b_initial : bool }.

Definition n_params (b : block) : nat :=
  match b_kind b with KHam => 1 | KPH m => m | KUnit => 0 | KNative _ => 0 | KFunc => 1 end.
Definition is_native (b : block) : bool := match b_kind b with KNative _ => true | _ => false end.
Definition is_unitary (b : block) : bool := match b_kind b with KUnit => true | _ => false end.

(* block identity = position in VQA.blocks (names are unique, enforced by add_block) *)
Definition iblocks (bs : list block) : list (nat * block) := combine (seq 0 (length bs)) bs.
Definition non_initial (ib : nat * block) : bool := negb (b_initial (snd ib)).
Definition is_initial (ib : nat * block) : bool := b_initial (snd ib).

(* get_block_series: all blocks, then for _ in range(1, num_layers): the non-initial blocks *)
Definition block_series (bs : list block) (layers : nat) : list (nat * block) :=
  iblocks bs ++ concat (repeat (filter non_initial (iblocks bs)) (layers - 1)).

Definition sum_params (l : list (nat * block)) : nat :=
  fold_right (fun ib acc => n_params (snd ib) + acc) 0 l.

(* get_free_parameters_num *)
Definition free_parameters_num (bs : list block) (layers : nat) : nat :=
  sum_params (filter is_initial (iblocks bs)) + sum_params (filter non_initial (iblocks bs)) * layers.

(* python slicing l[i:i+n] (truncates silently) *)
Definition pyslice {T} (l : list T) (i n : nat) : list T := firstn n (skipn i l).

(* ---- construct_circuit --------------------------------------------------------------------- *)
Inductive gate :=
| GNative (id : nat) (b : block)                          (* circ.add_gate(block.operator, targets=block.targets) *)
| GUser (id : nat) (b : block) (arg : option (list nat)). (* circ.add_gate(block.name, arg_value=...) *)

(* inner loop `for block in self.blocks` of one layer; returns the counter i and the gates added *)
Fixpoint cc_blocks (angles : list nat) (first_layer : bool) (ibs : list (nat * block)) (i : nat)
  : nat * list gate :=
  match ibs with
  | [] => (i, [])
  | (id, b) :: rest =>
      if b_initial b && negb first_layer then cc_blocks angles first_layer rest i
      else if is_native b then
        let (i', gs) := cc_blocks angles first_layer rest i in (i', GNative id b :: gs)
      else
        let n := n_params b in
        let (i', gs) := cc_blocks angles first_layer rest (i + n) in
        (i', GUser id b (if 0 <? n then Some (pyslice angles i n) else None) :: gs)
  end.

(* outer loop `for layer_num in range(self.num_layers)` *)
Fixpoint cc_layers (angles : list nat) (ibs : list (nat * block)) (remaining layer_num i : nat)
  : list gate :=
  match remaining with
  | 0 => []
  | S r => let (i', gs) := cc_blocks angles (layer_num =? 0) ibs i in
           gs ++ cc_layers angles ibs r (S layer_num) i'
  end.

Definition construct_circuit (bs : list block) (layers : nat) (angles : list nat) : list gate :=
  cc_layers angles (iblocks bs) layers 0 0.

Fixpoint mapM {X Y} (f : X -> option Y) (l : list X) : option (list Y) :=
  match l with
  | [] => Some []
  | x :: r => match f x with
              | None => None
              | Some y => match mapM f r with None => None | Some ys => Some (y :: ys) end
              end
  end.

Definition mem (j : nat) (l : list nat) : bool := existsb (Nat.eqb j) l.

(* ---- semantics over an arbitrary operator algebra ------------------------------------------- *)
Section Sem.
  Variable A : Type.
  Variables (one : A) (add mul : A -> A -> A) (dag : A -> A).
  Variable Sc : Type.                        (* scalars (real numbers) *)
  Variable ev : A -> Sc.                     (* X |-> Re <0..0| X |0..0> *)
  Variable obs : A.                          (* VQA.cost_observable *)
  Variable blockU : nat -> list nat -> A.    (* unitary of parameterised block id at the named angles *)
  Variable fixedU : nat -> A.                (* fixed unitary / expanded native gate of block id *)
  Variable blockdU : nat -> list nat -> nat -> A. (* what get_unitary_derivative(angles, term) returns *)

  (* VQABlock.get_unitary (None = raises) *)
  Definition get_unitary (id : nat) (b : block) (arg : option (list nat)) : option A :=
    match arg with
    | None => if is_unitary b then Some (fixedU id) else None
    | Some a =>
        if negb (length a =? n_params b) then None
        else match b_kind b with
             | KNative _ => None
             | KFunc => Some (blockU id a)
             | KPH _ => Some (blockU id a)
             | KHam => if negb (length a =? 1) then None else Some (blockU id a)
             | KUnit => None   (* falls to "Expected one angle" *)
             end
    end.

  (* VQABlock.get_unitary_derivative(angles, term_index) *)
  Definition get_unitary_derivative (id : nat) (b : block) (a : list nat) (t : nat) : option A :=
    if is_unitary b || is_native b then None
    else match b_kind b with
         | KPH m => if negb (length a =? m) then None
                    else if t <? m then Some (blockdU id a t) else None
         | KFunc => None     (* Qobj * function -> TypeError (also when len(angles) != 1) *)
         | _ => if negb (length a =? 1) then None else Some (blockdU id a 0)
         end.

  (* one propagator of circ.propagators(): user gate -> user_gates[name](arg_value);
     library gate -> its expanded matrix (a parameterised library gate has no arg_value: raises) *)
  Definition gate_prop (g : gate) : option A :=
    match g with
    | GNative id b => match b_kind b with KNative false => Some (fixedU id) | _ => None end
    | GUser id b arg => get_unitary id b arg
    end.

  Definition propagators (bs : list block) (layers : nat) (angles : list nat) : option (list A) :=
    mapM gate_prop (construct_circuit bs layers angles).

  (* gate_sequence_product: U = P_{n-1} ... P_1 P_0 *)
  Definition gate_sequence_product (props : list A) : A :=
    fold_left (fun acc p => mul p acc) props one.

  (* get_unitary_products: U_prods = [1, P0, P1 P0, ...], U_prods_back = [1, P_{n-1}, P_{n-1} P_{n-2}, ...] *)
  Fixpoint prods_fwd (props : list A) (acc : A) : list A :=
    match props with [] => [] | p :: r => let x := mul p acc in x :: prods_fwd r x end.
  Fixpoint prods_bwd (rprops : list A) (acc : A) : list A :=
    match rprops with [] => [] | p :: r => let x := mul acc p in x :: prods_bwd r x end.
  Definition U_prods (props : list A) : list A := one :: prods_fwd props one.
  Definition U_prods_back (props : list A) : list A := one :: prods_bwd (rev props) one.

  (* evaluate_parameters, OBSERVABLE mode: expect(obs, U|0>) *)
  Definition evaluate (bs : list block) (layers : nat) (angles : list nat) : option Sc :=
    match propagators bs layers angles with
    | None => None
    | Some props => let U := gate_sequence_product props in Some (ev (mul (mul (dag U) obs) U))
    end.

  (* cost_derivative(U, dU) *)
  Definition cost_derivative (U dU : A) : Sc :=
    ev (add (mul (mul (dag dU) obs) U) (mul (mul (dag U) obs) dU)).

  Section Jac.
    Variable angles : list nat.
    Variable idxs : list nat.
    Variable U : A.
    Variables fwd back : list A.
    Variable n : nat.                 (* len(U_prods) - 1 *)

    (* modify_unitary(k, X) = U_prods_back[n-1-k] * X * U_prods[k]; k >= n cannot happen (theorem) *)
    Definition modify_unitary (k : nat) (X : A) : option A :=
      if n <=? k then None
      else match nth_error back (n - 1 - k), nth_error fwd k with
           | Some bk, Some fw => Some (mul (mul bk X) fw)
           | _, _ => None
           end.

    (* FIXED code: for term_index in range(n_params): if i + term_index in indices_to_compute: ... *)
    Fixpoint jac_terms (id : nat) (b : block) (k i np : nat) (ts : list nat) : option (list Sc) :=
      match ts with
      | [] => Some []
      | t :: r =>
          if mem (i + t) idxs then
            match get_unitary_derivative id b (pyslice angles i np) t with
            | None => None
            | Some dB =>
                match modify_unitary k dB with
                | None => None
                | Some dU =>
                    match jac_terms id b k i np r with
                    | None => None
                    | Some es => Some (cost_derivative U dU :: es)
                    end
                end
            end
          else jac_terms id b k i np r
      end.
    Definition block_entries (id : nat) (b : block) (k i np : nat) : option (list Sc) :=
      jac_terms id b k i np (seq 0 np).

    (* UNCHANGED code: if i in indices_to_compute: one entry, term_index = 0 *)
    Definition block_entries_orig (id : nat) (b : block) (k i np : nat) : option (list Sc) :=
      if mem i idxs then
        match get_unitary_derivative id b (pyslice angles i np) 0 with
        | None => None
        | Some dB => match modify_unitary k dB with
                     | None => None
                     | Some dU => Some [cost_derivative U dU]
                     end
        end
      else Some [].

    (* for k, block in enumerate(self.get_block_series()) *)
    Fixpoint jac_loop (entries : nat -> block -> nat -> nat -> nat -> option (list Sc))
             (series : list (nat * block)) (k i : nat) : option (list Sc) :=
      match series with
      | [] => Some []
      | (id, b) :: rest =>
          let np := n_params b in
          if 0 <? np then
            match entries id b k i np with
            | None => None
            | Some es => match jac_loop entries rest (S k) (i + np) with
                         | None => None
                         | Some r => Some (es ++ r)
                         end
            end
          else jac_loop entries rest (S k) i
      end.
  End Jac.

  Definition compute_jac_with
             (entries : list nat -> list nat -> A -> list A -> list A -> nat ->
                        nat -> block -> nat -> nat -> nat -> option (list Sc))
             (bs : list block) (layers : nat) (angles : list nat) (indices : option (list nat))
    : option (list Sc) :=
    let idxs := match indices with None => seq 0 (length angles) | Some l => l end in
    match propagators bs layers angles with
    | None => None
    | Some props =>
        let U := gate_sequence_product props in
        let fwd := U_prods props in
        let back := U_prods_back props in
        let n := length fwd - 1 in
        jac_loop (entries angles idxs U fwd back n) (block_series bs layers) 0 0
    end.

  Definition compute_jac := compute_jac_with block_entries.
  Definition compute_jac_orig := compute_jac_with block_entries_orig.
End Sem.

(* ---- symbolic algebra used by the correspondence harness ----------------------------------- *)
Inductive ex :=
| EOne | EAdd (a b : ex) | EMul (a b : ex) | EDag (a : ex) | EObs
| EU (id : nat) (args : list nat) | EFix (id : nat) | EdU (id : nat) (args : list nat) (t : nat)
| EEv (a : ex).

Definition sym_evaluate := evaluate ex EOne EMul EDag ex EEv EObs EU EFix.
Definition sym_jac := compute_jac ex EOne EAdd EMul EDag ex EEv EObs EU EFix EdU.
Definition sym_jac_orig := compute_jac_orig ex EOne EAdd EMul EDag ex EEv EObs EU EFix EdU.
Definition sym_products (props : list ex) : list ex * list ex :=
  (U_prods ex EOne EMul props, U_prods_back ex EOne EMul props).

(* gate table in a flat printable form: (is_user, id, has_arg, arg) *)
Definition gate_row (g : gate) : bool * nat * option (list nat) :=
  match g with GNative id _ => (false, id, None) | GUser id _ arg => (true, id, arg) end.

(* everything the harness compares for one case *)
Definition run_case (bs : list block) (layers : nat) (angles : list nat) (indices : option (list nat)) :=
  (map fst (block_series bs layers),
   free_parameters_num bs layers,
   map gate_row (construct_circuit bs layers angles),
   sym_evaluate bs layers angles,
   sym_jac bs layers angles indices).
Definition run_case_orig (bs : list block) (layers : nat) (angles : list nat) (indices : option (list nat)) :=
  sym_jac_orig bs layers angles indices.
