(* Executable model of the calibration layer of the spin-chain processors (property C06):
     compiler/spinchaincompiler.py  SpinChainCompiler (_rotation_compiler, _swap_compiler, globalphase_compiler)
     compiler/gatecompiler.py       GateCompiler.compile (gate loop, "Unsupported gate", empty result),
                                    generate_pulse_shape / _normalized_window for shape = "rectangular"
     device/spinchain.py            SpinChainModel._set_up_controls (which Hamiltonian a label names, on which qubits),
                                    SpinChain.load_circuit (fresh compiler, global_phase hand-over)
     device/modelprocessor.py       load_circuit: compile, set_coeffs (label must be a control of the model), set_tlist
   The tables (areas, label rule, Hamiltonians, gate -> method map) are NOT written here: they are read from
   Gen/SpinChain.v, regenerated from the sources on every run.  Scheduling + concatenation is Model/Concat.v (C12).
   Exact rationals stand for floats; an angle is represented by  theta / pi  (a rational).  Err = Python exception.
   Definitions only. *)
From Coq Require Import ZArith QArith Qabs String List Bool.
From QV Require Import Found.Sym Model.SpinChainTypes Gen.SpinChain Model.Concat.
Import ListNotations.
Open Scope Q_scope.

Inductive res (A : Type) := Ok (a : A) | Err.
Arguments Ok {A}. Arguments Err {A}.
Definition rbind {A B} (r : res A) (f : A -> res B) : res B := match r with Ok a => f a | Err => Err end.
Definition of_opt {A} (o : option A) : res A := match o with Some a => Ok a | None => Err end.

(* processor configuration: number of qubits, "linear"/"circular", the computed per-qubit strength vectors *)
Record cfg := mkCfg { c_n : nat; c_setup : string; c_sx : list Q; c_sz : list Q; c_sxsy : list Q }.
(* a gate of the transpiled circuit: name, targets, arg_value (angle / pi; raw time for IDLE) *)
Record ngate := mkG { g_name : string; g_targets : list nat; g_arg : option Q }.

Fixpoint assoc {A} (k : string) (l : list (string * A)) : option A :=
  match l with [] => None | (k', v) :: r => if String.eqb k k' then Some v else assoc k r end.

(* ---- index arithmetic -------------------------------------------------------------------- *)
Record ienv := mkE { e_n : Z; e_q1 : Z; e_q2 : Z; e_t0 : option Z; e_loop : Z; e_nc : option Z }.

Fixpoint ieval (e : ienv) (x : iex) : option Z :=
  match x with
  | IN => Some (e_n e) | IQ1 => Some (e_q1 e) | IQ2 => Some (e_q2 e)
  | IT0 => e_t0 e                                  (* targets[0] of an empty list: IndexError *)
  | ILoop => Some (e_loop e)
  | INumCoupling => e_nc e
  | IConst z => Some z
  | IAdd a b => match ieval e a, ieval e b with Some u, Some v => Some (u + v)%Z | _, _ => None end
  | ISub a b => match ieval e a, ieval e b with Some u, Some v => Some (u - v)%Z | _, _ => None end
  | IMod a b => match ieval e a, ieval e b with
                | Some u, Some v => if (v =? 0)%Z then None else Some (u mod v)%Z   (* ZeroDivisionError *)
                | _, _ => None end
  end.

Fixpoint beval (setup : string) (e : ienv) (b : bex) : option bool :=
  match b with
  | BEq x y => match ieval e x, ieval e y with Some u, Some v => Some (u =? v)%Z | _, _ => None end
  | BNe x y => match ieval e x, ieval e y with Some u, Some v => Some (negb (u =? v)%Z) | _, _ => None end
  | BAnd x y => match beval setup e x with                   (* `and` short-circuits *)
                | Some true => beval setup e y
                | o => o end
  | BOr x y => match beval setup e x with                    (* `or` short-circuits *)
               | Some false => beval setup e y
               | o => o end
  | BNot x => match beval setup e x with Some b => Some (negb b) | None => None end
  | BSetup s => Some (String.eqb setup s)
  end.

Definition num_coupling (c : cfg) : option Z :=
  match assoc (c_setup c) num_coupling_tab with
  | Some x => ieval (mkE (Z.of_nat (c_n c)) 0 0 None 0 None) x
  | None => None                                          (* ValueError in _get_num_coupling *)
  end.

Definition zmin (l : list nat) : option Z :=
  match l with [] => None | a :: r => Some (Z.of_nat (fold_left Nat.min r a)) end.
Definition zmax (l : list nat) : option Z :=
  match l with [] => None | a :: r => Some (Z.of_nat (fold_left Nat.max r a)) end.

Definition genv (c : cfg) (g : ngate) : ienv :=
  mkE (Z.of_nat (c_n c))
      (match zmin (g_targets g) with Some z => z | None => 0%Z end)
      (match zmax (g_targets g) with Some z => z | None => 0%Z end)
      (match g_targets g with [] => None | t :: _ => Some (Z.of_nat t) end) 0 (num_coupling c).

(* Python list / array indexing with wrap-around of negative indices *)
Definition zth {A} (l : list A) (z : Z) : option A :=
  let n := Z.of_nat (length l) in
  if (z <? 0)%Z then (if (z + n <? 0)%Z then None else nth_error l (Z.to_nat (z + n))) else nth_error l (Z.to_nat z).

(* ---- pulse areas ------------------------------------------------------------------------- *)
(* an area expression as a monomial  q * theta^[h] * pi^b  (products and quotients only) *)
Fixpoint amono (e : ex) : option (Q * bool * Z) :=
  match e with
  | Num q => Some (q, false, 0%Z)
  | Pi => Some (1, false, 1%Z)
  | Var O => Some (1, true, 0%Z)
  | Neg a => match amono a with Some (q, h, b) => Some (- q, h, b) | None => None end
  | Mul a b => match amono a, amono b with
               | Some (q1, h1, b1), Some (q2, h2, b2) =>
                   if h1 && h2 then None else Some (q1 * q2, h1 || h2, (b1 + b2)%Z)
               | _, _ => None end
  | Div a b => match amono a, amono b with
               | Some (q1, h1, b1), Some (q2, h2, b2) =>
                   if h2 || Qeq_bool q2 0 then None else Some (q1 / q2, h1, (b1 - b2)%Z)
               | _, _ => None end
  | _ => None
  end.

(* the area for the angle theta = t * pi : a rational exactly when the powers of pi cancel *)
Definition area_at (e : ex) (t : option Q) : option Q :=
  match amono e with
  | Some (q, true, b) => if (b =? -1)%Z then match t with Some t => Some (q * t) | None => None end else None
  | Some (q, false, b) => if (b =? 0)%Z then Some q else None
  | None => None
  end.

(* the phase angle 2*pi*area of the pulse, as an expression in Var 0 = theta (Spec/SpinChainSpec closed forms) *)
Definition phase_ex (e : ex) : option ex :=
  match amono e with
  | Some (q, true, b) => if (b =? -1)%Z then Some (Mul (Num (2 * q)) (Var 0)) else None
  | Some (q, false, b) => if (b =? 0)%Z then Some (Mul (Num (2 * q)) Pi) else None
  | None => None
  end.

(* generate_pulse_shape("rectangular", _, maximum, area) = (coeff, tlist):
   coeff = 1.0 * |maximum| * sign(area),  tlist = 1.0 * |area| / |maximum| *)
Definition qsign (x : Q) : Q := if Qlt_b 0 x then 1 else if Qlt_b x 0 then -1 else 0.
Definition rect_pulse (maximum area : Q) : option (Q * Q) :=
  if Qeq_bool maximum 0 then None                        (* division by zero: inf/nan, excluded *)
  else Some (Qabs maximum * qsign area, Qabs area / Qabs maximum).

(* ---- the gate compilers ------------------------------------------------------------------ *)
Definition label := (string * Z)%type.                   (* prefix + str(index) *)
Inductive cres :=
| CInstr (dur : Q) (pulses : list (label * Q))           (* Instruction(gate, tlist = dur, [(label, coeff)]) *)
| CPhase (a : Q)                                         (* compiler.global_phase += a * pi *)
| CNone.

Definition strengths (c : cfg) (param : string) : option (list Q) :=
  if String.eqb param "sx" then Some (c_sx c) else if String.eqb param "sz" then Some (c_sz c)
  else if String.eqb param "sxsy" then Some (c_sxsy c) else None.      (* KeyError *)

Definition rotation_compiler (c : cfg) (g : ngate) (op param : string) : res cres :=
  let e := genv c g in
  rbind (of_opt (strengths c param)) (fun v =>
  rbind (of_opt (ieval e rot_max_index)) (fun im =>
  rbind (of_opt (zth v im)) (fun mx =>
  rbind (of_opt (area_at rot_area (g_arg g))) (fun a =>
  rbind (of_opt (rect_pulse mx a)) (fun cd =>
  rbind (of_opt (ieval e rot_label_index)) (fun il =>
  Ok (CInstr (snd cd) [((op, il), fst cd)]))))))).

Fixpoint choose_label (setup : string) (e : ienv) (br : list (bex * lres)) (els : lres) : option lres :=
  match br with
  | [] => Some els
  | (b, r) :: br' => match beval setup e b with
                     | Some true => Some r
                     | Some false => choose_label setup e br' els
                     | None => None end
  end.

Definition swap_label_with (branches : list (bex * lres)) (els : lres) (c : cfg) (g : ngate) : res label :=
  match g_targets g with
  | [] => Err                                            (* min([]) raises *)
  | _ =>
    let e := genv c g in
    match choose_label (c_setup c) e branches els with
    | Some (LLabel p i) => match ieval e i with Some z => Ok (p, z) | None => Err end
    | _ => Err
    end
  end.
Definition swap_label := swap_label_with swap_branches swap_else.

Definition swap_compiler (c : cfg) (g : ngate) (area : ex) : res cres :=
  let e := genv c g in
  rbind (swap_label c g) (fun lb =>
  rbind (of_opt (ieval e swap_max_index)) (fun im =>
  rbind (of_opt (zth (c_sxsy c) im)) (fun mx =>
  rbind (of_opt (area_at area None)) (fun a =>
  rbind (of_opt (rect_pulse mx a)) (fun cd =>
  Ok (CInstr (snd cd) [(lb, fst cd)])))))).

Definition compile_gate (c : cfg) (g : ngate) : res cres :=
  match assoc (g_name g) gate_methods with
  | None => Err                                          (* ValueError("Unsupported gate") *)
  | Some (MRot op param) => rotation_compiler c g op param
  | Some (MSwap area) => swap_compiler c g area
  | Some MPhase => match g_arg g with Some a => Ok (CPhase a) | None => Err end
  | Some MIdle => match g_arg g with Some a => Ok (CInstr a []) | None => Err end
  | Some MNothing => Ok CNone
  end.

(* the gate loop of GateCompiler.compile: instructions in gate order, accumulated phase (in units of pi) *)
Fixpoint compile_gates (c : cfg) (gs : list ngate) (phase : Q) : res (list (Q * list (label * Q)) * Q) :=
  match gs with
  | [] => Ok ([], phase)
  | g :: r =>
      rbind (compile_gate c g) (fun x =>
        match x with
        | CInstr d ps => rbind (compile_gates c r phase) (fun o => Ok ((d, ps) :: fst o, snd o))
        | CPhase a => compile_gates c r (phase + a)
        | CNone => compile_gates c r phase
        end)
  end.

(* ---- which Hamiltonian a label names ------------------------------------------------------ *)
Fixpoint find_family (p : string) (l : list ctrl_family) (k : nat) : option (nat * ctrl_family) :=
  match l with
  | [] => None
  | f :: r => if String.eqb p (cf_prefix f) then Some (k, f) else find_family p r (S k)
  end.
Fixpoint all_someZ (l : list (option Z)) : option (list Z) :=
  match l with [] => Some [] | Some z :: r => match all_someZ r with Some zs => Some (z :: zs) | None => None end
             | None :: _ => None end.

(* model.get_control(label) = (kind, targets);  None = KeyError *)
Definition control_of (c : cfg) (lb : label) : option (hkind * list Z) :=
  match find_family (fst lb) ctrl_families 0 with
  | None => None
  | Some (_, f) =>
      let e0 := mkE (Z.of_nat (c_n c)) 0 0 None (snd lb) (num_coupling c) in
      match ieval e0 (cf_count f) with
      | Some cnt =>
          if ((0 <=? snd lb)%Z && (snd lb <? cnt)%Z)%bool then
            match all_someZ (map (ieval e0) (cf_targets f)) with
            | Some ts => Some (cf_kind f, ts)
            | None => None end
          else None
      | None => None
      end
  end.

Definition chan_id (lb : label) : option nat :=
  match find_family (fst lb) ctrl_families 0 with
  | Some (k, _) => if (snd lb <? 0)%Z then None else Some (k + length ctrl_families * Z.to_nat (snd lb))%nat
  | None => None
  end.

(* ---- load_circuit: pulse table through Model/Concat (fx = true: tree with the C12 first-pulse repair; gx read from the source) ---- *)
Fixpoint to_instrs (l : list (Q * list (label * Q))) : option (list instr) :=
  match l with
  | [] => Some []
  | (d, ps) :: r =>
      let ids := map (fun p => match chan_id (fst p) with Some k => Some (k, CS (snd p)) | None => None end) ps in
      match all_some ids, to_instrs r with
      | Some ps', Some r' => Some (mkI (TScalar d) ps' :: r')
      | _, _ => None end
  end.

Definition labels_of (l : list (Q * list (label * Q))) : list label := flat_map (fun x => map fst (snd x)) l.

(* sched = None: schedule_mode None; Some st: start times returned by the scheduler (C11) *)
Definition load (c : cfg) (sched : option (list Q)) (gs : list ngate)
  : res (list (nat * (list Q * list Q)) * Q) :=
  rbind (compile_gates c gs 0) (fun o =>
    match fst o with
    | [] => if load_accepts_empty then Ok ([], snd o)   (* (None, None) -> empty tables, phase still recorded *)
            else Err                             (* compile returns (None, None); set_coeffs(None): ValueError *)
    | il =>
        if forallb (fun lb => match control_of c lb with Some _ => true | None => false end) (labels_of il) then
          rbind (of_opt (to_instrs il)) (fun ci =>
          rbind (of_opt (compile true concat_gap_resolution sched ci)) (fun tab => Ok (tab, snd o)))
        else Err                                 (* model.get_control(label): KeyError *)
    end).

(* ---- sequential compilation (schedule_mode None) seen by the propagation loop ------------------------------------ *)
(* coefficient vector of one instruction over the channel list [labels] *)
Definition label_eqb (a b : label) : bool := (String.eqb (fst a) (fst b) && Z.eqb (snd a) (snd b))%bool.
Definition coeff_of (ps : list (label * Q)) (m : label) : Q :=
  match find (fun p => label_eqb m (fst p)) ps with Some p => snd p | None => 0 end.
Definition ivec (labels : list label) (ps : list (label * Q)) : list Q := map (coeff_of ps) labels.
(* the instruction windows: (duration, coefficient vector) in gate order, following each other without gap *)
Definition windows_of (labels : list label) (il : list (Q * list (label * Q))) : list (Q * list Q) :=
  map (fun i => (fst i, ivec labels (snd i))) il.
(* what run_analytically loops over for such a table: the merged grid is the set of window boundaries, so there is one
   slice (dt, coefficient vector) per instruction of positive duration *)
Definition seq_slices (labels : list label) (il : list (Q * list (label * Q))) : list (Q * list Q) :=
  flat_map (fun i => if Qlt_b 0 (fst i) then [(fst i, ivec labels (snd i))] else []) il.
(* channels in order of first appearance (the order of the compiled dictionaries) *)
Fixpoint nodup_labels (seen l : list label) : list label :=
  match l with
  | [] => []
  | m :: r => if existsb (label_eqb m) seen then nodup_labels seen r else m :: nodup_labels (m :: seen) r
  end.
Definition seq_run (c : cfg) (gs : list ngate) : res (list label * list (Q * list Q)) :=
  rbind (compile_gates c gs 0) (fun o =>
    let labels := nodup_labels [] (labels_of (fst o)) in Ok (labels, seq_slices labels (fst o))).
(* ---- the label rule of the code as found (before fixes/C06-swap-coupling-check.diff), kept for the
        refutation theorem ---- *)
Definition swap_branches_orig : list (bex * lres) :=
  [ (BAnd (BAnd (BNe IN (IConst 2)) (BEq IQ1 (IConst 0))) (BEq IQ2 (ISub IN (IConst 1))), LLabel "g" IQ2) ].
Definition swap_else_orig : lres := LLabel "g" IQ1.
Definition swap_label_orig := swap_label_with swap_branches_orig swap_else_orig.

(* the two qubits are neighbours of the topology *)
Definition coupled (c : cfg) (q1 q2 : Z) : bool :=
  ((q2 - q1 =? 1)%Z || (String.eqb (c_setup c) "circular" && (q1 =? 0)%Z && (q2 =? Z.of_nat (c_n c) - 1)%Z))%bool.

(* ---- printing helpers for the correspondence ---- *)
Definition qzz (q : Q) : list Z := let r := Qred q in [Qnum r; Zpos (Qden r)].
Definition show_cres (r : res cres) : list (list Z) * list (string * Z * list Z) :=
  match r with
  | Err => ([[0%Z]], [])
  | Ok CNone => ([[1%Z]], [])
  | Ok (CPhase a) => ([[2%Z]; qzz a], [])
  | Ok (CInstr d ps) => ([[3%Z]; qzz d], map (fun p => (fst (fst p), snd (fst p), qzz (snd p))) ps)
  end.
Definition show_load (r : res (list (nat * (list Q * list Q)) * Q))
  : option (list (nat * (list (list Z) * list (list Z))) * list Z) :=
  match r with
  | Err => None
  | Ok (tab, ph) => Some (map (fun x => (fst x, (map qzz (fst (snd x)), map qzz (snd (snd x))))) tab, qzz ph)
  end.
Definition show_control (o : option (hkind * list Z)) : list Z :=
  match o with
  | None => []
  | Some (k, ts) => (match k with HX => 1 | HZ => 2 | HXY => 3 end)%Z :: ts
  end.
Definition show_seq (r : res (list label * list (Q * list Q))) : option (list (string * Z) * list (list Z * list (list Z))) :=
  match r with
  | Err => None
  | Ok (ls, sl) => Some (ls, map (fun s => (qzz (fst s), map qzz (snd s))) sl)
  end.

