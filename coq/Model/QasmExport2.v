(* Extension of the exporter model (Model/QasmExport.v, unchanged) by the two late repairs of the export path:
     circuit.py QubitCircuit._to_qasm : `if op.name in self.user_gates: raise NotImplementedError`  (first loop, before the definitions)
     gateclass.py Gate._to_qasm       : `if not qasm_out.takes_parameters(qasm_gate): q_args = None`
     qasm.py QasmOutput.takes_parameters(qasm_name)
   The circuit now carries the names registered in QubitCircuit.user_gates.  Definitions only.
   [signatures] (= _PREDEFINED_GATE_SIGNATURES) and [export_noparam_defs] (= the literal tuple of takes_parameters) are regenerated
   from qasm.py on every run (Gen/Qasm.v); the translator refuses any other shape of takes_parameters. *)
From QV Require Export Model.QasmExport.
From QV Require Import Gen.Qasm.
Local Open Scope nat_scope.
Local Open Scope list_scope.
Local Open Scope string_scope.

(* QasmOutput.qasm_name(gate.name) at the time of the second loop of _to_qasm, i.e. in the FINAL gate_name_map: the entry of
   _GATE_NAME_TO_QASM_NAME if there is one, else the lower-cased name registered by _qasm_defns for a gate that has an emitted
   definition; None = no entry (the export is refused; as is an empty entry: `if not qasm_gate`) *)
Definition qname_of (name : string) : option string :=
  match sassoc name export_names with
  | Some "" => None
  | Some q => Some q
  | None => match sassoc name export_defns with Some _ => Some (lower name) | None => None end
  end.

(* QasmOutput.takes_parameters(qasm_name) *)
Definition takes_params (q : string) : bool :=
  match sassoc q signatures with
  | Some (np, _) => Nat.ltb 0 np
  | None => negb (smem q export_noparam_defs)
  end.

(* Gate._to_qasm: the arg_value of a gate whose QASM name takes no parameter is replaced by None before _qasm_str *)
Definition proj_op (o : eop) : eop :=
  match o with
  | EGate name t ct a cc =>
      match qname_of name with
      | Some q => if takes_params q then o else EGate name t ct PNone cc
      | None => o
      end
  | EMeas _ _ => o
  end.

(* a circuit together with the keys of QubitCircuit.user_gates *)
Record xcirc := mkXC { x_c : ecirc; x_user : list string }.

(* the circuit the unchanged part of the exporter sees *)
Definition proj_circ (c : ecirc) : ecirc := mkEC (e_N c) (e_ncb c) (map proj_op (e_ops c)).
(* some gate's name is a key of user_gates (`op.name in self.user_gates`; Measurements are skipped) *)
Definition is_user (user : list string) (o : eop) : bool :=
  match o with EGate name _ _ _ _ => smem name user | EMeas _ _ => false end.
Definition has_user_gate (x : xcirc) : bool := existsb (is_user (x_user x)) (e_ops (x_c x)).

(* circuit_to_qasm_str of the repaired tree.  The user-gate refusal is raised inside the first loop of _to_qasm, the other
   refusals (no definition; no name / classical controls / non-finite number / no targets, in the second loop) later or earlier
   in the same call: every one of them makes circuit_to_qasm_str raise, so their order is not observable *)
Definition export2 (x : xcirc) : option string :=
  if has_user_gate x then None else export (proj_circ (x_c x)).
