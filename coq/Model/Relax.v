(* C15 - executable model of the relaxation-noise set-up of qutip_qip/noise.py
   (RelaxationNoise._T_to_list and RelaxationNoise.get_noisy_pulses).  Definitions only.

   The TABLE part of the code (the guards of _T_to_list, the per-qubit loop body with its guards and the
   collapse-operator coefficient expressions) is not written here: it is regenerated on every run from the
   current source by tools/translate/noise_tr.py into Gen/Noise.v, as syntax trees of the small languages
   below.  This file gives those trees their meaning (an interpreter that reproduces the Python semantics that
   matter: None-ness, Python-float ZeroDivisionError vs numpy inf/nan, short-circuit and/or, exceptions).

   Numbers are exact rationals.  A collapse-operator coefficient c (which contains np.sqrt) is represented
   sqrt-free by (sign c, c^2): the Lindblad generator only ever uses c * conj c = c^2, the RATE. *)
From Coq Require Import QArith List Bool ZArith.
Import ListNotations.
Local Open Scope Q_scope.

(* ---------------------------------------------------------------------------------------------- *)
(* syntax emitted by the translator                                                                *)
(* ---------------------------------------------------------------------------------------------- *)
Inductive nex :=
| ENum (q : Q)                      (* int / float literal *)
| EVar (x : nat)                    (* local variable slot: 0 = t1 (this qubit), 1 = t2 (this qubit), 2.. locals *)
| EAdd (a b : nex) | ESub (a b : nex) | EMul (a b : nex) | EDiv (a b : nex) | ENeg (a : nex)
| ESqrt (a : nex).                  (* np.sqrt *)

Inductive cnd :=
| CIsNone (x : nat) | CNotNone (x : nat)
| CLt (a b : nex) | CLe (a b : nex) | CEq (a b : nex)
| CNot (c : cnd) | CAnd (a b : cnd) | COr (a b : cnd).

Inductive opk := KDestroy | KNum.   (* qutip.destroy(d) / qutip.num(d) *)

Inductive stmt :=
| SSkip
| SSeq (a b : stmt)
| SAssign (x : nat) (e : nex)
| SIf (c : cnd) (th el : stmt)
| SRaise                            (* raise ValueError(...) *)
| SContinue                         (* continue: next qubit *)
| SEmit (coef : nex) (k : opk).     (* op = coef * k(dims[q]); systematic_noise.add_lindblad_noise(op, q, coeff=True) *)

(* guards of _T_to_list; the subject is T (or the element t inside all(... for t in T)) *)
Inductive gex :=
| GTrue | GIsReal | GIsIter | GIsNone | GPos | GLenEqN
| GAll (g : gex) | GAnd (a b : gex) | GOr (a b : gex) | GNot (a : gex).
Inductive tact := ARepeat | ASame | ARaise.   (* return [T]*N | return T | raise ValueError *)

(* ---------------------------------------------------------------------------------------------- *)
(* values and outcomes                                                                             *)
(* ---------------------------------------------------------------------------------------------- *)
Inductive err := ErrValue | ErrZeroDiv | ErrType | ErrIndex.

(* Raised = Python raises (the set-up is REJECTED); NonFinite = the code silently produces a collapse operator
   with inf/nan entries (numpy warning only); Unsupported = outside what this model can express
   (every theorem excludes it, the correspondence treats it as a disagreement). *)
Inductive outcome (A : Type) := Ok (a : A) | Raised (e : err) | NonFinite | Unsupported.
Arguments Ok {A} a. Arguments Raised {A} e. Arguments NonFinite {A}. Arguments Unsupported {A}.

Definition obind {A B} (o : outcome A) (f : A -> outcome B) : outcome B :=
  match o with Ok a => f a | Raised e => Raised e | NonFinite => NonFinite | Unsupported => Unsupported end.

Inductive val := VNone | VNum (q : Q).
Definition env := list (nat * val).
Fixpoint lookup (x : nat) (r : env) : option val :=
  match r with [] => None | (y, v) :: r' => if Nat.eqb x y then Some v else lookup x r' end.

Definition Qlt_bool (a b : Q) : bool := negb (Qle_bool b a).
Definition Qsgn (q : Q) : Z := Z.sgn (Qnum q).

(* Python-float evaluation (no numpy value involved): x/0 raises ZeroDivisionError, None in arithmetic raises TypeError *)
Fixpoint evq (r : env) (e : nex) : outcome Q :=
  match e with
  | ENum q => Ok q
  | EVar x => match lookup x r with Some (VNum q) => Ok q | Some VNone => Raised ErrType | None => Unsupported end
  | EAdd a b => obind (evq r a) (fun x => obind (evq r b) (fun y => Ok (x + y)))
  | ESub a b => obind (evq r a) (fun x => obind (evq r b) (fun y => Ok (x - y)))
  | EMul a b => obind (evq r a) (fun x => obind (evq r b) (fun y => Ok (x * y)))
  | EDiv a b => obind (evq r a) (fun x => obind (evq r b) (fun y =>
                  if Qeq_bool y 0 then Raised ErrZeroDiv else Ok (x / y)))
  | ENeg a => obind (evq r a) (fun x => Ok (- x))
  | ESqrt _ => Unsupported
  end.

Fixpoint has_sqrt (e : nex) : bool :=
  match e with
  | ENum _ | EVar _ => false
  | EAdd a b | ESub a b | EMul a b | EDiv a b => has_sqrt a || has_sqrt b
  | ENeg a => has_sqrt a
  | ESqrt _ => true
  end.

(* coefficient evaluation: value c represented as (sign c, c^2).  Sub-expressions without np.sqrt are Python
   floats (evq).  As soon as np.sqrt is involved the value is a numpy scalar: division by zero and sqrt of a
   negative number do not raise, they give inf/nan (NonFinite). *)
Fixpoint evr (r : env) (e : nex) : outcome (Z * Q) :=
  if has_sqrt e then
    match e with
    | ESqrt a => obind (evq r a) (fun x => if Qlt_bool x 0 then NonFinite else Ok (Qsgn x, x))
    | EMul a b => obind (evr r a) (fun x => obind (evr r b) (fun y =>
                    Ok ((fst x * fst y)%Z, snd x * snd y)))
    | EDiv a b => obind (evr r a) (fun x => obind (evr r b) (fun y =>
                    if Qeq_bool (snd y) 0 then NonFinite else Ok ((fst x * fst y)%Z, snd x / snd y)))
    | ENeg a => obind (evr r a) (fun x => Ok ((- fst x)%Z, snd x))
    | _ => Unsupported
    end
  else obind (evq r e) (fun x => Ok (Qsgn x, x * x)).

Fixpoint evc (r : env) (c : cnd) : outcome bool :=
  match c with
  | CIsNone x => match lookup x r with Some VNone => Ok true | Some _ => Ok false | None => Unsupported end
  | CNotNone x => match lookup x r with Some VNone => Ok false | Some _ => Ok true | None => Unsupported end
  | CLt a b => obind (evq r a) (fun x => obind (evq r b) (fun y => Ok (Qlt_bool x y)))
  | CLe a b => obind (evq r a) (fun x => obind (evq r b) (fun y => Ok (Qle_bool x y)))
  | CEq a b => obind (evq r a) (fun x => obind (evq r b) (fun y => Ok (Qeq_bool x y)))
  | CNot a => obind (evc r a) (fun x => Ok (negb x))
  | CAnd a b => obind (evc r a) (fun x => if x then evc r b else Ok false)     (* short-circuit *)
  | COr a b => obind (evc r a) (fun x => if x then Ok true else evc r b)
  end.

(* one emitted collapse term of one qubit: kind, sign of the coefficient, SQUARE of the coefficient (= rate).
   A coefficient that numpy evaluated to inf/nan (no exception is raised, later statements still run and may still
   raise) is recorded with the impossible sign `nan_mark`; `setup` turns its presence into the outcome NonFinite. *)
Definition emit := (opk * Z * Q)%type.
Definition nan_mark : Z := 2%Z.

Inductive xres :=
| XNext (r : env) (ops : list emit)      (* fell through *)
| XCont (ops : list emit)                (* continue *)
| XStop (o : outcome unit).              (* Raised / NonFinite / Unsupported *)

Definition stop {A} (o : outcome A) : xres :=
  match o with Ok _ => XStop Unsupported | Raised e => XStop (Raised e) | NonFinite => XStop NonFinite
             | Unsupported => XStop Unsupported end.

Fixpoint exec (s : stmt) (r : env) (ops : list emit) : xres :=
  match s with
  | SSkip => XNext r ops
  | SSeq a b => match exec a r ops with XNext r' ops' => exec b r' ops' | x => x end
  | SAssign x e => match evq r e with Ok q => XNext ((x, VNum q) :: r) ops | o => stop o end
  | SIf c th el => match evc r c with Ok true => exec th r ops | Ok false => exec el r ops | o => stop o end
  | SRaise => XStop (Raised ErrValue)
  | SContinue => XCont ops
  | SEmit coef k => match evr r coef with
                     | Ok (sg, sq) => XNext r (ops ++ [(k, sg, sq)])
                     | NonFinite => XNext r (ops ++ [(k, nan_mark, 0)])   (* inf/nan coefficient: no exception, execution goes on *)
                     | o => stop o end
  end.

(* ---------------------------------------------------------------------------------------------- *)
(* _T_to_list                                                                                      *)
(* ---------------------------------------------------------------------------------------------- *)
Inductive tval := TNone | TScalar (q : Q) | TList (l : list (option Q)).
Definition elt (o : option Q) : tval := match o with None => TNone | Some q => TScalar q end.

(* None = evaluating the guard raises TypeError (len() of a number, `>` between list/None and int) *)
Fixpoint geval (N : nat) (g : gex) (T : tval) : option bool :=
  match g with
  | GTrue => Some true
  | GIsReal => Some (match T with TScalar _ => true | _ => false end)
  | GIsIter => Some (match T with TList _ => true | _ => false end)
  | GIsNone => Some (match T with TNone => true | _ => false end)
  | GPos => match T with TScalar q => Some (Qlt_bool 0 q) | _ => None end
  | GLenEqN => match T with TList l => Some (Nat.eqb (length l) N) | _ => None end
  | GAll h => match T with
              | TList l => fold_left (fun acc o => match acc with
                                                   | Some true => geval N h (elt o)     (* all() stops at the first False *)
                                                   | a => a end) l (Some true)
              | _ => None end
  | GAnd a b => match geval N a T with Some true => geval N b T | x => x end
  | GOr a b => match geval N a T with Some false => geval N b T | x => x end
  | GNot a => option_map negb (geval N a T)
  end.

Fixpoint t_to_list (rules : list (gex * tact)) (N : nat) (T : tval) : outcome (list (option Q)) :=
  match rules with
  | [] => Raised ErrType                 (* function falls off its end: returns None, len(None) raises *)
  | (g, a) :: rest =>
      match geval N g T with
      | None => Raised ErrType
      | Some false => t_to_list rest N T
      | Some true =>
          match a, T with
          | ARaise, _ => Raised ErrValue
          | ARepeat, TNone => Ok (repeat None N)
          | ARepeat, TScalar q => Ok (repeat (Some q) N)
          | ASame, TList l => Ok l
          | _, _ => Unsupported
          end
      end
  end.

(* ---------------------------------------------------------------------------------------------- *)
(* get_noisy_pulses                                                                                *)
(* ---------------------------------------------------------------------------------------------- *)
Definition oval (o : option Q) : val := match o with None => VNone | Some q => VNum q end.

(* one collapse term of the register: (qubit, kind, sign, rate) *)
Definition term := (nat * opk * Z * Q)%type.

Definition nanb (t : term) : bool := Z.eqb (snd (fst t)) nan_mark.

Definition qubit_terms (body : stmt) (l1 l2 : list (option Q)) (q : nat) : outcome (list term) :=
  match nth_error l1 q, nth_error l2 q with
  | Some a, Some b =>
      match exec body [(0%nat, oval a); (1%nat, oval b)] [] with
      | XNext _ ops | XCont ops => Ok (map (fun e => (q, fst (fst e), snd (fst e), snd e)) ops)
      | XStop (Raised e) => Raised e
      | XStop NonFinite => NonFinite
      | XStop _ => Unsupported
      end
  | _, _ => Raised ErrIndex              (* self.t1[qu_ind] out of range *)
  end.

Fixpoint loop (body : stmt) (l1 l2 : list (option Q)) (targets : list nat) : outcome (list term) :=
  match targets with
  | [] => Ok []
  | q :: rest => obind (qubit_terms body l1 l2 q) (fun a => obind (loop body l1 l2 rest) (fun b => Ok (a ++ b)))
  end.

(* RelaxationNoise(t1, t2, targets).get_noisy_pulses(dims) with N = len(dims);
   targets = None means range(N).  Result: the collapse terms added to the systematic-noise pulse, in order. *)
Definition setup (rules : list (gex * tact)) (lencheck : bool) (body : stmt)
           (N : nat) (targets : option (list nat)) (T1 T2 : tval) : outcome (list term) :=
  obind (t_to_list rules N T1) (fun l1 =>
  obind (t_to_list rules N T2) (fun l2 =>
  if lencheck && negb (Nat.eqb (length l1) N && Nat.eqb (length l2) N) then Raised ErrValue
  else obind (loop body l1 l2 (match targets with None => seq 0 N | Some ts => ts end))
             (fun ops => if existsb nanb ops then NonFinite else Ok ops))).

(* ---------------------------------------------------------------------------------------------- *)
(* The unchanged code (/repo at the snapshot the check was built on), exactly as the translator emits it.
   Used only for the `_refuted` witnesses; the theorems about the shipped behaviour are about Gen.Noise. *)
(* ---------------------------------------------------------------------------------------------- *)
Definition ttl_rules_v0 : list (gex * tact) :=
  [ (GOr (GAnd GIsReal GPos) GIsNone, ARepeat);
    (GAnd GIsIter GLenEqN, ASame);
    (GTrue, ARaise) ].

Definition relax_body_v0 : stmt :=
  SSeq (SIf (CNotNone 0)
            (SEmit (EDiv (ENum 1) (ESqrt (EVar 0))) KDestroy)
            SSkip)
       (SIf (CNotNone 1)
            (SSeq (SIf (CNotNone 0)
                       (SSeq (SIf (CLt (EMul (ENum 2) (EVar 0)) (EVar 1)) SRaise SSkip)
                             (SAssign 2 (EDiv (ENum 1) (ESub (EDiv (ENum 1) (EVar 1)) (EDiv (ENum (1 # 2)) (EVar 0))))))
                       (SAssign 2 (EVar 1)))
                  (SEmit (EMul (EDiv (ENum 1) (ESqrt (EMul (ENum 2) (EVar 2)))) (ENum 2)) KNum))
            SSkip).
