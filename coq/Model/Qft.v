(* C17 (QFT half): executable model of algorithms/qft.py : qft_gate_sequence, _cphase_to_cnot, qft_steps.
   Definitions only.  Angles are exact dyadic multiples of pi:  Ang n d  =  n * pi / 2^d.
   Python exceptions are [None]:  N < 1 (ValueError);  in _cphase_to_cnot an index outside the decomposition
   tuple (IndexError) or `gate.arg_value += ...` on a gate without argument (TypeError).
   _cphase_to_cnot calls decompose_one_qubit_gate(diag(1, e^{i phi}), "ZYZ_PauliX") and re-uses elements 0, 4, 7 of
   the returned tuple: the tuple is the GENERATED [Gen.SingleQubit.sq_zyz_paulix]; the four angles that
   _angles_for_ZYZ extracts from diag(1, e^{i phi}) are [rot_angles] (phi/2, 0, phi/2, phi/2) - an assumption about the
   principal values of cmath.phase / np.sqrt / np.arctan2 for 0 < phi <= pi/2, validated on every run. *)
From Coq Require Import List ZArith QArith String Bool.
From QV Require Import Found.Sym Gen.SingleQubit.
Import ListNotations.
Local Open Scope string_scope.
Local Open Scope list_scope.

Record ang := Ang { anum : Z; aexp : nat }.           (* anum * pi / 2^aexp *)
Record qg := QG { gname : string; gtargets : list nat; gcontrols : list nat; garg : option ang }.

Definition ang_add (a b : ang) : ang :=
  let K := Nat.max (aexp a) (aexp b) in
  Ang (anum a * 2 ^ Z.of_nat (K - aexp a) + anum b * 2 ^ Z.of_nat (K - aexp b))%Z K.
Definition ang_neg (a : ang) : ang := Ang (- anum a)%Z (aexp a).
Definition ang_half (a : ang) : ang := Ang (anum a) (S (aexp a)).

(* value of a (linear) angle expression of the generated tuples; None = outside the fragment *)
Fixpoint aeval (env : list ang) (e : ex) : option ang :=
  match e with
  | Var j => nth_error env j
  | Pi => Some (Ang 1 0)
  | Neg a => option_map ang_neg (aeval env a)
  | Add a b => match aeval env a, aeval env b with Some x, Some y => Some (ang_add x y) | _, _ => None end
  | Sub a b => match aeval env a, aeval env b with Some x, Some y => Some (ang_add x (ang_neg y)) | _, _ => None end
  | Div a (Num q) => if Qeq_bool q 2 then option_map ang_half (aeval env a) else None
  | _ => None
  end.

(* (alpha, theta, beta, global_phase_angle) returned by _angles_for_ZYZ for diag(1, e^{i phi}) *)
Definition rot_angles (phi : ang) : list ang := [ang_half phi; Ang 0 0; ang_half phi; ang_half phi].

(* a generated gate tuple element instantiated at angle values; None = its argument is outside the fragment *)
Definition inst_gen (env : list ang) (g : sgen) : option qg :=
  match g with
  | (name, targets, None) => Some (QG name targets [] None)
  | (name, targets, Some e) => match aeval env e with Some a => Some (QG name targets [] (Some a)) | None => None end
  end.

Definition set_targets (g : qg) (ts : list nat) : qg := QG (gname g) ts (gcontrols g) (garg g).

Definition cphase_to_cnot (targets controls : list nat) (phi : ang) : option (list qg) :=
  let env := rot_angles phi in
  match nth_error sq_zyz_paulix 0, nth_error sq_zyz_paulix 4, nth_error sq_zyz_paulix 7 with
  | Some s0, Some s4, Some s7 =>
      match inst_gen env s0, inst_gen env s4, inst_gen env s7 with
      | Some g0, Some g4, Some g7 =>
          match garg g7 with
          | Some a7 =>
              Some [ set_targets g0 targets;
                     QG "CNOT" targets controls None;
                     set_targets g4 targets;
                     QG "CNOT" targets controls None;
                     QG "RZ" controls [] (Some (ang_half phi));
                     QG (gname g7) (gtargets g7) (gcontrols g7) (Some (ang_add a7 (ang_half (ang_half phi)))) ]
          | None => None
          end
      | _, _, _ => None
      end
  | _, _, _ => None
  end.

(* total version used inside the loops; [qft_gate_sequence] returns None whenever the partial one would fail *)
Definition cphase_to_cnot_tot (targets controls : list nat) (phi : ang) : list qg :=
  match cphase_to_cnot targets controls phi with Some l => l | None => [] end.
Definition cphase_to_cnot_ok (phi : ang) : bool :=
  match cphase_to_cnot [0%nat] [1%nat] phi with Some _ => true | None => false end.

(* pi / 2^(i-j) *)
Definition qft_angle (i j : nat) : ang := Ang 1 (i - j).

Definition cgate (to_cnot : bool) (i j : nat) : list qg :=
  if to_cnot then cphase_to_cnot_tot [j] [i] (qft_angle i j)
  else [QG "CPHASE" [j] [i] (Some (qft_angle i j))].

Definition qft_row (to_cnot : bool) (i : nat) : list qg :=
  flat_map (cgate to_cnot i) (seq 0 i) ++ [QG "SNOT" [i] [] None].

Definition qft_swaps (N : nat) : list qg :=
  map (fun i => QG "SWAP" [N - i - 1; i]%nat [] None) (seq 0 (N / 2)).

Definition qft_body (N : nat) (swapping to_cnot : bool) : list qg :=
  if Nat.eqb N 1 then [QG "SNOT" [0%nat] [] None]
  else flat_map (qft_row to_cnot) (seq 0 N) ++ (if swapping then qft_swaps N else []).

(* every angle the loops pass to _cphase_to_cnot must be accepted *)
Definition expansions_ok (N : nat) : bool :=
  forallb (fun i => forallb (fun j => cphase_to_cnot_ok (qft_angle i j)) (seq 0 i)) (seq 0 N).

Definition qft_gate_sequence (N : nat) (swapping to_cnot : bool) : option (list qg) :=
  if (N <? 1)%nat then None
  else if to_cnot && negb (expansions_ok N) then None
  else Some (qft_body N swapping to_cnot).

(* qft_steps: each step is a library matrix expanded on the listed qubits (listed order = matrix index order) *)
Record step := Step { sname : string; squbits : list nat; sarg : option ang }.

Definition steps_row (i : nat) : list step :=
  map (fun j => Step "CPHASE" [i; j] (Some (qft_angle i j))) (seq 0 i) ++ [Step "SNOT" [i] None].

Definition qft_steps (N : nat) (swapping : bool) : option (list step) :=
  if (N <? 1)%nat then None
  else Some (if Nat.eqb N 1 then [Step "SNOT" [0%nat] None]
             else flat_map steps_row (seq 0 N)
                  ++ (if swapping then map (fun i => Step "SWAP" [N - i - 1; i]%nat None) (seq 0 (N / 2)) else [])).

(* the step a circuit gate stands for: its matrix acts on controls ++ targets *)
Definition step_of_gate (g : qg) : step := Step (gname g) (gcontrols g ++ gtargets g) (garg g).

(* output encoding for the correspondence harness *)
Definition enc_ang (a : option ang) : list Z := match a with Some x => [anum x; Z.of_nat (aexp x)] | None => [] end.
Definition enc_gate (g : qg) := (gname g, gtargets g, gcontrols g, enc_ang (garg g)).
Definition enc_step (s : step) := (sname s, squbits s, enc_ang (sarg s)).
Definition run_seq (N : nat) (sw tc : bool) := option_map (map enc_gate) (qft_gate_sequence N sw tc).
Definition run_steps (N : nat) (sw : bool) := option_map (map enc_step) (qft_steps N sw).
