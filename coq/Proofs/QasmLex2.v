(* C10 export_valid, lexer half, part 2: composition of lexer steps over pieces of text; single-character symbols,
   blanks, identifiers; str(nat) is a numeral without leading zero. *)
From Coq Require Import Lia Ascii String.
From QV Require Import Spec.QasmStrict Model.QasmImport Proofs.QasmLex.
Local Open Scope nat_scope.
Local Open Scope list_scope.

Notation la := list_ascii_of_string.
Lemma la_app a b : la (a ++ b)%string = la a ++ la b.
Proof. induction a as [|c a IH]; [reflexivity|]. cbn. rewrite IH. reflexivity. Qed.

Definition kont (f : nat) (rest : list ascii) (toks : list tok) : option (list tok) :=
  match lex f rest with Some ts => Some (toks ++ ts) | None => None end.
(* [pre] is read as the tokens [toks], in at most one lexer step per character, whatever follows *)
Definition LX (pre : list ascii) (toks : list tok) : Prop :=
  exists k, k <= length pre /\ forall f rest, lex (k + f) (pre ++ rest) = kont f rest toks.
(* the same when the next character is a closer (needed after a numeral or an identifier) *)
Definition LXc (pre : list ascii) (toks : list tok) : Prop :=
  exists k, k <= length pre /\ forall f c rest, closer c -> lex (k + f) (pre ++ c :: rest) = kont f (c :: rest) toks.

Lemma kont_nil f rest : kont f rest [] = lex f rest.
Proof. unfold kont. destruct (lex f rest); reflexivity. Qed.
Lemma kont_app f rest t1 t2 : match kont f rest t2 with Some ts => Some (t1 ++ ts) | None => None end = kont f rest (t1 ++ t2).
Proof. unfold kont. destruct (lex f rest); [rewrite app_assoc|]; reflexivity. Qed.
Lemma LX_nil : LX [] [].
Proof. exists 0. split; [apply le_n|]. intros f rest. cbn [plus app]. symmetry. apply kont_nil. Qed.
Lemma LX_app p1 t1 p2 t2 : LX p1 t1 -> LX p2 t2 -> LX (p1 ++ p2) (t1 ++ t2).
Proof.
  intros [k1 [L1 H1]] [k2 [L2 H2]]. exists (k1 + k2). split; [rewrite app_length; lia|].
  intros f rest. rewrite <- Nat.add_assoc, <- app_assoc, H1. unfold kont at 1. rewrite H2. apply kont_app.
Qed.
Lemma LX_LXc p1 t1 p2 t2 : LX p1 t1 -> LXc p2 t2 -> LXc (p1 ++ p2) (t1 ++ t2).
Proof.
  intros [k1 [L1 H1]] [k2 [L2 H2]]. exists (k1 + k2). split; [rewrite app_length; lia|].
  intros f c rest Hc. rewrite <- Nat.add_assoc, <- app_assoc, H1. unfold kont at 1. rewrite (H2 f c rest Hc). apply kont_app.
Qed.
Lemma LXc_LX p1 t1 c p2 t2 : closer c -> LXc p1 t1 -> LX (c :: p2) t2 -> LX (p1 ++ c :: p2) (t1 ++ t2).
Proof.
  intros Hc [k1 [L1 H1]] [k2 [L2 H2]]. exists (k1 + k2). split; [rewrite app_length; lia|].
  intros f rest. rewrite <- Nat.add_assoc, <- app_assoc. cbn [app]. rewrite (H1 _ c (p2 ++ rest) Hc). unfold kont at 1.
  change (c :: p2 ++ rest) with ((c :: p2) ++ rest). rewrite H2. apply kont_app.
Qed.
Lemma LX_final pre toks : LX pre toks -> lex (S (length pre)) pre = Some toks.
Proof.
  intros [k [L H]]. replace (S (length pre)) with (k + (S (length pre) - k)) by lia.
  rewrite <- (app_nil_r pre) at 2. rewrite H. unfold kont. destruct (S (length pre) - k); cbn [lex]; rewrite app_nil_r; reflexivity.
Qed.

(* ---- single steps ---- *)
Definition sym1 (c : ascii) : Prop := In (code c) [40; 41; 91; 93; 123; 125; 59; 44].      (* ( ) [ ] { } ; , *)
Lemma LX_sym c : sym1 c -> LX [c] [TSym (String c EmptyString)].
Proof.
  intros H. exists 1. split; [apply le_n|]. intros f rest. unfold kont.
  assert (E : c = chr (code c)) by (unfold chr, code; rewrite ascii_nat_embedding; reflexivity).
  unfold sym1 in H. cbn [In] in H.
  destruct H as [H|[H|[H|[H|[H|[H|[H|[H|[]]]]]]]]]; rewrite E, <- H; destruct rest as [|d rest]; cbn;
    try (destruct f; reflexivity); destruct (lex f (d :: rest)); reflexivity.
Qed.
Lemma LX_space c : is_space c = true -> LX [c] [].
Proof.
  intros H. exists 1. split; [apply le_n|]. intros f rest. cbn [plus app lex]. rewrite H. symmetry. apply kont_nil.
Qed.

Lemma LXc_LXc p1 t1 c p2 t2 : closer c -> LXc p1 t1 -> LXc (c :: p2) t2 -> LXc (p1 ++ c :: p2) (t1 ++ t2).
Proof.
  intros Hc [k1 [L1 H1]] [k2 [L2 H2]]. exists (k1 + k2). split; [rewrite app_length; lia|].
  intros f c' rest Hc'. rewrite <- Nat.add_assoc, <- app_assoc. cbn [app]. rewrite (H1 _ c (p2 ++ c' :: rest) Hc). unfold kont at 1.
  change (c :: p2 ++ c' :: rest) with ((c :: p2) ++ c' :: rest). rewrite (H2 f c' rest Hc'). apply kont_app.
Qed.
Lemma LX_to_LXc p t : LX p t -> LXc p t.
Proof. intros [k [L H]]. exists k. split; [exact L|]. intros f c rest _. apply H. Qed.

(* identifiers *)
Definition ident_chars (w : list ascii) : Prop :=
  match w with a :: _ => (is_lower a || is_upper a) = true | [] => False end /\ forallb is_idchar w = true.
Lemma letter_facts a : (is_lower a || is_upper a) = true -> is_space a = false /\ (code a =? 47) = false.
Proof.
  intros H. unfold is_lower, is_upper, is_space in *. apply Bool.orb_true_iff in H.
  destruct H as [H|H]; apply andb_prop in H; destruct H as [H1 H2]; apply Nat.leb_le in H1; apply Nat.leb_le in H2;
    split; repeat (apply Bool.orb_false_iff; split); apply Nat.eqb_neq; lia.
Qed.
Lemma LXc_ident w : ident_chars w -> LXc w [TId (str_of w)].
Proof.
  intros [Ha Hw]. destruct w as [|a w']; [contradiction|]. exists 1. split; [cbn; lia|]. intros f c rest [Hc _].
  destruct (letter_facts a Ha) as [F1 F2]. cbn [plus app lex]. rewrite F1, F2, Ha. cbn [andb].
  change (a :: w' ++ c :: rest) with ((a :: w') ++ c :: rest). rewrite (span_all is_idchar (a :: w') Hw c rest Hc). reflexivity.
Qed.

(* a minus sign in front of a numeral *)
Lemma LXc_minus d num toks : is_digit d = true -> LXc (d :: num) toks -> LXc (chr 45 :: d :: num) (TSym "-"%string :: toks).
Proof.
  intros Hd [k [L H]]. exists (S k). split; [cbn [length] in *; lia|]. intros f c rest Hc.
  destruct (digit_facts d Hd) as [_ [_ [_ [_ [_ [_ [D62 _]]]]]]].
  cbn [plus app]. change (lex (S (k + f)) (chr 45 :: d :: num ++ c :: rest)) with
    (match two_char_sym (chr 45) d with
     | Some s => match lex (k + f) (num ++ c :: rest) with Some ts => Some (TSym s :: ts) | None => None end
     | None => match lex (k + f) (d :: num ++ c :: rest) with Some ts => Some (TSym "-"%string :: ts) | None => None end end).
  unfold two_char_sym. change (code (chr 45) =? 45) with true. rewrite D62. cbn [andb]. change (code (chr 45) =? 61) with false. cbn [andb].
  change (d :: num ++ c :: rest) with ((d :: num) ++ c :: rest). rewrite (H f c rest Hc). unfold kont. destruct (lex f (c :: rest)); reflexivity.
Qed.

(* numerals *)
Lemma LXc_int ds : digits ds -> no_leading_zero ds -> LXc ds [TInt (digits_val 0%Z ds)].
Proof.
  intros Hd Hz. exists 1. split; [destruct Hd as [Hn _]; destruct ds; [contradiction|cbn; lia]|].
  intros f c rest Hc. cbn [plus]. rewrite (lex_int f c rest Hc ds Hd Hz). reflexivity.
Qed.
Lemma LXc_real_dec ip fp : digits ip -> digits fp -> LXc (ip ++ chr 46 :: fp) [TReal (real_val ip fp false [])].
Proof.
  intros Hi Hf. exists 1. split; [rewrite app_length; cbn; lia|]. intros f c rest Hc. cbn [plus].
  rewrite <- app_assoc. cbn [app]. rewrite (lex_real_dec f c rest Hc ip fp Hi Hf). reflexivity.
Qed.
Lemma LXc_real_exp ip fp (eneg : bool) ed : digits ip -> digits fp -> digits ed ->
  LXc (ip ++ chr 46 :: fp ++ chr 101 :: chr (if eneg then 45 else 43) :: ed) [TReal (real_val ip fp eneg ed)].
Proof.
  intros Hi Hf He. exists 1. split; [rewrite app_length; cbn; lia|]. intros f c rest Hc. cbn [plus].
  rewrite <- app_assoc. cbn [app]. rewrite <- app_assoc. cbn [app]. rewrite (lex_real_exp f c rest Hc ip fp eneg ed Hi Hf He). reflexivity.
Qed.
