(* C20 -- the segment one operation appends to one wire (model with the fix, fx = true):
   which per-wire function applies where, and the widths of the appended strings *)
From Coq Require Import List NArith Arith Bool Lia.
Import ListNotations.
From QV Require Import Model.Render Spec.RenderSpec Proofs.RenderBase Proofs.RenderStep.

Lemma half_even k : (2 * k) / 2 = k.
Proof. rewrite Nat.mul_comm. apply Nat.div_mul. discriminate. Qed.

Lemma half_odd k : (2 * k + 1) / 2 = k.
Proof.
  symmetry. apply (Nat.div_unique (2 * k + 1) 2 k 1); lia.
Qed.

Lemma twice_half_le n : 2 * (n / 2) <= n.
Proof. apply Nat.mul_div_le. discriminate. Qed.

Lemma half_ge2 n : 4 <= n -> 2 <= n / 2.
Proof. intro H. apply (Nat.div_le_mono 4 n 2) in H; [|discriminate]. exact H. Qed.

(* ---- hd / last of a range ---- *)
Lemma last_seq a n : last (seq a (S n)) 0 = a + n.
Proof.
  revert a. induction n as [|n IH]; intro a.
  - simpl. lia.
  - change (seq a (S (S n))) with (a :: seq (S a) (S n)).
    assert (E : forall (x : nat) l, l <> [] -> last (x :: l) 0 = last l 0).
    { intros x l Hl. destruct l; [congruence|reflexivity]. }
    rewrite E by (simpl; discriminate). rewrite IH. lia.
Qed.

Lemma hd_range a b : a < b -> hd 0 (range a b) = a.
Proof. intro H. unfold range. destruct (b - a) eqn:E; [lia|]. reflexivity. Qed.

Lemma last_range a b : a < b -> last (range a b) 0 = b - 1.
Proof. intro H. unfold range. destruct (b - a) eqn:E; [lia|]. rewrite last_seq. lia. Qed.

(* ---- drawn parts have the announced width ---- *)
Lemma singleq_parts P text :
  let '((t, m, b), w) := draw_singleq P text in
  w = 4 + 2 * P + length text /\ length t = w /\ length m = w /\ length b = w.
Proof.
  unfold draw_singleq. cbv zeta. repeat split; repeat (rewrite ?app_length, ?rep_length; simpl); lia.
Qed.

Lemma meas_parts P nq t c :
  let '((a, m, b), w) := draw_meas P nq t c in
  w = 5 + 2 * P /\ length a = w /\ length m = w /\ length b = w.
Proof.
  unfold draw_meas. pose proof (singleq_parts P sM) as H.
  destruct (draw_singleq P sM) as [[[a m] b] w]. destruct H as [Hw [Ha [Hm Hb]]].
  simpl length in Hw.
  destruct (t <? c + nq).
  - repeat split; try lia. rewrite set_at_length; [lia|]. rewrite Hb, Hw.
    apply Nat.div_lt; lia.
  - repeat split; try lia. rewrite set_at_length; [lia|]. rewrite Hb, Ha, Hw.
    apply Nat.div_lt; lia.
Qed.

Lemma multiq_parts fx P text targets controls :
  let pw := draw_multiq fx P text targets controls in
  snd pw = 4 + 2 * P + length text /\
  length (p_top (fst pw)) = snd pw /\ length (p_mid (fst pw)) = snd pw /\
  length (p_conn (fst pw)) = snd pw /\ length (p_lab (fst pw)) = snd pw /\
  length (p_bot (fst pw)) = snd pw.
Proof.
  unfold draw_multiq. cbv zeta.
  set (t := [cSP; cTL] ++ rep (P * 2 + length text) cH ++ [cTR; cSP]).
  set (b := [cSP; cBL] ++ rep (P * 2 + length text) cH ++ [cBR; cSP]).
  cbn [fst snd p_top p_mid p_conn p_lab p_bot].
  assert (Lt : length t = 4 + 2 * P + length text).
  { unfold t. repeat (rewrite ?app_length, ?rep_length; simpl). lia. }
  assert (Lb : length b = 4 + 2 * P + length text).
  { unfold b. repeat (rewrite ?app_length, ?rep_length; simpl). lia. }
  assert (Lm : length b / 2 < 4 + 2 * P + length text).
  { rewrite Lb. apply Nat.div_lt; lia. }
  assert (Lmid : length ([cSP; cV] ++ rep P cSP ++ rep (length text) cSP ++ rep P cSP ++ [cV; cSP])
                 = 4 + 2 * P + length text).
  { repeat (rewrite ?app_length, ?rep_length; simpl). lia. }
  assert (Lconn : length ([cH; cRT] ++ rep P cSP ++ rep (length text) cSP ++ rep P cSP ++ [cLT; cH])
                 = 4 + 2 * P + length text).
  { repeat (rewrite ?app_length, ?rep_length; simpl). lia. }
  assert (Llab : length ([cH; cRT] ++ rep P cSP ++ text ++ rep P cSP ++ [cLT; cH])
                 = 4 + 2 * P + length text).
  { repeat (rewrite ?app_length, ?rep_length; simpl). lia. }
  rewrite Lmid, Lconn, Llab.
  destruct (has_controls controls && is_top fx targets (ctl_list controls));
    destruct (has_controls controls && is_bot fx targets (ctl_list controls));
    rewrite ?set_at_length by lia; repeat split; lia.
Qed.

(* ---- has_controls ---- *)
Lemma has_controls_nonempty controls : has_controls controls = true <-> ctl_list controls <> [].
Proof.
  destruct controls as [[|a r]|]; simpl; split; intro H; try discriminate; try congruence.
Qed.

Lemma no_controls_nil controls : has_controls controls = false -> ctl_list controls = [].
Proof. destruct controls as [[|a r]|]; simpl; intro H; try discriminate; reflexivity. Qed.

(* ---- which wires a multi-qubit box touches ---- *)
Lemma multi_wl_cases nq nc name al targets controls w :
  wf_op nq nc (Gate name al targets controls) = true ->
  In w (range (lmin (targets ++ ctl_list controls)) (lmax (targets ++ ctl_list controls) + 1)) ->
  (lmin targets <= w <= lmax targets) \/
  (has_controls controls = true /\ lmax targets < w <= lmax (ctl_list controls)) \/
  (has_controls controls = true /\ lmin (ctl_list controls) <= w < lmin targets).
Proof.
  intros W H. apply wf_gate in W. destruct W as [Hne [ND Hlt]].
  apply in_range in H.
  assert (Hm : targets ++ ctl_list controls <> []) by (destruct targets; [congruence|discriminate]).
  pose proof (lmin_in _ Hm) as Imin. pose proof (lmax_in _ Hm) as Imax.
  destruct (Nat.lt_ge_cases (lmax targets) w) as [A|A].
  - right. left. apply in_app_iff in Imax. destruct Imax as [I|I].
    + apply lmax_ge in I. lia.
    + split.
      * apply has_controls_nonempty. intro E. rewrite E in I. contradiction.
      * apply lmax_ge in I. lia.
  - destruct (Nat.lt_ge_cases w (lmin targets)) as [B|B].
    + right. right. apply in_app_iff in Imin. destruct Imin as [I|I].
      * apply lmin_le in I. lia.
      * split.
        -- apply has_controls_nonempty. intro E. rewrite E in I. contradiction.
        -- apply lmin_le in I. lia.
    + left. lia.
Qed.

Lemma emit_w_skip F wl w x : F w x = x -> emit_w F wl w x = x.
Proof. intro H. unfold emit_w. destruct (mem w wl); auto. Qed.

Lemma emit_w_in F wl w x : mem w wl = true -> emit_w F wl w x = F w x.
Proof. intro H. unfold emit_w. rewrite H. reflexivity. Qed.

Lemma emit_w_out F wl w x : mem w wl = false -> emit_w F wl w x = x.
Proof. intro H. unfold emit_w. rewrite H. reflexivity. Qed.

Lemma qbridge_skip targets cs f l width it w x :
  lmin targets <= w <= lmax targets -> qbridge_wire true targets cs f l width it w x = x.
Proof.
  intro H. unfold qbridge_wire.
  assert (E : (lmin targets <=? w) && (w <=? lmax targets) = true).
  { apply andb_true_iff. split; apply Nat.leb_le; lia. }
  rewrite E. reflexivity.
Qed.

Section Multi.
  Variables (P nq nc : nat) (name : str) (al : option str) (targets : list nat) (controls : option (list nat)).
  Let G := Gate name al targets controls.
  Let cs := ctl_list controls.
  Let pw := draw_multiq true P (gate_text name al) targets controls.
  Hypothesis NS : is_single targets controls = false.
  Hypothesis NW : str_eqb name sSWAP = false.

  Lemma multi_inside w x :
    lmin targets <= w <= lmax targets ->
    op_emit true P nq nc G w x = target_wire true targets controls (fst pw) w x.
  Proof.
    intro H. unfold op_emit, G. rewrite NS, NW. cbv zeta. fold cs. fold pw.
    assert (M : mem w (range (lmin targets) (lmax targets + 1)) = true).
    { rewrite mem_range. apply andb_true_iff. split; [apply Nat.leb_le | apply Nat.ltb_lt]; lia. }
    rewrite (emit_w_in _ _ _ _ M).
    destruct (has_controls controls); [|reflexivity].
    destruct (is_top true targets cs); destruct (is_bot true targets cs);
      rewrite ?emit_w_skip; try reflexivity; try (apply qbridge_skip; exact H).
  Qed.

  Lemma multi_above w x :
    has_controls controls = true -> lmax targets < w <= lmax cs -> targets <> [] ->
    op_emit true P nq nc G w x = qbridge_wire true targets cs (lmin targets) (lmax cs) (snd pw) true w x.
  Proof.
    intros HC H Hne. unfold op_emit, G. rewrite NS, NW. cbv zeta. fold cs. fold pw. rewrite HC.
    pose proof (lmin_le_lmax targets Hne) as Hlh.
    assert (M : mem w (range (lmin targets) (lmax targets + 1)) = false).
    { rewrite mem_range. apply andb_false_iff. right. apply Nat.ltb_ge. lia. }
    rewrite (emit_w_out _ _ _ _ M).
    assert (IT : is_top true targets cs = true) by (unfold is_top; apply Nat.ltb_lt; lia).
    rewrite IT.
    assert (M2 : mem w (range (lmin targets) (lmax cs + 1)) = true).
    { rewrite mem_range. apply andb_true_iff. split; [apply Nat.leb_le | apply Nat.ltb_lt]; lia. }
    rewrite (emit_w_in _ _ _ _ M2).
    rewrite (hd_range (lmin targets) (lmax cs + 1)) by lia.
    rewrite (last_range (lmin targets) (lmax cs + 1)) by lia.
    replace (lmax cs + 1 - 1) with (lmax cs) by lia.
    destruct (is_bot true targets cs); [|reflexivity].
    apply emit_w_out. rewrite mem_range. apply andb_false_iff. right. apply Nat.ltb_ge. lia.
  Qed.

  Lemma multi_below w x :
    has_controls controls = true -> lmin cs <= w < lmin targets -> targets <> [] ->
    op_emit true P nq nc G w x = qbridge_wire true targets cs (lmin cs) (lmax targets) (snd pw) false w x.
  Proof.
    intros HC H Hne. unfold op_emit, G. rewrite NS, NW. cbv zeta. fold cs. fold pw. rewrite HC.
    pose proof (lmin_le_lmax targets Hne) as Hlh.
    assert (M : mem w (range (lmin targets) (lmax targets + 1)) = false).
    { rewrite mem_range. apply andb_false_iff. left. apply Nat.leb_gt. lia. }
    rewrite (emit_w_out _ _ _ _ M).
    assert (IB : is_bot true targets cs = true) by (unfold is_bot; apply Nat.ltb_lt; lia).
    rewrite IB.
    assert (M2 : mem w (range (lmin cs) (lmax targets + 1)) = true).
    { rewrite mem_range. apply andb_true_iff. split; [apply Nat.leb_le | apply Nat.ltb_lt]; lia. }
    assert (X3 : (if is_top true targets cs
                  then emit_w (qbridge_wire true targets cs (hd 0 (range (lmin targets) (lmax cs + 1)))
                                 (last (range (lmin targets) (lmax cs + 1)) 0) (snd pw) (is_top true targets cs))
                              (range (lmin targets) (lmax cs + 1)) w x
                  else x) = x).
    { destruct (is_top true targets cs); [|reflexivity].
      apply emit_w_out. rewrite mem_range. apply andb_false_iff. left. apply Nat.leb_gt. lia. }
    rewrite X3. rewrite (emit_w_in _ _ _ _ M2).
    rewrite (hd_range (lmin cs) (lmax targets + 1)) by lia.
    rewrite (last_range (lmin cs) (lmax targets + 1)) by lia.
    replace (lmax targets + 1 - 1) with (lmax targets) by lia. reflexivity.
  Qed.
End Multi.

(* ---- widths of what is appended ---- *)
Definition seg_ok (width : nat) (y : wire) : Prop :=
  length (top y) = length (mid y) /\ length (bot y) = length (mid y) /\ length (mid y) <= width.

Lemma seg_ok_app3 width a b c :
  length a = length b -> length c = length b -> length b <= width -> seg_ok width (app3 a b c emptyW).
Proof. intros. unfold seg_ok, app3. simpl. auto. Qed.

Lemma qbridge_seg_ok targets cs f l width it w :
  4 <= width -> ~ (lmin targets <= w <= lmax targets) ->
  seg_ok width (qbridge_wire true targets cs f l width it w emptyW).
Proof.
  intros W4 H. unfold qbridge_wire.
  assert (E : (lmin targets <=? w) && (w <=? lmax targets) = false).
  { apply andb_false_iff. destruct (Nat.le_gt_cases (lmin targets) w) as [A|A].
    - right. apply Nat.leb_gt. lia.
    - left. apply Nat.leb_gt. lia. }
  rewrite E.
  pose proof (half_ge2 width W4) as H2. pose proof (twice_half_le width) as H3.
  set (h := width / 2) in *.
  assert (Lb : length (rep h cSP ++ [cV] ++ rep (h - 1) cSP) = 2 * h).
  { repeat (rewrite ?app_length, ?rep_length; simpl). lia. }
  assert (Lm : length (rep h cH ++ [cV] ++ rep (h - 1) cH) = 2 * h).
  { repeat (rewrite ?app_length, ?rep_length; simpl). lia. }
  assert (Ln : length (rep h cH ++ [cND] ++ rep (h - 1) cH) = 2 * h).
  { repeat (rewrite ?app_length, ?rep_length; simpl). lia. }
  destruct (mem w cs).
  - destruct ((w =? f) || (w =? l)).
    + apply seg_ok_app3; destruct it; rewrite ?rep_length; lia.
    + apply seg_ok_app3; lia.
  - apply seg_ok_app3; lia.
Qed.

Lemma target_seg_ok targets controls p width w :
  length (p_top p) = width -> length (p_mid p) = width -> length (p_conn p) = width ->
  length (p_lab p) = width -> length (p_bot p) = width -> 4 <= width ->
  seg_ok width (target_wire true targets controls p w emptyW).
Proof.
  intros H1 H2 H3 H4 H5 W4. unfold target_wire.
  destruct (length targets =? 1); [apply seg_ok_app3; lia|].
  destruct ((w =? lmin targets) && mem w targets); [apply seg_ok_app3; lia|].
  destruct ((w =? lmax targets) && mem w targets); [apply seg_ok_app3; lia|].
  destruct (true && has_controls controls && mem w (ctl_list controls)).
  - assert (L : length (set_at (length (p_mid p) / 2) cND (p_mid p)) = width).
    { rewrite set_at_length; [lia|]. rewrite H2. apply Nat.div_lt; lia. }
    apply seg_ok_app3; lia.
  - apply seg_ok_app3; lia.
Qed.

Lemma swap_seg_ok P f l w : seg_ok (4 * P + 1) (swap_wire P f l w emptyW).
Proof.
  unfold swap_wire.
  replace (4 * P + 1) with (2 * (2 * P) + 1) by lia. rewrite half_odd.
  set (h := 2 * P).
  assert (Lb : length (rep h cSP ++ [cV] ++ rep h cSP) = 2 * h + 1).
  { repeat (rewrite ?app_length, ?rep_length; simpl). lia. }
  assert (Lm : length (rep h cH ++ [cV] ++ rep h cH) = 2 * h + 1).
  { repeat (rewrite ?app_length, ?rep_length; simpl). lia. }
  assert (Lx : length (rep h cH ++ [cX] ++ rep h cH) = 2 * h + 1).
  { repeat (rewrite ?app_length, ?rep_length; simpl). lia. }
  destruct (w =? l); [apply seg_ok_app3; rewrite ?rep_length; lia|].
  destruct (w =? f); apply seg_ok_app3; rewrite ?rep_length; lia.
Qed.

Lemma cbridge_seg_ok nq t c P w :
  w <> t -> seg_ok (5 + 2 * P) (cbridge_wire nq t c (5 + 2 * P) w emptyW).
Proof.
  intro H. unfold cbridge_wire.
  assert (E : (w =? t) = false) by (apply Nat.eqb_neq; exact H). rewrite E.
  replace (5 + 2 * P) with (2 * (P + 2) + 1) by lia. rewrite half_odd.
  set (h := P + 2).
  assert (L1 : length (rep h cSP ++ [cDV] ++ rep h cSP) = 2 * h + 1).
  { repeat (rewrite ?app_length, ?rep_length; simpl). lia. }
  assert (L2 : length (rep h cH ++ [cDV] ++ rep h cH) = 2 * h + 1).
  { repeat (rewrite ?app_length, ?rep_length; simpl). lia. }
  assert (L3 : length (rep h cDH ++ [cDV] ++ rep h cDH) = 2 * h + 1).
  { repeat (rewrite ?app_length, ?rep_length; simpl). lia. }
  assert (L4 : length (rep h cDH ++ [cST] ++ rep h cDH) = 2 * h + 1).
  { repeat (rewrite ?app_length, ?rep_length; simpl). lia. }
  destruct (w =? nq + c).
  - apply seg_ok_app3; rewrite ?rep_length; lia.
  - destruct (nq <? w); apply seg_ok_app3; lia.
Qed.

(* the main width fact: on every wire of its wire list an operation appends three strings of one
   common length, at most the width reserved for it by _manage_layers *)
Lemma op_seg_ok P nq nc o w :
  wf_op nq nc o = true -> In w (op_wl nq nc o) ->
  seg_ok (op_width true P nq o) (op_emit true P nq nc o w emptyW).
Proof.
  intros W I.
  destruct o as [name al targets controls | t c].
  - unfold op_wl in I. unfold op_width.
    destruct (is_single targets controls) eqn:E1.
    + unfold op_emit. rewrite E1. apply mem_true in I. rewrite (emit_w_in _ _ _ _ I).
      pose proof (singleq_parts P (gate_text name al)) as H.
      destruct (draw_singleq P (gate_text name al)) as [[[a m] b] wd]. destruct H as [Hw [Ha [Hm Hb]]].
      simpl. apply seg_ok_app3; lia.
    + destruct (str_eqb name sSWAP) eqn:E2.
      * unfold op_emit. rewrite E1, E2. cbv zeta. unfold op_wl. rewrite E1, E2.
        apply mem_true in I. rewrite (emit_w_in _ _ _ _ I). apply swap_seg_ok.
      * pose proof (multiq_parts true P (gate_text name al) targets controls) as MP. cbv zeta in MP.
        destruct MP as [Hw [H1 [H2 [H3 [H4 H5]]]]].
        pose proof (wf_gate _ _ _ _ _ _ W) as [Hne _].
        destruct (multi_wl_cases nq nc name al targets controls w W I) as [C|[[HC C]|[HC C]]].
        -- rewrite (multi_inside P nq nc name al targets controls E1 E2 w emptyW C).
           apply target_seg_ok; lia.
        -- rewrite (multi_above P nq nc name al targets controls E1 E2 w emptyW HC C Hne).
           apply qbridge_seg_ok; lia.
        -- rewrite (multi_below P nq nc name al targets controls E1 E2 w emptyW HC C Hne).
           apply qbridge_seg_ok; lia.
  - unfold op_wl in I. unfold op_width, op_emit. fold (op_wl nq nc (Meas t c)).
    pose proof (meas_parts P nq t c) as H.
    destruct (draw_meas P nq t c) as [[[a m] b] wd]. destruct H as [Hw [Ha [Hm Hb]]].
    simpl fst. simpl snd. subst wd.
    assert (I' : mem w (op_wl nq nc (Meas t c)) = true) by (apply mem_true; exact I).
    rewrite (emit_w_in _ _ _ _ I').
    destruct (Nat.eq_dec w t) as [->|N].
    + rewrite emit_w_in by (simpl; rewrite Nat.eqb_refl; reflexivity).
      unfold cbridge_wire. rewrite Nat.eqb_refl. simpl. apply seg_ok_app3; lia.
    + rewrite emit_w_out.
      * apply cbridge_seg_ok. exact N.
      * simpl. apply Nat.eqb_neq in N. rewrite N. reflexivity.
Qed.
