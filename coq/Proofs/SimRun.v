(* C02 -- one run of the state-vector simulator follows a branch of Spec/Branch.v:
   run with prescribed outcomes (post-selection) and unconstrained run (any random oracle). *)
From Coq Require Import List Arith NArith Bool Lia Field Ring.
From QV Require Import Model.Sim Spec.Branch Proofs.SimLaws Proofs.SimCond.
Import ListNotations.

(* ---- lists and the heap --------------------------------------------------------------------- *)
Lemma upd_nth_some : forall {A} (l : list A) i x, i < length l -> upd_nth l i x = Some (set_nth l i x).
Proof.
  induction l as [|y l IH]; intros i x H; cbn in H; [lia|].
  destruct i; cbn [upd_nth set_nth]; [reflexivity|]. rewrite IH by lia. reflexivity.
Qed.

Lemma set_nth_length : forall {A} (l : list A) i x, length (set_nth l i x) = length l.
Proof. induction l; intros [|i] x; cbn; auto. Qed.

Lemma nth_error_set_nth_eq : forall {A} (l : list A) i x, i < length l -> nth_error (set_nth l i x) i = Some x.
Proof. induction l; intros [|i] x H; cbn in *; try lia; [reflexivity|apply IHl; lia]. Qed.

Lemma nth_error_set_nth_neq : forall {A} (l : list A) i j x, i <> j -> nth_error (set_nth l i x) j = nth_error l j.
Proof. induction l; intros [|i] [|j] x H; cbn; try reflexivity; try lia. apply IHl. lia. Qed.

Lemma skipn_nth_error : forall {A} (l : list A) k b, nth_error l k = Some b -> skipn k l = b :: skipn (S k) l.
Proof.
  induction l as [|a l IH]; intros [|k] b H; cbn in H; try discriminate.
  - injection H as ->. reflexivity.
  - cbn [skipn]. rewrite (IH k b H). reflexivity.
Qed.

Definition cbrel (h : heap) (ref : option nat) (cb : list nat) : Prop :=
  match ref with Some r => hget h r = Some cb | None => cb = [] end.

(* only the list object [ref] may have changed, no object was created *)
Definition frame (ref : option nat) (h h' : heap) : Prop :=
  match ref with
  | Some r => length h' = length h /\ forall r', r' <> r -> hget h' r' = hget h r'
  | None => h' = h
  end.

Lemma frame_refl : forall ref h, frame ref h h.
Proof. destruct ref; cbn; auto. Qed.

Lemma frame_trans : forall ref h1 h2 h3, frame ref h1 h2 -> frame ref h2 h3 -> frame ref h1 h3.
Proof.
  destruct ref; cbn; [|congruence]. intros h1 h2 h3 [A B] [C D]. split; [congruence|].
  intros r' H. rewrite D, B by exact H. reflexivity.
Qed.

Section Run.
Variable X : Sys.
Hypothesis L : SysLaws X.

Add Field FF2 : (L_field X L).

Notation "0" := (f0 X).
Notation "1" := (f1 X).
Infix "+" := (fadd X).
Infix "*" := (fmul X).
Infix "/" := (fdiv X).
Notation mach := (mach X).
Notation op := (op X).

Lemma store_bit_spec : forall store b h (m : mach) cb ncb,
  cbrel h (m_cb X m) cb -> length cb = ncb -> wf_op X ncb (OMeas (X:=X) (fst store) (snd store)) = true ->
  exists h', store_bit X (snd store) b h m = Ok h' /\ cbrel h' (m_cb X m) (write (snd store) b cb) /\ frame (m_cb X m) h h'.
Proof.
  intros [q [c|]] b h m cb ncb Hrel Hlen Hwf; cbn [fst snd] in *; cbn [store_bit write].
  2:{ exists h. split; [reflexivity|]. split; [exact Hrel|apply frame_refl]. }
  cbn in Hwf. apply Nat.ltb_lt in Hwf.
  destruct (m_cb X m) as [r|] eqn:Er; cbn [cbrel frame] in *.
  2:{ subst cb. cbn in Hlen. lia. }
  rewrite Hrel. rewrite upd_nth_some by lia.
  unfold hset, hget in *.
  assert (Hr : r < length h) by (apply nth_error_Some; congruence).
  rewrite upd_nth_some by exact Hr.
  eexists. split; [reflexivity|]. split.
  - apply nth_error_set_nth_eq. exact Hr.
  - split; [apply set_nth_length|]. intros r' Hne. apply nth_error_set_nth_neq. congruence.
Qed.

Lemma write_length : forall store b cb, length (write store b cb) = length cb.
Proof. intros [c|] b cb; cbn; [apply set_nth_length|reflexivity]. Qed.

(* the classical-condition test, as seen from a machine whose register is described by [cbrel] *)
Lemma fire_spec : forall h (m : mach) cb ncb cc v,
  cbrel h (m_cb X m) cb -> length cb = ncb ->
  wf_op X ncb (OGate (X:=X) (fst cc) (Some (snd cc, v))) = true ->
  exists cbo, cur_cbits X h m = Ok cbo /\ check_cc (snd cc) v cbo = Ok (cond_true (snd cc) v cb).
Proof.
  intros h m cb ncb [g cc] v Hrel Hlen Hwf. cbn [fst snd] in *. cbn in Hwf.
  apply andb_true_iff in Hwf. destruct Hwf as [Hin Hv].
  rewrite forallb_forall in Hin. apply N.ltb_lt in Hv.
  unfold cur_cbits. destruct (m_cb X m) as [r|] eqn:Er; cbn [cbrel] in Hrel.
  - rewrite Hrel. eexists. split; [reflexivity|]. apply check_cc_spec; [|exact Hv].
    intros i Hi. specialize (Hin i Hi). apply Nat.ltb_lt in Hin. lia.
  - subst cb. cbn in Hlen. subst ncb. exists None. split; [reflexivity|].
    destruct cc as [|i cc].
    + cbn in Hv. assert (v = 0%N) by lia. subst v. reflexivity.
    + specialize (Hin i (or_introl eq_refl)). cbn in Hin. discriminate Hin.
Qed.

(* ---- scaling facts ---------------------------------------------------------------------------- *)
Lemma p_formula : forall P u q b, fpos X P ->
  nrm X (proj X q b (renorm X P u)) = nrm X (proj X q b u) / P.
Proof. intros. rewrite (L_proj_renorm X L) by assumption. apply (L_nrm_renorm X L). assumption. Qed.

Lemma kept_facts : forall P u q b, fpos X P -> nrm X u = P ->
  keepb X (nrm X (proj X q b (renorm X P u))) = true ->
  let p := nrm X (proj X q b (renorm X P u)) in
  renorm X p (proj X q b (renorm X P u)) = renorm X (P * p) (proj X q b u) /\
  nrm X (proj X q b u) = P * p /\ P * p <> 0 /\ fpos X p.
Proof.
  intros P u q b HP Hn Hk p.
  assert (Hp0 : p <> 0) by (apply (L_keep X L); exact Hk).
  assert (Hpp : fpos X p) by (split; [apply (L_nrm_pos X L)|exact Hp0]).
  pose proof HP as [HP1 HP2].
  assert (E : p = nrm X (proj X q b u) / P) by (apply p_formula; exact HP).
  repeat split; try assumption.
  - transitivity (renorm X p (renorm X P (proj X q b u))).
    + f_equal. apply (L_proj_renorm X L). exact HP.
    + rewrite (L_renorm_renorm X L) by (first [exact Hpp | exact HP]). f_equal. ring.
  - rewrite E. field. exact HP2.
  - apply fmul_neq_0; assumption.
  - apply (L_nrm_pos X L).
Qed.

(* ---- what a run must deliver for the branch (uf, cbf) ----------------------------------------- *)
Definition post_ok (ref : option nat) (h h' : heap) (m' : mach) (uf : St X) (cbf : list nat) : Prop :=
  frame ref h h' /\ m_cb X m' = ref /\
  (nrm X uf <> 0 -> m_st X m' = Some (renorm X (nrm X uf) uf) /\ m_prob X m' = nrm X uf /\ cbrel h' ref cbf) /\
  (nrm X uf = 0 -> m_st X m' = None /\ m_prob X m' = 0).

Lemma nmeas_cons_meas : forall q st tl, nmeas X (OMeas q st :: tl) = S (nmeas X tl).
Proof. reflexivity. Qed.
Lemma nmeas_cons_gate : forall g cc tl, nmeas X (OGate g cc :: tl) = nmeas X tl.
Proof. reflexivity. Qed.

(* run with prescribed outcomes l (post-selection) *)
Lemma run_ops_post : forall orc ncb l ops h (m : mach) u cb P,
  wf X ncb ops = true -> length cb = ncb -> cbrel h (m_cb X m) cb ->
  m_st X m = Some (renorm X P u) -> m_prob X m = P -> nrm X u = P -> P <> 0 ->
  m_mind X m + nmeas X ops <= length l ->
  clear X ops (skipn (m_mind X m) l) (renorm X P u) cb = true ->
  exists h' m', run_ops X (Some l) orc ops h m = Ok (h', m') /\
    post_ok (m_cb X m) h h' m'
            (fst (ubranch X ops (skipn (m_mind X m) l) u cb)) (snd (ubranch X ops (skipn (m_mind X m) l) u cb)).
Proof.
  intros orc ncb l. induction ops as [|o tl IH]; intros h m u cb P Hwf Hlen Hrel Hst Hpr Hn HP Hml Hcl.
  - exists h, m. split; [reflexivity|]. cbn [ubranch fst snd]. unfold post_ok.
    split; [apply frame_refl|]. split; [reflexivity|]. split.
    + intros _. rewrite Hn. auto.
    + intros E. congruence.
  - assert (HfP : fpos X P) by (rewrite <- Hn; apply (fpos_nrm X L); rewrite Hn; exact HP).
    cbn [wf forallb] in Hwf. apply andb_true_iff in Hwf. destruct Hwf as [Hwo Hwt].
    cbn [run_ops]. unfold step. rewrite Hst.
    destruct o as [g [[cc v]|]|q st].
    + (* conditioned gate *)
      destruct (fire_spec h m cb ncb (g, cc) v Hrel Hlen Hwo) as [cbo [Hcur Hchk]]. cbn [fst snd] in Hchk.
      rewrite Hcur, Hchk. cbn [ubranch clear] in *. rewrite nmeas_cons_gate in Hml.
      destruct (cond_true cc v cb).
      * cbn [m_st]. rewrite (L_gate_renorm X L) in Hcl |- * by exact HfP.
        apply (IH h (mkMach X (Some (renorm X P (gate X g u))) (m_cb X m) (m_prob X m) (m_mind X m) (m_rand X m)) (gate X g u) cb P);
          cbn [m_st m_cb m_prob m_mind]; auto.
        rewrite (L_unitary X L). exact Hn.
      * rewrite Hst. apply (IH h m u cb P); auto.
    + (* plain gate *)
      cbn [ubranch clear m_st] in *. rewrite nmeas_cons_gate in Hml.
      rewrite (L_gate_renorm X L) in Hcl |- * by exact HfP.
      apply (IH h (mkMach X (Some (renorm X P (gate X g u))) (m_cb X m) (m_prob X m) (m_mind X m) (m_rand X m)) (gate X g u) cb P);
        cbn [m_st m_cb m_prob m_mind]; auto.
      rewrite (L_unitary X L). exact Hn.
    + (* measurement *)
      rewrite nmeas_cons_meas in Hml.
      destruct (nth_error l (m_mind X m)) as [b|] eqn:Enth.
      2:{ apply nth_error_None in Enth. lia. }
      rewrite (skipn_nth_error l _ b Enth) in *.
      assert (Htr : truthy (Some l) = Some l) by (destruct l; [destruct (m_mind X m); discriminate|reflexivity]).
      unfold apply_meas. rewrite Htr, Enth.
      destruct (store_bit_spec (q, st) b h m cb ncb Hrel Hlen Hwo) as [h1 [Hsb [Hrel1 Hfr1]]]. cbn [snd] in *.
      rewrite Hsb. cbn [ubranch clear] in *.
      apply andb_true_iff in Hcl. destruct Hcl as [Hpok Hcl]. apply andb_true_iff in Hpok. destruct Hpok as [Hpok0 Hpok1].
      set (p := nrm X (proj X q b (renorm X P u))) in *.
      assert (Hpick : (if b then meas_out X q (renorm X P u) true else meas_out X q (renorm X P u) false)
                      = meas_out X q (renorm X P u) b) by (destruct b; reflexivity).
      rewrite Hpick. unfold meas_out. fold p.
      destruct (keepb X p) eqn:Ek.
      * (* outcome kept *)
        destruct (kept_facts P u q b HfP Hn Ek) as [Est [Enu [Hne Hfp]]]. fold p in Est, Enu, Hne, Hfp.
        cbn [fst snd m_st]. rewrite Est in Hcl |- *.
        destruct (IH h1 (mkMach X (Some (renorm X (P * p) (proj X q b u))) (m_cb X m) (m_prob X m * p) (S (m_mind X m)) (m_rand X m))
                     (proj X q b u) (write st b cb) (P * p)) as [h' [m' [Hrun Hpost]]];
          cbn [m_st m_cb m_prob m_mind]; auto.
        { rewrite write_length. exact Hlen. }
        { rewrite Hpr. reflexivity. }
        { lia. }
        cbn [m_cb m_mind] in Hrun, Hpost. exists h', m'. split; [exact Hrun|].
        destruct Hpost as [Hfr [Hcb Hrest]]. split; [eapply frame_trans; eassumption|]. split; [exact Hcb|exact Hrest].
      * (* outcome impossible: the run stops with state None and probability 0 *)
        cbn [fst snd m_st].
        assert (Hp0 : p = 0) by (destruct b; [apply (pok_cases X L _ Hpok1 Ek)|apply (pok_cases X L _ Hpok0 Ek)]).
        assert (Hu0 : nrm X (proj X q b u) = 0).
        { assert (E : p = nrm X (proj X q b u) / P) by (apply p_formula; exact HfP).
          rewrite Hp0 in E. destruct HfP as [_ HP2].
          assert (E2 : nrm X (proj X q b u) = (nrm X (proj X q b u) / P) * P) by (field; exact HP2).
          rewrite E2, <- E. ring. }
        eexists. eexists. split; [reflexivity|]. unfold post_ok. cbn [m_cb m_st m_prob].
        split; [exact Hfr1|]. split; [reflexivity|].
        pose proof (ubranch_nrm0 X L tl (skipn (S (m_mind X m)) l) (proj X q b u) (write st b cb) Hu0) as Hz.
        split; [intros Hc; contradiction|]. intros _. split; [reflexivity|]. rewrite Hpr. ring.
Qed.

(* np.random.choice in _apply_measurement: whatever the oracle says, an outcome of non-zero probability is taken *)
Lemma apply_meas_rand : forall orc mres q st h (m : mach) s, truthy mres = None ->
  pok X (nrm X (proj X q false s)) = true -> pok X (nrm X (proj X q true s)) = true ->
  nrm X (proj X q false s) + nrm X (proj X q true s) = 1 ->
  exists b, nrm X (proj X q b s) <> 0 /\ keepb X (nrm X (proj X q b s)) = true /\
    apply_meas X q st mres orc h m s =
    match store_bit X st b h m with
    | Err => Err
    | Ok h' => Ok (h', mkMach X (Some (renorm X (nrm X (proj X q b s)) (proj X q b s))) (m_cb X m)
                              (m_prob X m * (nrm X (proj X q b s) / 1)) (m_mind X m) (S (m_rand X m)))
    end.
Proof.
  intros orc mres q st h m s Htr Hpok0 Hpok1 Htot.
  assert (Hsnd : forall b, snd (meas_out X q s b) = nrm X (proj X q b s)).
  { intros b. unfold meas_out. destruct (keepb X (nrm X (proj X q b s))) eqn:Ek; [reflexivity|].
    cbn [snd]. symmetry. destruct b; [apply (pok_cases X L _ Hpok1 Ek)|apply (pok_cases X L _ Hpok0 Ek)]. }
  assert (Hkeep : forall b, nrm X (proj X q b s) <> 0 -> keepb X (nrm X (proj X q b s)) = true).
  { intros b Hb. destruct (keepb X (nrm X (proj X q b s))) eqn:Ek; [reflexivity|]. exfalso. apply Hb.
    destruct b; [apply (pok_cases X L _ Hpok1 Ek)|apply (pok_cases X L _ Hpok0 Ek)]. }
  assert (Hd1 : forall x, x / 1 = x) by (intros; field; apply (f1_neq_0 X L)).
  assert (Hother : forall b, nrm X (proj X q b s) = 0 -> nrm X (proj X q (negb b) s) <> 0).
  { intros b Hb Hc. apply (f1_neq_0 X L). rewrite <- Htot. destruct b; cbn [negb] in Hc; rewrite Hb, Hc; ring. }
  unfold apply_meas. rewrite Htr, !Hsnd, Htot, (proj2 (feqb_false X L 1 0) (f1_neq_0 X L)).
  destruct (orc (m_rand X m)); rewrite Hsnd, Hd1.
  - destruct (feqb X (nrm X (proj X q true s)) 0) eqn:Ew; cbn [negb].
    + apply (L_feqb X L) in Ew. pose proof (Hother true Ew) as Hnz. cbn [negb] in Hnz.
      exists false. split; [exact Hnz|]. split; [apply Hkeep; exact Hnz|].
      rewrite Hsnd. unfold meas_out. rewrite (Hkeep false Hnz). reflexivity.
    + apply (feqb_false X L) in Ew. exists true. split; [exact Ew|]. split; [apply Hkeep; exact Ew|].
      rewrite Hsnd. unfold meas_out. rewrite (Hkeep true Ew). reflexivity.
  - destruct (feqb X (nrm X (proj X q false s)) 0) eqn:Ew; cbn [negb].
    + apply (L_feqb X L) in Ew. pose proof (Hother false Ew) as Hnz. cbn [negb] in Hnz.
      exists true. split; [exact Hnz|]. split; [apply Hkeep; exact Hnz|].
      rewrite Hsnd. unfold meas_out. rewrite (Hkeep true Hnz). reflexivity.
    + apply (feqb_false X L) in Ew. exists false. split; [exact Ew|]. split; [apply Hkeep; exact Ew|].
      rewrite Hsnd. unfold meas_out. rewrite (Hkeep false Ew). reflexivity.
Qed.

(* unconstrained run: for every random oracle the run follows SOME record of non-zero probability *)
Lemma run_ops_rand : forall orc ncb mres, truthy mres = None ->
  forall ops h (m : mach) u cb P,
  wf X ncb ops = true -> length cb = ncb -> cbrel h (m_cb X m) cb ->
  m_st X m = Some (renorm X P u) -> m_prob X m = P -> nrm X u = P -> P <> 0 ->
  (forall r, length r = nmeas X ops -> clear X ops r (renorm X P u) cb = true) ->
  exists r h' m', length r = nmeas X ops /\ run_ops X mres orc ops h m = Ok (h', m') /\
    nrm X (fst (ubranch X ops r u cb)) <> 0 /\
    post_ok (m_cb X m) h h' m' (fst (ubranch X ops r u cb)) (snd (ubranch X ops r u cb)).
Proof.
  intros orc ncb mres Htr. induction ops as [|o tl IH]; intros h m u cb P Hwf Hlen Hrel Hst Hpr Hn HP Hcl.
  - exists [], h, m. split; [reflexivity|]. split; [reflexivity|]. cbn [ubranch fst snd]. split; [congruence|].
    unfold post_ok. split; [apply frame_refl|]. split; [reflexivity|]. split.
    + intros _. rewrite Hn. auto.
    + intros E. congruence.
  - assert (HfP : fpos X P) by (rewrite <- Hn; apply (fpos_nrm X L); rewrite Hn; exact HP).
    cbn [wf forallb] in Hwf. apply andb_true_iff in Hwf. destruct Hwf as [Hwo Hwt].
    cbn [run_ops]. unfold step. rewrite Hst.
    destruct o as [g [[cc v]|]|q st].
    + destruct (fire_spec h m cb ncb (g, cc) v Hrel Hlen Hwo) as [cbo [Hcur Hchk]]. cbn [fst snd] in Hchk.
      rewrite Hcur, Hchk. cbn [ubranch clear] in *. rewrite nmeas_cons_gate in *.
      destruct (cond_true cc v cb).
      * cbn [m_st]. rewrite (L_gate_renorm X L) by exact HfP.
        apply (IH h (mkMach X (Some (renorm X P (gate X g u))) (m_cb X m) (m_prob X m) (m_mind X m) (m_rand X m)) (gate X g u) cb P);
          cbn [m_st m_cb m_prob m_mind]; auto.
        { rewrite (L_unitary X L). exact Hn. }
        intros r Hr. specialize (Hcl r Hr). rewrite (L_gate_renorm X L) in Hcl by exact HfP. exact Hcl.
      * rewrite Hst. apply (IH h m u cb P); auto.
    + cbn [ubranch clear m_st] in *. rewrite nmeas_cons_gate in *.
      rewrite (L_gate_renorm X L) by exact HfP.
      apply (IH h (mkMach X (Some (renorm X P (gate X g u))) (m_cb X m) (m_prob X m) (m_mind X m) (m_rand X m)) (gate X g u) cb P);
        cbn [m_st m_cb m_prob m_mind]; auto.
      { rewrite (L_unitary X L). exact Hn. }
      intros r Hr. specialize (Hcl r Hr). rewrite (L_gate_renorm X L) in Hcl by exact HfP. exact Hcl.
    + rewrite nmeas_cons_meas in *.
      set (s := renorm X P u) in *.
      assert (Hpoks : pok X (nrm X (proj X q false s)) = true /\ pok X (nrm X (proj X q true s)) = true).
      { specialize (Hcl (false :: repeat false (nmeas X tl))). cbn [clear] in Hcl.
        rewrite !andb_true_iff in Hcl. cbn [length] in Hcl. rewrite repeat_length in Hcl.
        destruct (Hcl eq_refl) as [[A B] _]. split; assumption. }
      destruct Hpoks as [Hpok0 Hpok1].
      assert (Htot : nrm X (proj X q false s) + nrm X (proj X q true s) = 1).
      { rewrite (L_complete X L). unfold s. rewrite (L_nrm_renorm X L) by exact HfP. rewrite Hn. field. exact HP. }
      destruct (apply_meas_rand orc mres q st h m s Htr Hpok0 Hpok1 Htot) as [b [Hb [Ek Happ]]].
      rewrite Happ.
      destruct (store_bit_spec (q, st) b h m cb ncb Hrel Hlen Hwo) as [h1 [Hsb [Hrel1 Hfr1]]]. cbn [snd] in *.
      rewrite Hsb. cbn [m_st].
      unfold s in Ek. destruct (kept_facts P u q b HfP Hn Ek) as [Est [Enu [Hne Hfp]]]. fold s in Est, Enu, Hne, Hfp, Ek.
      set (p := nrm X (proj X q b s)) in *.
      rewrite Est.
      destruct (IH h1 (mkMach X (Some (renorm X (P * p) (proj X q b u))) (m_cb X m) (m_prob X m * (p / 1)) (m_mind X m) (S (m_rand X m)))
                   (proj X q b u) (write st b cb) (P * p)) as [r' [h' [m' [Hlr [Hrun [Hnz Hpost]]]]]];
        cbn [m_st m_cb m_prob m_mind]; auto.
      { rewrite write_length. exact Hlen. }
      { rewrite Hpr. field. apply (f1_neq_0 X L). }
      { intros r Hr. specialize (Hcl (b :: r)). cbn [clear length] in Hcl. rewrite Hr in Hcl. specialize (Hcl eq_refl).
        rewrite !andb_true_iff in Hcl. destruct Hcl as [_ Hcl]. fold p in Hcl. rewrite Ek, Est in Hcl. exact Hcl. }
      cbn [m_cb] in Hrun, Hpost. exists (b :: r'), h', m'. split; [cbn; congruence|]. split; [exact Hrun|].
      cbn [ubranch]. split; [exact Hnz|].
      destruct Hpost as [Hfr [Hcb Hrest]]. split; [eapply frame_trans; eassumption|]. split; [exact Hcb|exact Hrest].
Qed.

End Run.
