(* C03: semantic obligations for basis configurations 256 .. 319 of all_cfgs (20 gate kinds each) *)
From QV Require Import Model.Resolve Proofs.ResolveChkDefs.
Lemma chk_sem_4 : sem_ok (slice 4) = true.
Proof. vm_compute. reflexivity. Qed.
