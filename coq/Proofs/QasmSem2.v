(* C04 import_sound, part 2: user-defined gates.  (i) the importer's expansion on local qubits 0.. followed by placement
   on the statement's qubits is its expansion on those qubits (custom_rename); (ii) the expansion on distinct qubits has,
   up to a unit scalar, the action of the standard's macro expansion to library-level leaves (custom_sem) - nested
   induction over the definitions and the bodies, using the per-leaf lemma of part 1. *)
From Coq Require Import Lia FunctionalExtensionality.
From QV Require Import Model.QasmImport Spec.QasmSem Found.Circ Gen.Gates Gen.Qasm Proofs.QasmShortcut Proofs.QasmCustom Proofs.QasmSem1.
Local Open Scope string_scope.
Local Open Scope nat_scope.
Local Open Scope list_scope.

(* ---- lookups of formal qubit names ---- *)
Lemma sassoc_combine_map (f : nat -> nat) x ks : forall regs,
  sassoc x (combine ks (map f regs)) = option_map f (sassoc x (combine ks regs)).
Proof.
  induction ks as [|k ks IH]; intros regs; [reflexivity|]. destruct regs as [|r regs]; [reflexivity|].
  cbn [map combine sassoc]. destruct (String.eqb x k); [reflexivity|apply IH].
Qed.
Lemma omap_lookup_map (f : nat -> nat) ks regs hq :
  omap (fun x => sassoc x (combine ks (map f regs))) hq = option_map (map f) (omap (fun x => sassoc x (combine ks regs)) hq).
Proof.
  induction hq as [|x hq IH]; [reflexivity|]. cbn [omap]. rewrite sassoc_combine_map, IH.
  destruct (sassoc x (combine ks regs)); [|reflexivity]. cbn [option_map].
  destruct (omap (fun x0 => sassoc x0 (combine ks regs)) hq); reflexivity.
Qed.
Lemma sassoc_combine_in x ks : forall (regs : list nat) v, sassoc x (combine ks regs) = Some v -> In v regs.
Proof.
  induction ks as [|k ks IH]; intros regs v H; [discriminate|]. destruct regs as [|r regs]; [discriminate|].
  cbn [combine sassoc] in H. destruct (String.eqb x k).
  - injection H as <-. left. reflexivity.
  - right. eapply IH; eauto.
Qed.
Lemma sassoc_combine_inj ks : forall (regs : list nat) x y v, NoDup regs ->
  sassoc x (combine ks regs) = Some v -> sassoc y (combine ks regs) = Some v -> x = y.
Proof.
  induction ks as [|k ks IH]; intros regs x y v Hnd Hx Hy; [discriminate|]. destruct regs as [|r regs]; [discriminate|].
  cbn [combine sassoc] in Hx, Hy. inversion Hnd as [|? ? Hr Hnd']; subst.
  destruct (String.eqb x k) eqn:Ex; destruct (String.eqb y k) eqn:Ey.
  - apply String.eqb_eq in Ex. apply String.eqb_eq in Ey. congruence.
  - injection Hx as <-. exfalso. apply Hr. eapply sassoc_combine_in; eauto.
  - injection Hy as <-. exfalso. apply Hr. eapply sassoc_combine_in; eauto.
  - eapply IH; eauto.
Qed.
Lemma smem_false_notin x l : smem x l = false -> ~ In x l.
Proof.
  unfold smem. intros H Hin. assert (existsb (String.eqb x) l = true) by (apply existsb_exists; exists x; split; [exact Hin|apply String.eqb_refl]).
  congruence.
Qed.
Lemma lookup_nodup ks (regs : list nat) : NoDup regs -> forall hq hqs, snodup hq = true ->
  omap (fun x => sassoc x (combine ks regs)) hq = Some hqs -> NoDup hqs.
Proof.
  intros Hnd hq. induction hq as [|x hq IH]; intros hqs Hs H.
  - injection H as <-. constructor.
  - cbn [omap] in H. destruct (sassoc x (combine ks regs)) as [v|] eqn:Ex; [|discriminate].
    destruct (omap (fun x0 => sassoc x0 (combine ks regs)) hq) as [r|] eqn:Er; [|discriminate]. injection H as <-.
    cbn [snodup] in Hs. apply andb_prop in Hs. destruct Hs as [Hx Hs]. apply Bool.negb_true_iff in Hx.
    constructor; [|apply IH; [exact Hs|reflexivity]].
    intros Hin. apply (smem_false_notin _ _ Hx).
    clear IH Hs Hx. revert r Er Hin. induction hq as [|y hq IH2]; intros r Er Hin.
    + injection Er as <-. destruct Hin.
    + cbn [omap] in Er. destruct (sassoc y (combine ks regs)) as [w|] eqn:Ey; [|discriminate].
      destruct (omap (fun x0 => sassoc x0 (combine ks regs)) hq) as [r'|] eqn:Er'; [|discriminate]. injection Er as <-.
      destruct Hin as [->|Hin].
      * left. symmetry. eapply sassoc_combine_inj; eauto.
      * right. eapply IH2; eauto.
Qed.

Section S.
Variable A : VAlg.

Lemma add_predefined_map (f : nat -> nat) g regs (vals : list A) gs :
  add_predefined g regs vals = Some gs -> add_predefined g (map f regs) vals = Some (map (glob A f) gs).
Proof.
  unfold add_predefined. destruct (sassoc g shortcuts) as [sc|].
  - rewrite !pickn_map. destruct (pickn regs (sc_targets sc)); [|discriminate]. destruct (pickn regs (sc_controls sc)); [|discriminate].
    intros H. injection H as <-. reflexivity.
  - intros H. injection H as <-. reflexivity.
Qed.

(* (i) expansion commutes with renaming of the qubits *)
Theorem custom_rename (f : nat -> nat) : forall (G : list (string * idef)) g (vals : list A) regs gs,
  custom A G g vals regs = Some gs -> custom A G g vals (map f regs) = Some (map (glob A f) gs).
Proof.
  induction G as [|[g' d] G IH]; intros g vals regs gs Hc.
  - cbn [custom] in *. destruct (smem g predefined); [apply add_predefined_map; exact Hc|discriminate].
  - cbn [custom] in *. destruct (smem g predefined); [apply add_predefined_map; exact Hc|].
    destruct (String.eqb g g'); [|apply IH; exact Hc].
    rewrite map_length. destruct (_ && _); [|discriminate].
    revert gs Hc. generalize (id_body d) as b.
    induction b as [|[[h args] hq] b IHb]; intros gs Hc.
    + simpl in *. inversion Hc. reflexivity.
    + simpl in Hc |- *. rewrite omap_lookup_map.
      destruct (omap (Qasm.eval A (combine (id_params d) vals)) args) as [vs|]; [|discriminate].
      destruct (omap (fun x => sassoc x (combine (id_qubits d) regs)) hq) as [hqs|]; [|discriminate]. cbn [option_map].
      destruct (custom A G h vs hqs) as [l1|] eqn:C1; [|discriminate].
      rewrite (IH h vs hqs l1 C1).
      match type of Hc with match ?X with _ => _ end = _ => destruct X as [r1|] eqn:C2; [|discriminate] end.
      injection Hc as <-. rewrite (IHb r1 eq_refl). rewrite map_app. reflexivity.
Qed.
End S.

(* every gate application inside a stored body names distinct qubits (checked by _initialize_pass) *)
Definition bodies_ok (Gs : genv) : bool :=
  forallb (fun p => forallb (fun s => match s with BCall _ _ hq => snodup hq | BBarrier _ => true end) (gd_body (snd p))) Gs.

Section T.
Variable R : PhaseRing.
Variable A : VAlg.
Variable aenv : list A -> atoms R.
Notation rel := (rel R). Notation den_igs := (den_igs R A aenv). Notation den_leaf := (den_leaf R A aenv).

Lemma expand_leaf_arity g np nq (vals : list A) regs ls Gs :
  sassoc g sig0 = Some (np, nq) -> expand A sig0 Gs g vals regs = Some ls ->
  ls = [(g, vals, regs)] /\ length vals = np /\ length regs = nq.
Proof.
  intros Hs He. destruct Gs as [|[g' d] Gs]; cbn [expand] in He; rewrite Hs in He;
    (destruct (Nat.eqb_spec (length vals) np); destruct (Nat.eqb_spec (length regs) nq); cbn [andb] in He; try discriminate;
     injection He as <-; auto).
Qed.

(* (ii) *)
Theorem custom_sem : forall (Gs : genv) g (vals : list A) regs gs ls,
  bodies_ok Gs = true -> NoDup regs ->
  custom A (conv Gs) g vals regs = Some gs -> expand A sig0 Gs g vals regs = Some ls ->
  forall p1 p2, rel p1 p2 -> rel (sem (den_igs gs) p1) (sem (flat_map den_leaf ls) p2).
Proof.
  induction Gs as [|[g' d] Gs IH]; intros g vals regs gs ls Hok Hnd Hc He p1 p2 Hr.
  - destruct (sassoc g sig0) as [[np nq]|] eqn:Es.
    + destruct (expand_leaf_arity g np nq vals regs ls [] Es He) as [-> [Hv Hq]].
      assert (Hm : smem g predefined = true).
      { destruct (smem g predefined) eqn:M; [reflexivity|]. apply sig0_mem in M. congruence. }
      change (conv []) with (@nil (string * idef)) in Hc. cbn [custom] in Hc. rewrite Hm in Hc.
      cbn [flat_map]. rewrite app_nil_r.
      rewrite (leaf_sem R A aenv g np nq vals regs gs Hm Es Hv Hq Hnd Hc). apply leaf_ph_rel. exact Hr.
    + cbn [expand] in He. rewrite Es in He. discriminate.
  - destruct (sassoc g sig0) as [[np nq]|] eqn:Es.
    + destruct (expand_leaf_arity g np nq vals regs ls _ Es He) as [-> [Hv Hq]].
      assert (Hm : smem g predefined = true).
      { destruct (smem g predefined) eqn:M; [reflexivity|]. apply sig0_mem in M. congruence. }
      rewrite conv_cons in Hc. cbn [custom] in Hc. rewrite Hm in Hc.
      cbn [flat_map]. rewrite app_nil_r.
      rewrite (leaf_sem R A aenv g np nq vals regs gs Hm Es Hv Hq Hnd Hc). apply leaf_ph_rel. exact Hr.
    + assert (Hm : smem g predefined = false) by (apply sig0_mem; exact Es).
      rewrite conv_cons in Hc. cbn [custom expand] in Hc, He. rewrite Es in He. rewrite Hm in Hc.
      cbn [bodies_ok forallb snd] in Hok. apply andb_prop in Hok. destruct Hok as [Hd HokG]. fold (bodies_ok Gs) in HokG.
      destruct (String.eqb g g').
      * cbn [id_params id_qubits id_body] in Hc.
        destruct (_ && _); [|discriminate].
        revert gs ls p1 p2 Hr Hc He Hd. generalize (gd_body d) as b.
        induction b as [|s b IHb]; intros gs ls p1 p2 Hr Hc He Hd.
        -- simpl in Hc, He. inversion Hc. inversion He. subst. exact Hr.
        -- destruct s as [h args hq|qs0].
           ++ cbn [forallb] in Hd. apply andb_prop in Hd. destruct Hd as [Hhq Hd].
              simpl in Hc, He.
              destruct (omap (Qasm.eval A (combine (gd_params d) vals)) args) as [vs|]; [|discriminate].
              destruct (omap (fun x => sassoc x (combine (gd_qubits d) regs)) hq) as [hqs|] eqn:Eq; [|discriminate].
              destruct (custom A (conv Gs) h vs hqs) as [l1|] eqn:C1; [|discriminate].
              destruct (expand A sig0 Gs h vs hqs) as [e1|] eqn:E1; [|discriminate].
              match type of Hc with match ?X with _ => _ end = _ => destruct X as [r1|] eqn:C2; [|discriminate] end.
              match type of He with match ?X with _ => _ end = _ => destruct X as [r2|] eqn:E2; [|discriminate] end.
              inversion Hc. inversion He. subst gs ls.
              rewrite den_igs_app, flat_map_app, !(Lemmas.sem_app R).
              apply (IHb r1 r2); [|reflexivity|reflexivity|exact Hd].
              apply (IH h vs hqs l1 e1 HokG); [|exact C1|exact E1|exact Hr].
              eapply lookup_nodup; eauto.
           ++ cbn [forallb] in Hd. simpl in Hc, He. exact (IHb gs ls p1 p2 Hr Hc He Hd).
      * exact (IH g vals regs gs ls HokG Hnd Hc He p1 p2 Hr).
Qed.
End T.
