(* C20 -- layout invariants for the model with the fix (fx = true): every step succeeds, appends to the
   wires of its wire list only, and keeps  |top| = |mid| = |bot| <= sum(layers)  on every wire *)
From Coq Require Import List NArith Arith Bool Lia.
Import ListNotations.
From QV Require Import Model.Render Spec.RenderSpec Proofs.RenderBase Proofs.RenderStep Proofs.RenderSeg.

Definition wire_ok (x : wire) : Prop :=
  length (top x) = length (mid x) /\ length (bot x) = length (mid x) /\
  length (mid x) <= list_sum (lay x).

Definition Inv (nq nc : nat) (st : state) : Prop :=
  length st = nq + nc /\
  (forall w, w < nq + nc -> wire_ok (wire_of st w)) /\
  (forall c, nq <= c < nq + nc ->
     list_sum (lay (wire_of st c)) <= list_sum (lay (wire_of st 0))).

(* the wire after the operation: padded to column X, then the segment *)
Definition grow (nq X width w : nat) (s : str * str * str) (x0 : wire) : wire :=
  let '(a, b, c) := s in
  mkW ((top x0 ++ rep (X - length (top x0)) cSP) ++ a)
      ((mid x0 ++ rep (X - length (mid x0)) (fillc nq w)) ++ b)
      ((bot x0 ++ rep (X - length (bot x0)) cSP) ++ c)
      (lay x0 ++ [X - list_sum (lay x0) + width]).

(* ---- wires of an operation are wires of the circuit ---- *)
Lemma op_wl_bound nq nc o w :
  wf_op nq nc o = true -> In w (op_wl nq nc o) ->
  w < nq + nc /\ (nq <= w -> In 0 (op_wl nq nc o)).
Proof.
  intros W I. destruct o as [name al targets controls | t c].
  - pose proof (wf_gate _ _ _ _ _ _ W) as [Hne [_ Hlt]].
    assert (B : w < nq).
    { unfold op_wl in I. destruct (is_single targets controls).
      - apply Hlt. apply in_app_iff. left. exact I.
      - destruct (str_eqb name sSWAP).
        + apply in_range in I.
          assert (In (lmax targets) (targets ++ ctl_list controls))
            by (apply in_app_iff; left; apply lmax_in; exact Hne).
          apply Hlt in H. lia.
        + apply in_range in I.
          assert (Hm : targets ++ ctl_list controls <> []) by (destruct targets; [congruence|discriminate]).
          pose proof (Hlt _ (lmax_in _ Hm)). lia. }
    split; lia.
  - apply wf_meas in W. destruct W as [Ht Hc]. unfold op_wl in *.
    apply in_app_iff in I. split.
    + destruct I as [I|I]; apply in_range in I; lia.
    + intros _. apply in_app_iff. left. apply in_range. lia.
Qed.

Lemma op_emit_out fx P nq nc o w x :
  wf_op nq nc o = true -> ~ In w (op_wl nq nc o) -> op_emit fx P nq nc o w x = x.
Proof.
  intros W N. destruct o as [name al targets controls | t c]; unfold op_emit.
  - unfold op_wl in N. destruct (is_single targets controls) eqn:E1.
    + apply emit_w_out. apply mem_false. exact N.
    + destruct (str_eqb name sSWAP) eqn:E2.
      * cbv zeta. unfold op_wl. rewrite E1, E2. apply emit_w_out. apply mem_false. exact N.
      * cbv zeta.
        pose proof (wf_gate _ _ _ _ _ _ W) as [Hne _].
        assert (Hm : targets ++ ctl_list controls <> []) by (destruct targets; [congruence|discriminate]).
        rewrite in_range in N.
        assert (Hlo : lmin (targets ++ ctl_list controls) <= lmin targets).
        { apply lmin_le. apply in_app_iff. left. apply lmin_in. exact Hne. }
        assert (Hhi : lmax targets <= lmax (targets ++ ctl_list controls)).
        { apply lmax_ge. apply in_app_iff. left. apply lmax_in. exact Hne. }
        assert (O1 : mem w (range (lmin targets) (lmax targets + 1)) = false).
        { apply mem_false. rewrite in_range. lia. }
        rewrite (emit_w_out _ _ _ _ O1).
        destruct (has_controls controls) eqn:HC; [|reflexivity].
        apply has_controls_nonempty in HC.
        assert (Hclo : lmin (targets ++ ctl_list controls) <= lmin (ctl_list controls)).
        { apply lmin_le. apply in_app_iff. right. apply lmin_in. exact HC. }
        assert (Hchi : lmax (ctl_list controls) <= lmax (targets ++ ctl_list controls)).
        { apply lmax_ge. apply in_app_iff. right. apply lmax_in. exact HC. }
        assert (O2 : mem w (range (lmin targets) (lmax (ctl_list controls) + 1)) = false).
        { apply mem_false. rewrite in_range. lia. }
        assert (O3 : mem w (range (lmin (ctl_list controls)) (lmax targets + 1)) = false).
        { apply mem_false. rewrite in_range. lia. }
        destruct (is_top fx targets (ctl_list controls)); destruct (is_bot fx targets (ctl_list controls));
          rewrite ?(emit_w_out _ _ _ _ O3), ?(emit_w_out _ _ _ _ O2); reflexivity.
  - assert (O1 : mem w (op_wl nq nc (Meas t c)) = false) by (apply mem_false; exact N).
    rewrite (emit_w_out _ _ _ _ O1). apply emit_w_out.
    apply mem_false. intros [E|[]]. subst w. apply N. unfold op_wl. apply in_app_iff. left.
    apply in_range. lia.
Qed.

(* ---- the column of a gate is to the right of everything on its wires ---- *)
Lemma x_ge sty nq nc st o w :
  0 < nq -> wf_op nq nc o = true -> Inv nq nc st -> In w (op_wl nq nc o) ->
  list_sum (lay (wire_of st w)) <= place_x sty nq st (op_wl nq nc o).
Proof.
  intros Hq W [IL [IW IC]] I.
  unfold place_x, get_xskip.
  set (wl := op_wl nq nc o) in *. set (layer := place_layer st wl).
  assert (Full : forall v, In v wl -> firstn layer (lay (wire_of st v)) = lay (wire_of st v)).
  { intros v Hv. apply firstn_all2. unfold layer, place_layer.
    apply (fold_max_ge (fun w => length (lay (wire_of st w))) wl v Hv). }
  destruct (align sty) eqn:EA.
  - destruct (Nat.lt_ge_cases w nq) as [Lw|Gw].
    + rewrite <- (Full w I).
      apply (fold_max_ge (fun w => list_sum (firstn layer (lay (wire_of st w)))) (seq 0 nq) w).
      apply in_seq. lia.
    + destruct (op_wl_bound nq nc o w W I) as [B Z]. specialize (Z Gw).
      transitivity (list_sum (lay (wire_of st 0))).
      * apply IC. lia.
      * rewrite <- (Full 0 Z).
        apply (fold_max_ge (fun w => list_sum (firstn layer (lay (wire_of st w)))) (seq 0 nq) 0).
        apply in_seq. lia.
  - rewrite <- (Full w I).
    apply (fold_max_ge (fun w => list_sum (firstn layer (lay (wire_of st w)))) wl w I).
Qed.

Lemma existsb_false {A} (f : A -> bool) l : (forall x, In x l -> f x = false) -> existsb f l = false.
Proof.
  intro H. destruct (existsb f l) eqn:E; [|reflexivity].
  apply existsb_exists in E. destruct E as [x [Hx Fx]]. rewrite (H x Hx) in Fx. discriminate.
Qed.

(* ---- one loop iteration ---- *)
Lemma step_grow sty nq nc st o :
  0 < nq -> wf_op nq nc o = true -> Inv nq nc st ->
  let X := place_x sty nq st (op_wl nq nc o) in
  exists st',
    step true sty nq nc st o = Some (st', X) /\
    length st' = length st /\
    forall w, w < nq + nc ->
      wire_of st' w =
      if mem w (op_wl nq nc o)
      then grow nq X (op_width true (padw sty) nq o) w (op_seg true (padw sty) nq nc o w) (wire_of st w)
      else wire_of st w.
Proof.
  intros Hq W IN X. pose proof IN as [IL [IW IC]].
  rewrite step_shape.
  set (wl := op_wl nq nc o) in *. set (width := op_width true (padw sty) nq o).
  pose proof (op_wl_nodup nq nc o W) as ND. fold wl in ND.
  assert (XG : forall w, In w wl -> list_sum (lay (wire_of st w)) <= X).
  { intros w Hw. apply (x_ge sty nq nc st o w Hq W IN Hw). }
  assert (NT : neg_temp st wl (place_layer st wl) X = false).
  { apply existsb_false. intros w Hw. specialize (XG w Hw).
    apply andb_false_iff. right. apply Nat.ltb_ge. exact XG. }
  assert (PL : place sty nq st wl width =
               Some (emit (manage_wire width (place_layer st wl) X) wl (adjust_layer_pad nq wl X st), X)).
  { unfold place. fold (place_layer st wl). fold (place_x sty nq st wl). fold X. rewrite NT. reflexivity. }
  rewrite PL.
  destruct (place_wire sty nq st wl width _ _ ND PL) as [_ [L1 [_ PW]]].
  eexists. split; [reflexivity|]. split.
  - rewrite op_apply_length. exact L1.
  - intros w Lw.
    rewrite op_apply_wire; [| exact W | rewrite L1, IL; exact Lw].
    rewrite PW by (rewrite IL; exact Lw).
    destruct (mem w wl) eqn:M.
    + apply mem_true in M. rewrite op_emit_seg.
      destruct (op_seg true (padw sty) nq nc o w) as [[a b] c]. unfold grow.
      unfold manage_wire, pad_wire. cbn [lay top mid bot].
      assert (LL : (place_layer st wl <? length (lay (wire_of st w))) = false).
      { apply Nat.ltb_ge. unfold place_layer.
        apply (fold_max_ge (fun w => length (lay (wire_of st w))) wl w M). }
      rewrite LL. unfold app3. cbn [lay top mid bot].
      specialize (XG w M).
      assert (TE : (if X =? 0 then 0 else X - list_sum (lay (wire_of st w))) = X - list_sum (lay (wire_of st w))).
      { destruct (X =? 0) eqn:E0; [|reflexivity]. apply Nat.eqb_eq in E0. lia. }
      rewrite TE. reflexivity.
    + apply op_emit_out; [exact W|]. apply mem_false. exact M.
Qed.

Lemma grow_ok nq X width w s x0 :
  wire_ok x0 -> list_sum (lay x0) <= X -> seg_ok width (let '(a, b, c) := s in mkW a b c []) ->
  wire_ok (grow nq X width w s x0) /\ list_sum (lay (grow nq X width w s x0)) = X + width.
Proof.
  intros [H1 [H2 H3]] HX. destruct s as [[a b] c]. intros [S1 [S2 S3]]. cbn [top mid bot] in *.
  unfold grow, wire_ok. cbn [top mid bot lay].
  rewrite !app_length, !rep_length, list_sum_app. simpl list_sum. repeat split; lia.
Qed.

Lemma op_seg_as_wire fx P nq nc o w :
  (let '(a, b, c) := op_seg fx P nq nc o w in mkW a b c []) =
  mkW (top (op_emit fx P nq nc o w emptyW)) (mid (op_emit fx P nq nc o w emptyW))
      (bot (op_emit fx P nq nc o w emptyW)) [].
Proof. reflexivity. Qed.

Lemma step_inv sty nq nc st o :
  0 < nq -> wf_op nq nc o = true -> Inv nq nc st ->
  exists st', step true sty nq nc st o = Some (st', place_x sty nq st (op_wl nq nc o)) /\ Inv nq nc st'.
Proof.
  intros Hq W IN. destruct (step_grow sty nq nc st o Hq W IN) as [st' [HS [HL HW]]].
  exists st'. split; [exact HS|].
  pose proof IN as [IL [IW IC]].
  set (X := place_x sty nq st (op_wl nq nc o)) in *.
  set (width := op_width true (padw sty) nq o) in *.
  assert (GK : forall w, w < nq + nc -> In w (op_wl nq nc o) ->
               wire_ok (wire_of st' w) /\ list_sum (lay (wire_of st' w)) = X + width).
  { intros w Lw Hw. rewrite (HW w Lw). rewrite (proj2 (mem_true _ _) Hw).
    apply grow_ok.
    - apply IW. exact Lw.
    - apply (x_ge sty nq nc st o w Hq W IN Hw).
    - rewrite op_seg_as_wire. pose proof (op_seg_ok (padw sty) nq nc o w W Hw) as [A [B C]].
      unfold seg_ok. cbn [top mid bot]. auto. }
  assert (GO : forall w, w < nq + nc -> ~ In w (op_wl nq nc o) -> wire_of st' w = wire_of st w).
  { intros w Lw Hw. rewrite (HW w Lw). rewrite (proj2 (mem_false _ _) Hw). reflexivity. }
  split; [|split].
  - rewrite HL. exact IL.
  - intros w Lw. destruct (in_dec Nat.eq_dec w (op_wl nq nc o)) as [I|N].
    + apply (GK w Lw I).
    + rewrite (GO w Lw N). apply IW. exact Lw.
  - intros c Hc.
    assert (L0 : 0 < nq + nc) by lia.
    assert (Z : list_sum (lay (wire_of st 0)) <= list_sum (lay (wire_of st' 0))).
    { destruct (in_dec Nat.eq_dec 0 (op_wl nq nc o)) as [I|N].
      - rewrite (proj2 (GK 0 L0 I)). pose proof (x_ge sty nq nc st o 0 Hq W IN I). fold X in H. lia.
      - rewrite (GO 0 L0 N). lia. }
    destruct (in_dec Nat.eq_dec c (op_wl nq nc o)) as [I|N].
    + destruct (op_wl_bound nq nc o c W I) as [_ Z0]. specialize (Z0 (proj1 Hc)).
      rewrite (proj2 (GK c (proj2 Hc) I)), (proj2 (GK 0 L0 Z0)). lia.
    + rewrite (GO c (proj2 Hc) N). specialize (IC c Hc). lia.
Qed.

(* ---- the whole loop ---- *)
Lemma run_inv sty nq nc ops : forall st xs,
  0 < nq -> forallb (wf_op nq nc) ops = true -> Inv nq nc st ->
  exists st' xs', run true sty nq nc ops st xs = Some (st', xs') /\ Inv nq nc st'.
Proof.
  induction ops as [|o r IH]; intros st xs Hq W IN.
  - simpl. eauto.
  - simpl in W. apply andb_true_iff in W. destruct W as [W1 W2].
    destruct (step_inv sty nq nc st o Hq W1 IN) as [st1 [HS I1]].
    simpl. rewrite HS. apply IH; assumption.
Qed.

(* ---- _add_wire_labels ---- *)
Lemma label_list_length sty nq nc :
  wf_style sty nq nc = true -> length (label_list sty nq nc) = nq + nc.
Proof.
  unfold wf_style, label_list, default_labels. intro H. apply andb_true_iff in H. destruct H as [_ H].
  destruct (wlabels sty) as [l|].
  - apply Nat.eqb_eq in H. rewrite app_length, skipn_length, firstn_length. lia.
  - rewrite app_length, !map_length, !seq_length. reflexivity.
Qed.

Lemma nth_map_seq {A} (f : nat -> A) n w d : w < n -> nth w (map f (seq 0 n)) d = f w.
Proof.
  intro L. rewrite (nth_indep _ d (f 0)) by (rewrite map_length, seq_length; exact L).
  rewrite (map_nth f (seq 0 n) 0 w). rewrite seq_nth by exact L. reflexivity.
Qed.

Lemma wire_of_init nq nc w :
  w < nq + nc -> wire_of (init_state nq nc) w = mkW [cSP; cSP] [fillc nq w; fillc nq w] [cSP; cSP] [].
Proof.
  intro L. unfold wire_of, init_state. rewrite nth_map_seq by exact L. reflexivity.
Qed.

Lemma init_length nq nc : length (init_state nq nc) = nq + nc.
Proof. unfold init_state. rewrite map_length, seq_length. reflexivity. Qed.

Lemma labels_init sty nq nc :
  0 < nq -> wf_style sty nq nc = true ->
  exists st0,
    add_wire_labels sty nq nc (init_state nq nc) = Some st0 /\ length st0 = nq + nc /\
    forall w, w < nq + nc ->
      wire_of st0 w = label_wire (maxlabel sty nq nc) (nth w (label_list sty nq nc) [])
                                 (mkW [cSP; cSP] [fillc nq w; fillc nq w] [cSP; cSP] []).
Proof.
  intros Hq WS. pose proof (label_list_length sty nq nc WS) as LL.
  unfold add_wire_labels. fold (label_list sty nq nc).
  destruct (label_list sty nq nc) as [|l0 lr] eqn:EL; [simpl in LL; lia|].
  rewrite <- EL in *. rewrite init_length.
  assert (E : (nq + nc <? length (label_list sty nq nc)) = false) by (apply Nat.ltb_ge; lia).
  rewrite E. eexists. split; [reflexivity|]. split.
  - rewrite emit_length. apply init_length.
  - intros w Lw. rewrite wire_of_emit_w; [| apply seq_NoDup | rewrite init_length; exact Lw].
    unfold emit_w.
    assert (M : mem w (seq 0 (length (label_list sty nq nc))) = true).
    { apply mem_true. apply in_seq. lia. }
    rewrite M. rewrite wire_of_init by exact Lw. reflexivity.
Qed.

Lemma label_len_le sty nq nc w :
  w < length (label_list sty nq nc) -> length (nth w (label_list sty nq nc) []) <= maxlabel sty nq nc.
Proof.
  intro L. unfold maxlabel.
  apply (fold_max_ge (@length N) (label_list sty nq nc)). apply nth_In. exact L.
Qed.

Lemma label_wire_mid_length sty nq nc w f :
  w < length (label_list sty nq nc) ->
  length (mid (label_wire (maxlabel sty nq nc) (nth w (label_list sty nq nc) [])
                          (mkW [cSP; cSP] [f; f] [cSP; cSP] []))) = prefix_len sty nq nc.
Proof.
  intro L. pose proof (label_len_le sty nq nc w L). unfold label_wire, prefix_len. cbn [mid].
  repeat (rewrite ?app_length, ?rep_length; simpl). lia.
Qed.

Lemma init_inv sty nq nc :
  0 < nq -> wf_style sty nq nc = true ->
  exists st0, add_wire_labels sty nq nc (init_state nq nc) = Some st0 /\ Inv nq nc st0.
Proof.
  intros Hq WS. destruct (labels_init sty nq nc Hq WS) as [st0 [HA [HL HW]]].
  exists st0. split; [exact HA|].
  pose proof (label_list_length sty nq nc WS) as LL.
  assert (K : forall w, w < nq + nc ->
              wire_ok (wire_of st0 w) /\ list_sum (lay (wire_of st0 w)) = prefix_len sty nq nc).
  { intros w Lw. rewrite (HW w Lw).
    pose proof (label_wire_mid_length sty nq nc w (fillc nq w)) as LM.
    rewrite LL in LM. specialize (LM Lw).
    set (y := label_wire (maxlabel sty nq nc) (nth w (label_list sty nq nc) [])
                         (mkW [cSP; cSP] [fillc nq w; fillc nq w] [cSP; cSP] [])) in *.
    assert (Ty : top y = rep (length (mid y)) cSP) by reflexivity.
    assert (By : bot y = rep (length (mid y)) cSP) by reflexivity.
    assert (Ly : lay y = [length (mid y)]) by reflexivity.
    unfold wire_ok. rewrite Ty, By, Ly, !rep_length, LM. simpl list_sum. repeat split; lia. }
  split; [exact HL|]. split.
  - intros w Lw. apply (K w Lw).
  - intros c Hc. assert (L0 : 0 < nq + nc) by lia.
    rewrite (proj2 (K c (proj2 Hc))). rewrite (proj2 (K 0 L0)). lia.
Qed.

(* ---- final padding and the printed rows ---- *)
Lemma final_rows sty nq nc st :
  Inv nq nc st ->
  let m := fold_right Nat.max 0 (map (fun x => list_sum (lay x)) st) in
  length (final_pad sty nq nc st) = nq + nc /\
  forall w, w < nq + nc ->
    wire_of (final_pad sty nq nc st) w = pad_wire nq (m + ext sty) w (wire_of st w) /\
    length (mid (wire_of st w)) <= m.
Proof.
  intros [IL [IW IC]] m. unfold final_pad. fold m. unfold adjust_layer_pad. split.
  - rewrite emit_length. exact IL.
  - intros w Lw. split.
    + rewrite wire_of_emit_w; [| apply seq_NoDup | rewrite IL; exact Lw].
      unfold emit_w.
      assert (M : mem w (seq 0 (nq + nc)) = true) by (apply mem_true; apply in_seq; lia).
      rewrite M. reflexivity.
    + destruct (IW w Lw) as [_ [_ H]].
      assert (list_sum (lay (wire_of st w)) <= m).
      { unfold m. apply (fold_max_ge (fun x => list_sum (lay x)) st (wire_of st w)).
        unfold wire_of. apply nth_In. rewrite IL. exact Lw. }
      lia.
Qed.

Lemma rows_of_length nq nc st : length (rows_of nq nc st) = 3 * (nq + nc).
Proof.
  unfold rows_of.
  assert (E : forall l : list nat,
             length (flat_map (fun w => let x := wire_of st w in [top x; mid x; bot x]) l) = 3 * length l).
  { induction l as [|a r IH]; simpl; [reflexivity|]. simpl in IH. rewrite IH. lia. }
  rewrite E. rewrite app_length, !rev_length, !seq_length. reflexivity.
Qed.

Lemma in_print_order nq nc w : In w (rev (seq 0 nq) ++ rev (seq nq nc)) <-> w < nq + nc.
Proof.
  rewrite in_app_iff, <- !in_rev, !in_seq. lia.
Qed.

(* ---- the drawing succeeds, with the invariant on the state before the final padding ---- *)
Lemma layout_full_ok sty nq nc ops :
  wf_input sty nq nc ops = true ->
  exists st0 st xs,
    add_wire_labels sty nq nc (init_state nq nc) = Some st0 /\
    run true sty nq nc ops st0 [] = Some (st, xs) /\ Inv nq nc st /\
    layout_full true sty nq nc ops = Some (final_pad sty nq nc st, xs).
Proof.
  intro WF. unfold layout_full. rewrite WF. simpl negb. cbv iota.
  unfold wf_input in WF. apply andb_true_iff in WF. destruct WF as [WF W3].
  apply andb_true_iff in WF. destruct WF as [W1 W2].
  assert (Hq : 0 < nq). { destruct nq; [discriminate|lia]. }
  destruct (init_inv sty nq nc Hq W2) as [st0 [HA I0]].
  destruct (run_inv sty nq nc ops st0 [] Hq W3 I0) as [st [xs [HR I1]]].
  exists st0, st, xs. rewrite HA, HR. auto.
Qed.

Lemma layout_succeeds_l sty nq nc ops :
  wf_input sty nq nc ops = true -> exists rows, layout true sty nq nc ops = Some rows.
Proof.
  intro WF. destruct (layout_full_ok sty nq nc ops WF) as [st0 [st [xs [_ [_ [_ H]]]]]].
  unfold layout. rewrite H. eauto.
Qed.

Lemma rows_three_per_wire_l fx sty nq nc ops rows :
  layout fx sty nq nc ops = Some rows -> length rows = 3 * (nq + nc).
Proof.
  unfold layout. destruct (layout_full fx sty nq nc ops) as [[st xs]|]; [|discriminate].
  intro H. inversion H. apply rows_of_length.
Qed.

Lemma rows_equal_width_l sty nq nc ops rows :
  wf_input sty nq nc ops = true -> layout true sty nq nc ops = Some rows ->
  exists width, forall r, In r rows -> length r = width.
Proof.
  intros WF HL. destruct (layout_full_ok sty nq nc ops WF) as [st0 [st [xs [_ [_ [IN H]]]]]].
  unfold layout in HL. rewrite H in HL. inversion HL; subst rows; clear HL.
  destruct (final_rows sty nq nc st IN) as [FL FW].
  set (m := fold_right Nat.max 0 (map (fun x => list_sum (lay x)) st)) in *.
  exists (m + ext sty). intros r Hr. unfold rows_of in Hr.
  apply in_flat_map in Hr. destruct Hr as [w [Hw Hr]].
  apply in_print_order in Hw. destruct (FW w Hw) as [E Lm]. rewrite E in Hr.
  pose proof IN as [_ [IW _]]. destruct (IW w Hw) as [A [B C]].
  unfold pad_wire in Hr. cbn [top mid bot] in Hr.
  destruct Hr as [Hr|[Hr|[Hr|[]]]]; subst r; rewrite app_length, rep_length; lia.
Qed.
