(* C15 - the closed-form solution of Proofs/RelaxSolution.v stays a physical state for every t >= 0 whenever the
   validation of the set-up code accepts the pair (t1, t2):  unit trace, Hermitian, positive semidefinite
   (2x2 Hermitian: both diagonal entries >= 0 and determinant >= 0, equivalently v^dag rho v >= 0 for every v).
   The determinant inequality is exactly where t2 <= 2 t1 is used; for t2 > 2 t1 (rejected by the code) the same
   closed form leaves the positive cone: the validation boundary is tight. *)
From Coq Require Import Reals Lra Psatz QArith Qreals List.
From Coquelicot Require Import Coquelicot.
From QV Require Import Model.Relax Model.Lindblad Gen.Noise Proofs.Relax Proofs.Lindblad Proofs.RelaxLaw Proofs.LindbladC
                       Proofs.RelaxSolution.
Import ListNotations.
Local Open Scope R_scope.

Definition e00 (m : mat CC) : C := entry CC m 0 0.
Definition e01 (m : mat CC) : C := entry CC m 0 1.
Definition e10 (m : mat CC) : C := entry CC m 1 0.
Definition e11 (m : mat CC) : C := entry CC m 1 1.

Definition herm2 (m : mat CC) : Prop := e10 m = Cconj (e01 m) /\ snd (e00 m) = 0 /\ snd (e11 m) = 0.
Definition det2 (m : mat CC) : R := fst (e00 m) * fst (e11 m) - (fst (e01 m) * fst (e01 m) + snd (e01 m) * snd (e01 m)).
Definition psd2 (m : mat CC) : Prop := 0 <= fst (e00 m) /\ 0 <= fst (e11 m) /\ 0 <= det2 m.
Definition state2 (m : mat CC) : Prop := herm2 m /\ psd2 m /\ fst (e00 m) + fst (e11 m) = 1.

(* the quadratic form v^dag rho v of a Hermitian 2x2 matrix (real part; the imaginary part vanishes) *)
Definition quad2 (m : mat CC) (u v : C) : R :=
  fst (Cplus (Cplus (Cmult (Cconj u) (Cmult (e00 m) u)) (Cmult (Cconj u) (Cmult (e01 m) v)))
             (Cplus (Cmult (Cconj v) (Cmult (e10 m) u)) (Cmult (Cconj v) (Cmult (e11 m) v)))).

(* diag >= 0 and det >= 0 is positive semidefiniteness *)
Lemma psd2_quadratic m : herm2 m -> psd2 m -> forall u v, 0 <= quad2 m u v.
Proof.
  unfold herm2, psd2, det2, quad2. intros [H10 [I0 I1]] [P0 [P1 PD]] [u1 u2] [v1 v2].
  rewrite H10. destruct (e00 m) as [a a'], (e01 m) as [bx by_], (e11 m) as [d d']. simpl in *. subst a' d'.
  ring_simplify.
  (* a |u|^2 + 2 Re(conj u b v) + d |v|^2 >= 0 *)
  destruct (Req_dec a 0) as [Za|Za].
  - subst a. assert (bx * bx + by_ * by_ <= 0) by lra. assert (bx = 0) by nra. assert (by_ = 0) by nra. subst. nra.
  - assert (Pa : 0 < a) by lra.
    apply Rmult_le_reg_l with a; [exact Pa|]. rewrite Rmult_0_r.
    set (X := a * u1 + bx * v1 - by_ * v2). set (Y := a * u2 + bx * v2 + by_ * v1).
    assert (0 <= X * X + Y * Y + (a * d - (bx * bx + by_ * by_)) * (v1 * v1 + v2 * v2)) by nra.
    unfold X, Y in *. nra.
Qed.

(* ---------------------------------------------------------------------------------------------- *)
Lemma Q2R_1 : Q2R 1 = 1.
Proof. unfold Q2R. simpl. field. Qed.

Lemma gp_nonneg a : valid a -> 0 <= gp a.
Proof. destruct a as [t1|]; simpl; intro V; [|lra]. left. apply Rinv_0_lt_compat, Q2R_pos, V. Qed.

(* the validation condition t2 <= 2 t1 in terms of the rates: population rate <= 2 * coherence rate *)
Lemma rates_compat a b : valid a -> valid b -> compat a b -> gp a <= 2 * gc a b.
Proof.
  intros Va Vb Vc. destruct a as [t1|], b as [t2|]; simpl in *.
  - pose proof (Q2R_pos _ Va) as P1. pose proof (Q2R_pos _ Vb) as P2.
    apply Qle_Rle in Vc. rewrite Q2R_mult, Q2R_2 in Vc.
    replace (/ Q2R t1) with (Q2R t2 * / (Q2R t1 * Q2R t2)) by (field; lra).
    replace (2 * / Q2R t2) with (2 * Q2R t1 * / (Q2R t1 * Q2R t2)) by (field; lra).
    apply Rmult_le_compat_r; [|lra]. left. apply Rinv_0_lt_compat. nra.
  - pose proof (Q2R_pos _ Va) as P1. right. field. lra.
  - pose proof (Q2R_pos _ Vb) as P2. assert (0 < / Q2R t2) by (apply Rinv_0_lt_compat; exact P2). lra.
  - lra.
Qed.

(* the analytic core: with E = e^{-gp t}, F = e^{-gc t}:  0 < E <= 1 and F^2 <= E  (needs gp <= 2 gc and t >= 0) *)
Lemma decay_factors p c t : 0 <= p -> p <= 2 * c -> 0 <= t ->
  0 < exp (- p * t) <= 1 /\ 0 < exp (- c * t) /\ exp (- c * t) * exp (- c * t) <= exp (- p * t).
Proof.
  intros Hp Hc Ht. split; [split; [apply exp_pos|]|split; [apply exp_pos|]].
  - rewrite <- exp_0. apply exp_le. nra.
  - rewrite <- exp_plus. apply exp_le. nra.
Qed.

(* the determinant inequality, purely algebraic given the three facts above *)
Lemma det_preserved E F a d x y :
  0 < E <= 1 -> 0 <= F -> F * F <= E -> 0 <= a -> 0 <= d -> 0 <= a * d - (x * x + y * y) ->
  0 <= (a + (1 - E) * d) * (E * d) - ((F * x) * (F * x) + (F * y) * (F * y)).
Proof.
  intros [E0 E1] F0 FE A D Dt.
  replace ((a + (1 - E) * d) * (E * d) - ((F * x) * (F * x) + (F * y) * (F * y)))
    with (E * (a * d - (x * x + y * y)) + (E - F * F) * (x * x + y * y) + (1 - E) * E * (d * d)) by ring.
  assert (0 <= E * (a * d - (x * x + y * y))) by (apply Rmult_le_pos; lra).
  assert (0 <= (E - F * F) * (x * x + y * y)) by (apply Rmult_le_pos; nra).
  assert (0 <= (1 - E) * E * (d * d)) by (apply Rmult_le_pos; [apply Rmult_le_pos; lra | nra]).
  lra.
Qed.

(* (2) physical states stay physical along the closed form, for every t >= 0 and every accepted (t1, t2) *)
Theorem sol_physical a b r00 r01 r10 r11 : valid a -> valid b -> compat a b ->
  state2 (gen2 CC r00 r01 r10 r11) -> forall t, 0 <= t -> state2 (sol a b r00 r01 r10 r11 t).
Proof.
  intros Va Vb Vc [[H10 [I0 I1]] [[P0 [P1 PD]] Tr]] t Ht.
  unfold herm2, psd2, det2, e00, e01, e10, e11 in *. cbn [entry gen2 nth] in *.
  destruct (decay_factors (gp a) (gc a b) t (gp_nonneg a Va) (rates_compat a b Va Vb Vc) Ht) as [[E0 E1] [F0 FE]].
  unfold state2, herm2, psd2, det2, e00, e01, e10, e11, sol. cbn [entry gen2 nth].
  set (E := exp (- gp a * t)) in *. set (F := exp (- gc a b * t)) in *.
  subst r10. destruct r00 as [a0 a0'], r01 as [x y], r11 as [d d']. simpl in *. subst a0' d'.
  repeat split.
  - unfold Cmult, Cconj, RtoC. simpl. f_equal; ring.
  - ring.
  - ring.
  - assert (0 <= (1 - E) * d) by (apply Rmult_le_pos; lra). nra.
  - assert (0 <= E * d) by (apply Rmult_le_pos; lra). nra.
  - pose proof (det_preserved E F a0 d x y (Logic.conj E0 E1) (Rlt_le _ _ F0) FE P0 P1 PD) as Hd.
    match goal with |- 0 <= ?g => replace g with ((a0 + (1 - E) * d) * (E * d) - (F * x * (F * x) + F * y * (F * y))) by ring end.
    exact Hd.
  - transitivity (a0 + d); [ring | exact Tr].
Qed.

(* the boundary is tight: for t1 = 1, t2 = 3 > 2 t1 (a pair the set-up code rejects) the closed form started in the
   pure state |+><+| has a negative determinant at t = 3 (x = e^{-1} <= 1/2, and the determinant is x^2 (2x - x^4 - 1) / 4) *)
Theorem sol_unphysical_beyond_boundary :
  let a := Some 1%Q in let b := Some 3%Q in let h := RtoC (/ 2) in
  ~ compat a b /\ state2 (gen2 CC h h h h) /\ exists t, 0 <= t /\ det2 (sol a b h h h h t) < 0.
Proof.
  cbv zeta. split; [|split].
  - simpl. intro H. apply Qle_Rle in H. rewrite Q2R_mult, Q2R_2, Q2R_1 in H.
    assert (Q2R 3 = 3) by (unfold Q2R; simpl; field). lra.
  - unfold state2, herm2, psd2, det2, e00, e01, e10, e11. cbn [entry gen2 nth]. unfold Cconj, RtoC. simpl.
    repeat split; try lra. f_equal. ring.
  - exists 3. split; [lra|].
    unfold det2, e00, e01, e11, sol. cbn [entry gen2 nth gp gc].
    assert (Q3 : Q2R 3 = 3) by (unfold Q2R; simpl; field). rewrite Q2R_1, Q3.
    replace (- / 1 * 3) with (- 1 + (- 1 + - 1)) by field.
    replace (- / 3 * 3) with (- 1) by field.
    rewrite !exp_plus.
    (* x = e^{-1} satisfies 0 < x <= 1/2 because e >= 2 *)
    assert (X : 0 < exp (- 1) <= / 2).
    { split; [apply exp_pos|]. replace (exp (- 1)) with (/ exp 1) by (rewrite <- exp_Ropp; f_equal; lra).
      pose proof exp1_ge_2. apply Rle_Rinv; lra. }
    revert X. generalize (exp (- 1)). intros x [X0 X1].
    unfold Cmult, Cplus, RtoC. simpl.
    assert (0 < x * x) by nra. assert (x * x <= / 4) by nra. assert (0 < x * x * x * x) by nra. nra.
Qed.
