(* C06 x C13, bridge part 2: circuit level.  The transpiled circuit [out : list mgate] of C13 (gates with source index gsrc
   and argument expressions gargs) is paired with the C06 gates [gs] that carry the same names / targets and the numeric
   angles; every statement denotes gate o with the atoms  env (gsrc o)  and the matrix  msubst (gargs o) M,  exactly as
   ResolveSem.cden does. *)
From Coq Require Import ZArith QArith String List Bool Lia FunctionalExtensionality.
From QV Require Import Model.ResolveTypes Gen.Decompose Model.Resolve Proofs.ResolveLemmas Proofs.ResolveChkDefs Proofs.ResolveSem.
From QV Require Import Model.TranspileTypes Gen.Devices Model.Transpile Proofs.TranspileShape Proofs.TranspileRoute Proofs.TranspileMain
  Proofs.TranspileTop Proofs.TranspileC06.
From QV Require Import Found.Base Found.Lemmas Found.KS Found.KSProofs Found.Sym Found.SymProofs Found.Circ Found.Comm
  Gen.Gates Model.SpinChainTypes Gen.SpinChain Model.Concat Model.SpinChain Spec.SpinChainSpec Model.Fill Spec.FillSpec
  Proofs.SpinChainCal Proofs.SpinChainRule Proofs.SpinChainSem Proofs.SpinChainSlices Proofs.SpinChainProp Proofs.SpinChainBridge.
Import ListNotations.
Local Open Scope string_scope.

Lemma assoc_sc {A} k (l : list (string * A)) : SpinChain.assoc k l = Resolve.assoc k l.
Proof. induction l as [|[k' v] l IH]; [reflexivity|]. cbn. rewrite IH. reflexivity. Qed.

(* ---- the decidable condition on one transpiled gate ---- *)
Definition idle_ok (args : list ex) : bool :=
  match Resolve.assoc "IDLE" dispatch with
  | Some m => scirc_eqb 1 [(msubst args m, [0%nat])] []
  | None => false end.
Definition is_pulse_name (n : string) : bool := existsb (String.eqb n) pulse_gates.
(* calibration of a (name, argument expressions) pair: the closed-form pulse with the arguments substituted is the library
   matrix with the arguments substituted (symbolic identity in the SOURCE parameters) *)
Definition cal_entry (n : string) (args : list ex) : bool :=
  if is_pulse_name n then sem_okT (msubst args) n
  else if n =? "IDLE" then idle_ok args
  else (n =? "GLOBALPHASE").
Definition bridge_ok (o : mgate) : bool :=
  cal_entry (gname o) (gargs o) && (if gname o =? "GLOBALPHASE" then Nat.eqb (nqubits o) 0 else true).

Definition to_ngate_ok (o : mgate) (g : ngate) : Prop := same_gate o g.

(* ---- circuits ---- *)
Fixpoint pulse_icirc_a (cc : cfg) (og : list (mgate * ngate)) : option icirc :=
  match og with
  | [] => Some []
  | (o, g) :: r =>
      match compile_gate cc g with
      | Ok (CInstr _ [(lb, _)]) =>
          match pulse_sgate cc (g_name g) lb, pulse_icirc_a cc r with
          | Some (Mx, tp), Some l => Some ((gsrc o, (msubst (gargs o) Mx, tp)) :: l)
          | _, _ => None end
      | Ok _ => pulse_icirc_a cc r
      | Err => None
      end
  end.
Definition gate_icirc_a (og : list (mgate * ngate)) : icirc :=
  flat_map (fun p => if is_pulse_gate (snd p) then [to_inst (fst p)] else []) og.
Definition phase_icirc_a (og : list (mgate * ngate)) : icirc :=
  flat_map (fun p => if gname (fst p) =? "GLOBALPHASE" then [to_inst (fst p)] else []) og.

Definition pair_ok (d : device) (N M : nat) (p : mgate * ngate) : Prop :=
  out_ok d N M (fst p) /\ same_gate (fst p) (snd p) /\ bridge_ok (fst p) = true.

Lemma pulse_name_gate o g : same_gate o g -> is_pulse_gate g = is_pulse_name (gname o).
Proof. intros [En _]. unfold is_pulse_gate, is_pulse_name. rewrite En. reflexivity. Qed.

Lemma pulse_names n : is_pulse_name n = true -> n = "ISWAP" \/ n = "RX" \/ n = "RZ" \/ n = "SQRTISWAP".
Proof.
  unfold is_pulse_name. rewrite existsb_exists. intros [x [Hx E]]. apply String.eqb_eq in E. subst x.
  unfold pulse_gates in Hx. cbn in Hx. intuition.
Qed.

(* a pulse-compiled gate of the transpiled circuit has no controls, is not GLOBALPHASE, and C13 denotes it by the library
   matrix of its name with its arguments substituted, on its targets *)
Lemma to_sgate_pulse o m : is_pulse_name (gname o) = true -> kindshape o = true ->
  SpinChainCal.lib_matrix (gname o) = Some m -> to_sgate o = (msubst (gargs o) m, gtargets o).
Proof.
  intros Hp Hk Hm. unfold to_sgate, gate_mexp. unfold SpinChainCal.lib_matrix in Hm. rewrite assoc_sc in Hm.
  assert (Hc : gcontrols o = []).
  { unfold kindshape in Hk. destruct (pulse_names _ Hp) as [E|[E|[E|E]]]; rewrite E in Hk; cbn in Hk;
      repeat (apply andb_prop in Hk; destruct Hk as [Hk ?]); destruct (gcontrols o); [reflexivity|discriminate|reflexivity|discriminate|reflexivity|discriminate|reflexivity|discriminate]. }
  assert (Hg : (gname o =? "GLOBALPHASE") = false) by (destruct (pulse_names _ Hp) as [E|[E|[E|E]]]; rewrite E; reflexivity).
  rewrite Hg, Hm, Hc. reflexivity.
Qed.

Theorem pulses_are_gates_a d N M cc og : In d devices -> c_n cc = N -> (M <= N)%nat -> setup_ok cc -> Forall (pair_ok d N M) og ->
  forall p il ph, compile_gates cc (map snd og) p = Ok (il, ph) ->
  exists pc, pulse_icirc_a cc og = Some pc /\
    forall (R : PhaseRing) (env : nat -> atoms R), sem (iden R env pc) = sem (iden R env (gate_icirc_a og)).
Proof.
  intros Hd HN HM Hs. induction og as [|[o g] r IH]; intros Hok p il ph H.
  - exists []. split; reflexivity.
  - inversion Hok as [|? ? [Ho [Hsg Hb]] Hr]; subst. cbn [fst snd] in *. cbn [map snd compile_gates] in H.
    destruct (compile_gate cc g) as [x|] eqn:Eg; cbn [SpinChain.rbind] in H; [|discriminate].
    cbn [pulse_icirc_a gate_icirc_a flat_map snd fst]. rewrite Eg. fold (gate_icirc_a r).
    destruct (is_pulse_gate g) eqn:Ep.
    + destruct (pulse_single cc g x Ep Eg) as [dd [lb [co ->]]].
      destruct (compile_gates cc (map snd r) p) as [[il' ph']|] eqn:Er; cbn [SpinChain.rbind] in H; [|discriminate].
      destruct (IH Hr _ _ _ Er) as [pc [Hpc Hsem]].
      pose proof (out_ok_wf_pulse d (c_n cc) M cc o g eq_refl HM Ho Hsg Ep) as Hwf.
      assert (Hpn : is_pulse_name (gname o) = true) by (rewrite <- (pulse_name_gate o g Hsg); exact Ep).
      assert (Hcal : sem_okT (msubst (gargs o)) (g_name g) = true).
      { unfold bridge_ok, cal_entry in Hb. rewrite Hpn in Hb. apply andb_prop in Hb. destruct Hb as [Hb _].
        destruct Hsg as [-> _]. exact Hb. }
      destruct (instr_is_gate_T (msubst (gargs o)) cc g dd lb co Hs Hwf Eg Hcal) as [Mx [tp [m [Esp [Em E3]]]]].
      rewrite Esp, Hpc. exists ((gsrc o, (msubst (gargs o) Mx, tp)) :: pc). split; [reflexivity|]. intros R env.
      cbn [app iden map fst snd]. apply functional_extensionality; intro psi.
      rewrite (sem_cons R _ (map _ pc)), (sem_cons R _ (map _ (gate_icirc_a r))).
      destruct Ho as [_ [_ [_ [_ Hk]]]]. destruct Hsg as [En Et]. rewrite En in Em.
      unfold to_inst. cbn [fst snd]. rewrite (to_sgate_pulse o m Hpn Hk Em). rewrite <- Et. rewrite E3.
      exact (f_equal (fun f => f _) (Hsem R env)).
    + pose proof (not_pulse_no_pulses cc g x Ep Eg) as Hx. cbn [app].
      assert (Hrest : exists il' ph' p', compile_gates cc (map snd r) p' = Ok (il', ph')).
      { destruct x as [dd ps|a|]; [|eauto|eauto].
        destruct (compile_gates cc (map snd r) p) as [[il' ph']|] eqn:Er; cbn [SpinChain.rbind] in H; [eauto|discriminate]. }
      destruct Hrest as [il' [ph' [p' Er]]]. destruct (IH Hr _ _ _ Er) as [pc [Hpc Hsem]].
      exists pc. split; [|exact Hsem].
      destruct x as [dd ps|a|]; [subst ps; exact Hpc|exact Hpc|exact Hpc].
Qed.

(* ---- the transpiled circuit = its pulse-compiled gates followed by its phase factors (IDLE is the identity) ---- *)
Definition gate_class_ok (l : list string) (p : mgate * ngate) : Prop :=
  kindshape (fst p) = true /\ same_gate (fst p) (snd p) /\ bridge_ok (fst p) = true /\
  (mem (gname (fst p)) l || (gname (fst p) =? "GLOBALPHASE") || (gname (fst p) =? "IDLE"))%bool = true.

Lemma mem_pulse l n : forallb is_pulse_name l = true -> mem n l = true -> is_pulse_name n = true.
Proof.
  intros Hl Hm. rewrite forallb_forall in Hl. apply Hl. unfold mem in Hm. apply existsb_exists in Hm.
  destruct Hm as [x [Hx E]]. apply String.eqb_eq in E. subst x. exact Hx.
Qed.

Lemma idle_is_identity (R : PhaseRing) (A : atoms R) o : gname o = "IDLE" -> kindshape o = true -> bridge_ok o = true ->
  forall psi, sem [gden R A (to_sgate o)] psi = psi.
Proof.
  intros En Hk Hb psi. unfold bridge_ok, cal_entry in Hb. rewrite En in Hb.
  change (is_pulse_name "IDLE") with false in Hb. change ("IDLE" =? "IDLE") with true in Hb.
  change ("IDLE" =? "GLOBALPHASE") with false in Hb. cbv beta iota in Hb. apply andb_prop in Hb. destruct Hb as [Hb _].
  unfold idle_ok in Hb. destruct (Resolve.assoc "IDLE" dispatch) as [m|] eqn:Em; [|discriminate].
  unfold kindshape in Hk. rewrite En in Hk. cbn in Hk. apply andb_prop in Hk. destruct Hk as [Hc Ht].
  destruct (gcontrols o) eqn:Ec; [|discriminate]. destruct (gtargets o) as [|t [|? ?]] eqn:Et; try discriminate.
  unfold to_sgate, gate_mexp. rewrite En. cbn [String.eqb Ascii.eqb Bool.eqb]. rewrite Em, Ec, Et. cbn [app].
  pose proof (rule_sound R A 1 _ _ [t] Hb (NoDup_cons t (@in_nil _ t) (NoDup_nil _)) eq_refl) as E.
  rewrite place1 in E. cbn [map place] in E. rewrite E. reflexivity.
Qed.

Lemma full_split_a (R : PhaseRing) (env : nat -> atoms R) l og : forallb is_pulse_name l = true ->
  Forall (gate_class_ok l) og ->
  forall psi, sem (ResolveSem.cden R env (map fst og)) psi =
              sem (iden R env (phase_icirc_a og)) (sem (iden R env (gate_icirc_a og)) psi).
Proof.
  intros Hl. induction og as [|[o g] r IH]; intros Hok psi; [reflexivity|].
  inversion Hok as [|? ? [Hk [Hsg [Hb Hn]]] Hr]; subst. cbn [fst snd] in *.
  unfold ResolveSem.cden in *. cbn [map fst]. cbn [gate_icirc_a phase_icirc_a flat_map fst snd].
  fold (gate_icirc_a r). fold (phase_icirc_a r).
  rewrite !iden_app, !(sem_app R). change (iden R env (to_inst o :: map to_inst (map fst r))) with
    (gden R (env (gsrc o)) (to_sgate o) :: iden R env (map to_inst (map fst r))).
  rewrite (sem_cons R). rewrite (IH Hr).
  destruct (is_pulse_name (gname o)) eqn:Ep.
  - rewrite (pulse_name_gate o g Hsg), Ep.
    assert (Hg : (gname o =? "GLOBALPHASE") = false) by (destruct (pulse_names _ Ep) as [E|[E|[E|E]]]; rewrite E; reflexivity).
    rewrite Hg. reflexivity.
  - rewrite (pulse_name_gate o g Hsg), Ep.
    destruct (gname o =? "GLOBALPHASE") eqn:Eg.
    + unfold bridge_ok in Hb. rewrite Eg in Hb. apply andb_prop in Hb. destruct Hb as [_ Hq]. apply Nat.eqb_eq in Hq.
      unfold nqubits in Hq. destruct (gcontrols o) eqn:Ec; [|cbn in Hq; lia]. destruct (gtargets o) eqn:Et; [|cbn in Hq; lia].
      f_equal. change (iden R env [to_inst o]) with [gden R (env (gsrc o)) (to_sgate o)].
      change (sem (iden R env []) psi) with psi. unfold to_sgate. rewrite Ec, Et. cbn [app].
      unfold gden. cbn [fst snd]. cbn [sem fold_left fst snd].
      change (fold_left (fun (p : state R) (g0 : gate R) => Base.app (fst g0) (snd g0) p)) with (@sem R).
      apply (scalar_commutes R).
    + assert (En : gname o = "IDLE").
      { destruct (mem (gname o) l) eqn:Em; [rewrite (mem_pulse l _ Hl Em) in Ep; discriminate|].
        cbn in Hn. apply String.eqb_eq in Hn. exact Hn. }
      rewrite (idle_is_identity R (env (gsrc o)) o En Hk Hb). reflexivity.
Qed.

(* ---- sequential propagation, gates denoted with their source atoms ---- *)
Section BridgeSeq.
Variable R : PhaseRing.
Variable env : nat -> atoms R.               (* parameter values of the gates of the ORIGINAL circuit *)
Variable labels : list label.
Variable P : list Q -> Q -> state R -> state R.
Hypothesis P_time : forall h a b s, (a == b)%Q -> P h a s = P h b s.
Hypothesis P_zero : forall h s, P h 0%Q s = s.
Hypothesis P_idle : forall h t s, Forall (fun c => (c == 0)%Q) h -> P h t s = s.
Variable cc : cfg.
Variable og : list (mgate * ngate).
(* the slice propagator of the calibrated single-pulse Hamiltonian of instruction i, for its duration, is the closed-form pulse
   unitary at the parameter values of the SOURCE gate of transpiled gate i, with that gate's argument expressions substituted *)
Hypothesis P_cal_a : forall i o g d lb co Mx tp s,
  nth_error og i = Some (o, g) -> compile_gate cc g = Ok (CInstr d [(lb, co)]) -> pulse_sgate cc (g_name g) lb = Some (Mx, tp) ->
  P (ivec labels [(lb, co)]) d s = sem [gden R (env (gsrc o)) (msubst (gargs o) Mx, tp)] s.

Lemma windows_are_pulses_a : forall l i p il ph pc,
  (forall k x, nth_error l k = Some x -> nth_error og (i + k) = Some x) ->
  compile_gates cc (map snd l) p = Ok (il, ph) -> pulse_icirc_a cc l = Some pc ->
  forall x, prop_windows (state R) P (windows_of labels il) x = sem (iden R env pc) x.
Proof.
  induction l as [|[o g] r IH]; intros i p il ph pc Hidx Hc Hp x.
  - cbn [map compile_gates] in Hc. injection Hc as <- _. cbn [pulse_icirc_a] in Hp. injection Hp as <-. reflexivity.
  - assert (Hidx' : forall k x0, nth_error r k = Some x0 -> nth_error og (S i + k) = Some x0).
    { intros k x0 H. replace (S i + k)%nat with (i + S k)%nat by lia. apply Hidx. exact H. }
    cbn [map snd compile_gates] in Hc. cbn [pulse_icirc_a] in Hp.
    destruct (compile_gate cc g) as [y|] eqn:Eg; cbn [SpinChain.rbind] in Hc; [|discriminate].
    destruct (is_pulse_gate g) eqn:Ep.
    + destruct (pulse_single cc g y Ep Eg) as [d [lb [co ->]]].
      destruct (compile_gates cc (map snd r) p) as [[il' ph']|] eqn:Er; cbn [SpinChain.rbind fst snd] in Hc; [|discriminate].
      injection Hc as <- _.
      destruct (pulse_sgate cc (g_name g) lb) as [[Mx tp]|] eqn:Esp; [|discriminate].
      destruct (pulse_icirc_a cc r) as [l'|] eqn:El; [|discriminate]. injection Hp as <-.
      cbn [windows_of map]. rewrite prop_windows_cons. cbn [fst snd]. fold (windows_of labels il').
      rewrite (P_cal_a i o g d lb co Mx tp x); [|replace i with (i + 0)%nat by lia; apply Hidx; reflexivity|exact Eg|exact Esp].
      rewrite (IH (S i) p il' ph' l' Hidx' Er eq_refl).
      cbn [iden map fst snd]. symmetry. apply (sem_cons R).
    + pose proof (not_pulse_no_pulses cc g y Ep Eg) as Hy.
      destruct y as [d ps|a|].
      * subst ps. destruct (compile_gates cc (map snd r) p) as [[il' ph']|] eqn:Er; cbn [SpinChain.rbind fst snd] in Hc; [|discriminate].
        injection Hc as <- _. cbn [windows_of map]. rewrite prop_windows_cons. cbn [fst snd]. fold (windows_of labels il').
        rewrite P_idle by apply ivec_nil. exact (IH (S i) p il' ph' pc Hidx' Er Hp x).
      * exact (IH (S i) _ il ph pc Hidx' Hc Hp x).
      * exact (IH (S i) _ il ph pc Hidx' Hc Hp x).
Qed.
End BridgeSeq.

Lemma combine_fst {A B} (a : list A) (b : list B) : length a = length b -> map fst (combine a b) = a.
Proof. revert b. induction a as [|x a IH]; intros [|y b] H; cbn in *; try discriminate; [reflexivity|]. f_equal. apply IH. lia. Qed.
Lemma combine_snd {A B} (a : list A) (b : list B) : length a = length b -> map snd (combine a b) = b.
Proof. revert b. induction a as [|x a IH]; intros [|y b] H; cbn in *; try discriminate; [reflexivity|]. f_equal. apply IH. lia. Qed.
Lemma Forall2_len {A B} (Q : A -> B -> Prop) a b : Forall2 Q a b -> length a = length b.
Proof. induction 1; cbn; congruence. Qed.

(* ---- from the ORIGINAL circuit to the pulse-level propagator: no hypothesis about transpilation ---- *)
Theorem original_to_pulses (R : PhaseRing) (env : nat -> atoms R) (labels : list label) (P : list Q -> Q -> state R -> state R)
  (P_time : forall h a b s, (a == b)%Q -> P h a s = P h b s) (P_zero : forall h s, P h 0%Q s = s)
  (P_idle : forall h t s, Forall (fun c => (c == 0)%Q) h -> P h t s = s)
  d N M src out (cc : cfg) (gs : list ngate) l il ph :
  In d devices -> dnative d = Some l -> forallb is_pulse_name l = true ->
  Forall wf_gate src -> Forall (fun g => in_range M g = true) src -> transpile_on d N M src = Resolve.Ok out ->
  c_n cc = N -> setup_ok cc -> Forall2 same_gate out gs ->
  Forall (fun o => bridge_ok o = true) out ->
  (forall i o g dd lb co Mx tp s,
     nth_error (combine out gs) i = Some (o, g) -> compile_gate cc g = Ok (CInstr dd [(lb, co)]) ->
     pulse_sgate cc (g_name g) lb = Some (Mx, tp) ->
     P (ivec labels [(lb, co)]) dd s = sem [gden R (env (gsrc o)) (msubst (gargs o) Mx, tp)] s) ->
  compile_gates cc gs 0%Q = Ok (il, ph) -> Forall (fun i => (0 <= fst i)%Q) il ->
  (forall psi, sem (iden R env (phase_icirc_a (combine out gs))) (prop_slices (state R) P (seq_slices labels il) psi)
               = sem (ResolveSem.cden R env src) psi) /\
  (ph == sum_phase gs)%Q.
Proof.
  intros Hd Hl Hpl Hw Hr Ht HN Hs H2 Hb Pcal Hc Hdur.
  assert (HPc : Forall (fun g => noP (gname g)) src) by (apply Forall_forall; intros; exact I).
  destruct (transpile_structure noP d N M src out Hd I Hw HPc Hr Ht) as [HM Ho].
  pose proof (Forall2_len _ _ _ H2) as Hlen.
  set (og := combine out gs).
  assert (Hf : map fst og = out) by (apply combine_fst; exact Hlen).
  assert (Hg : map snd og = gs) by (apply combine_snd; exact Hlen).
  assert (Hpairs : Forall (pair_ok d N M) og /\ Forall (gate_class_ok l) og).
  { unfold og. clear Hf Hg og Pcal Hc Hlen Ht Hdur. revert Ho Hb. induction H2 as [|o g out gs Hsg _ IH]; intros Ho Hb; [split; constructor|].
    inversion Ho as [|? ? Ho1 Ho2]; subst. inversion Hb as [|? ? Hb1 Hb2]; subst.
    destruct (IH Ho2 Hb2) as [I1 I2]. cbn [combine]. split; constructor; auto.
    - unfold pair_ok. cbn [fst snd]. split; [exact Ho1|split; [exact Hsg|exact Hb1]].
    - destruct Ho1 as [Hn [_ [_ [_ Hk]]]]. unfold native_gate in Hn. rewrite Hl in Hn.
      unfold gate_class_ok. cbn [fst snd]. split; [exact Hk|split; [exact Hsg|split; [exact Hb1|exact Hn]]]. }
  destruct Hpairs as [Hp1 Hp2]. split.
  - intros psi. rewrite <- Hg in Hc.
    destruct (pulses_are_gates_a d N M cc og Hd HN HM Hs Hp1 0%Q il ph Hc) as [pc [Hpc Hsem]].
    rewrite (seq_slices_windows (state R) P labels P_time P_zero il Hdur psi).
    rewrite (windows_are_pulses_a R env labels P P_time P_zero P_idle cc og Pcal og 0 0%Q il ph pc (fun k x H => H) Hc Hpc psi).
    rewrite (Hsem R env). rewrite <- (full_split_a R env l og Hpl Hp2 psi). rewrite Hf.
    exact (f_equal (fun f => f psi) (TranspileTop.transpile_sem_proof d N M src out Hd Hw Hr Ht R env)).
  - rewrite (compile_gates_phase cc gs 0%Q il ph Hc). ring.
Qed.
