(* C20 -- reading the printed picture: order of the wires and the labels on every wire (fx = true) *)
From Coq Require Import List NArith Arith Bool Lia.
Import ListNotations.
From QV Require Import Model.Render Spec.RenderSpec Proofs.RenderBase Proofs.RenderStep Proofs.RenderSeg
     Proofs.RenderInv.

(* ------------------------------------------------------------------------------------------ *)
(* the scanner                                                                                 *)
(* ------------------------------------------------------------------------------------------ *)
Lemma scan_app inb a b :
  scan inb (a ++ b) =
  let '(o1, s1) := scan inb a in let '(o2, s2) := scan s1 b in (o1 ++ o2, s2).
Proof.
  revert inb. induction a as [|c r IH]; intro inb.
  - simpl. destruct (scan inb b). reflexivity.
  - simpl. destruct inb as [acc|].
    + destruct (N.eqb c cLT).
      * rewrite IH. destruct (scan None r) as [o1 s1]. destruct (scan s1 b) as [o2 s2]. reflexivity.
      * apply IH.
    + destruct (N.eqb c cRT); apply IH.
Qed.

Lemma scan_noRT s : ~ In cRT s -> scan None s = ([], None).
Proof.
  induction s as [|c r IH]; intro H; [reflexivity|]. simpl.
  destruct (N.eqb c cRT) eqn:E.
  - apply N.eqb_eq in E. exfalso. apply H. left. exact E.
  - apply IH. intro I. apply H. right. exact I.
Qed.

Lemma scan_inside t : forall acc r,
  ~ In cLT t ->
  scan (Some acc) (t ++ cLT :: r) = let '(o, e) := scan None r in ((rev acc ++ t) :: o, e).
Proof.
  induction t as [|c t' IH]; intros acc r H.
  - simpl. destruct (scan None r). rewrite app_nil_r. reflexivity.
  - simpl. destruct (N.eqb c cLT) eqn:E.
    + apply N.eqb_eq in E. exfalso. apply H. left. exact E.
    + rewrite IH by (intro I; apply H; right; exact I).
      destruct (scan None r). simpl. rewrite <- app_assoc. reflexivity.
Qed.

Lemma scan_box content :
  ~ In cLT content -> scan None ([cH; cRT] ++ content ++ [cLT; cH]) = ([content], None).
Proof.
  intro H. simpl.
  change (content ++ [cLT; cH]) with (content ++ cLT :: [cH]).
  rewrite scan_inside by exact H. reflexivity.
Qed.

(* ---- rows without  ┤  ---- *)
Lemma noRT_rep n c : c <> cRT -> ~ In cRT (rep n c).
Proof. intros H I. apply repeat_spec in I. congruence. Qed.

Lemma noRT_app a b : ~ In cRT a -> ~ In cRT b -> ~ In cRT (a ++ b).
Proof. intros Ha Hb I. apply in_app_iff in I. tauto. Qed.

Lemma noRT_one c : c <> cRT -> ~ In cRT [c].
Proof. intros H [E|[]]. congruence. Qed.

Lemma noRT_bar3 h h' a g : a <> cRT -> g <> cRT -> ~ In cRT (rep h a ++ [g] ++ rep h' a).
Proof.
  intros Ha Hg. apply noRT_app; [apply noRT_rep; exact Ha|].
  apply noRT_app; [apply noRT_one; exact Hg | apply noRT_rep; exact Ha].
Qed.

Lemma noRT_set_at m c s : c <> cRT -> ~ In cRT s -> ~ In cRT (set_at m c s).
Proof. intros Hc Hs I. apply in_set_at in I. destruct I as [E|I]; [congruence|tauto]. Qed.

Lemma fillc_noRT nq w : fillc nq w <> cRT.
Proof. unfold fillc. destruct (w <? nq); discriminate. Qed.

(* ------------------------------------------------------------------------------------------ *)
(* what each operation puts into  ┤ ... ├  on a wire                                           *)
(* ------------------------------------------------------------------------------------------ *)
Definition padded (P : nat) (s : str) : str := rep P cSP ++ s ++ rep P cSP.
Definition op_content (P : nat) (o : op) (w : nat) : list str := map (padded P) (op_labels o w).

Lemma noLT_padded P s : ~ In cLT s -> ~ In cLT (padded P s).
Proof.
  intros H I. unfold padded in I. rewrite !in_app_iff in I.
  destruct I as [I|[I|I]]; try tauto; apply repeat_spec in I; discriminate.
Qed.

Lemma noLT_blank n : ~ In cLT (rep n cSP).
Proof. intro I. apply repeat_spec in I. discriminate. Qed.

Lemma scan_box_raw P s :
  ~ In cLT s ->
  scan None ([cH; cRT] ++ rep P cSP ++ s ++ rep P cSP ++ [cLT; cH]) = ([padded P s], None).
Proof.
  intro H.
  assert (E : rep P cSP ++ s ++ rep P cSP ++ [cLT; cH] = padded P s ++ [cLT; cH]).
  { unfold padded. rewrite <- !app_assoc. reflexivity. }
  rewrite E. apply scan_box. apply noLT_padded. exact H.
Qed.

Lemma NoDup_all_eq (l : list nat) a : NoDup l -> (forall x, In x l -> x = a) -> length l <= 1.
Proof.
  intros ND H. destruct l as [|x [|y r]]; simpl; try lia.
  exfalso. inversion ND as [|? ? N1 _]; subst.
  assert (x = a) by (apply H; left; reflexivity).
  assert (y = a) by (apply H; right; left; reflexivity).
  apply N1. left. congruence.
Qed.

Lemma lmin_lt_lmax (l : list nat) : NoDup l -> 2 <= length l -> lmin l < lmax l.
Proof.
  intros ND L. assert (Hne : l <> []) by (destruct l; [simpl in L; lia|discriminate]).
  pose proof (lmin_le_lmax l Hne).
  destruct (Nat.eq_dec (lmin l) (lmax l)) as [E|N]; [|lia].
  exfalso. assert (length l <= 1); [|lia].
  apply (NoDup_all_eq l (lmin l) ND). intros x Hx.
  pose proof (lmin_le l x Hx). pose proof (lmax_ge l x Hx). lia.
Qed.

Lemma len1_lmin_lmax (l : list nat) : length l = 1 -> lmin l = lmax l.
Proof. destruct l as [|a [|b r]]; simpl; intro H; try discriminate. unfold lmin, lmax. simpl. lia. Qed.

(* the middle-row segment of an operation on a wire of its wire list, scanned *)
Lemma seg_scan P nq nc o w :
  wf_op nq nc o = true -> text_ok o -> In w (op_wl nq nc o) ->
  scan None (mid (op_emit true P nq nc o w emptyW)) = (op_content P o w, None).
Proof.
  intros W TK I.
  destruct o as [name al targets controls | t c].
  - simpl in TK. unfold op_wl in I. unfold op_content, op_labels.
    destruct (is_single targets controls) eqn:E1.
    + unfold op_emit. rewrite E1. pose proof I as I'. apply mem_true in I'.
      rewrite (emit_w_in _ _ _ _ I'). rewrite I'. unfold draw_singleq. cbv zeta. cbn [fst app3p app3 mid emptyW].
      rewrite app_nil_l. simpl map. apply scan_box_raw. exact TK.
    + destruct (str_eqb name sSWAP) eqn:E2.
      * unfold op_emit. rewrite E1, E2. cbv zeta. unfold op_wl. rewrite E1, E2.
        apply mem_true in I. rewrite (emit_w_in _ _ _ _ I). simpl map.
        apply scan_noRT. unfold swap_wire.
        destruct (w =? last (range (lmin targets) (lmax targets + 1)) 0);
          [|destruct (w =? hd 0 (range (lmin targets) (lmax targets + 1)))];
          cbn [app3 mid emptyW]; rewrite app_nil_l; apply noRT_bar3; discriminate.
      * pose proof (wf_gate _ _ _ _ _ _ W) as [Hne [ND _]].
        destruct (multi_wl_cases nq nc name al targets controls w W I) as [C|[[HC C]|[HC C]]].
        -- rewrite (multi_inside P nq nc name al targets controls E1 E2 w emptyW C).
           unfold target_wire, draw_multiq. cbv zeta. cbn [fst p_top p_mid p_conn p_lab p_bot].
           destruct (length targets =? 1) eqn:EL.
           ++ apply Nat.eqb_eq in EL. pose proof (len1_lmin_lmax targets EL) as Elh.
              assert (Ew : (w =? lmin targets) = true) by (apply Nat.eqb_eq; lia).
              rewrite Ew. cbn [app3 mid emptyW]. rewrite app_nil_l. simpl map.
              apply scan_box_raw. exact TK.
           ++ destruct (w =? lmin targets) eqn:Ew.
              ** apply Nat.eqb_eq in Ew. subst w.
                 rewrite (proj2 (mem_true _ _) (lmin_in targets Hne)). simpl andb. cbv iota.
                 cbn [app3 mid emptyW]. rewrite app_nil_l. simpl map.
                 apply scan_box_raw. exact TK.
              ** simpl andb. cbv iota. destruct (w =? lmax targets) eqn:Ew2.
                 --- apply Nat.eqb_eq in Ew2. subst w.
                     rewrite (proj2 (mem_true _ _) (lmax_in targets Hne)). simpl andb. cbv iota.
                     cbn [app3 mid emptyW]. rewrite app_nil_l. simpl map.
                     apply scan_box_raw. apply noLT_blank.
                 --- simpl andb. cbv iota. simpl map.
                     assert (NM : ~ In cRT ([cSP; cV] ++ rep P cSP ++ rep (length (gate_text name al)) cSP
                                             ++ rep P cSP ++ [cV; cSP])).
                     { apply noRT_app; [intros [E|[E|[]]]; discriminate|].
                       apply noRT_app; [apply noRT_rep; discriminate|].
                       apply noRT_app; [apply noRT_rep; discriminate|].
                       apply noRT_app; [apply noRT_rep; discriminate|].
                       intros [E|[E|[]]]; discriminate. }
                     match goal with |- context [if ?c then _ else _] => destruct c end;
                       cbn [app3 mid emptyW]; rewrite app_nil_l; apply scan_noRT.
                     +++ apply noRT_set_at; [discriminate | exact NM].
                     +++ exact NM.
        -- rewrite (multi_above P nq nc name al targets controls E1 E2 w emptyW HC C Hne).
           assert (E3 : (w =? lmin targets) = false).
           { apply Nat.eqb_neq. pose proof (lmin_le_lmax targets Hne). lia. }
           assert (E4 : (w =? lmax targets) = false) by (apply Nat.eqb_neq; lia).
           rewrite E3, E4. simpl andb. cbv iota. simpl map.
           apply scan_noRT. unfold qbridge_wire.
           destruct ((lmin targets <=? w) && (w <=? lmax targets)); [simpl; tauto|].
           destruct (mem w (ctl_list controls)); [destruct ((w =? lmin targets) || (w =? lmax (ctl_list controls)))|];
             cbn [app3 mid emptyW]; rewrite app_nil_l; apply noRT_bar3; discriminate.
        -- rewrite (multi_below P nq nc name al targets controls E1 E2 w emptyW HC C Hne).
           assert (E3 : (w =? lmin targets) = false) by (apply Nat.eqb_neq; lia).
           assert (E4 : (w =? lmax targets) = false).
           { apply Nat.eqb_neq. pose proof (lmin_le_lmax targets Hne). lia. }
           rewrite E3, E4. simpl andb. cbv iota. simpl map.
           apply scan_noRT. unfold qbridge_wire.
           destruct ((lmin targets <=? w) && (w <=? lmax targets)); [simpl; tauto|].
           destruct (mem w (ctl_list controls)); [destruct ((w =? lmin (ctl_list controls)) || (w =? lmax targets))|];
             cbn [app3 mid emptyW]; rewrite app_nil_l; apply noRT_bar3; discriminate.
  - unfold op_content, op_labels. unfold op_emit.
    assert (I' : mem w (op_wl nq nc (Meas t c)) = true) by (apply mem_true; exact I).
    rewrite (emit_w_in _ _ _ _ I').
    destruct (w =? t) eqn:Ew.
    + apply Nat.eqb_eq in Ew. subst w.
      rewrite emit_w_in by (simpl; rewrite Nat.eqb_refl; reflexivity).
      unfold cbridge_wire. rewrite Nat.eqb_refl.
      unfold draw_meas, draw_singleq. cbv zeta.
      destruct (t <? c + nq); cbn [fst app3p app3 mid emptyW]; rewrite app_nil_l; simpl map;
        apply scan_box_raw; intros [E|[]]; discriminate.
    + rewrite emit_w_out by (simpl; rewrite Ew; reflexivity).
      simpl map. apply scan_noRT. unfold cbridge_wire. rewrite Ew.
      destruct (w =? nq + c); [|destruct (nq <? w)];
        cbn [app3 mid emptyW]; rewrite app_nil_l; apply noRT_bar3; discriminate.
Qed.

Lemma op_content_out P nq nc o w :
  wf_op nq nc o = true -> ~ In w (op_wl nq nc o) -> op_content P o w = [].
Proof.
  intros W N. unfold op_content.
  assert (E : op_labels o w = []); [|rewrite E; reflexivity].
  destruct o as [name al targets controls | t c]; unfold op_labels; unfold op_wl in N.
  - destruct (is_single targets controls).
    + rewrite (proj2 (mem_false _ _) N). reflexivity.
    + destruct (str_eqb name sSWAP); [reflexivity|].
      pose proof (wf_gate _ _ _ _ _ _ W) as [Hne _].
      rewrite in_range in N.
      assert (Hlo : lmin (targets ++ ctl_list controls) <= lmin targets).
      { apply lmin_le. apply in_app_iff. left. apply lmin_in. exact Hne. }
      assert (Hhi : lmax targets <= lmax (targets ++ ctl_list controls)).
      { apply lmax_ge. apply in_app_iff. left. apply lmax_in. exact Hne. }
      pose proof (lmin_le_lmax targets Hne).
      assert (E3 : (w =? lmin targets) = false) by (apply Nat.eqb_neq; lia).
      assert (E4 : (w =? lmax targets) = false) by (apply Nat.eqb_neq; lia).
      rewrite E3, E4. reflexivity.
  - destruct (w =? t) eqn:E; [|reflexivity]. apply Nat.eqb_eq in E. subst w.
    exfalso. apply N. apply in_app_iff. left. apply in_range. lia.
Qed.

(* ------------------------------------------------------------------------------------------ *)
(* invariant: every middle row is its wire prefix followed by a body whose boxes are known     *)
(* ------------------------------------------------------------------------------------------ *)
Definition pre_w (sty : style) (nq nc w : nat) : str :=
  wire_prefix sty nq nc w ++ [fillc nq w; fillc nq w].

Definition ReadInv (sty : style) (nq nc : nat) (st : state) (L : nat -> list str) : Prop :=
  forall w, w < nq + nc ->
    exists body, mid (wire_of st w) = pre_w sty nq nc w ++ body /\ scan None body = (L w, None).

Lemma pre_w_length sty nq nc w :
  wf_style sty nq nc = true -> w < nq + nc -> length (pre_w sty nq nc w) = prefix_len sty nq nc.
Proof.
  intros WS Lw. pose proof (label_list_length sty nq nc WS) as LL.
  pose proof (label_len_le sty nq nc w) as H. rewrite LL in H. specialize (H Lw).
  unfold pre_w, wire_prefix, prefix_len.
  repeat (rewrite ?app_length, ?rep_length; simpl). lia.
Qed.

Lemma read_init sty nq nc st0 :
  0 < nq -> wf_style sty nq nc = true ->
  add_wire_labels sty nq nc (init_state nq nc) = Some st0 ->
  ReadInv sty nq nc st0 (fun _ => []).
Proof.
  intros Hq WS HA. destruct (labels_init sty nq nc Hq WS) as [st0' [HA' [_ HW]]].
  rewrite HA in HA'. inversion HA'; subst st0'. clear HA'.
  intros w Lw. exists []. rewrite (HW w Lw). split; [|reflexivity].
  unfold label_wire, pre_w, wire_prefix. cbn [mid]. rewrite app_nil_r.
  rewrite <- !app_assoc. reflexivity.
Qed.

Lemma read_step sty nq nc st o st' x L :
  0 < nq -> wf_op nq nc o = true -> text_ok o -> Inv nq nc st ->
  step true sty nq nc st o = Some (st', x) ->
  ReadInv sty nq nc st L ->
  ReadInv sty nq nc st' (fun w => L w ++ op_content (padw sty) o w).
Proof.
  intros Hq W TK IN HS RI.
  destruct (step_grow sty nq nc st o Hq W IN) as [st1 [HS1 [_ HW]]].
  rewrite HS in HS1. inversion HS1; subst. clear HS1.
  intros w Lw. destruct (RI w Lw) as [body [HM HB]].
  rewrite (HW w Lw). destruct (mem w (op_wl nq nc o)) eqn:M.
  - apply mem_true in M.
    pose proof (seg_scan (padw sty) nq nc o w W TK M) as SS.
    unfold op_seg. unfold grow. cbn [mid].
    eexists. split.
    + rewrite HM at 1. rewrite <- !app_assoc. reflexivity.
    + rewrite scan_app, HB. rewrite scan_app.
      rewrite (scan_noRT (rep _ _)) by (apply noRT_rep; apply fillc_noRT).
      rewrite SS. rewrite app_nil_l. reflexivity.
  - apply mem_false in M. exists body. split; [exact HM|].
    rewrite (op_content_out (padw sty) nq nc o w W M). rewrite app_nil_r. exact HB.
Qed.

Lemma read_run sty nq nc ops : forall st xs st' xs' L,
  0 < nq -> forallb (wf_op nq nc) ops = true -> Forall text_ok ops -> Inv nq nc st ->
  run true sty nq nc ops st xs = Some (st', xs') ->
  ReadInv sty nq nc st L ->
  ReadInv sty nq nc st' (fun w => L w ++ flat_map (fun o => op_content (padw sty) o w) ops).
Proof.
  induction ops as [|o r IH]; intros st xs st' xs' L Hq W TK IN HR RI.
  - simpl in HR. inversion HR; subst. intros w Lw. destruct (RI w Lw) as [b [A B]].
    exists b. simpl. rewrite app_nil_r. auto.
  - simpl in W. apply andb_true_iff in W. destruct W as [W1 W2].
    inversion TK as [|? ? T1 T2]; subst.
    destruct (step_inv sty nq nc st o Hq W1 IN) as [st1 [HS I1]].
    simpl in HR. rewrite HS in HR.
    pose proof (read_step sty nq nc st o st1 _ L Hq W1 T1 IN HS RI) as R1.
    pose proof (IH st1 _ st' xs' _ Hq W2 T2 I1 HR R1) as R2.
    intros w Lw. destruct (R2 w Lw) as [b [A B]]. exists b. split; [exact A|].
    rewrite B. simpl. rewrite app_assoc. reflexivity.
Qed.

(* ---- the final padding does not add boxes ---- *)
Lemma read_final sty nq nc st L :
  Inv nq nc st -> ReadInv sty nq nc st L -> ReadInv sty nq nc (final_pad sty nq nc st) L.
Proof.
  intros IN RI w Lw. destruct (final_rows sty nq nc st IN) as [_ FW].
  destruct (FW w Lw) as [E _]. rewrite E. destruct (RI w Lw) as [b [A B]].
  unfold pad_wire. cbn [mid].
  eexists. split.
  - rewrite A at 1. rewrite <- app_assoc. reflexivity.
  - rewrite scan_app, B. rewrite scan_noRT by (apply noRT_rep; apply fillc_noRT).
    rewrite app_nil_r. reflexivity.
Qed.

(* ------------------------------------------------------------------------------------------ *)
(* indexing the printed rows                                                                   *)
(* ------------------------------------------------------------------------------------------ *)
Lemma nth_rows_of nq nc st i j :
  i < nq + nc -> j < 3 ->
  nth (3 * i + j) (rows_of nq nc st) [] =
  let x := wire_of st (nth i (print_order nq nc) 0) in nth j [top x; mid x; bot x] [].
Proof.
  intros Li Lj. unfold rows_of, print_order.
  assert (E : forall (l : list nat) i, i < length l ->
             nth (3 * i + j) (flat_map (fun w => let x := wire_of st w in [top x; mid x; bot x]) l) [] =
             let x := wire_of st (nth i l 0) in nth j [top x; mid x; bot x] []).
  { induction l as [|a r IH]; intros k Lk; [simpl in Lk; lia|].
    destruct k as [|k].
    - simpl. destruct j as [|[|[|j]]]; try lia; reflexivity.
    - replace (3 * S k + j) with (3 + (3 * k + j)) by lia.
      simpl flat_map. cbn zeta. simpl nth at 1. apply IH. simpl in Lk. lia. }
  apply E. rewrite app_length, !rev_length, !seq_length. exact Li.
Qed.

Lemma print_order_bound nq nc i : i < nq + nc -> nth i (print_order nq nc) 0 < nq + nc.
Proof.
  intro L. apply in_print_order. unfold print_order. apply nth_In.
  rewrite app_length, !rev_length, !seq_length. exact L.
Qed.

(* position i of the printed picture: qubits from N-1 down to 0, then classical bits from the last
   down to the first *)
Lemma print_order_nth nq nc i :
  i < nq + nc ->
  nth i (print_order nq nc) 0 = if i <? nq then nq - 1 - i else nq + (nq + nc - 1 - i).
Proof.
  intro L. unfold print_order.
  destruct (i <? nq) eqn:E.
  - apply Nat.ltb_lt in E. rewrite app_nth1 by (rewrite rev_length, seq_length; exact E).
    rewrite rev_nth by (rewrite seq_length; exact E). rewrite seq_length.
    rewrite seq_nth by lia. lia.
  - apply Nat.ltb_ge in E. rewrite app_nth2 by (rewrite rev_length, seq_length; exact E).
    rewrite rev_length, seq_length.
    rewrite rev_nth by (rewrite seq_length; lia). rewrite seq_length.
    rewrite seq_nth by lia. lia.
Qed.

(* ------------------------------------------------------------------------------------------ *)
(* the two reading theorems                                                                    *)
(* ------------------------------------------------------------------------------------------ *)
Lemma layout_read sty nq nc ops rows :
  wf_input sty nq nc ops = true -> Forall text_ok ops ->
  layout true sty nq nc ops = Some rows ->
  forall i, i < nq + nc ->
    let w := nth i (print_order nq nc) 0 in
    exists body,
      nth (3 * i + 1) rows [] = pre_w sty nq nc w ++ body /\
      boxes body = flat_map (fun o => op_content (padw sty) o w) ops.
Proof.
  intros WF TK HL i Li w.
  destruct (layout_full_ok sty nq nc ops WF) as [st0 [st [xs [HA [HR [IN H]]]]]].
  unfold layout in HL. rewrite H in HL. inversion HL; subst rows; clear HL.
  unfold wf_input in WF. apply andb_true_iff in WF. destruct WF as [WF W3].
  apply andb_true_iff in WF. destruct WF as [W1 W2].
  assert (Hq : 0 < nq). { destruct nq; [discriminate|lia]. }
  destruct (init_inv sty nq nc Hq W2) as [st0' [HA' I0]]. rewrite HA in HA'. inversion HA'; subst st0'.
  pose proof (read_init sty nq nc st0 Hq W2 HA) as R0.
  pose proof (read_run sty nq nc ops st0 [] st xs _ Hq W3 TK I0 HR R0) as R1.
  pose proof (read_final sty nq nc st _ IN R1) as R2.
  rewrite (nth_rows_of nq nc _ i 1 Li) by lia. cbn zeta. simpl nth.
  destruct (R2 w (print_order_bound nq nc i Li)) as [body [A B]].
  exists body. split; [exact A|]. unfold boxes. rewrite B. reflexivity.
Qed.

Lemma strip_padded P s : strip P (padded P s) = s.
Proof.
  unfold strip, padded.
  rewrite !app_length, !rep_length.
  rewrite skipn_app. rewrite skipn_all2 by (rewrite rep_length; lia).
  rewrite rep_length. replace (P - P) with 0 by lia. simpl skipn. rewrite app_nil_l.
  replace (P + (length s + P) - 2 * P) with (length s) by lia.
  rewrite firstn_app. rewrite firstn_all. replace (length s - length s) with 0 by lia.
  simpl. apply app_nil_r.
Qed.

Lemma strip_contents P ops w :
  map (strip P) (flat_map (fun o => op_content P o w) ops) = circuit_labels ops w.
Proof.
  unfold circuit_labels. induction ops as [|o r IH]; [reflexivity|].
  simpl. rewrite map_app. f_equal; [|exact IH].
  unfold op_content. rewrite map_map. rewrite <- (map_id (op_labels o w)) at 2.
  apply map_ext. intro s. apply strip_padded.
Qed.

Lemma wf_input_style sty nq nc ops : wf_input sty nq nc ops = true -> wf_style sty nq nc = true.
Proof.
  unfold wf_input. intro WF. apply andb_true_iff in WF. destruct WF as [WF _].
  apply andb_true_iff in WF. tauto.
Qed.

Lemma labels_in_order_l sty nq nc ops rows :
  wf_input sty nq nc ops = true -> Forall text_ok ops ->
  layout true sty nq nc ops = Some rows ->
  forall i, i < nq + nc ->
    read_labels sty nq nc (nth (3 * i + 1) rows []) =
    circuit_labels ops (nth i (print_order nq nc) 0).
Proof.
  intros WF TK HL i Li.
  destruct (layout_read sty nq nc ops rows WF TK HL i Li) as [body [A B]].
  unfold read_labels. rewrite A.
  pose proof (wf_input_style _ _ _ _ WF) as WS.
  pose proof (pre_w_length sty nq nc _ WS (print_order_bound nq nc i Li)) as PL.
  rewrite skipn_app. rewrite skipn_all2 by lia. rewrite PL.
  replace (prefix_len sty nq nc - prefix_len sty nq nc) with 0 by lia. simpl skipn. rewrite app_nil_l.
  rewrite B. apply strip_contents.
Qed.

(* ------------------------------------------------------------------------------------------ *)
(* rows only ever grow at their end                                                            *)
(* ------------------------------------------------------------------------------------------ *)
Definition extends (nq nc : nat) (st st' : state) : Prop :=
  forall w, w < nq + nc -> forall k, exists s, row_of k (wire_of st' w) = row_of k (wire_of st w) ++ s.

Lemma extends_refl nq nc st : extends nq nc st st.
Proof. intros w _ k. exists []. rewrite app_nil_r. reflexivity. Qed.

Lemma extends_trans nq nc a b c : extends nq nc a b -> extends nq nc b c -> extends nq nc a c.
Proof.
  intros H1 H2 w Lw k. destruct (H1 w Lw k) as [s1 E1]. destruct (H2 w Lw k) as [s2 E2].
  exists (s1 ++ s2). rewrite E2, E1. rewrite app_assoc. reflexivity.
Qed.

Lemma step_extends sty nq nc st o st' x :
  0 < nq -> wf_op nq nc o = true -> Inv nq nc st ->
  step true sty nq nc st o = Some (st', x) -> extends nq nc st st'.
Proof.
  intros Hq W IN HS.
  destruct (step_grow sty nq nc st o Hq W IN) as [st1 [HS1 [_ HW]]].
  rewrite HS in HS1. inversion HS1; subst. clear HS1.
  intros w Lw k. rewrite (HW w Lw). destruct (mem w (op_wl nq nc o)).
  - unfold grow. destruct (op_seg true (padw sty) nq nc o w) as [[a b] c].
    destruct k; cbn [row_of top mid bot]; eexists; rewrite <- app_assoc; reflexivity.
  - exists []. rewrite app_nil_r. reflexivity.
Qed.

Lemma run_extends sty nq nc ops : forall st xs st' xs',
  0 < nq -> forallb (wf_op nq nc) ops = true -> Inv nq nc st ->
  run true sty nq nc ops st xs = Some (st', xs') -> extends nq nc st st'.
Proof.
  induction ops as [|o r IH]; intros st xs st' xs' Hq W IN HR.
  - simpl in HR. inversion HR; subst. apply extends_refl.
  - simpl in W. apply andb_true_iff in W. destruct W as [W1 W2].
    destruct (step_inv sty nq nc st o Hq W1 IN) as [st1 [HS I1]].
    simpl in HR. rewrite HS in HR.
    apply (extends_trans nq nc st st1 st').
    + apply (step_extends sty nq nc st o st1 _ Hq W1 IN HS).
    + apply (IH st1 _ st' xs' Hq W2 I1 HR).
Qed.

Lemma final_extends sty nq nc st : Inv nq nc st -> extends nq nc st (final_pad sty nq nc st).
Proof.
  intros IN w Lw k. destruct (final_rows sty nq nc st IN) as [_ FW].
  destruct (FW w Lw) as [E _]. rewrite E. unfold pad_wire.
  destruct k; cbn [row_of top mid bot]; eexists; reflexivity.
Qed.

Lemma wire_order_l sty nq nc ops rows :
  wf_input sty nq nc ops = true ->
  layout true sty nq nc ops = Some rows ->
  forall i, i < nq + nc ->
    let w := if i <? nq then nq - 1 - i else nq + (nq + nc - 1 - i) in
    exists rest, nth (3 * i + 1) rows [] = wire_prefix sty nq nc w ++ rest.
Proof.
  intros WF HL i Li.
  destruct (layout_full_ok sty nq nc ops WF) as [st0 [st [xs [HA [HR [IN H]]]]]].
  unfold layout in HL. rewrite H in HL. inversion HL; subst rows; clear HL.
  rewrite (nth_rows_of nq nc _ i 1 Li) by lia. cbn zeta. simpl nth.
  rewrite print_order_nth by exact Li.
  set (w := if i <? nq then nq - 1 - i else nq + (nq + nc - 1 - i)).
  assert (Lw : w < nq + nc).
  { unfold w. destruct (i <? nq) eqn:E; [apply Nat.ltb_lt in E|apply Nat.ltb_ge in E]; lia. }
  pose proof (wf_input_style _ _ _ _ WF) as WS.
  unfold wf_input in WF. apply andb_true_iff in WF. destruct WF as [WF W3].
  apply andb_true_iff in WF. destruct WF as [W1 _].
  assert (Hq : 0 < nq). { destruct nq; [discriminate|lia]. }
  destruct (init_inv sty nq nc Hq WS) as [st0' [HA' I0]]. rewrite HA in HA'. inversion HA'; subst st0'.
  pose proof (read_init sty nq nc st0 Hq WS HA w Lw) as [b0 [M0 _]].
  pose proof (run_extends sty nq nc ops st0 [] st xs Hq W3 I0 HR w Lw RMid) as [s1 E1].
  pose proof (final_extends sty nq nc st IN w Lw RMid) as [s2 E2].
  cbn [row_of] in E1, E2. rewrite E2, E1, M0. unfold pre_w.
  eexists. rewrite <- !app_assoc. reflexivity.
Qed.
