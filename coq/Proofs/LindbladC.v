(* C15 - the complex numbers (Coquelicot's C = R * R over the standard-library reals) as a model of
   Model.Lindblad.cring, with the rationals embedded through Q2R.  Every theorem of Proofs/Lindblad*.v and
   Proofs/RelaxLaw.v therefore holds for complex density matrices; Proofs/RelaxSolution.v uses this instance. *)
From Coq Require Import Reals Lra QArith Qreals Ring Field.
From Coquelicot Require Import Coquelicot.
From QV Require Import Model.Lindblad.
Local Open Scope R_scope.

Ltac cx := intros; repeat match goal with z : C |- _ => destruct z end;
           unfold Cconj, Cplus, Cmult, Cminus, Copp, RtoC; simpl; f_equal; try ring; try field.

Lemma sqrt2_sq : sqrt 2 * sqrt 2 = 2.
Proof. apply sqrt_sqrt. lra. Qed.

Definition CC : cring.
Proof.
  refine {| K := C; k0 := RtoC 0; k1 := RtoC 1; kadd := Cplus; kmul := Cmult; ksub := Cminus; kopp := Copp;
            conj := Cconj; half := RtoC (/ 2); s2 := RtoC (sqrt 2); kring := C_ring_theory |}.
  - cx.
  - cx.
  - cx.
  - cx.
  - cx.
  - cx.
  - unfold Cmult, Cplus, RtoC; simpl. f_equal; [rewrite Rmult_0_l, Rminus_0_r; rewrite sqrt2_sq; ring | ring].
Defined.

Definition CC_hom : qhom CC.
Proof.
  refine (Build_qhom CC (fun q => RtoC (Q2R q)) _ _ _ _ _).
  - intros x y H. cbn. f_equal. apply Qeq_eqR. exact H.
  - intros x y. cbn. rewrite Q2R_plus. cx.
  - intros x y. cbn. rewrite Q2R_mult. cx.
  - cbn. replace (Q2R 1) with 1 by (unfold Q2R; simpl; field). reflexivity.
  - intros x. cbn. cx.
Defined.

Lemma Q2R_pos q : (0 < q)%Q -> 0 < Q2R q.
Proof. intro H. replace 0 with (Q2R 0) by (unfold Q2R; simpl; field). apply Qlt_Rlt. exact H. Qed.
