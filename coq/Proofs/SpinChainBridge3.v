(* C06 x C13, bridge part 3: the decidable condition [bridge_ok] holds for every gate of a transpiled circuit of a spin-chain
   processor.  Invariant carried through the three passes of C13's transpile model: the (name, argument expressions, number of
   qubits) of every gate is the one of a well-formed source gate or of a gate of the decomposition of the GENERIC gate of some
   kind -- a finite table, on which the calibration identities are checked by computation. *)
From Coq Require Import ZArith QArith String List Bool Lia.
From QV Require Import Model.ResolveTypes Gen.Decompose Model.Resolve Proofs.ResolveLemmas Proofs.ResolveChkDefs Proofs.ResolveSem.
From QV Require Import Model.TranspileTypes Gen.Devices Model.Transpile Proofs.TranspileShape Proofs.TranspileRoute Proofs.TranspileMain
  Proofs.TranspileTop Proofs.TranspileC06.
From QV Require Import Found.Base Found.KS Found.KSProofs Found.Sym Found.SymProofs Found.Circ
  Gen.Gates Model.SpinChainTypes Gen.SpinChain Model.SpinChain Spec.SpinChainSpec
  Model.Concat Model.Fill Spec.FillSpec Proofs.SpinChainCal Proofs.SpinChainRule Proofs.SpinChainSem Proofs.SpinChainSlices Proofs.SpinChainProp
  Proofs.SpinChainBridge Proofs.SpinChainBridge2.
From QV Require Model.Route.
Import ListNotations.
Local Open Scope string_scope.

Definition triple (o : mgate) : string * list ex * nat := (gname o, gargs o, nqubits o).
Definition gen_tab : list (string * list ex * nat) :=
  map (fun k => match snd k with (nc, nt, np) => (fst k, map Var (seq 0 np), (nc + nt)%nat) end) kinds.
Definition res_tab (c : Resolve.cfg) : list (string * list ex * nat) :=
  flat_map (fun k => match resolve_gate c no_keep (generic (fst k) (snd k) 0) with
                     | Resolve.Ok gs => map triple gs | Resolve.Error => [] end) kinds.
Definition inv (c : Resolve.cfg) (o : mgate) : Prop := In (triple o) (gen_tab ++ res_tab c).

Lemma triple_retag f s g : triple (retag f s g) = triple g.
Proof. unfold triple, retag, nqubits. cbn [gname gargs gcontrols gtargets]. rewrite !map_length. reflexivity. Qed.

Lemma wf_inv c g : wf_gate g -> inv c g.
Proof.
  intros [nc [nt [np [Hk [Hlc [Hlt [_ Har]]]]]]]. unfold inv. apply in_or_app. left. unfold gen_tab.
  apply in_map_iff. exists (gname g, (nc, nt, np)). split; [|exact Hk].
  cbn [fst snd]. unfold triple, nqubits. rewrite Har, Hlc, Hlt. reflexivity.
Qed.

Lemma resolve_wf_inv c keep g gs : wf_gate g -> resolve_gate c keep g = Resolve.Ok gs -> Forall (inv c) gs.
Proof.
  intros [nc [nt [np [Hk [Hlc [Hlt [Hnd Har]]]]]]] Hres.
  set (ts := (gcontrols g ++ gtargets g)%list) in *.
  set (g0 := generic (gname g) (nc, nt, np) 0).
  pose proof (wf_retag g nc nt np Hlc Hlt Har) as Eg. fold ts in Eg. fold g0 in Eg.
  rewrite Eg in Hres. rewrite (resolve_gate_keep c keep g0 (pl ts) (gsrc g) (gname g, (nc, nt, np)) Hk eq_refl) in Hres.
  rewrite resolve_gate_nat in Hres.
  destruct (resolve_gate c no_keep g0) as [gs0|] eqn:E0; [|discriminate]. cbn [rmap] in Hres. injection Hres as <-.
  apply Forall_forall. intros x Hx. apply in_map_iff in Hx. destruct Hx as [x0 [<- Hx0]].
  unfold inv. rewrite triple_retag. apply in_or_app. right. unfold res_tab. apply in_flat_map.
  exists (gname g, (nc, nt, np)). split; [exact Hk|]. cbn [fst snd]. fold g0. rewrite E0. apply in_map. exact Hx0.
Qed.

Section Inv.
Variable lst : list string.
Variable keep : string -> bool.
Hypothesis Hp : parse_basis (BList lst) = Resolve.Ok (cfg_of lst, keep).
Hypothesis Hdv : In (cfg_of lst) dev_cfgs.
Notation cf := (cfg_of lst).

Lemma resolve_list_inv mid out : Forall (fun g => (wf_gate g \/ in_basis cf g = true) /\ inv cf g) mid ->
  resolve (BList lst) mid = Resolve.Ok out -> Forall (inv cf) out.
Proof.
  intros Hm H. rewrite resolve_unfold, Hp in H. cbn [Resolve.rbind fst snd] in H.
  revert out H. induction Hm as [|g c [Hg Hi] _ IH]; intros out H.
  - rewrite rflat_nil in H. injection H as <-. constructor.
  - apply rflat_ok_cons in H. destruct H as [x [y [Hx [Hy ->]]]]. apply Forall_app. split; [|apply IH; exact Hy].
    destruct Hg as [Hw|Hb].
    + exact (resolve_wf_inv cf keep g x Hw Hx).
    + rewrite (resolve_native_id cf keep g Hdv Hb) in Hx. injection Hx as <-. constructor; [exact Hi|constructor].
Qed.

Lemma expand_inv c pre : Forall wf_gate c -> expand (BList lst) c = Resolve.Ok pre -> Forall (inv cf) pre.
Proof.
  unfold expand. revert pre. induction c as [|g c IH]; intros pre Hw H.
  - rewrite rflat_nil in H. injection H as <-. constructor.
  - apply rflat_ok_cons in H. destruct H as [x [y [Hx [Hy ->]]]]. inversion Hw; subst.
    apply Forall_app. split; [|apply IH; assumption].
    unfold expand_gate in Hx. destruct (big g).
    + rewrite resolve_unfold, Hp in Hx. cbn [Resolve.rbind fst snd] in Hx. rewrite rflat_single in Hx.
      exact (resolve_wf_inv cf keep g x ltac:(assumption) Hx).
    + injection Hx as <-. constructor; [apply wf_inv; assumption|constructor].
Qed.

(* pass 2: a routed piece carries the name of the routed gate or SWAP, no argument, two qubits *)
Lemma swap_in_tab : In ("SWAP", @nil ex, 2%nat) (gen_tab ++ res_tab cf).
Proof. apply in_or_app. left. unfold gen_tab. cbn. do 13 right. left. reflexivity. Qed.

Lemma piece_inv (P : string -> Prop) tp N tbl i g o : nth_error tbl i = Some g -> midok P cf N g -> inv cf g ->
  handled_name (gname g) = true -> Route.route1 Route.fixed tp (Z.of_nat N) (toR i g) = Some o ->
  Forall (inv cf) (map (fromR tbl) o).
Proof.
  intros Hnth Hm Hi Hh Hr. destruct (midok_handled P cf N i g Hm Hh) as [Hw _].
  destruct (handled_pair P cf N g Hm Hh) as [a0 [b0 [Hq0 [_ [_ [_ [Harg0 Hlen0]]]]]]].
  pose proof (route1_shape tp (Z.of_nat N) (toR i g) o Hw Hr) as Hs. rewrite Forall_forall in Hs.
  assert (Hg3 : triple g = (gname g, [], 2%nat)) by (unfold triple, nqubits; rewrite Harg0, Hlen0; reflexivity).
  apply Forall_forall. intros x Hx. apply in_map_iff in Hx. destruct Hx as [r [<- Hr0]].
  specialize (Hs r Hr0). cbn [Route.gname Route.garg toR] in Hs. unfold inv.
  destruct Hs as [[p [q ->]]|[[Hc [x [y ->]]]|[Hsw [x [y ->]]]]].
  - replace (triple (fromR tbl (Route.SWAPg p q))) with ("SWAP", @nil ex, 2%nat) by reflexivity. apply swap_in_tab.
  - replace (triple (fromR tbl (Route.Cg (gname g) x y))) with (gname g, @nil ex, 2%nat) by reflexivity.
    rewrite <- Hg3. exact Hi.
  - assert (Ht : triple (fromR tbl (Route.SWg (gname g) (tokenof i g) x y)) = (gname g, @nil ex, 2%nat)).
    { unfold triple, fromR, nqubits, arg_of, tokenof. cbn [Route.gname Route.gtargets Route.gcontrols Route.garg Route.SWg gname gargs gcontrols gtargets].
      destruct (Route.is_ctrl (gname g)); [reflexivity|]. rewrite Nat2Z.id, Hnth. cbn [fst]. rewrite Harg0. reflexivity. }
    rewrite Ht, <- Hg3. exact Hi.
Qed.

Lemma pieces_inv (P : string -> Prop) tp N tbl : forall c k outs,
  (forall j g, nth_error c j = Some g -> nth_error tbl (k + j) = Some g) -> Forall (midok P cf N) c -> Forall (inv cf) c ->
  Forall2 (fun rg o => Route.route1 Route.fixed tp (Z.of_nat N) rg = Some o) (toRs k c) outs ->
  Forall (inv cf) (map (fromR tbl) (concat outs)).
Proof.
  induction c as [|g c IH]; intros k outs Htbl Hm Hi H2; cbn [toRs] in H2.
  - inversion H2; subst. constructor.
  - inversion H2 as [|? o ? outs' Ho Hrest]; subst. inversion Hm as [|? ? Hg Hc]; subst. inversion Hi as [|? ? Hig Hic]; subst.
    cbn [concat]. rewrite map_app. apply Forall_app. split.
    + assert (Hk : nth_error tbl k = Some g) by (rewrite <- (Nat.add_0_r k); apply Htbl; reflexivity).
      destruct (handled_name (gname g)) eqn:Eh.
      * eapply piece_inv; eauto.
      * rewrite route1_unhandled in Ho by (rewrite handled_toR; exact Eh). injection Ho as <-. cbn [map].
        unfold handled_name in Eh. apply orb_false_iff in Eh. destruct Eh as [E1 E2].
        rewrite (fromR_toR tbl k g Hk E1). constructor; [exact Hig|constructor].
    + apply (IH (S k) outs'); auto. intros j g' Hj. replace (S k + j)%nat with (k + S j)%nat by lia. apply Htbl. exact Hj.
Qed.

Lemma topo_inv (P : string -> Prop) tp N pre mid : Forall (midok P cf N) pre -> Forall (inv cf) pre ->
  topo_pass tp N pre = Resolve.Ok mid -> Forall (inv cf) mid.
Proof.
  intros Hm Hi H. unfold topo_pass in H.
  destruct (Route.route Route.fixed tp (Z.of_nat N) (toRs 0 pre)) as [r|] eqn:E; [|discriminate].
  injection H as <-. destruct (route_pieces _ _ _ _ _ E) as [outs [-> H2]].
  apply (pieces_inv P tp N pre pre 0 outs); auto.
Qed.
End Inv.

(* ---- the whole transpile ---- *)
Theorem transpile_inv d Ndev M c out : In d devices -> Forall wf_gate c -> Forall (fun g => in_range M g = true) c ->
  transpile_on d Ndev M c = Resolve.Ok out ->
  exists lst, dnative d = Some lst /\ Forall (inv (cfg_of lst)) out.
Proof.
  intros Hd Hw Hr H. destruct (dev_facts d Hd) as [lst [keep [El [Hp [Hv [Hdv [Hal Hm]]]]]]].
  exists lst. split; [exact El|].
  assert (HPc : Forall (fun g => noP (gname g)) c) by (apply Forall_forall; intros; exact I).
  rewrite transpile_unfold, pass_width in H.
  destruct (Nat.ltb Ndev M) eqn:EW; [discriminate|]. cbn [Resolve.rbind] in H.
  rewrite (pass_expand d Ndev M lst El) in H.
  destruct (expand (BList lst) c) as [pre|] eqn:E1; [|discriminate]. cbn [Resolve.rbind] in H.
  pose proof (expand_ok noP lst keep Hp Hv Hdv Hal M c pre Hw HPc Hr E1) as Hpre.
  pose proof (expand_inv lst keep Hp c pre Hw E1) as Hipre.
  destruct (topology_step noP I d Hd lst keep Hp Ndev M pre Hpre) as [mid [E2 Hmid]].
  rewrite E2 in H. cbn [Resolve.rbind] in H. rewrite (pass_resolve d Ndev M lst El) in H.
  assert (Himid : Forall (inv (cfg_of lst)) mid).
  { unfold run_pass in E2. destruct (dtopo d).
    - injection E2 as <-. exact Hipre.
    - destruct (unrouted_ok d pre); [|discriminate]. destruct (route_kind d Ndev M).
      + injection E2 as <-. exact Hipre.
      + exact (topo_inv lst noP Route.Linear M pre mid Hpre Hipre E2).
      + exact (topo_inv lst noP Route.Circular M pre mid Hpre Hipre E2).
    - destruct (unrouted_ok d pre); [|discriminate]. destruct (route_kind d Ndev M).
      + injection E2 as <-. exact Hipre.
      + exact (topo_inv lst noP Route.Linear M pre mid Hpre Hipre E2).
      + exact (topo_inv lst noP Route.Circular M pre mid Hpre Hipre E2). }
  apply (resolve_list_inv lst keep Hp Hdv mid out); [|exact H].
  clear H E2. induction Hmid as [|g r [Hg _] _ IH]; [constructor|]. inversion Himid; subst. constructor; [|apply IH; assumption].
  split; [|assumption]. destruct Hg as [_ [_ [_ [[Hwg _]|Hb]]]]; [left; exact Hwg|right; exact Hb].
Qed.

(* ---- the table check: every entry that can be a native gate satisfies the calibration identity ---- *)
Definition sc_native : list string := ["SQRTISWAP"; "ISWAP"; "RX"; "RZ"].
Definition entry_ok (e : string * list ex * nat) : bool :=
  match e with
  | (n, args, nq) =>
      if (mem n sc_native || (n =? "GLOBALPHASE") || (n =? "IDLE"))%bool
      then cal_entry n args && (if n =? "GLOBALPHASE" then Nat.eqb nq 0 else true)
      else true
  end.
Lemma table_ok : forallb entry_ok (gen_tab ++ res_tab (cfg_of sc_native)) = true.
Proof. vm_compute. reflexivity. Qed.

Theorem transpile_bridge_ok d Ndev M c out : In d devices -> dnative d = Some sc_native ->
  Forall wf_gate c -> Forall (fun g => in_range M g = true) c -> transpile_on d Ndev M c = Resolve.Ok out ->
  Forall (fun o => bridge_ok o = true) out.
Proof.
  intros Hd Hn Hw Hr H. destruct (transpile_inv d Ndev M c out Hd Hw Hr H) as [lst [El Hi]].
  rewrite Hn in El. injection El as <-.
  assert (HPc : Forall (fun g => noP (gname g)) c) by (apply Forall_forall; intros; exact I).
  destruct (transpile_structure noP d Ndev M c out Hd I Hw HPc Hr H) as [_ Ho].
  pose proof table_ok as T. rewrite forallb_forall in T.
  clear H. induction Hi as [|o r Hio _ IH]; [constructor|]. inversion Ho as [|? ? Ho1 Ho2]; subst. constructor; [|exact (IH Ho2)].
  specialize (T (triple o) Hio). unfold entry_ok, triple in T.
  destruct Ho1 as [Hnat _]. unfold native_gate in Hnat. rewrite Hn in Hnat. rewrite Hnat in T. exact T.
Qed.

(* ---- from the ORIGINAL circuit to the pulse-level propagator, nothing assumed about transpilation ---- *)
Theorem original_to_pulses_closed (R : PhaseRing) (env : nat -> atoms R) (labels : list label)
  (P : list Q -> Q -> state R -> state R)
  (P_time : forall h a b s, (a == b)%Q -> P h a s = P h b s) (P_zero : forall h s, P h 0%Q s = s)
  (P_idle : forall h t s, Forall (fun c => (c == 0)%Q) h -> P h t s = s)
  d N M src out (cc : SpinChain.cfg) (gs : list ngate) il ph :
  In d devices -> dnative d = Some sc_native ->
  Forall wf_gate src -> Forall (fun g => in_range M g = true) src -> transpile_on d N M src = Resolve.Ok out ->
  c_n cc = N -> setup_ok cc -> Forall2 same_gate out gs ->
  (forall i o g dd lb co Mx tp s,
     nth_error (combine out gs) i = Some (o, g) -> compile_gate cc g = Ok (CInstr dd [(lb, co)]) ->
     pulse_sgate cc (g_name g) lb = Some (Mx, tp) ->
     P (ivec labels [(lb, co)]) dd s = sem [gden R (env (gsrc o)) (msubst (gargs o) Mx, tp)] s) ->
  compile_gates cc gs 0%Q = Ok (il, ph) -> Forall (fun i => (0 <= fst i)%Q) il ->
  (forall psi, sem (iden R env (phase_icirc_a (combine out gs))) (prop_slices (state R) P (seq_slices labels il) psi)
               = sem (ResolveSem.cden R env src) psi) /\
  (ph == sum_phase gs)%Q.
Proof.
  intros Hd Hn Hw Hr Ht HN Hs H2 Pcal Hc Hdur.
  exact (original_to_pulses R env labels P P_time P_zero P_idle d N M src out cc gs sc_native il ph Hd Hn eq_refl Hw Hr Ht HN Hs H2
           (transpile_bridge_ok d N M src out Hd Hn Hw Hr Ht) Pcal Hc Hdur).
Qed.

Lemma spin_chain_devices_native : dnative dev_LinearSpinChain = Some sc_native /\ dnative dev_CircularSpinChain = Some sc_native /\
  In dev_LinearSpinChain devices /\ In dev_CircularSpinChain devices.
Proof. repeat split; try reflexivity; unfold devices; cbn; tauto. Qed.
