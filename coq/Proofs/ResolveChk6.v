(* C03: semantic obligations for basis configurations 384 .. 447 of all_cfgs (20 gate kinds each) *)
From QV Require Import Model.Resolve Proofs.ResolveChkDefs.
Lemma chk_sem_6 : sem_ok (slice 6) = true.
Proof. vm_compute. reflexivity. Qed.
