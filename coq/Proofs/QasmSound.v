(* C04 import_sound: for every program the importer model accepts, the imported circuit has the branch semantics of the
   standard's meaning of the program (Spec/Qasm.v spec_prog + Spec/QasmSem.v), up to one unit scalar per measurement
   record.  Induction over the operation list, combining shortcut_ok (via leaf_sem), import_regs_ok, import_if_ok /
   import_if_never, the user-gate expansion theorems of QasmSem2 and the measurement mapping. *)
From Coq Require Import Lia FunctionalExtensionality Ring.
From QV Require Import Model.QasmImport Spec.QasmSem Found.Circ Gen.Gates Gen.Qasm.
From QV Require Import Proofs.QasmShortcut Proofs.QasmCustom Proofs.QasmRegs Proofs.QasmIf Proofs.QasmSem1 Proofs.QasmSem2.
Local Open Scope string_scope.
Local Open Scope nat_scope.
Local Open Scope list_scope.

Lemma nnodup_NoDup l : nnodup l = true -> NoDup l.
Proof.
  induction l as [|x l IH]; intros H; [constructor|]. cbn [nnodup] in H. apply andb_prop in H. destruct H as [H1 H2].
  constructor; [|apply IH; exact H2]. intros Hin. apply Bool.negb_true_iff in H1.
  assert (existsb (Nat.eqb x) l = true) by (apply existsb_exists; exists x; split; [exact Hin|apply Nat.eqb_refl]). congruence.
Qed.
Lemma map_pl_seq regs : map (pl regs) (seq 0 (length regs)) = regs.
Proof.
  apply nth_ext with (d := 0) (d' := 0); [rewrite map_length, seq_length; reflexivity|].
  intros i Hi. rewrite map_length, seq_length in Hi.
  rewrite (nth_indep _ 0 (pl regs 0)) by (rewrite map_length, seq_length; exact Hi).
  rewrite map_nth, seq_nth by exact Hi. reflexivity.
Qed.
Lemma layout_pos regs : forallb (fun r : string * nat => 0 <? snd r) regs = true ->
  forall off r o n, sassoc r (layout off regs) = Some (o, n) -> 0 < n.
Proof.
  induction regs as [|[r0 n0] regs IH]; intros H off r o n Hs; [discriminate|].
  cbn [forallb snd] in H. apply andb_prop in H. destruct H as [H0 H]. cbn [layout sassoc] in Hs.
  destruct (String.eqb r r0).
  - injection Hs as _ <-. apply Nat.ltb_lt. exact H0.
  - eapply IH; eauto.
Qed.
(* relating two option-maps over the same list *)
Lemma omap_forall2 {X Y Z} (f : X -> option Y) (g : X -> option Z) (P : Y -> Z -> Prop) l : forall a b,
  omap f l = Some a -> omap g l = Some b ->
  (forall x y z, In x l -> f x = Some y -> g x = Some z -> P y z) -> Forall2 P a b.
Proof.
  induction l as [|x l IH]; intros a b Ha Hb HP.
  - injection Ha as <-. injection Hb as <-. constructor.
  - cbn [omap] in Ha, Hb. destruct (f x) as [y|] eqn:Ef; [|discriminate]. destruct (omap f l) as [a'|]; [|discriminate].
    destruct (g x) as [z|] eqn:Eg; [|discriminate]. destruct (omap g l) as [b'|]; [|discriminate].
    injection Ha as <-. injection Hb as <-. constructor.
    + apply (HP x y z (or_introl eq_refl) Ef Eg).
    + apply IH; auto. intros x0 y0 z0 Hin. apply HP. right. exact Hin.
Qed.

Section Run.
Variable R : PhaseRing.
Variable A : VAlg.
Variable aenv : list A -> atoms R.
Add Ring RRsound : (PR_ring R).
Notation rel := (rel R). Notation den_igs := (den_igs R A aenv). Notation den_leaf := (den_leaf R A aenv).

(* ---- branch semantics: classical bits, unnormalised state, remaining outcome record ---- *)
Definition cfg := ((nat -> bool) * state R * list bool)%type.
Definition proj (q : nat) (b : bool) (psi : state R) : state R := fun x => if Bool.eqb (x q) b then psi x else k0 R.
Definition setb (cb : nat -> bool) (c : nat) (b : bool) : nat -> bool := fun i => if Nat.eqb i c then b else cb i.
Definition fires_cc (cc : option (list nat * nat)) (cb : nat -> bool) : bool := match cc with None => true | Some c => cc_fires cb c end.
Definition fires_cond (cond : option (list nat * nat)) (cb : nat -> bool) : bool := match cond with None => true | Some c => cond_fires cb c end.
(* the circuit of one imported gate statement: library gates, or ONE user gate = its temporary circuit placed on its targets *)
Definition circ_iop (user : option (list nat)) (gs : list (igate A)) : circ R :=
  match user with None => den_igs gs | Some ts => place ts (den_igs gs) end.
Definition run_iop (o : iop A) (st : cfg) : cfg :=
  match st with (cb, psi, r) =>
    match o with
    | IOp cc user gs => (cb, if fires_cc cc cb then sem (circ_iop user gs) psi else psi, r)
    | IMeas q c => match r with b :: r' => (setb cb c b, proj q b psi, r') | [] => st end
    end end.
Definition run_sop (o : sop A) (st : cfg) : cfg :=
  match st with (cb, psi, r) =>
    match o with
    | SGate cond ls => (cb, if fires_cond cond cb then sem (flat_map den_leaf ls) psi else psi, r)
    | SMeas q c => match r with b :: r' => (setb cb c b, proj q b psi, r') | [] => st end
    end end.
Definition run_iops (l : list (iop A)) (st : cfg) : cfg := fold_left (fun s o => run_iop o s) l st.
Definition run_sops (l : list (sop A)) (st : cfg) : cfg := fold_left (fun s o => run_sop o s) l st.
(* same classical bits, same remaining record, states equal up to a scalar *)
Definition creq (s1 s2 : cfg) : Prop :=
  match s1, s2 with (cb1, p1, r1), (cb2, p2, r2) => cb1 = cb2 /\ r1 = r2 /\ rel p1 p2 end.

Lemma rel_proj q b p1 p2 : rel p1 p2 -> rel (proj q b p1) (proj q b p2).
Proof. intros [s H]. exists s. intros x. unfold proj. destruct (Bool.eqb (x q) b); [apply H|ring]. Qed.
Lemma run_iops_app a b st : run_iops (a ++ b) st = run_iops b (run_iops a st).
Proof. unfold run_iops. apply fold_left_app. Qed.
Lemma run_sops_app a b st : run_sops (a ++ b) st = run_sops b (run_sops a st).
Proof. unfold run_sops. apply fold_left_app. Qed.

Definition step_rel (y : iop A) (z : sop A) : Prop := forall st1 st2, creq st1 st2 -> creq (run_iop y st1) (run_sop z st2).
Lemma run_forall2 il sl : Forall2 step_rel il sl -> forall st1 st2, creq st1 st2 -> creq (run_iops il st1) (run_sops sl st2).
Proof.
  induction 1 as [|y z il sl Hyz _ IH]; intros st1 st2 H; [exact H|].
  unfold run_iops, run_sops in *. cbn [fold_left]. apply IH. apply Hyz. exact H.
Qed.

(* ---- one instance of a gate statement ---- *)
Section Inst.
Variables (Gs : genv) (cc cond : option (list nat * nat)).
Hypothesis Hok : bodies_ok Gs = true.
Hypothesis Hfire : forall cb, fires_cc cc cb = fires_cond cond cb.

Lemma step_predefined g (vals : list A) regs gs ls :
  smem g predefined = true -> NoDup regs -> add_predefined g regs vals = Some gs -> expand A sig0 Gs g vals regs = Some ls ->
  step_rel (IOp cc None gs) (SGate cond ls).
Proof.
  intros Hm Hnd Ha He [[cb1 p1] r1] [[cb2 p2] r2] [-> [-> Hr]]. cbn [run_iop run_sop creq]. repeat split.
  rewrite Hfire. destruct (fires_cond cond cb2); [|exact Hr]. cbn [circ_iop].
  destruct (sassoc g sig0) as [[np nq]|] eqn:Es; [|apply sig0_mem in Es; congruence].
  destruct (expand_leaf_arity A g np nq vals regs ls Gs Es He) as [-> [Hv Hq]].
  cbn [flat_map]. rewrite app_nil_r.
  rewrite (leaf_sem R A aenv g np nq vals regs gs Hm Es Hv Hq Hnd Ha). apply leaf_ph_rel. exact Hr.
Qed.
Lemma step_user g (vals : list A) regs gs ls :
  NoDup regs -> custom A (conv Gs) g vals (seq 0 (length regs)) = Some gs -> expand A sig0 Gs g vals regs = Some ls ->
  step_rel (IOp cc (Some regs) gs) (SGate cond ls).
Proof.
  intros Hnd Hc He [[cb1 p1] r1] [[cb2 p2] r2] [-> [-> Hr]]. cbn [run_iop run_sop creq]. repeat split.
  rewrite Hfire. destruct (fires_cond cond cb2); [|exact Hr]. cbn [circ_iop].
  rewrite den_igs_glob.
  apply (custom_rename A (pl regs)) in Hc. rewrite map_pl_seq in Hc.
  exact (custom_sem R A aenv Gs g vals regs _ ls Hok Hnd Hc He p1 p2 Hr).
Qed.
End Inst.

(* ---- a gate application (plain or under if) ---- *)
Lemma gate_add_sound Sg Gs QL cc cond g args qs il sl :
  bodies_ok Gs = true -> (forall r off n, sassoc r QL = Some (off, n) -> 0 < n) ->
  (forall cb, fires_cc cc cb = fires_cond cond cb) ->
  gate_add A Sg (conv Gs) QL cc g args qs = Some il -> app_ops A sig0 QL Gs cond g args qs = Some sl ->
  Forall2 step_rel il sl.
Proof.
  intros Hok Hpos Hfire Hi Hs. unfold gate_add in Hi. unfold app_ops in Hs.
  destruct (sassoc g Sg) as [[np nq]|]; [|discriminate].
  rewrite (regs_ok QL qs Hpos) in Hi.
  destruct (omap (Qasm.eval A []) args) as [vals|]; [|destruct (omap (resolve QL) qs) as [rs|]; [destruct (broadcast rs); [destruct (_ && _) in Hi|]|]; discriminate].
  destruct (omap (resolve QL) qs) as [rs|]; [|discriminate].
  destruct (broadcast rs) as [insts|]; [|discriminate].
  destruct ((length args =? np) && forallb (fun regs => (length regs =? nq) && nnodup regs) insts) eqn:Chk; [|discriminate].
  apply andb_prop in Chk. destruct Chk as [_ Chk]. rewrite forallb_forall in Chk.
  destruct (smem g predefined) eqn:Hm.
  - eapply omap_forall2; [exact Hi|exact Hs|]. intros inst y z Hin Hy Hz. cbv beta in Hy, Hz.
    specialize (Chk inst Hin). apply andb_prop in Chk. destruct Chk as [_ Hnd]. rewrite Hnd in Hz.
    destruct (add_predefined g inst vals) as [gs|] eqn:Ea; [|discriminate]. injection Hy as <-.
    destruct (expand A sig0 Gs g vals inst) as [ls|] eqn:Ee; [|discriminate]. injection Hz as <-.
    eapply step_predefined; eauto. apply nnodup_NoDup. exact Hnd.
  - destruct (custom A (conv Gs) g vals (seq 0 nq)) as [gs|] eqn:Ec; [|discriminate]. injection Hi as <-.
    revert sl Hs. induction insts as [|inst insts IH]; intros sl Hs.
    + injection Hs as <-. constructor.
    + cbn [omap] in Hs. pose proof (Chk inst (or_introl eq_refl)) as C1. apply andb_prop in C1. destruct C1 as [Hlen Hnd].
      apply Nat.eqb_eq in Hlen. rewrite Hnd in Hs.
      destruct (expand A sig0 Gs g vals inst) as [ls|] eqn:Ee; [|discriminate].
      match type of Hs with match ?X with _ => _ end = _ => destruct X as [sl'|] eqn:Es'; [|discriminate] end.
      injection Hs as <-. cbn [map]. constructor.
      * eapply step_user; eauto; [apply nnodup_NoDup; exact Hnd| rewrite Hlen; exact Ec].
      * apply IH; [|reflexivity]. intros x Hx. apply Chk. right. exact Hx.
Qed.
(* every operation produced by app_ops carries the statement's condition *)
Lemma app_ops_cond QL Gs cond g args qs sl : app_ops A sig0 QL Gs cond g args qs = Some sl ->
  Forall (fun s => exists ls, s = SGate cond ls) sl.
Proof.
  unfold app_ops. destruct (omap (Qasm.eval A []) args) as [vals|]; [|discriminate].
  destruct (omap (resolve QL) qs) as [rs|]; [|discriminate]. destruct (broadcast rs) as [insts|]; [|discriminate].
  revert sl. induction insts as [|inst insts IH]; intros sl H.
  - injection H as <-. constructor.
  - cbn [omap] in H. destruct (nnodup inst); [|discriminate].
    destruct (expand A sig0 Gs g vals inst) as [ls|]; [|discriminate].
    match type of H with match ?X with _ => _ end = _ => destruct X as [sl'|] eqn:E; [|discriminate] end.
    injection H as <-. constructor; [eexists; reflexivity|apply IH; reflexivity].
Qed.
Lemma run_never cond sl : (forall cb, fires_cond cond cb = false) -> Forall (fun s => exists ls, s = SGate cond ls) sl ->
  forall st, run_sops sl st = st.
Proof.
  intros Hn. induction 1 as [|s sl [ls ->] _ IH]; intros st; [reflexivity|].
  unfold run_sops in *. cbn [fold_left]. destruct st as [[cb p] r]. cbn [run_sop]. rewrite Hn. apply IH.
Qed.

(* ---- measurements ---- *)
Lemma run_meas (l : list (nat * nat)) : forall st1 st2, creq st1 st2 ->
  creq (run_iops (map (fun p => IMeas (fst p) (snd p)) l) st1) (run_sops (map (fun p => SMeas (fst p) (snd p)) l) st2).
Proof.
  induction l as [|[a b] l IH]; intros st1 st2 H; [exact H|].
  unfold run_iops, run_sops in *. cbn [map fold_left fst snd]. apply IH.
  destruct st1 as [[cb1 p1] r1], st2 as [[cb2 p2] r2]. destruct H as [-> [-> Hr]]. cbn [run_iop run_sop].
  destruct r2 as [|o r2]; cbn [creq]; repeat split; auto. apply rel_proj. exact Hr.
Qed.

(* ---- one operation ---- *)
Lemma op_sound Sg Gs QL CL o il sl :
  bodies_ok Gs = true -> (forall r off n, sassoc r QL = Some (off, n) -> 0 < n) ->
  final_op A Sg (conv Gs) QL CL o = Some il -> op_ops A sig0 QL CL Gs o = Some sl ->
  forall st1 st2, creq st1 st2 -> creq (run_iops il st1) (run_sops sl st2).
Proof.
  intros Hok Hpos Hi Hs. destruct o as [g args qs|c k g args qs|q c|qs|q]; cbn [final_op op_ops] in Hi, Hs.
  - apply run_forall2. exact (gate_add_sound Sg Gs QL None None g args qs il sl Hok Hpos (fun _ => eq_refl) Hi Hs).
  - destruct (sassoc c CL) as [[off n]|]; [|discriminate].
    destruct (Nat.leb_spec (2 ^ n) k) as [Hk|Hk].
    + destruct (gate_add A Sg (conv Gs) QL None g args qs); [|discriminate]. injection Hi as <-.
      intros st1 st2 H. rewrite (run_never (Some (seq off n, k)) sl); [exact H| |eapply app_ops_cond; eauto].
      intros cb. cbn [fires_cond]. apply if_never. cbn [fst]. rewrite seq_length. exact Hk.
    + apply run_forall2. refine (gate_add_sound Sg Gs QL _ _ g args qs il sl Hok Hpos _ Hi Hs).
      intros cb. cbn [fires_cc fires_cond]. rewrite <- (seq_length n off) at 2. apply if_ok. rewrite seq_length. exact Hk.
  - destruct q as [qr|qr i], c as [cr|cr j]; try discriminate; cbn [resolve] in Hs.
    + destruct (sassoc qr QL) as [[qo qn]|]; [|discriminate]. destruct (sassoc cr CL) as [[co cn]|]; [|discriminate].
      rewrite !seq_length in Hs. destruct (qn =? cn); [|discriminate]. injection Hi as <-. injection Hs as <-. apply run_meas.
    + destruct (sassoc qr QL) as [[qo qn]|]; [|discriminate]. destruct (sassoc cr CL) as [[co cn]|]; [|discriminate].
      destruct (i <? qn); [|discriminate]. destruct (j <? cn); [|discriminate]. cbn [andb] in Hi. injection Hi as <-. injection Hs as <-.
      apply (run_meas [(qo + i, co + j)]).
  - destruct (regs_gate false QL qs); [|discriminate]. destruct (omap (resolve QL) qs); [|discriminate].
    injection Hi as <-. injection Hs as <-. intros st1 st2 H. exact H.
  - discriminate.
Qed.
Lemma ops_sound Sg Gs QL CL : bodies_ok Gs = true -> (forall r off n, sassoc r QL = Some (off, n) -> 0 < n) ->
  forall os il sl, final_ops A Sg (conv Gs) QL CL os = Some il -> ops_ops A sig0 QL CL Gs os = Some sl ->
  forall st1 st2, creq st1 st2 -> creq (run_iops il st1) (run_sops sl st2).
Proof.
  intros Hok Hpos os. induction os as [|o os IH]; intros il sl Hi Hs st1 st2 H.
  - injection Hi as <-. injection Hs as <-. exact H.
  - cbn [final_ops ops_ops] in Hi, Hs.
    destruct (final_op A Sg (conv Gs) QL CL o) as [a|] eqn:Ea; [|discriminate].
    destruct (final_ops A Sg (conv Gs) QL CL os) as [b|]; [|discriminate].
    destruct (op_ops A sig0 QL CL Gs o) as [a'|] eqn:Ea'; [|discriminate].
    destruct (ops_ops A sig0 QL CL Gs os) as [b'|]; [|discriminate].
    injection Hi as <-. injection Hs as <-. rewrite run_iops_app, run_sops_app.
    apply (IH b b' eq_refl eq_refl). eapply op_sound; eauto.
Qed.
End Run.

(* ---- the definitions collected by the first pass have bodies with distinct qubit arguments ---- *)
Lemma init_body_nodup Sg ps qs b r : init_body Sg ps qs b = Some r ->
  forallb (fun s => match s with BCall _ _ hq => snodup hq | BBarrier _ => true end) b = true.
Proof.
  revert r. induction b as [|s b IH]; intros r H; [reflexivity|]. destruct s as [h args hq|x]; cbn [init_body forallb] in *.
  - destruct (sassoc h Sg) as [[np nq]|]; [|discriminate].
    destruct ((length args =? np) && (length hq =? nq) && snodup hq && subset hq qs && forallb (check_expr ps) args) eqn:C; [|discriminate].
    destruct (init_body Sg ps qs b) as [r'|]; [|discriminate].
    apply andb_prop in C. destruct C as [C _]. apply andb_prop in C. destruct C as [C _]. apply andb_prop in C. destruct C as [_ C].
    rewrite C. apply (IH r' eq_refl).
  - apply (IH r H).
Qed.
Lemma init_gates_bodies_ok items : forall Sg Gi acc Sg' Gi' Gs,
  bodies_ok acc = true -> init_gates Sg Gi items = Some (Sg', Gi') -> gdefs items acc = Some Gs -> bodies_ok Gs = true.
Proof.
  induction items as [|i items IH]; intros Sg Gi acc Sg' Gi' Gs Hacc Hi Hd.
  - injection Hd as <-. exact Hacc.
  - destruct i as [n d|n ps qs]; [|discriminate]. cbn [init_gates gdefs] in Hi, Hd.
    destruct (init_body Sg (gd_params d) (gd_qubits d) (gd_body d)) as [cs|] eqn:Eb; try discriminate.
    eapply IH; [|exact Hi|exact Hd]. cbn [bodies_ok forallb snd]. rewrite (init_body_nodup _ _ _ _ _ Eb). exact Hacc.
Qed.

Section Top.
Variable R : PhaseRing.
Variable A : VAlg.
Variable aenv : list A -> atoms R.

Theorem import_sound_run p n c iops n' c' sops :
  forallb (fun r => 0 <? snd r) (p_qregs p) = true ->
  import_prog A p = Some (n, c, iops) -> spec_prog A sig0 p = Some (n', c', sops) ->
  n = n' /\ c = c' /\
  forall cb r psi1 psi2, rel R psi1 psi2 ->
    creq R (run_iops R A aenv iops (cb, psi1, r)) (run_sops R A aenv sops (cb, psi2, r)).
Proof.
  intros Hpos Hi Hs. unfold import_prog in Hi. unfold spec_prog in Hs.
  destruct (has_reset (p_ops p)); [discriminate|].
  destruct (init_gates sig0 [] (p_gates p)) as [[Sg Gi]|] eqn:Eg; [|discriminate].
  destruct (gdefs (p_gates p) []) as [Gs|] eqn:Ed; [|discriminate].
  destruct (final_ops A Sg Gi _ _ (p_ops p)) as [il|] eqn:Ef; [|discriminate].
  destruct (ops_ops A sig0 _ _ Gs (p_ops p)) as [sl|] eqn:Eo; [|discriminate].
  injection Hi as <- <- <-. injection Hs as <- <- <-. repeat split.
  intros cb r psi1 psi2 Hr.
  rewrite (init_gates_conv _ sig0 [] [] Sg Gi Gs eq_refl Eg Ed) in Ef.
  eapply ops_sound; [| |exact Ef|exact Eo|].
  - eapply init_gates_bodies_ok; [|exact Eg|exact Ed]. reflexivity.
  - intros r0 off n0. apply (layout_pos _ Hpos).
  - cbn [creq]. repeat split. exact Hr.
Qed.
End Top.

(* ---- the measurement-free, unconditioned case: ONE global scalar ---- *)
Definition unitary_op (o : op) : bool := match o with OApp _ _ _ | OBarrier _ => true | _ => false end.
Section Unitary.
Variable R : PhaseRing.
Variable A : VAlg.
Variable aenv : list A -> atoms R.

Definition circ_of_iops (l : list (iop A)) : circ R :=
  flat_map (fun o => match o with IOp _ u gs => circ_iop R A aenv u gs | IMeas _ _ => [] end) l.
Definition circ_of_sops (l : list (sop A)) : circ R :=
  flat_map (fun o => match o with SGate _ ls => flat_map (den_leaf R A aenv) ls | SMeas _ _ => [] end) l.
Definition plain_iop (o : iop A) : Prop := exists u gs, o = IOp None u gs.
Definition plain_sop (o : sop A) : Prop := exists ls, o = SGate None ls.

Lemma run_plain_i l : Forall plain_iop l -> forall cb psi r, run_iops R A aenv l (cb, psi, r) = (cb, sem (circ_of_iops l) psi, r).
Proof.
  induction 1 as [|o l [u [gs ->]] _ IH]; intros cb psi r; [reflexivity|].
  unfold run_iops in *. cbn [fold_left run_iop fires_cc]. rewrite IH. unfold circ_of_iops. cbn [flat_map].
  rewrite (Lemmas.sem_app R). reflexivity.
Qed.
Lemma run_plain_s l : Forall plain_sop l -> forall cb psi r, run_sops R A aenv l (cb, psi, r) = (cb, sem (circ_of_sops l) psi, r).
Proof.
  induction 1 as [|o l [ls ->] _ IH]; intros cb psi r; [reflexivity|].
  unfold run_sops in *. cbn [fold_left run_sop fires_cond]. rewrite IH. unfold circ_of_sops. cbn [flat_map].
  rewrite (Lemmas.sem_app R). reflexivity.
Qed.
Lemma gate_add_plain Sg G QL g args qs il : gate_add A Sg G QL None g args qs = Some il -> Forall plain_iop il.
Proof.
  unfold gate_add. destruct (sassoc g Sg) as [[np nq]|]; [|discriminate]. destruct (regs_gate true QL qs) as [reg_set|]; [|discriminate].
  destruct (_ && _); [|discriminate]. destruct (omap (Qasm.eval A []) args) as [vals|]; [|discriminate].
  destruct (smem g predefined).
  - revert il. induction reg_set as [|regs reg_set IH]; intros il H.
    + injection H as <-. constructor.
    + cbn [omap] in H. destruct (add_predefined g regs vals) as [gs|]; [|discriminate].
      match type of H with match ?X with _ => _ end = _ => destruct X as [il'|] eqn:E; [|discriminate] end.
      injection H as <-. constructor; [eexists; eexists; reflexivity|apply IH; reflexivity].
  - destruct (custom A G g vals (seq 0 nq)) as [gs|]; [|discriminate]. intros H. injection H as <-.
    induction reg_set; constructor; [eexists; eexists; reflexivity|assumption].
Qed.
Lemma final_ops_plain Sg G QL CL os : forallb unitary_op os = true -> forall il, final_ops A Sg G QL CL os = Some il -> Forall plain_iop il.
Proof.
  induction os as [|o os IH]; intros Hu il H.
  - injection H as <-. constructor.
  - cbn [forallb] in Hu. apply andb_prop in Hu. destruct Hu as [Ho Hu]. cbn [final_ops] in H.
    destruct (final_op A Sg G QL CL o) as [a|] eqn:Ea; [|discriminate]. destruct (final_ops A Sg G QL CL os) as [b|]; [|discriminate].
    injection H as <-. apply Forall_app. split; [|apply IH; auto].
    destruct o; try discriminate; cbn [final_op] in Ea.
    + eapply gate_add_plain; eauto.
    + destruct (regs_gate false QL qs); [|discriminate]. injection Ea as <-. constructor.
Qed.
Lemma ops_ops_plain QL CL Gs os : forallb unitary_op os = true -> forall sl, ops_ops A sig0 QL CL Gs os = Some sl -> Forall plain_sop sl.
Proof.
  induction os as [|o os IH]; intros Hu sl H.
  - injection H as <-. constructor.
  - cbn [forallb] in Hu. apply andb_prop in Hu. destruct Hu as [Ho Hu]. cbn [ops_ops] in H.
    destruct (op_ops A sig0 QL CL Gs o) as [a|] eqn:Ea; [|discriminate]. destruct (ops_ops A sig0 QL CL Gs os) as [b|]; [|discriminate].
    injection H as <-. apply Forall_app. split; [|apply IH; auto].
    destruct o; try discriminate; cbn [op_ops] in Ea.
    + apply (app_ops_cond A) in Ea. exact Ea.
    + destruct (omap (resolve QL) qs); [|discriminate]. injection Ea as <-. constructor.
Qed.

Theorem import_sound_unitary_thm p n c iops n' c' sops :
  forallb (fun r => 0 <? snd r) (p_qregs p) = true -> forallb unitary_op (p_ops p) = true ->
  import_prog A p = Some (n, c, iops) -> spec_prog A sig0 p = Some (n', c', sops) ->
  n = n' /\ forall psi, exists s : R, forall x, sem (circ_of_iops iops) psi x = kmul R s (sem (circ_of_sops sops) psi x).
Proof.
  intros Hpos Hu Hi Hs.
  destruct (import_sound_run R A aenv p n c iops n' c' sops Hpos Hi Hs) as [Hn [_ Hrun]]. split; [exact Hn|].
  intros psi. specialize (Hrun (fun _ => false) [] psi psi (rel_refl R psi)).
  assert (Pi : Forall plain_iop iops).
  { unfold import_prog in Hi. destruct (has_reset (p_ops p)); [discriminate|].
    destruct (init_gates sig0 [] (p_gates p)) as [[Sg Gi]|]; [|discriminate].
    destruct (final_ops A Sg Gi _ _ (p_ops p)) as [il|] eqn:Ef; [|discriminate]. injection Hi as _ _ <-.
    eapply final_ops_plain; eauto. }
  assert (Ps : Forall plain_sop sops).
  { unfold spec_prog in Hs. destruct (gdefs (p_gates p) []) as [Gs|]; [|discriminate].
    destruct (ops_ops A sig0 _ _ Gs (p_ops p)) as [sl|] eqn:Eo; [|discriminate]. injection Hs as _ _ <-.
    eapply ops_ops_plain; eauto. }
  rewrite (run_plain_i _ Pi), (run_plain_s _ Ps) in Hrun. destruct Hrun as [_ [_ Hr]]. exact Hr.
Qed.
End Unitary.
