(* C16 -- results are built from new objects: whatever a call returns reaches (to any depth) only objects that
   were allocated by that call, hence none of the caller's objects and none of the earlier results. *)
From Coq Require Import List Arith Bool Lia.
From QV Require Import Model.Heap Proofs.HeapBase Proofs.HeapPure.
Import ListNotations.

(* every object allocated at or after n refers only to objects allocated at or after n *)
Definition closed_from (n : nat) (h : heap) : Prop :=
  forall m o, n <= m -> nth_error h m = Some o -> Forall (fresh_val n) o.

(* v and everything reachable from it within depth f lives at locations >= n *)
Fixpoint dfresh (n f : nat) (h : heap) (v : val) : Prop :=
  match v with
  | Tok _ => True
  | Ref l => n <= l /\ match f with 0 => True | S f' => Forall (dfresh n f' h) (objof h v) end
  end.

Lemma dfresh_mono n n' h : n' <= n -> forall f v, dfresh n f h v -> dfresh n' f h v.
Proof.
  intros Hn. induction f as [|f IH]; intros [t|l]; simpl; auto.
  - intros [H _]. split; auto. lia.
  - intros [H Hall]. split; [lia|]. eapply Forall_impl; [|exact Hall]. intros v. apply IH.
Qed.

Lemma closed_dfresh n h : closed_from n h -> forall f v, fresh_val n v -> dfresh n f h v.
Proof.
  intros Hc. induction f as [|f IH]; intros [t|l] Hv; simpl in *; auto.
  split; auto. destruct (nth_error h l) as [o|] eqn:E; [|constructor].
  eapply Forall_impl; [|exact (Hc _ _ Hv E)]. intros v. apply IH.
Qed.

Lemma closed_nil h : closed_from (length h) h.
Proof. intros m o Hm E. apply nth_error_Some_lt in E. lia. Qed.

Lemma closed_snoc a h o : closed_from a h -> a <= length h -> Forall (fresh_val a) o -> closed_from a (h ++ [o]).
Proof.
  intros Hc Ha Ho m o' Hm E. destruct (lt_dec m (length h)) as [Hlt|Hge].
  - rewrite nth_error_app1 in E by auto. eapply Hc; eauto.
  - assert (m = length h).
    { apply nth_error_Some_lt in E. rewrite app_length in E. simpl in E. lia. }
    subst. rewrite nth_error_app2 in E by lia. rewrite Nat.sub_diag in E. simpl in E. inversion E; subst. exact Ho.
Qed.

Lemma Forall_fresh_le a b o : a <= b -> Forall (fresh_val b) o -> Forall (fresh_val a) o.
Proof. intros H. apply Forall_impl. intros v. now apply fresh_val_le. Qed.

Lemma closed_dcopy a f h v h' v' :
  closed_from a h -> a <= length h -> dcopy f h v = Some (h', v') ->
  closed_from a h' /\ fresh_val a v' /\ a <= length h'.
Proof.
  intros Hc Ha E. pose proof (dcopy_extends _ _ _ _ _ E) as He. repeat split.
  - intros m o Hm En. destruct (lt_dec m (length h)) as [Hlt|Hge].
    + rewrite (extends_nth h h') in En by auto. eapply Hc; eauto.
    + eapply Forall_fresh_le; [exact Ha|]. eapply (dcopy_region f h v h' v' E m o); [lia|exact En].
  - destruct (dcopy_fresh _ _ _ _ _ E) as [Hf|[t ->]]; [|exact I]. eapply fresh_val_le; eauto.
  - apply extends_len in He. lia.
Qed.

Lemma upd_nth_same {A} (l : list A) n x y : nth_error (upd l n x) n = Some y -> y = x.
Proof. revert n. induction l; intros [|n] H; simpl in *; try discriminate; [now inversion H|eauto]. Qed.

Lemma closed_upd a h l o : closed_from a h -> (a <= l -> Forall (fresh_val a) o) -> closed_from a (upd h l o).
Proof.
  intros Hc Ho m o' Hm E. destruct (Nat.eq_dec l m) as [->|Hne].
  - apply upd_nth_same in E. subst. auto.
  - rewrite upd_nth_ne in E by auto. eapply Hc; eauto.
Qed.

Lemma Forall_ins (P : val -> Prop) x l : P x -> Forall P l -> Forall P (ins_sorted x l).
Proof.
  intros Hx. induction 1; simpl; [repeat constructor; auto|].
  destruct (tokn x <=? tokn x0); repeat constructor; auto.
Qed.

Lemma Forall_sort (P : val -> Prop) l : Forall P l -> Forall P (sort_toks l).
Proof. induction 1; simpl; [constructor|]. now apply Forall_ins. Qed.

Lemma Forall_upd {A} (P : A -> Prop) l i x : Forall P l -> P x -> Forall P (upd l i x).
Proof. intros H Hx. revert i. induction H; intros [|i]; simpl; constructor; auto. Qed.

Lemma closed_sort_fld a h g i : closed_from a h -> closed_from a (sort_fld h g i).
Proof.
  intros Hc. unfold sort_fld, setobj. destruct (fld h g i) as [t|l]; auto.
  destruct (nth_error h l) as [o|] eqn:E; auto.
  apply closed_upd; auto. intros Hl. apply Forall_sort. unfold objof. rewrite E. eapply Hc; eauto.
Qed.

Lemma sort_fld_length h g i : length (sort_fld h g i) = length h.
Proof.
  unfold sort_fld, setobj. destruct (fld h g i); auto. destruct (nth_error h l); auto. apply upd_length.
Qed.

Lemma closed_setfld_tok a h v k t : closed_from a h -> closed_from a (setfld h v k (Tok t)).
Proof.
  intros Hc. unfold setfld. destruct v as [x|l]; auto. destruct (nth_error h l) as [o|] eqn:E; auto.
  apply closed_upd; auto. intros Hl. apply Forall_upd; [eapply Hc; eauto|exact I].
Qed.

Lemma setfld_length h v k x : length (setfld h v k x) = length h.
Proof. unfold setfld. destruct v; auto. destruct (nth_error h l); auto. apply upd_length. Qed.

(* ---------------- passes ---------------- *)
Definition good (a : nat) (h : heap) : Prop := closed_from a h /\ a <= length h.

Lemma good_snoc a h o : good a h -> Forall (fresh_val a) o -> good a (h ++ [o]) /\ fresh_val a (Ref (length h)).
Proof.
  intros [Hc Ha] Ho. split; [split|].
  - now apply closed_snoc.
  - rewrite app_length. simpl. lia.
  - simpl. exact Ha.
Qed.

Lemma good_dcopy a f h v h' v' : good a h -> dcopy f h v = Some (h', v') -> good a h' /\ fresh_val a v'.
Proof. intros [Hc Ha] E. destruct (closed_dcopy _ _ _ _ _ _ Hc Ha E) as (H1 & H2 & H3). split; [split|]; auto. Qed.

Lemma gate_step_fresh a ac m h g h' g' :
  (m = 0 \/ (m = 3 /\ ac = true)) -> good a h -> gate_step ac m h g = Some (h', g') -> good a h' /\ fresh_val a g'.
Proof.
  intros Hm Hg E. destruct Hm as [->|[-> ->]]; cbv beta iota delta [gate_step] in E.
  - eapply good_dcopy; eauto.
  - destruct (dcopy FUEL h (fld h g 1)) as [[h1 t']|] eqn:E1; try discriminate.
    destruct (dcopy FUEL h1 (fld h g 2)) as [[h2 c']|] eqn:E2; try discriminate.
    destruct (dcopy FUEL h2 (fld h g 3)) as [[h3 a']|] eqn:E3; try discriminate.
    inversion E; subst.
    destruct (good_dcopy _ _ _ _ _ _ Hg E1) as [G1 F1].
    destruct (good_dcopy _ _ _ _ _ _ G1 E2) as [G2 F2].
    destruct (good_dcopy _ _ _ _ _ _ G2 E3) as [G3 F3].
    apply good_snoc; auto. repeat constructor; auto.
Qed.

Lemma map_gates_fresh a ac d : (d = 0 \/ (d = 3 /\ ac = true)) ->
  forall gs h h' gs', good a h -> map_gates ac d [] h gs = Some (h', gs') -> good a h' /\ Forall (fresh_val a) gs'.
Proof.
  intros Hd. induction gs as [|g gs IH]; simpl; intros h h' gs' Hg E.
  - inversion E; subst. split; auto.
  - destruct (gate_step ac d h g) as [[h1 g']|] eqn:E1; try discriminate.
    destruct (map_gates ac d [] h1 gs) as [[h2 gs'']|] eqn:E2; try discriminate.
    inversion E; subst.
    destruct (gate_step_fresh _ _ _ _ _ _ _ Hd Hg E1) as [G1 F1].
    destruct (IH _ _ _ G1 E2) as [G2 F2]. split; auto.
Qed.

Lemma opt_copy_good a b h v h' v' : good a h -> (b = true \/ fresh_val a v) -> opt_copy b h v = Some (h', v') -> good a h' /\ fresh_val a v'.
Proof.
  intros Hg Hb E. unfold opt_copy in E. destruct b.
  - eapply good_dcopy; eauto.
  - inversion E; subst. destruct Hb as [Hb|Hb]; [discriminate|auto].
Qed.

Lemma op_pass_fresh fin ac d ms h qc h' r :
  (fin = true \/ (ms = [] /\ (d = 0 \/ (d = 3 /\ ac = true)))) ->
  op_pass true fin false ac d ms h qc = Some (h', r) ->
  exists a, length h <= a /\ closed_from a h' /\ fresh_val a r.
Proof.
  intros Hcase. unfold op_pass, alloc. cbv beta iota zeta delta [negb].
  destruct (map_gates ac d ms h (objof h (fld h qc 0))) as [[h1 gs]|] eqn:E1; try discriminate.
  cbv beta iota zeta.
  match goal with |- context [opt_copy fin ?a ?b] => destruct (opt_copy fin a b) as [[h3 gl']|] eqn:E2; try discriminate end.
  match goal with |- context [opt_copy ?b h3 ?x] => destruct (opt_copy b h3 x) as [[h4 ins]|] eqn:E3; try discriminate end.
  match goal with |- context [opt_copy ?b h4 ?x] => destruct (opt_copy b h4 x) as [[h5 outs]|] eqn:E4; try discriminate end.
  intros E. inversion E; subst. clear E.
  pose proof (map_gates_extends _ _ _ _ _ _ _ E1) as X1.
  (* the allocation point from which everything is closed *)
  assert (Hstart : exists a, length h <= a /\ good a (h1 ++ [gs]) /\ (fin = true \/ fresh_val a (Ref (length h1)))).
  { destruct Hcase as [->|[-> Hd]].
    - exists (length (h1 ++ [gs])). repeat split.
      + rewrite app_length. apply extends_len in X1. lia.
      + apply closed_nil.
      + lia.
      + now left.
    - exists (length h). assert (G0 : good (length h) h) by (split; [apply closed_nil|lia]).
      destruct (map_gates_fresh _ _ _ Hd _ _ _ _ G0 E1) as [G1 F1].
      destruct (good_snoc _ _ _ G1 F1) as [G2 F2]. repeat split; auto; apply G2. }
  destruct Hstart as (a & Ha & G2 & Hgl).
  destruct (opt_copy_good _ _ _ _ _ _ G2 Hgl E2) as [G3 F3].
  destruct (opt_copy_good _ _ _ _ _ _ G3 (or_introl eq_refl) E3) as [G4 F4].
  destruct (opt_copy_good _ _ _ _ _ _ G4 (or_introl eq_refl) E4) as [G5 F5].
  exists a. split; auto.
  destruct (good_snoc a h5 [gl'; Tok (tokn (fld h qc 1)); Tok (tokn (fld h qc 2)); ins; outs] G5) as [G6 F6].
  { repeat constructor; auto. }
  split; [apply G6|exact F6].
Qed.

Lemma fresh_result a n h r : n <= a -> closed_from a h -> fresh_val a r -> forall f, dfresh n f h r.
Proof. intros Hn Hc Hr f. eapply dfresh_mono; [exact Hn|]. now apply closed_dfresh. Qed.

(* ---------------- lengths only grow ---------------- *)
Lemma instr_of_len ic h g h' r : instr_of ic h g = Some (h', r) -> length h <= length h'.
Proof.
  unfold instr_of. destruct (opt_copy ic h g) as [[h1 g1]|] eqn:E; try discriminate.
  intros X. inversion X; subst. apply opt_copy_extends in E. apply extends_len in E.
  rewrite app_length, !sort_fld_length. simpl. lia.
Qed.

Lemma node_of_len ic h x h' r : node_of ic h x = Some (h', r) -> length h <= length h'.
Proof.
  unfold node_of. destruct (length (objof h x) =? 3).
  - intros X. inversion X; subst. rewrite setfld_length. lia.
  - apply instr_of_len.
Qed.

Lemma mapH_len (F : heap -> val -> option (heap * val)) :
  (forall h x h' x', F h x = Some (h', x') -> length h <= length h') ->
  forall vs h h' vs', mapH F h vs = Some (h', vs') -> length h <= length h'.
Proof.
  intros HF. induction vs as [|x xs IH]; simpl; intros h h' vs' E.
  - inversion E; subst. lia.
  - destruct (F h x) as [[h1 x']|] eqn:E1; try discriminate.
    destruct (mapH F h1 xs) as [[h2 xs']|] eqn:E2; try discriminate.
    inversion E; subst. apply HF in E1. apply IH in E2. lia.
Qed.

Lemma tokens_result n h o : n <= length h -> Forall (fun v => exists t, v = Tok t) o ->
  forall f, dfresh n f (h ++ [o]) (Ref (length h)).
Proof.
  intros Hn Ho f. eapply fresh_result with (a := length h); auto.
  - apply closed_snoc; [apply closed_nil|apply Nat.le_refl|].
    eapply Forall_impl; [|exact Ho]. intros v [t ->]. exact I.
  - simpl. apply Nat.le_refl.
Qed.

(* ---------------- simulator ---------------- *)
Lemma meas_writes_closed a cbv : forall gs h mr, closed_from a h -> closed_from a (meas_writes h cbv gs mr).
Proof.
  induction gs as [|g gs IH]; simpl; intros h mr Hc; auto.
  destruct (tokn (fld h g 0)); [destruct (tokn (fld h g 5))|]; auto.
  apply IH. now apply closed_setfld_tok.
Qed.

Lemma meas_writes_length cbv : forall gs h mr, length (meas_writes h cbv gs mr) = length h.
Proof.
  induction gs as [|g gs IH]; simpl; intros h mr; auto.
  destruct (tokn (fld h g 0)); [destruct (tokn (fld h g 5))|]; auto.
  rewrite IH. apply setfld_length.
Qed.

Lemma Forall_tok_map (l : list val) a : Forall (fresh_val a) (map (fun v => Tok (tokn v)) l).
Proof. induction l; simpl; constructor; simpl; auto. Qed.

Lemma Forall_tok_repeat a n : Forall (fresh_val a) (repeat (Tok 0) n).
Proof. induction n; simpl; constructor; simpl; auto. Qed.

Lemma run_core_good fl dm a h qc cb mr h1 cbv :
  (f_sim_cbits_copy fl || negb (usable h qc cb)) = true ->
  good a h -> run_core fl dm h qc cb mr = (h1, cbv) -> good a h1 /\ fresh_val a cbv /\ length h <= length h1.
Proof.
  intros G [Hc Ha] E. unfold run_core in E.
  destruct (init_cbits (f_sim_cbits_copy fl) h qc cb) as [h2 c2] eqn:Ei.
  assert (Hi : good a h2 /\ fresh_val a c2 /\ length h <= length h2).
  { unfold init_cbits in Ei. destruct (usable h qc cb) eqn:U.
    - rewrite orb_false_r in G. rewrite G in Ei. unfold alloc in Ei. inversion Ei; subst.
      destruct (good_snoc a h (map (fun v => Tok (tokn v)) (objof h cb)) (conj Hc Ha) (Forall_tok_map _ _)) as [G1 F1].
      repeat split; auto; try apply G1. rewrite app_length. lia.
    - destruct (tokn (fld h qc 2)).
      + inversion Ei; subst. repeat split; auto.
      + unfold alloc in Ei. inversion Ei; subst.
        destruct (good_snoc a h (repeat (Tok 0) (S n)) (conj Hc Ha) (Forall_tok_repeat _ _)) as [G1 F1].
        repeat split; auto; try apply G1. rewrite app_length. lia. }
  destruct Hi as ([Hc2 Ha2] & Hf & Hl). inversion E; subst. clear E.
  destruct dm.
  - repeat split; auto.
  - repeat split; auto.
    + now apply meas_writes_closed.
    + now rewrite meas_writes_length.
    + now rewrite meas_writes_length.
Qed.

Lemma stats_loop_good fl dm n h0 a qc cb :
  (forall l, cb = Ref l -> l < n) -> (forall l, qc = Ref l -> l < n) ->
  (f_sim_cbits_copy fl || negb (usable h0 qc cb)) = true ->
  forall runs h acc h1 cbs last, inv n h0 h -> good a h -> Forall (fresh_val a) acc ->
  stats_loop fl dm h qc cb runs acc = (h1, cbs, last) -> good a h1 /\ Forall (fresh_val a) cbs.
Proof.
  intros Hcb Hqc G. induction runs as [|mr rest IH]; simpl; intros h acc h1 cbs last Hi Hg Hacc E.
  - inversion E; subst. auto.
  - destruct (run_core fl dm h qc cb mr) as [h2 cbv] eqn:Er.
    assert (G' : (f_sim_cbits_copy fl || negb (usable h qc cb)) = true) by (rewrite (usable_stable n h0 h); auto).
    pose proof (run_core_inv fl dm n h0 h qc cb mr h2 cbv G' Hi Er) as [Hi2 _].
    destruct (run_core_good _ _ _ _ _ _ _ _ _ G' Hg Er) as (G2 & F2 & _).
    assert (Hacc2 : Forall (fresh_val a) (acc ++ [cbv])) by (apply Forall_app; split; auto).
    destruct rest.
    + inversion E; subst. auto.
    + eapply IH; eauto.
Qed.

(* ---------------- one call ---------------- *)
Theorem result_fresh_lemma fl w c w' r :
  flags_fresh fl = true -> guard fl w c = true -> call_wf w c ->
  exec fl w c = Some (w', r) -> forall f, dfresh (length (hp w)) f (hp w') r.
Proof.
  unfold flags_fresh. intros Hf G Hwf E.
  apply andb_prop in Hf; destruct Hf as [Hf Harg].
  apply andb_prop in Hf; destruct Hf as [Hf Hfl].
  apply andb_prop in Hf; destruct Hf as [Hf Hrev].
  apply andb_prop in Hf; destruct Hf as [Hf Hchain].
  apply andb_prop in Hf; destruct Hf as [Hf Hadj].
  apply andb_prop in Hf; destruct Hf as [Hpure Hres].
  pose proof Hpure as Hf. unfold flags_pure in Hf.
  apply andb_prop in Hf. destruct Hf as [Hf Hsg]. apply andb_prop in Hf. destruct Hf as [Hci Hic].
  assert (G0 : good (length (hp w)) (hp w)) by (split; [apply closed_nil|lia]).
  destruct c; cbv beta iota zeta delta [exec] in E.
  - (* CSimRun *)
    destruct (run_core fl _ (hp w) _ cb mr) as [h1 cbv] eqn:Er.
    destruct (run_core_good _ _ _ _ _ _ _ _ _ G G0 Er) as (G1 & F1 & _).
    unfold result_of, alloc in E. destruct cbv as [t|l]; inversion E; subst; simpl hp.
    + eapply fresh_result with (a := length (hp w)); auto.
      * apply closed_snoc; [apply G1|apply G1|repeat constructor].
      * simpl. apply G1.
    + destruct (good_snoc _ _ [Ref l] G1 ltac:(repeat constructor; auto)) as [G2 F2].
      destruct (good_snoc _ _ [Tok (st + (if f_sim_reinit fl then 0 else s_dirty (nth s (sims w) dsim))); Ref (length h1)] G2
                          ltac:(repeat constructor; auto)) as [G3 F3].
      eapply fresh_result with (a := length (hp w)); auto. apply G3.
  - (* CSimStats *)
    destruct (stats_loop fl _ (hp w) _ cb _ []) as [[h1 cbs] last] eqn:El.
    simpl in Hwf. destruct Hwf as [Hcb Hqc].
    destruct (stats_loop_good fl _ (length (hp w)) (hp w) (length (hp w)) _ cb Hcb Hqc G _ _ _ _ _ _
                (inv_refl _ _ (le_n _)) G0 (Forall_nil _) El) as [G1 F1].
    unfold stats_result, alloc in E. inversion E; subst; simpl hp.
    destruct (good_snoc _ _ cbs G1 F1) as [G2 F2].
    destruct (good_snoc _ _ [Tok (st + (if f_sim_reinit fl then 0 else s_dirty (nth s (sims w) dsim))); Ref (length h1)] G2
                        ltac:(repeat constructor; auto)) as [G3 F3].
    eapply fresh_result with (a := length (hp w)); auto. apply G3.
  - (* CQcRun *)
    destruct (run_core fl dm (hp w) qc cb mr) as [h1 cbv]. inversion E; subst. destruct f; exact I.
  - (* CQcStats *)
    destruct (stats_loop fl dm (hp w) qc cb _ []) as [[h1 cbs] last] eqn:El.
    simpl in Hwf. destruct Hwf as [Hcb Hqc].
    destruct (stats_loop_good fl dm (length (hp w)) (hp w) (length (hp w)) qc cb Hcb Hqc G _ _ _ _ _ _
                (inv_refl _ _ (le_n _)) G0 (Forall_nil _) El) as [G1 F1].
    unfold stats_result, alloc in E. inversion E; subst; simpl hp.
    destruct (good_snoc _ _ cbs G1 F1) as [G2 F2].
    destruct (good_snoc _ _ [Tok st; Ref (length h1)] G2 ltac:(repeat constructor; auto)) as [G3 F3].
    eapply fresh_result with (a := length (hp w)); auto. apply G3.
  - (* CResolve *)
    destruct (op_resolve fl (hp w) qc) as [[h1 r1]|] eqn:Eo; try discriminate. inversion E; subst. simpl hp.
    unfold op_resolve in Eo. rewrite Hres in Eo.
    destruct (op_pass_fresh _ _ _ _ _ _ _ _ (or_introl eq_refl) Eo) as (a & Ha & Hc & Hr).
    eapply fresh_result; eauto.
  - (* CAdjacent *)
    destruct (op_adjacent fl (hp w) qc) as [[h1 r1]|] eqn:Eo; try discriminate. inversion E; subst. simpl hp.
    unfold op_adjacent in Eo.
    assert (Hcase : f_adjacent_final fl = true \/
                    ([] = @nil nat /\ ((if f_adjacent_literals fl then 0 else 2) = 0 \/
                                        ((if f_adjacent_literals fl then 0 else 2) = 3 /\ false = true)))).
    { apply orb_prop in Hadj. destruct Hadj as [-> | ->]; auto. }
    destruct (op_pass_fresh _ _ _ _ _ _ _ _ Hcase Eo) as (a & Ha & Hc & Hr).
    eapply fresh_result; eauto.
  - (* CChain *)
    destruct (op_chain fl modes (hp w) qc) as [[h1 r1]|] eqn:Eo; try discriminate. inversion E; subst. simpl hp.
    unfold op_chain in Eo. rewrite Hci, Hchain in Eo.
    destruct (op_pass_fresh _ _ _ _ _ _ _ _ (or_introl eq_refl) Eo) as (a & Ha & Hc & Hr).
    eapply fresh_result; eauto.
  - (* CReverse *)
    destruct (op_reverse fl (hp w) qc) as [[h1 r1]|] eqn:Eo; try discriminate. inversion E; subst. simpl hp.
    unfold op_reverse in Eo. rewrite Hrev in Eo. simpl negb in Eo.
    destruct (op_pass_fresh _ _ _ _ _ _ _ _ (or_introl eq_refl) Eo) as (a & Ha & Hc & Hr).
    eapply fresh_result; eauto.
  - (* CAddCircuit *)
    destruct (op_addc fl (hp w) qc) as [[h1 r1]|] eqn:Eo; try discriminate. inversion E; subst. simpl hp.
    unfold op_addc in Eo. rewrite Hfl, Harg in Eo.
    destruct (op_pass_fresh false true 3 [] _ _ _ _ (or_intror (conj eq_refl (or_intror (conj eq_refl eq_refl)))) Eo) as (a & Ha & Hc & Hr).
    eapply fresh_result; eauto.
  - (* CReadOnly *)
    unfold alloc in E. inversion E; subst. simpl hp. apply tokens_result; [apply Nat.le_refl|]. repeat constructor. eauto.
  - (* CSchedule *)
    destruct (op_schedule fl is_circ (hp w) a) as [[h1 r1]|] eqn:Eo; try discriminate. inversion E; subst. simpl hp.
    unfold op_schedule in Eo.
    destruct (opt_copy (f_sched_copy fl) (hp w) a) as [[h2 a1]|] eqn:E1; try discriminate.
    destruct (opt_copy (f_graph_copy fl) h2 _) as [[h3 gl2]|] eqn:E2; try discriminate.
    destruct (mapH (node_of (f_instr_copy fl)) h3 (objof h3 gl2)) as [[h4 nodes]|] eqn:E3; try discriminate.
    unfold alloc in Eo. inversion Eo; subst.
    apply tokens_result.
    + apply opt_copy_extends in E1. apply extends_len in E1. apply opt_copy_extends in E2. apply extends_len in E2.
      apply (mapH_len _ (node_of_len _)) in E3.
      eapply Nat.le_trans; [exact E1|]. eapply Nat.le_trans; [exact E2|exact E3].
    + clear. induction nodes; simpl; constructor; eauto.
  - (* CInstr *)
    destruct (instr_of (f_instr_copy fl) (hp w) g) as [[h1 r1]|] eqn:Eo; try discriminate. inversion E; subst. simpl hp.
    unfold instr_of in Eo. rewrite Hic in Eo. unfold opt_copy in Eo.
    destruct (dcopy FUEL (hp w) g) as [[h2 g1]|] eqn:Ed; try discriminate.
    unfold alloc in Eo. inversion Eo; subst.
    destruct (good_dcopy _ _ _ _ _ _ G0 Ed) as [[Hc2 Ha2] F2].
    assert (G3 : good (length (hp w)) (sort_fld (sort_fld h2 g1 1) g1 2)).
    { split; [now apply closed_sort_fld, closed_sort_fld|]. now rewrite !sort_fld_length. }
    destruct (good_snoc _ _ [g1; Tok 1; Tok 0] G3 ltac:(repeat constructor; auto)) as [G4 F4].
    eapply fresh_result with (a := length (hp w)); auto. apply G4.
  - (* CCompile *)
    destruct (compile_heap fl (hp w) _) as [h1|] eqn:Eo; try discriminate.
    destruct (comp_run fl _ args dphi) as [[k' eff] gp].
    unfold alloc in E. inversion E; subst. simpl hp.
    apply tokens_result; [|repeat constructor; eauto].
    unfold compile_heap in Eo. destruct (mapH _ (hp w) _) as [[hx xs]|] eqn:Em; try discriminate.
    inversion Eo; subst. eapply (mapH_len _ (instr_of_len _)); eauto.
  - (* CLoad *)
    destruct (match chain with Some ms => op_chain fl ms (hp w) qc | None => Some (hp w, qc) end) as [[h1 qc1]|] eqn:E1; try discriminate.
    destruct (op_resolve fl h1 qc1) as [[h2 qc2]|] eqn:E2; try discriminate.
    destruct (compile_heap fl h2 (fld h2 qc2 0)) as [h3|] eqn:E3; try discriminate.
    destruct (comp_run fl _ 0 dphi) as [[k' eff] gp].
    destruct (comp_run fl _ 0 dphi) as [[k0 eff0] gp0].
    unfold alloc in E. inversion E; subst. simpl hp.
    apply tokens_result; [|repeat constructor; eauto].
    assert (X1 : length (hp w) <= length h1).
    { destruct chain; [|inversion E1; subst; apply Nat.le_refl].
      unfold op_chain in E1. rewrite Hci in E1. apply op_pass_extends in E1. now apply extends_len. }
    assert (X2 : length h1 <= length h2) by (apply op_pass_extends in E2; now apply extends_len).
    unfold compile_heap in E3. destruct (mapH _ h2 _) as [[hx xs]|] eqn:Em; try discriminate.
    inversion E3; subst. apply (mapH_len _ (instr_of_len _)) in Em.
    eapply Nat.le_trans; [exact X1|]. eapply Nat.le_trans; [exact X2|exact Em].
  - destruct noisy; [destruct (noisy_query fl true _)|]; inversion E; subst; destruct f; exact I.
  - destruct (noisy_query fl dn _). inversion E; subst. destruct f; exact I.
  - inversion E; subst. destruct f; exact I.
  - inversion E; subst. destruct f; exact I.
  - inversion E; subst. destruct f; exact I.
Qed.
