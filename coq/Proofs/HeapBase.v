(* C16 -- basic lemmas about the heap primitives of Model/Heap.v *)
From Coq Require Import List Arith Bool Lia.
From QV Require Import Model.Heap.
Import ListNotations.

(* every object that existed (location < n) in h0 is still there, unchanged, in h *)
Definition inv (n : nat) (h0 h : heap) : Prop :=
  (forall l, l < n -> nth_error h l = nth_error h0 l) /\ n <= length h.

Definition extends (h h' : heap) : Prop := exists e, h' = h ++ e.

Lemma extends_refl h : extends h h.
Proof. exists []. now rewrite app_nil_r. Qed.

Lemma extends_trans a b c : extends a b -> extends b c -> extends a c.
Proof. intros [e1 ->] [e2 ->]. exists (e1 ++ e2). now rewrite app_assoc. Qed.

Lemma extends_len h h' : extends h h' -> length h <= length h'.
Proof. intros [e ->]. rewrite app_length. lia. Qed.

Lemma extends_nth h h' l : extends h h' -> l < length h -> nth_error h' l = nth_error h l.
Proof. intros [e ->] Hl. now rewrite nth_error_app1. Qed.

Lemma inv_refl n h : n <= length h -> inv n h h.
Proof. split; auto. Qed.

Lemma inv_extends n h0 h h' : inv n h0 h -> extends h h' -> inv n h0 h'.
Proof.
  intros [Ha Hn] He. split.
  - intros l Hl. rewrite (extends_nth h h') by (auto; lia). auto.
  - apply extends_len in He. lia.
Qed.

Lemma upd_length {A} (l : list A) n x : length (upd l n x) = length l.
Proof. revert n. induction l; intros [|n]; simpl; auto. Qed.

Lemma upd_nth_ne {A} (l : list A) n m x : n <> m -> nth_error (upd l n x) m = nth_error l m.
Proof.
  revert n m. induction l; intros [|n] [|m] H; simpl; auto; try congruence.
Qed.

Lemma inv_upd n h0 h l o : inv n h0 h -> n <= l -> inv n h0 (upd h l o).
Proof.
  intros [Ha Hn] Hl. split.
  - intros m Hm. rewrite upd_nth_ne by lia. auto.
  - now rewrite upd_length.
Qed.

Definition fresh_val (n : nat) (v : val) : Prop := match v with Ref l => n <= l | Tok _ => True end.

Lemma inv_setobj n h0 h v o : inv n h0 h -> fresh_val n v -> inv n h0 (setobj h v o).
Proof.
  intros H Hv. destruct v as [t|l]; simpl; auto.
  destruct (nth_error h l); auto. now apply inv_upd.
Qed.

Lemma inv_setfld n h0 h v i x : inv n h0 h -> fresh_val n v -> inv n h0 (setfld h v i x).
Proof.
  intros H Hv. destruct v as [t|l]; simpl; auto.
  destruct (nth_error h l); auto. now apply inv_upd.
Qed.

Lemma alloc_extends h o h' r : alloc h o = (h', r) -> extends h h' /\ r = Ref (length h) /\ nth_error h' (length h) = Some o.
Proof.
  unfold alloc. intros E. inversion E; subst. repeat split.
  - now exists [o].
  - rewrite nth_error_app2 by lia. now rewrite Nat.sub_diag.
Qed.

(* mapH with an extending step extends; every produced value satisfies what the step guarantees *)
Lemma mapH_extends (F : heap -> val -> option (heap * val)) :
  (forall h x h' x', F h x = Some (h', x') -> extends h h') ->
  forall vs h h' vs', mapH F h vs = Some (h', vs') -> extends h h'.
Proof.
  intros HF. induction vs as [|x xs IH]; simpl; intros h h' vs' E.
  - inversion E; subst. apply extends_refl.
  - destruct (F h x) as [[h1 x']|] eqn:E1; try discriminate.
    destruct (mapH F h1 xs) as [[h2 xs']|] eqn:E2; try discriminate.
    inversion E; subst. eapply extends_trans; eauto.
Qed.

(* the values returned by an extending step are tokens or references into the part added since h *)
Lemma mapH_fresh (F : heap -> val -> option (heap * val)) :
  (forall h x h' x', F h x = Some (h', x') -> extends h h' /\ (fresh_val (length h) x' \/ exists t, x' = Tok t)) ->
  forall vs h h' vs', mapH F h vs = Some (h', vs') -> Forall (fresh_val (length h)) vs'.
Proof.
  intros HF. induction vs as [|x xs IH]; simpl; intros h h' vs' E.
  - inversion E; subst. constructor.
  - destruct (F h x) as [[h1 x']|] eqn:E1; try discriminate.
    destruct (mapH F h1 xs) as [[h2 xs']|] eqn:E2; try discriminate.
    inversion E; subst. destruct (HF _ _ _ _ E1) as [He Hx]. constructor.
    + destruct Hx as [Hx|[t ->]]; simpl; auto.
    + apply IH in E2. apply extends_len in He.
      eapply Forall_impl; [|exact E2]. intros [t|l]; simpl; auto. lia.
Qed.

Lemma dcopy_spec f : forall h v h' v', dcopy f h v = Some (h', v') ->
  extends h h' /\
  match v with
  | Tok t => v' = Tok t /\ h' = h
  | Ref _ => exists l' o', v' = Ref l' /\ length h <= l' /\ l' < length h' /\ nth_error h' l' = Some o' /\
                           Forall (fun x => match x with Ref m => length h <= m /\ m < l' | Tok _ => True end) o'
  end.
Proof.
  induction f as [|f IH]; intros h v h' v' E; destruct v as [t|l]; simpl in E.
  - inversion E; subst. split; [apply extends_refl|auto].
  - discriminate.
  - inversion E; subst. split; [apply extends_refl|auto].
  - destruct (nth_error h l) as [o|] eqn:El; try discriminate.
    destruct (mapH (dcopy f) h o) as [[h1 o']|] eqn:Em; try discriminate.
    inversion E; subst. clear E.
    assert (Hext : extends h h1).
    { eapply mapH_extends; [|exact Em]. intros. eapply IH; eauto. }
    split.
    + eapply extends_trans; [exact Hext|]. now exists [o'].
    + exists (length h1), o'. repeat split.
      * now apply extends_len.
      * rewrite app_length. simpl. lia.
      * rewrite nth_error_app2 by lia. now rewrite Nat.sub_diag.
      * (* fields of the copy *)
        clear El Hext. revert h h1 o' Em.
        induction o as [|x xs IHo]; simpl; intros h h1 o' Em.
        -- inversion Em; subst. constructor.
        -- destruct (dcopy f h x) as [[h2 x']|] eqn:E1; try discriminate.
           destruct (mapH (dcopy f) h2 xs) as [[h3 xs']|] eqn:E2; try discriminate.
           inversion Em; subst.
           destruct (IH _ _ _ _ E1) as [He1 Hx].
           assert (He2 : extends h2 h1).
           { eapply mapH_extends; [|exact E2]. intros. eapply IH; eauto. }
           constructor.
           ++ destruct x as [t|lx].
              ** destruct Hx as [-> _]. exact I.
              ** destruct Hx as (l' & ox & -> & Hl1 & Hl2 & _). apply extends_len in He2. lia.
           ++ apply IHo in E2. apply extends_len in He1.
              eapply Forall_impl; [|exact E2]. intros [t|m]; simpl; auto. lia.
Qed.

Lemma dcopy_extends f h v h' v' : dcopy f h v = Some (h', v') -> extends h h'.
Proof. intros E. now apply dcopy_spec in E. Qed.

Lemma dcopy_fresh f h v h' v' : dcopy f h v = Some (h', v') -> fresh_val (length h) v' \/ exists t, v' = Tok t.
Proof.
  intros E. apply dcopy_spec in E. destruct E as [_ E]. destruct v.
  - right. destruct E as [-> _]. eauto.
  - left. destruct E as (l' & o' & -> & H & _). exact H.
Qed.

Lemma opt_copy_extends b h v h' v' : opt_copy b h v = Some (h', v') -> extends h h'.
Proof.
  unfold opt_copy. destruct b; intros E.
  - eapply dcopy_extends; eauto.
  - inversion E; subst. apply extends_refl.
Qed.

Lemma fld_in h v i : fld h v i = Tok 0 \/ In (fld h v i) (objof h v).
Proof.
  unfold fld. destruct (lt_dec i (length (objof h v))).
  - right. now apply nth_In.
  - left. apply nth_overflow. lia.
Qed.

(* a field of a fresh deep copy is a token or lives in the copied region *)
Lemma dcopy_fld_fresh f h l h' v' i :
  dcopy f h (Ref l) = Some (h', v') -> fresh_val (length h) (fld h' v' i).
Proof.
  intros E. apply dcopy_spec in E. destruct E as [_ (l' & o' & -> & _ & _ & Hn & Hall)].
  destruct (fld_in h' (Ref l') i) as [->|Hin]; simpl; auto.
  unfold objof in Hin. rewrite Hn in Hin.
  rewrite Forall_forall in Hall. specialize (Hall _ Hin).
  destruct (fld h' (Ref l') i); simpl; auto. lia.
Qed.
