(* C10 export_valid, the decimal printer / strict-lexer inversion: every numeral of the shapes the exporter can print
   (digits, digits '.' digits, digits '.' digits 'e' sign digits) followed by a closing character is read by the strict
   lexer of Spec/QasmStrict.v as exactly ONE token (TInt / TReal), whatever follows. *)
From Coq Require Import Lia Ascii.
From QV Require Import Spec.QasmStrict.
Local Open Scope nat_scope.
Local Open Scope list_scope.

Definition digits (l : list ascii) : Prop := l <> [] /\ forallb is_digit l = true.
(* a character that ends a numeral: not a letter, digit, '_' or '.' *)
Definition closer (c : ascii) : Prop := is_idchar c = false /\ (code c =? 46) = false.

Lemma span_all (p : ascii -> bool) ds : forallb p ds = true -> forall c rest, p c = false -> span p (ds ++ c :: rest) = (ds, c :: rest).
Proof.
  induction ds as [|d ds IH]; intros H c rest Hc; cbn [span app].
  - rewrite Hc. reflexivity.
  - cbn [forallb] in H. apply andb_prop in H. destruct H as [Hd H]. rewrite Hd, (IH H c rest Hc). reflexivity.
Qed.
Lemma span_all_nil (p : ascii -> bool) ds : forallb p ds = true -> span p ds = (ds, []).
Proof.
  induction ds as [|d ds IH]; intros H; [reflexivity|]. cbn [span forallb] in *. apply andb_prop in H. destruct H as [Hd H].
  rewrite Hd, (IH H). reflexivity.
Qed.

(* facts about the character classes, from the code ranges *)
Ltac codes := unfold is_digit, is_lower, is_upper, is_idchar, is_space in *;
  repeat match goal with
  | H : _ && _ = true |- _ => apply andb_prop in H; destruct H
  | H : _ || _ = false |- _ => apply Bool.orb_false_iff in H; destruct H
  | H : (_ <=? _) = true |- _ => apply Nat.leb_le in H
  | H : (_ <=? _) = false |- _ => apply Nat.leb_gt in H
  | H : (_ =? _) = false |- _ => apply Nat.eqb_neq in H
  | H : (_ =? _) = true |- _ => apply Nat.eqb_eq in H
  end.
Lemma digit_facts d : is_digit d = true ->
  is_space d = false /\ (code d =? 47) = false /\ (is_lower d || is_upper d) = false /\ (code d =? 46) = false
  /\ (code d =? 101) = false /\ (code d =? 69) = false /\ (code d =? 62) = false /\ is_idchar d = true.
Proof.
  intros H. codes. unfold is_space, is_lower, is_upper, is_idchar, is_digit.
  repeat split; repeat (apply Bool.orb_false_iff; split); try (apply Nat.eqb_neq; lia);
    try (apply Bool.andb_false_iff; (left; apply Nat.leb_gt; lia) || (right; apply Nat.leb_gt; lia)).
  apply Bool.orb_true_iff. left. apply Bool.orb_true_iff. left. apply Bool.orb_true_iff. left.
  apply andb_true_intro. split; apply Nat.leb_le; lia.
Qed.
Lemma closer_facts c : closer c -> is_digit c = false /\ (code c =? 46) = false /\ ((code c =? 101) || (code c =? 69)) = false /\ negb (is_idchar c) = true.
Proof.
  intros [H1 H2]. pose proof H1 as H0. unfold is_idchar in H1.
  apply Bool.orb_false_iff in H1. destruct H1 as [H1 _]. apply Bool.orb_false_iff in H1. destruct H1 as [H1 Hu].
  apply Bool.orb_false_iff in H1. destruct H1 as [Hd Hl].
  split; [exact Hd|]. split; [exact H2|]. split; [|rewrite H0; reflexivity].
  unfold is_lower in Hl. unfold is_upper in Hu.
  destruct (Nat.eqb_spec (code c) 101) as [E|_]; [rewrite E in Hl; discriminate|].
  destruct (Nat.eqb_spec (code c) 69) as [E|_]; [rewrite E in Hu; discriminate|]. reflexivity.
Qed.

(* one lexer step on a numeral *)
Section Num.
Variables (f : nat) (c : ascii) (rest : list ascii).
Hypothesis Hc : closer c.
Let k (t : tok) : option (list tok) := match lex f (c :: rest) with Some ts => Some (t :: ts) | None => None end.

(* digits '.' digits *)
Lemma lex_real_dec ip fp : digits ip -> digits fp ->
  lex (S f) (ip ++ chr 46 :: fp ++ c :: rest) = k (TReal (real_val ip fp false [])).
Proof.
  intros [Hn Hip] [_ Hfp]. destruct (closer_facts c Hc) as [Cd [C46 [Ce Cid]]].
  destruct ip as [|d ip']; [contradiction|]. pose proof Hip as Hip0. cbn [forallb] in Hip. apply andb_prop in Hip. destruct Hip as [Hd _].
  destruct (digit_facts d Hd) as [D1 [D2 [D3 [D4 _]]]].
  cbn [app lex]. rewrite D1, D2, D3, Hd. cbn [andb orb].
  change (d :: ip' ++ chr 46 :: fp ++ c :: rest) with ((d :: ip') ++ chr 46 :: fp ++ c :: rest).
  rewrite (span_all is_digit (d :: ip') Hip0 (chr 46) (fp ++ c :: rest) eq_refl).
  change (code (chr 46) =? 46) with true. cbn iota beta.
  rewrite (span_all is_digit fp Hfp c rest Cd). cbn iota beta.
  rewrite Ce, Cid. cbn [negb andb]. reflexivity.
Qed.

(* digits '.' digits ('e'|'E') ('+'|'-') digits *)
Lemma lex_real_exp ip fp (eneg : bool) ed : digits ip -> digits fp -> digits ed ->
  lex (S f) (ip ++ chr 46 :: fp ++ chr 101 :: chr (if eneg then 45 else 43) :: ed ++ c :: rest) = k (TReal (real_val ip fp eneg ed)).
Proof.
  intros [Hn Hip] [_ Hfp] [Hne Hed]. destruct (closer_facts c Hc) as [Cd [C46 [Ce Cid]]].
  destruct ip as [|d ip']; [contradiction|]. pose proof Hip as Hip0. cbn [forallb] in Hip. apply andb_prop in Hip. destruct Hip as [Hd _].
  destruct (digit_facts d Hd) as [D1 [D2 [D3 [D4 _]]]].
  cbn [app lex]. rewrite D1, D2, D3, Hd. cbn [andb orb].
  change (d :: ip' ++ chr 46 :: fp ++ chr 101 :: chr (if eneg then 45 else 43) :: ed ++ c :: rest)
    with ((d :: ip') ++ chr 46 :: fp ++ chr 101 :: chr (if eneg then 45 else 43) :: ed ++ c :: rest).
  rewrite (span_all is_digit (d :: ip') Hip0 (chr 46) _ eq_refl).
  change (code (chr 46) =? 46) with true. cbn iota beta.
  rewrite (span_all is_digit fp Hfp (chr 101) _ eq_refl). cbn iota beta.
  change ((code (chr 101) =? 101) || (code (chr 101) =? 69)) with true. cbn iota beta.
  destruct ed as [|e0 ed']; [contradiction|].
  destruct eneg; cbn [code chr]; cbn iota beta.
  - change (code (chr 45) =? 45) with true. cbn iota beta.
    change (e0 :: ed' ++ c :: rest) with ((e0 :: ed') ++ c :: rest). rewrite (span_all is_digit (e0 :: ed') Hed c rest Cd).
    cbn iota beta. rewrite Cid. cbn [negb andb]. reflexivity.
  - change (code (chr 43) =? 45) with false. change (code (chr 43) =? 43) with true. cbn iota beta.
    change (e0 :: ed' ++ c :: rest) with ((e0 :: ed') ++ c :: rest). rewrite (span_all is_digit (e0 :: ed') Hed c rest Cd).
    cbn iota beta. rewrite Cid. cbn [negb andb]. reflexivity.
Qed.

(* an integer: digits without a leading zero (or the single digit 0) *)
Definition no_leading_zero (ds : list ascii) : Prop := match ds with z :: _ :: _ => (code z =? 48) = false | _ => True end.
Lemma lex_int ds : digits ds -> no_leading_zero ds ->
  lex (S f) (ds ++ c :: rest) = k (TInt (digits_val 0%Z ds)).
Proof.
  intros [Hn Hds] Hz. destruct (closer_facts c Hc) as [Cd [C46 [Ce Cid]]].
  destruct ds as [|d ds']; [contradiction|]. pose proof Hds as Hds0. cbn [forallb] in Hds. apply andb_prop in Hds. destruct Hds as [Hd _].
  destruct (digit_facts d Hd) as [D1 [D2 [D3 [D4 _]]]].
  cbn [app lex]. rewrite D1, D2, D3, Hd. cbn [andb orb].
  change (d :: ds' ++ c :: rest) with ((d :: ds') ++ c :: rest).
  rewrite (span_all is_digit (d :: ds') Hds0 c rest Cd). cbn iota beta.
  rewrite C46. cbn iota beta. rewrite Ce. cbn iota beta. rewrite Cid. cbn [negb andb].
  destruct ds' as [|d2 ds'']; [reflexivity|]. cbn [no_leading_zero] in Hz. rewrite Hz. reflexivity.
Qed.
End Num.
