(* C10 export_valid, step 4: the program the strict reader returns for the exported text is WELL-FORMED (Spec/Qasm.v wf on top of
   qelib1.inc: every gate declared before use with the right arity, qubit indices inside the register, no repeated qubit, names
   declared once, ...), provided the circuit itself is well-formed (circ_wf: parameter / qubit counts as the gate needs, indices
   < N, distinct qubits - none of which the exporter checks). *)
From Coq Require Import Lia Ascii String ZArith.
From QV Require Import Spec.QasmStrict Model.QasmImport Model.QasmExport Gen.Qasm.
From QV Require Import Proofs.QasmLex Proofs.QasmLex2 Proofs.QasmLex3 Proofs.QasmLex4 Proofs.QasmLex5.
From QV Require Import Proofs.QasmValid1 Proofs.QasmValid2 Proofs.QasmValid3.
Local Open Scope string_scope.
Local Open Scope nat_scope.
Local Open Scope list_scope.

(* ---------------------------------------------------------------- well-formed circuits *)
Definition gsig (g : gitem) : nat * nat :=
  match g with GDef _ d => (length (gd_params d), length (gd_qubits d)) | GOpaque _ ps qs => (length ps, length qs) end.
(* (number of parameters, number of qubits) of a library gate: of the qelib1 gate it is exported as, or of its emitted definition *)
Definition name_sig (name : string) : option (nat * nat) :=
  match sassoc name export_names with
  | Some q => sassoc q lib_sigs
  | None => match sassoc name export_defns with Some d => Some (gsig (gitem_of d)) | None => None end
  end.
Definition gate_wf (N : nat) (o : eop) : bool :=
  match o with
  | EGate name t ct a _ =>
      match name_sig name with
      | Some (np, nq) => (length (arg_nums a) =? np) && (length (ct ++ t) =? nq)
      | None => false end
      && forallb (fun i => i <? N) (ct ++ t) && nnodup (ct ++ t)
  | EMeas _ _ => true end.
Definition circ_wf (c : ecirc) : bool := (0 <? e_N c) && forallb (gate_wf (e_N c)) (e_ops c).

(* ---------------------------------------------------------------- association lists *)
Lemma sassoc_app {X} k (L R : list (string * X)) : sassoc k (L ++ R) = match sassoc k L with Some v => Some v | None => sassoc k R end.
Proof. induction L as [|[k' v] L IH]; [reflexivity|]. cbn [app sassoc]. destruct (String.eqb k k'); [reflexivity|exact IH]. Qed.
Lemma sassoc_notin {X} k (L : list (string * X)) : ~ In k (List.map fst L) -> sassoc k L = None.
Proof.
  induction L as [|[k' v] L IH]; intros H; [reflexivity|]. cbn [sassoc]. destruct (String.eqb k k') eqn:E.
  - apply String.eqb_eq in E. subst. exfalso. apply H. left. reflexivity.
  - apply IH. intros Hin. apply H. right. exact Hin.
Qed.
Lemma sassoc_nodup_in {X} k (v : X) L : NoDup (List.map fst L) -> In (k, v) L -> sassoc k L = Some v.
Proof.
  induction L as [|[k' v'] L IH]; intros Hnd Hin; [destruct Hin|]. cbn [List.map fst] in Hnd. inversion Hnd as [|? ? Hn Hnd']; subst.
  cbn [sassoc]. destruct Hin as [E|Hin].
  - injection E as -> ->. rewrite String.eqb_refl. reflexivity.
  - destruct (String.eqb k k') eqn:E; [|apply IH; assumption]. apply String.eqb_eq in E. subst. exfalso. apply Hn.
    apply in_map_iff. exists (k', v). split; [reflexivity|exact Hin].
Qed.
Lemma sassoc_some_in_keys {X} k (L : list (string * X)) : sassoc k L <> None -> In k (List.map fst L).
Proof.
  intros H. destruct (sassoc k L) as [v|] eqn:E; [|contradiction]. apply sassoc_in in E. apply in_map_iff. exists (k, v). split; [reflexivity|exact E].
Qed.
Lemma smem_In x l : smem x l = true <-> In x l.
Proof.
  unfold smem. rewrite existsb_exists. split.
  - intros [y [Hy E]]. apply String.eqb_eq in E. subst. exact Hy.
  - intros H. exists x. split; [exact H|apply String.eqb_refl].
Qed.
Lemma snodup_NoDup l : snodup l = true -> NoDup l.
Proof.
  induction l as [|x l IH]; intros H; [constructor|]. cbn [snodup] in H. apply andb_prop in H. destruct H as [H1 H2].
  constructor; [|exact (IH H2)]. intros Hin. apply smem_In in Hin. rewrite Hin in H1. discriminate.
Qed.
Lemma NoDup_snodup l : NoDup l -> snodup l = true.
Proof.
  induction 1 as [|x l Hn _ IH]; [reflexivity|]. cbn [snodup]. rewrite IH, Bool.andb_true_r.
  destruct (smem x l) eqn:E; [apply smem_In in E; contradiction|reflexivity].
Qed.
Lemma NoDup_app_intro {X} (l1 l2 : list X) : NoDup l1 -> NoDup l2 -> (forall x, In x l1 -> ~ In x l2) -> NoDup (l1 ++ l2).
Proof.
  induction 1 as [|x l1 Hn _ IH]; intros H2 Hd; [exact H2|]. cbn [app]. constructor.
  - intros Hin. apply in_app_or in Hin. destruct Hin as [Hin|Hin]; [contradiction|]. exact (Hd x (or_introl eq_refl) Hin).
  - apply IH; [exact H2|]. intros y Hy. apply Hd. right. exact Hy.
Qed.
Lemma NoDup_map_inj {X Y} (f : X -> Y) l : (forall x y, In x l -> In y l -> f x = f y -> x = y) -> NoDup l -> NoDup (List.map f l).
Proof.
  intros Hinj. induction 1 as [|x l Hn Hnd IH]; [constructor|]. cbn [List.map]. constructor.
  - intros Hin. apply in_map_iff in Hin. destruct Hin as [y [E Hy]]. assert (y = x) by (apply Hinj; [right; exact Hy|left; reflexivity|exact E]). subst. contradiction.
  - apply IH. intros a b Ha Hb. apply Hinj; right; assumption.
Qed.
Lemma NoDup_map_injective {X Y} (f : X -> Y) l : NoDup (List.map f l) -> forall x y, In x l -> In y l -> f x = f y -> x = y.
Proof.
  induction l as [|a l IH]; intros Hnd x y Hx Hy E; [destruct Hx|]. cbn [List.map] in Hnd. inversion Hnd as [|? ? Hn Hnd']; subst.
  destruct Hx as [->|Hx]; destruct Hy as [->|Hy]; [reflexivity| | |exact (IH Hnd' x y Hx Hy E)].
  - exfalso. apply Hn. rewrite E. apply in_map. exact Hy.
  - exfalso. apply Hn. rewrite <- E. apply in_map. exact Hx.
Qed.

(* ---------------------------------------------------------------- table facts (vm_compute over Gen/Qasm.v) *)
Definition libnames : list string := List.map fst lib_sigs.
Definition tbl_chk (p : string * string) : bool :=
  match parse_defn (snd p) with
  | Some (GDef n d) =>
      String.eqb n (lower (fst p)) && forallb (wf_bstmt lib_sigs (gd_params d) (gd_qubits d)) (gd_body d)
      && snodup (gd_params d) && snodup (gd_qubits d) && negb (smem "pi" (gd_params d)) && has_call (gd_body d)
      && negb (smem n libnames)
  | _ => false end.
Lemma tbl_true : forallb tbl_chk export_defns = true. Proof. vm_compute. reflexivity. Qed.
Lemma tbl_lower_nodup : snodup (List.map (fun p => lower (fst p)) export_defns) = true. Proof. vm_compute. reflexivity. Qed.
Lemma libnames_nodup : snodup libnames = true. Proof. vm_compute. reflexivity. Qed.
Lemma name_sig_U : name_sig "QASMU" = Some (3, 1). Proof. vm_compute. reflexivity. Qed.

Lemma defn_facts n : sassoc n export_defns <> None ->
  exists d, gitem_of (dtext n) = GDef (lower n) d /\ forallb (wf_bstmt lib_sigs (gd_params d) (gd_qubits d)) (gd_body d) = true /\
            snodup (gd_params d) = true /\ snodup (gd_qubits d) = true /\ smem "pi" (gd_params d) = false /\ has_call (gd_body d) = true /\
            ~ In (lower n) libnames.
Proof.
  intros Hn. unfold dtext. destruct (sassoc n export_defns) as [t|] eqn:E; [|contradiction].
  pose proof tbl_true as C. rewrite forallb_forall in C. specialize (C _ (sassoc_in _ _ _ E)). unfold tbl_chk in C. cbn [fst snd] in C.
  unfold gitem_of. destruct (parse_defn t) as [[g d|]|]; try discriminate.
  repeat (apply andb_prop in C; let H := fresh "C" in destruct C as [C H]). apply String.eqb_eq in C. subst g.
  exists d. repeat split; try assumption.
  - apply Bool.negb_true_iff. assumption.
  - intros Hin. apply smem_In in Hin. rewrite Hin in *. discriminate.
Qed.
Lemma lower_inj_keys x y : sassoc x export_defns <> None -> sassoc y export_defns <> None -> lower x = lower y -> x = y.
Proof.
  intros Hx Hy E. pose proof (snodup_NoDup _ tbl_lower_nodup) as Hnd. rewrite <- (List.map_map fst lower) in Hnd.
  exact (NoDup_map_injective lower _ Hnd x y (sassoc_some_in_keys _ _ Hx) (sassoc_some_in_keys _ _ Hy) E).
Qed.

(* ---------------------------------------------------------------- the emitted names are fresh and distinct *)
Lemma def_names_fresh : forall ops map n, In n (def_names map ops) -> sassoc n map = None.
Proof.
  induction ops as [|o ops IH]; intros map n Hin; [destruct Hin|]. destruct o as [name t ct a cc|t s]; cbn [def_names] in Hin; [|exact (IH _ _ Hin)].
  destruct (sassoc name map) as [q|] eqn:E; [exact (IH _ _ Hin)|]. destruct Hin as [<-|Hin]; [exact E|].
  specialize (IH _ _ Hin). cbn [sassoc] in IH. destruct (String.eqb n name); [discriminate|exact IH].
Qed.
Lemma def_names_nodup : forall ops map, NoDup (def_names map ops).
Proof.
  induction ops as [|o ops IH]; intros map; [constructor|]. destruct o as [name t ct a cc|t s]; cbn [def_names]; [|apply IH].
  destruct (sassoc name map) as [q|] eqn:E; [apply IH|]. constructor; [|apply IH].
  intros Hin. apply def_names_fresh in Hin. cbn [sassoc] in Hin. rewrite String.eqb_refl in Hin. discriminate.
Qed.

(* ---------------------------------------------------------------- signatures of the emitted definitions *)
Definition gate_items (ns : list string) : list gitem := List.map (fun n => gitem_of (dtext n)) ns.
Definition sig_pairs (ns : list string) : list (string * (nat * nat)) := List.map (fun n => (lower n, gsig (gitem_of (dtext n)))) ns.
Lemma sigs_of_items ns : Forall (fun n => sassoc n export_defns <> None) ns -> forall S,
  sigs_of S (gate_items ns) = rev (sig_pairs ns) ++ S.
Proof.
  induction 1 as [|n ns Hn _ IH]; intros S; [reflexivity|]. destruct (defn_facts n Hn) as [d [E _]].
  unfold gate_items, sig_pairs in *. cbn [List.map sigs_of rev]. rewrite E. cbn [gsig]. rewrite IH, <- app_assoc. reflexivity.
Qed.
Definition agree (S : list (string * (nat * nat))) : Prop := forall h v, sassoc h lib_sigs = Some v -> sassoc h S = Some v.
Lemma agree_cons S n v : agree S -> ~ In n libnames -> agree ((n, v) :: S).
Proof.
  intros HS Hn h w Hh. cbn [sassoc]. destruct (String.eqb h n) eqn:E; [|exact (HS h w Hh)].
  apply String.eqb_eq in E. subst. exfalso. apply Hn. apply sassoc_some_in_keys. rewrite Hh. discriminate.
Qed.
Lemma wf_bstmt_agree S ps qs b : agree S -> wf_bstmt lib_sigs ps qs b = true -> wf_bstmt S ps qs b = true.
Proof.
  intros HS H. destruct b as [h args hq|hq]; [|reflexivity]. cbn [wf_bstmt] in *.
  destruct (sassoc h lib_sigs) as [[np nq]|] eqn:E; [|discriminate]. rewrite (HS h _ E). exact H.
Qed.
Lemma wf_gates_items ns : Forall (fun n => sassoc n export_defns <> None) ns -> forall S, agree S -> wf_gates S (gate_items ns) = true.
Proof.
  induction 1 as [|n ns Hn _ IH]; intros S HS; [reflexivity|]. destruct (defn_facts n Hn) as [d [E [Hb [_ [_ [_ [_ Hl]]]]]]].
  unfold gate_items in *. cbn [List.map wf_gates]. rewrite E. apply andb_true_intro. split.
  - rewrite forallb_forall in *. intros b Hin. apply wf_bstmt_agree; [exact HS|exact (Hb b Hin)].
  - apply IH. apply agree_cons; assumption.
Qed.

(* looking a gate statement's name up in the signatures of the program *)
Lemma sig_lookup ns name q : Forall (fun n => sassoc n export_defns <> None) ns -> NoDup ns ->
  (forall n, In n ns -> sassoc n export_names = None) ->
  sassoc name (rev (low_pairs ns) ++ export_names) = Some q -> forall v, name_sig name = Some v ->
  sassoc q (rev (sig_pairs ns) ++ lib_sigs) = Some v.
Proof.
  intros Hns Hnd Hfresh Hq v Hv. rewrite sassoc_app in Hq. rewrite sassoc_app.
  assert (Hkeys : forall k w, In (k, w) (rev (sig_pairs ns)) -> ~ In k libnames).
  { intros k w Hin. apply in_rev in Hin. unfold sig_pairs in Hin. apply in_map_iff in Hin. destruct Hin as [n [E Hin]]. injection E as <- _.
    rewrite Forall_forall in Hns. destruct (defn_facts n (Hns n Hin)) as [d [_ [_ [_ [_ [_ [_ Hl]]]]]]]. exact Hl. }
  destruct (sassoc name (rev (low_pairs ns))) as [q'|] eqn:E1.
  - injection Hq as ->. apply sassoc_in in E1. apply in_rev in E1. unfold low_pairs in E1. apply in_map_iff in E1.
    destruct E1 as [n [E Hin]]. injection E as -> <-.
    unfold name_sig in Hv. rewrite (Hfresh _ Hin) in Hv. rewrite Forall_forall in Hns. pose proof (Hns _ Hin) as Hn.
    unfold dtext in *. destruct (sassoc name export_defns) as [t|] eqn:Et; [|contradiction]. injection Hv as <-.
    assert (Hs : sassoc (lower name) (rev (sig_pairs ns)) = Some (gsig (gitem_of t))).
    { apply sassoc_nodup_in.
      - rewrite List.map_rev. apply NoDup_rev. unfold sig_pairs. rewrite List.map_map. cbn [fst].
        apply NoDup_map_inj; [|exact Hnd]. intros x y Hx Hy. apply lower_inj_keys; apply Hns; assumption.
      - apply in_rev. rewrite rev_involutive. unfold sig_pairs. apply in_map_iff. exists name. split; [|exact Hin].
        unfold dtext. rewrite Et. reflexivity. }
    rewrite Hs. reflexivity.
  - unfold name_sig in Hv. rewrite Hq in Hv.
    rewrite (sassoc_notin q (rev (sig_pairs ns))); [exact Hv|]. intros Hin. apply in_map_iff in Hin. destruct Hin as [[k w] [Ek Hin]]. cbn [fst] in Ek. subst k.
    apply (Hkeys q w Hin). apply sassoc_some_in_keys. rewrite Hv. discriminate.
Qed.

(* ---------------------------------------------------------------- one gate application is well-formed *)
Lemma numexpr_plain x : plain (numexpr x) && subset (ids (numexpr x)) [] = true.
Proof. unfold numexpr. destruct (isneg x); destruct (abstok x); reflexivity. Qed.
Lemma resolve_idx N idx : forallb (fun i => i <? N) idx = true ->
  omap (resolve (layout 0 [("q", N)])) (List.map (AIdx "q") idx) = Some (List.map RBit idx).
Proof.
  induction idx as [|i idx IH]; intros H; [reflexivity|]. cbn [forallb] in H. apply andb_prop in H. destruct H as [H1 H2].
  cbn [List.map omap]. rewrite (IH H2).
  change (resolve (layout 0 [("q", N)]) (AIdx "q" i)) with (if i <? N then Some (RBit (0 + i)) else None). rewrite H1. reflexivity.
Qed.
Lemma broadcast_bits idx : broadcast (List.map RBit idx) = Some [idx].
Proof.
  unfold broadcast. assert (E : common_size (List.map RBit idx) = Some None) by (induction idx as [|i idx IH]; [reflexivity|]; cbn [List.map common_size rsize]; rewrite IH; reflexivity).
  rewrite E. f_equal. f_equal. clear E. induction idx as [|i idx IH]; [reflexivity|]. cbn [List.map pick]. rewrite IH. reflexivity.
Qed.

(* ---------------------------------------------------------------- the program is well-formed *)
Lemma snodup_app_lib ns : Forall (fun n => sassoc n export_defns <> None) ns -> NoDup ns ->
  snodup (List.map fst lib_sigs ++ List.map gitem_name (gate_items ns)) = true.
Proof.
  intros Hns Hnd. apply NoDup_snodup. apply NoDup_app_intro.
  - exact (snodup_NoDup _ libnames_nodup).
  - unfold gate_items. rewrite List.map_map. rewrite Forall_forall in Hns.
    assert (E : List.map (fun n => gitem_name (gitem_of (dtext n))) ns = List.map lower ns).
    { apply map_ext_in. intros n Hin. destruct (defn_facts n (Hns n Hin)) as [d [E _]]. rewrite E. reflexivity. }
    rewrite E. apply NoDup_map_inj; [|exact Hnd]. intros x y Hx Hy. apply lower_inj_keys; apply Hns; assumption.
  - intros x Hx Hin. unfold gate_items in Hin. rewrite List.map_map in Hin. apply in_map_iff in Hin. destruct Hin as [n [E Hn]].
    rewrite Forall_forall in Hns. destruct (defn_facts n (Hns n Hn)) as [d [Ed [_ [_ [_ [_ [_ Hl]]]]]]]. rewrite Ed in E. cbn [gitem_name] in E. subst x. exact (Hl Hx).
Qed.

Theorem prog_wf c txt : export c = Some txt -> no_meas c = true -> circ_wf c = true -> wf lib_sigs (prog_of c) = true.
Proof.
  intros He Hnm Hwf. destruct (export_inv c txt He) as [[stmts Hst] [Hns Hexp]].
  unfold circ_wf in Hwf. apply andb_prop in Hwf. destruct Hwf as [HN Hg].
  pose proof (def_names_nodup (e_ops c) export_names) as Hnd.
  assert (Hfresh : forall n, In n (def_names export_names (e_ops c)) -> sassoc n export_names = None) by (intros n Hin; exact (def_names_fresh _ _ _ Hin)).
  set (ns := def_names export_names (e_ops c)) in *.
  unfold wf. apply andb_true_intro. split.
  - (* wf_listed *)
    unfold wf_listed, prog_of. cbn [p_gates p_ops p_qregs p_cregs]. fold ns. fold (gate_items ns).
    apply andb_true_intro. split; [apply (wf_gates_items ns Hns); intros h v Hh; exact Hh|].
    rewrite (sigs_of_items ns Hns). rewrite forallb_forall. intros o Ho. apply in_flat_map in Ho. destruct Ho as [eo [Hin Ho]].
    rewrite forallb_forall in Hg. specialize (Hg _ Hin).
    destruct eo as [name t ct a cc|t s]; [|destruct Ho]. cbn [op_prog] in Ho. destruct (sassoc name (final_map c)) as [q|] eqn:Eq; [|destruct Ho].
    destruct Ho as [<-|[]]. cbn [gate_wf] in Hg. destruct (name_sig name) as [[np nq]|] eqn:Es; [|discriminate].
    apply andb_prop in Hg. destruct Hg as [Hg Hd]. apply andb_prop in Hg. destruct Hg as [Hg Hr]. apply andb_prop in Hg. destruct Hg as [Ha Hq].
    apply Nat.eqb_eq in Ha. apply Nat.eqb_eq in Hq.
    pose proof (sig_lookup ns name q Hns Hnd Hfresh Eq _ Es) as Hs.
    assert (G : forall CL, wf_op (rev (sig_pairs ns) ++ lib_sigs) (layout 0 [("q", e_N c)]) CL (gate_op q a (ct ++ t)) = true).
    { intros CL. unfold gate_op. cbn [wf_op]. unfold wf_app. rewrite Hs, (resolve_idx _ _ Hr), !map_length, Ha, Hq, !Nat.eqb_refl, broadcast_bits.
      cbn [andb forallb]. rewrite Hd. rewrite Bool.andb_true_r. rewrite forallb_forall. intros e Hin'. apply in_map_iff in Hin'. destruct Hin' as [x [<- _]]. apply numexpr_plain. }
    apply G.
  - (* wf_names *)
    unfold wf_names, prog_of. cbn [p_gates p_ops p_qregs p_cregs]. fold ns. fold (gate_items ns).
    apply andb_true_intro; split; [apply andb_true_intro; split; [apply andb_true_intro; split; [apply andb_true_intro; split; [apply andb_true_intro; split|]|]|]|].
    + exact (snodup_app_lib ns Hns Hnd).
    + reflexivity.
    + destruct (Nat.eqb (e_ncb c) 0); reflexivity.
    + cbn [forallb snd]. rewrite HN. reflexivity.
    + destruct (Nat.eqb_spec (e_ncb c) 0) as [E|E]; [reflexivity|]. cbn [forallb snd]. destruct (e_ncb c); [contradiction|reflexivity].
    + rewrite forallb_forall. intros g Hin. unfold gate_items in Hin. apply in_map_iff in Hin. destruct Hin as [n [<- Hn]].
      rewrite Forall_forall in Hns. destruct (defn_facts n (Hns n Hn)) as [d [E [_ [H1 [H2 [H3 [H4 _]]]]]]]. rewrite E, ?H1, ?H2, ?H3, ?H4. reflexivity.
Qed.

(* circ_wf implies the syntactic guard on U statements *)
Lemma circ_wf_u_ok c : circ_wf c = true -> u_ok c = true.
Proof.
  unfold circ_wf, u_ok. intros H. apply andb_prop in H. destruct H as [_ H]. rewrite forallb_forall in *. intros o Ho. specialize (H o Ho).
  destruct o as [name t ct a cc|]; [|reflexivity]. destruct (String.eqb name "QASMU") eqn:E; [|reflexivity]. apply String.eqb_eq in E. subst.
  cbn [gate_wf] in H. rewrite name_sig_U in H. apply andb_prop in H. destruct H as [H _]. apply andb_prop in H. destruct H as [H _].
  apply andb_prop in H. destruct H as [Ha Hq]. rewrite Hq, Bool.andb_true_r. unfold has_args. apply Nat.eqb_eq in Ha. destruct (arg_nums a); [discriminate|reflexivity].
Qed.

(* export_valid *)
Theorem valid c txt : export c = Some txt -> no_meas c = true -> shapes_ok c = true -> circ_wf c = true ->
  exists p, strict_parse txt = Some p /\ wf lib_sigs p = true /\ p = prog_of c.
Proof.
  intros He Hnm Hsh Hwf. exists (prog_of c). split; [exact (export_parses c txt He Hnm Hsh (circ_wf_u_ok c Hwf))|].
  split; [exact (prog_wf c txt He Hnm Hwf)|reflexivity].
Qed.
