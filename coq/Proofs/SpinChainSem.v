(* C06, semantic layer: for every native gate of a transpiled circuit the compiled pulse -- the closed-form
   exponential of the Hamiltonian NAMED BY THE COMPILED LABEL, on the qubits THAT HAMILTONIAN ACTS ON, at the phase
   scale * area -- has the semantics of the gate's matrix on the gate's targets, in every phase ring (every angle),
   every register.  Then the circuit-level statement by induction over the gate list, and the end-to-end statement
   under the explicitly assumed composition principle. *)
From Coq Require Import ZArith QArith String List Bool Lia FunctionalExtensionality.
From QV Require Import Found.Base Found.Lemmas Found.KS Found.KSProofs Found.Sym Found.SymProofs Found.Circ Found.Comm
  Gen.Gates Model.SpinChainTypes Gen.SpinChain Model.Concat Model.SpinChain Spec.SpinChainSpec
  Proofs.SpinChainCal Proofs.SpinChainRule.
Import ListNotations.
Local Open Scope string_scope.

(* ---- local symbolic checks (vm_compute) ---- *)
Definition sem_ok (name : string) : bool :=
  match gate_cal name, lib_matrix name with
  | Some (k, s, a), Some m =>
      match pulse_phase s a with
      | Some ph =>
          match k with
          | HXY => scirc_eqb 2 [(msubst [ph] (closed k), [0; 1])] [(m, [0; 1])] &&
                   scirc_eqb 2 [(msubst [ph] (closed k), [1; 0])] [(m, [0; 1])]
          | _ => scirc_eqb 1 [(msubst [ph] (closed k), [0])] [(m, [0])]
          end
      | None => false end
  | _, _ => false
  end%nat.
Lemma chk_sem_true : forallb sem_ok pulse_gates = true. Proof. vm_compute. reflexivity. Qed.

(* the symbolic pulse of a compiled instruction: closed form of the label's Hamiltonian at scale*area, on the label's qubits *)
Definition method_area (name : string) : option ex :=
  match SpinChain.assoc name gate_methods with
  | Some (MRot _ _) => Some rot_area | Some (MSwap a) => Some a | _ => None end.
(* the area expression of a gate name, whatever its syntactic form in the source *)
Definition area_of (name : string) : ex := match method_area name with Some a => a | None => Num 0 end.
Definition pulse_sgate (c : cfg) (name : string) (lb : label) : option sgate :=
  match control_of c lb, family_of (fst lb), method_area name with
  | Some (k, ts), Some f, Some ar =>
      match pulse_phase (cf_scale f) ar with
      | Some ph => Some (msubst [ph] (closed k), map Z.to_nat ts)
      | None => None end
  | _, _, _ => None
  end.
Definition native_sgate (g : ngate) : option sgate :=
  match lib_matrix (g_name g) with Some m => Some (m, g_targets g) | None => None end.

(* well-formed pulse gate of a transpiled circuit *)
Definition wf_pulse_gate (c : cfg) (g : ngate) : Prop :=
  In (g_name g) pulse_gates /\ NoDup (g_targets g) /\ Forall (fun t => (t < c_n c)%nat) (g_targets g) /\
  match gate_cal (g_name g) with Some (k, _, _) => length (g_targets g) = hqubits k | None => False end.

Lemma family_sx : find_family "sx" ctrl_families 0 = Some (0%nat, mkCF "sx" HX (fam_scale "sx") IN [ILoop]).
Proof. reflexivity. Qed.
Lemma family_sz : find_family "sz" ctrl_families 0 = Some (1%nat, mkCF "sz" HZ (fam_scale "sz") IN [ILoop]).
Proof. reflexivity. Qed.

Lemma control_1q c p k fam j : find_family p ctrl_families 0 = Some (k, fam) -> cf_count fam = IN -> cf_targets fam = [ILoop] ->
  (0 <= j < Z.of_nat (c_n c))%Z -> control_of c (p, j) = Some (cf_kind fam, [j]).
Proof.
  intros Hf Hc Ht Hj. unfold control_of. cbn [fst snd]. rewrite Hf, Hc, Ht. cbn [ieval e_n e_loop map all_someZ].
  replace (0 <=? j)%Z with true by (symmetry; apply Z.leb_le; lia).
  replace (j <? Z.of_nat (c_n c))%Z with true by (symmetry; apply Z.ltb_lt; lia). reflexivity.
Qed.

Lemma place1 (R : PhaseRing) (A : atoms R) M t : place [t] (map (gden R A) [(M, [0%nat])]) = [gden R A (M, [t])].
Proof. reflexivity. Qed.
Lemma place2 (R : PhaseRing) (A : atoms R) M a b : place [a; b] (map (gden R A) [(M, [0%nat; 1%nat])]) = [gden R A (M, [a; b])].
Proof. reflexivity. Qed.
Lemma place2r (R : PhaseRing) (A : atoms R) M a b : place [a; b] (map (gden R A) [(M, [1%nat; 0%nat])]) = [gden R A (M, [b; a])].
Proof. reflexivity. Qed.

Lemma rotation_label c g op pa d lb co t : g_targets g = [t] ->
  rotation_compiler c g op pa = Ok (CInstr d [(lb, co)]) -> lb = (op, Z.of_nat t).
Proof.
  intros Ht. unfold rotation_compiler.
  destruct (of_opt (strengths c pa)); cbn [rbind]; [|discriminate].
  destruct (of_opt (ieval (genv c g) rot_max_index)); cbn [rbind]; [|discriminate].
  destruct (of_opt (zth _ _)); cbn [rbind]; [|discriminate].
  destruct (of_opt (area_at _ _)); cbn [rbind]; [|discriminate].
  destruct (of_opt (rect_pulse _ _)); cbn [rbind]; [|discriminate].
  destruct (of_opt (ieval (genv c g) rot_label_index)) as [il|] eqn:El; cbn [rbind]; [|discriminate].
  intros [= _ <- _]. unfold rot_label_index, genv in El. rewrite Ht in El. cbn [ieval e_t0 of_opt] in El.
  injection El as <-. reflexivity.
Qed.

Lemma sem_ok_1q name k s a m t :
  gate_cal name = Some (k, s, a) -> lib_matrix name = Some m -> sem_ok name = true -> hqubits k = 1%nat ->
  exists ph, pulse_phase s a = Some ph /\
    forall (R : PhaseRing) (A : atoms R), sem [gden R A (msubst [ph] (closed k), [t])] = sem [gden R A (m, [t])].
Proof.
  intros Hc Hm. unfold sem_ok. rewrite Hc, Hm. destruct (pulse_phase s a) as [ph|]; [|discriminate].
  intros H Hk. exists ph. split; [reflexivity|]. intros R A.
  destruct k; try discriminate;
    (pose proof (rule_sound R A 1 _ _ [t] H (NoDup_cons t (@in_nil _ t) (NoDup_nil _)) eq_refl) as E;
     rewrite !place1 in E; exact E).
Qed.

Lemma sem_ok_2q name k s a m x y :
  gate_cal name = Some (k, s, a) -> lib_matrix name = Some m -> sem_ok name = true -> hqubits k = 2%nat -> x <> y ->
  exists ph, pulse_phase s a = Some ph /\ forall (R : PhaseRing) (A : atoms R),
    sem [gden R A (msubst [ph] (closed k), [x; y])] = sem [gden R A (m, [x; y])] /\
    sem [gden R A (msubst [ph] (closed k), [y; x])] = sem [gden R A (m, [x; y])].
Proof.
  intros Hc Hm. unfold sem_ok. rewrite Hc, Hm. destruct (pulse_phase s a) as [ph|]; [|discriminate].
  intros H Hk Hxy. exists ph. split; [reflexivity|]. intros R A. destruct k; try discriminate.
  apply andb_prop in H. destruct H as [H1 H2].
  assert (Hnd : NoDup [x; y]).
  { constructor; [intros [E|[]]; apply Hxy; symmetry; exact E|]. constructor; [intros []|constructor]. }
  split.
  - pose proof (rule_sound R A 2 _ _ [x; y] H1 Hnd eq_refl) as E. rewrite !place2 in E. exact E.
  - pose proof (rule_sound R A 2 _ _ [x; y] H2 Hnd eq_refl) as E. rewrite place2r, place2 in E. exact E.
Qed.

Lemma sem_ok_in name : In name pulse_gates -> sem_ok name = true.
Proof. intros H. pose proof chk_sem_true as C. rewrite forallb_forall in C. exact (C name H). Qed.

Lemma pair_of_minmax a b : a <> b ->
  (Z.of_nat (Nat.min a b) = Z.of_nat a /\ Z.of_nat (Nat.max a b) = Z.of_nat b) \/
  (Z.of_nat (Nat.min a b) = Z.of_nat b /\ Z.of_nat (Nat.max a b) = Z.of_nat a).
Proof. intros H. destruct (Nat.le_gt_cases a b); [left|right]; split; f_equal; lia. Qed.

(* ---- one instruction: the pulse of the compiled label = the gate on its targets ---- *)
Theorem instr_is_gate c g d lb co :
  setup_ok c -> wf_pulse_gate c g -> compile_gate c g = Ok (CInstr d [(lb, co)]) ->
  exists sp sn, pulse_sgate c (g_name g) lb = Some sp /\ native_sgate g = Some sn /\
                forall (R : PhaseRing) (A : atoms R), sem [gden R A sp] = sem [gden R A sn].
Proof.
  intros Hs [Hin [Hnd [Hr Hlen]]] Hc. pose proof (sem_ok_in _ Hin) as Hok.
  destruct g as [name ts arg]. cbn [g_name g_targets] in *.
  unfold pulse_gates in Hin. cbn in Hin. destruct Hin as [<-|[<-|[<-|[<-|[]]]]].
  - (* ISWAP *)
    change (gate_cal "ISWAP") with (Some (HXY, fam_scale "g", area_of "ISWAP")) in Hlen. cbn [hqubits] in Hlen.
    destruct ts as [|x [|y [|? ?]]]; try discriminate.
    unfold compile_gate in Hc. cbn [g_name] in Hc.
    change (SpinChain.assoc "ISWAP" gate_methods) with (Some (MSwap (area_of "ISWAP"))) in Hc. cbv beta iota in Hc.
    destruct (swap_compiles_coupled c (mkG "ISWAP" [x; y] arg) _ _ Hs Hr Hc) as [q1 [q2 [lb' [co' [du [tz [H1 [H2 [Hcp [Hi [Hctl Ho]]]]]]]]]]].
    injection Hi as <- <- <-. cbn [g_targets zmin zmax fold_left] in H1, H2. injection H1 as <-. injection H2 as <-.
    assert (Hxy : x <> y) by (inversion Hnd as [|? ? Hn _]; intro E; apply Hn; left; symmetry; exact E).
    destruct (sem_ok_2q "ISWAP" HXY (fam_scale "g") (area_of "ISWAP") _ x y eq_refl eq_refl Hok eq_refl Hxy) as [ph [Hph E12]].
    assert (Hfam : family_of (fst lb) = Some (mkCF "g" HXY (fam_scale "g") INumCoupling [ILoop; IMod (IAdd ILoop (IConst 1)) IN])).
    { unfold swap_compiler in Hc. destruct (swap_label c _) as [l0|] eqn:El; [|discriminate]. cbn [rbind] in Hc.
      assert (lb = l0).
      { repeat match type of Hc with rbind ?x _ = _ => destruct x; cbn [rbind] in Hc; [|discriminate] end.
        injection Hc as _ <- _. reflexivity. }
      subst l0. unfold swap_label, swap_label_with in El. cbn [g_targets] in El. rewrite rule_closed_form in El.
      unfold family_of.
      destruct (_ =? 1)%Z; [|destruct (_ && _ && _)%bool; [|discriminate]];
        (destruct (ieval _ _); [|discriminate]; injection El as <-; cbn [fst]; rewrite family_g; reflexivity). }
    unfold pulse_sgate, native_sgate. cbn [g_name g_targets]. rewrite Hctl, Hfam.
    change (method_area "ISWAP") with (Some (area_of "ISWAP")). cbn [cf_scale cf_kind] in Hph |- *. rewrite Hph.
    change (lib_matrix "ISWAP") with (Some fn_iswap).
    eexists. eexists. split; [reflexivity|]. split; [reflexivity|].
    destruct (pair_of_minmax x y Hxy) as [[Ea Eb]|[Ea Eb]]; destruct Ho as [->| ->]; cbn [map]; rewrite Ea, Eb, !Nat2Z.id; intros R A; apply (E12 R A).
  - (* RX *)
    change (gate_cal "RX") with (Some (HX, fam_scale "sx", rot_area)) in Hlen. cbn [hqubits] in Hlen.
    destruct ts as [|t [|? ?]]; try discriminate.
    unfold compile_gate in Hc. cbn [g_name] in Hc. change (SpinChain.assoc "RX" gate_methods) with (Some (MRot "sx" "sx")) in Hc. cbv beta iota in Hc.
    rewrite (rotation_label c (mkG "RX" [t] arg) _ _ _ _ _ t eq_refl Hc).
    destruct (sem_ok_1q "RX" HX (fam_scale "sx") rot_area _ t eq_refl eq_refl Hok eq_refl) as [ph [Hph E]].
    unfold pulse_sgate, native_sgate, family_of. cbn [fst g_name g_targets].
    rewrite (control_1q c "sx" _ _ (Z.of_nat t) family_sx eq_refl eq_refl) by (inversion Hr; lia).
    rewrite family_sx. change (method_area "RX") with (Some rot_area). cbn [cf_scale cf_kind] in Hph |- *. rewrite Hph.
    change (lib_matrix "RX") with (Some (msubst [Var 0] fn_rx)).
    eexists. eexists. split; [reflexivity|]. split; [reflexivity|]. cbn [map]. rewrite Nat2Z.id. exact E.
  - (* RZ *)
    change (gate_cal "RZ") with (Some (HZ, fam_scale "sz", rot_area)) in Hlen. cbn [hqubits] in Hlen.
    destruct ts as [|t [|? ?]]; try discriminate.
    unfold compile_gate in Hc. cbn [g_name] in Hc. change (SpinChain.assoc "RZ" gate_methods) with (Some (MRot "sz" "sz")) in Hc. cbv beta iota in Hc.
    rewrite (rotation_label c (mkG "RZ" [t] arg) _ _ _ _ _ t eq_refl Hc).
    destruct (sem_ok_1q "RZ" HZ (fam_scale "sz") rot_area _ t eq_refl eq_refl Hok eq_refl) as [ph [Hph E]].
    unfold pulse_sgate, native_sgate, family_of. cbn [fst g_name g_targets].
    rewrite (control_1q c "sz" _ _ (Z.of_nat t) family_sz eq_refl eq_refl) by (inversion Hr; lia).
    rewrite family_sz. change (method_area "RZ") with (Some rot_area). cbn [cf_scale cf_kind] in Hph |- *. rewrite Hph.
    change (lib_matrix "RZ") with (Some (msubst [Var 0] fn_rz)).
    eexists. eexists. split; [reflexivity|]. split; [reflexivity|]. cbn [map]. rewrite Nat2Z.id. exact E.
  - (* SQRTISWAP *)
    change (gate_cal "SQRTISWAP") with (Some (HXY, fam_scale "g", area_of "SQRTISWAP")) in Hlen. cbn [hqubits] in Hlen.
    destruct ts as [|x [|y [|? ?]]]; try discriminate.
    unfold compile_gate in Hc. cbn [g_name] in Hc.
    change (SpinChain.assoc "SQRTISWAP" gate_methods) with (Some (MSwap (area_of "SQRTISWAP"))) in Hc. cbv beta iota in Hc.
    destruct (swap_compiles_coupled c (mkG "SQRTISWAP" [x; y] arg) _ _ Hs Hr Hc) as [q1 [q2 [lb' [co' [du [tz [H1 [H2 [Hcp [Hi [Hctl Ho]]]]]]]]]]].
    injection Hi as <- <- <-. cbn [g_targets zmin zmax fold_left] in H1, H2. injection H1 as <-. injection H2 as <-.
    assert (Hxy : x <> y) by (inversion Hnd as [|? ? Hn _]; intro E; apply Hn; left; symmetry; exact E).
    destruct (sem_ok_2q "SQRTISWAP" HXY (fam_scale "g") (area_of "SQRTISWAP") _ x y eq_refl eq_refl Hok eq_refl Hxy) as [ph [Hph E12]].
    assert (Hfam : family_of (fst lb) = Some (mkCF "g" HXY (fam_scale "g") INumCoupling [ILoop; IMod (IAdd ILoop (IConst 1)) IN])).
    { unfold swap_compiler in Hc. destruct (swap_label c _) as [l0|] eqn:El; [|discriminate]. cbn [rbind] in Hc.
      assert (lb = l0).
      { repeat match type of Hc with rbind ?x _ = _ => destruct x; cbn [rbind] in Hc; [|discriminate] end.
        injection Hc as _ <- _. reflexivity. }
      subst l0. unfold swap_label, swap_label_with in El. cbn [g_targets] in El. rewrite rule_closed_form in El.
      unfold family_of.
      destruct (_ =? 1)%Z; [|destruct (_ && _ && _)%bool; [|discriminate]];
        (destruct (ieval _ _); [|discriminate]; injection El as <-; cbn [fst]; rewrite family_g; reflexivity). }
    unfold pulse_sgate, native_sgate. cbn [g_name g_targets]. rewrite Hctl, Hfam.
    change (method_area "SQRTISWAP") with (Some (area_of "SQRTISWAP")). cbn [cf_scale cf_kind] in Hph |- *. rewrite Hph.
    change (lib_matrix "SQRTISWAP") with (Some fn_sqrtiswap).
    eexists. eexists. split; [reflexivity|]. split; [reflexivity|].
    destruct (pair_of_minmax x y Hxy) as [[Ea Eb]|[Ea Eb]]; destruct Ho as [->| ->]; cbn [map]; rewrite Ea, Eb, !Nat2Z.id; intros R A; apply (E12 R A).
Qed.

(* ---- the whole transpiled circuit ---- *)
(* pulse part: instruction i = closed-form pulse of its label, with the parameter values of gate i *)
Fixpoint pulse_icirc (c : cfg) (gs : list ngate) (i : nat) : option icirc :=
  match gs with
  | [] => Some []
  | g :: r =>
      match compile_gate c g with
      | Ok (CInstr _ [(lb, _)]) =>
          match pulse_sgate c (g_name g) lb, pulse_icirc c r (S i) with
          | Some sp, Some l => Some ((i, sp) :: l)
          | _, _ => None end
      | Ok _ => pulse_icirc c r (S i)                   (* GLOBALPHASE, IDLE: no pulse *)
      | Err => None
      end
  end.
(* gate part: the library matrix of every pulse-compiled gate on its targets (GLOBALPHASE is reported separately,
   IDLE is the identity) *)
Definition is_pulse_gate (g : ngate) : bool := existsb (String.eqb (g_name g)) pulse_gates.
Fixpoint gate_icirc (gs : list ngate) (i : nat) : icirc :=
  match gs with
  | [] => []
  | g :: r => ((if is_pulse_gate g then match native_sgate g with Some sn => [(i, sn)] | None => [] end else [])
              ++ gate_icirc r (S i))%list
  end.

Definition wf_circuit (c : cfg) (gs : list ngate) : Prop :=
  Forall (fun g => if is_pulse_gate g then wf_pulse_gate c g else True) gs.

Lemma is_pulse_gate_in g : is_pulse_gate g = true -> In (g_name g) pulse_gates.
Proof.
  unfold is_pulse_gate. rewrite existsb_exists. intros [x [Hx E]]. apply String.eqb_eq in E. subst x. exact Hx.
Qed.

Lemma assoc_in_filter {A} (f : A -> bool) name (l : list (string * A)) v :
  SpinChain.assoc name l = Some v -> f v = true -> In name (map fst (filter (fun p => f (snd p)) l)).
Proof.
  induction l as [|[k w] l IH]; cbn [SpinChain.assoc]; [discriminate|].
  destruct (String.eqb_spec name k) as [->|N].
  - intros [= ->] Hf. cbn [filter snd]. rewrite Hf. left. reflexivity.
  - intros H Hf. cbn [filter snd]. destruct (f w); [right|]; apply IH; assumption.
Qed.

Lemma not_pulse_no_pulses c g x : is_pulse_gate g = false -> compile_gate c g = Ok x ->
  match x with CInstr _ ps => ps = [] | _ => True end.
Proof.
  intros Hn. unfold compile_gate. destruct (SpinChain.assoc (g_name g) gate_methods) as [m|] eqn:Ea; [|discriminate].
  assert (Hm : match m with MRot _ _ | MSwap _ => False | _ => True end).
  { destruct m; try exact I; exfalso;
      (assert (In (g_name g) pulse_gates) by
         (unfold pulse_gates; apply (assoc_in_filter (fun m => match m with MRot _ _ | MSwap _ => true | _ => false end) _ _ _ Ea); reflexivity);
       unfold is_pulse_gate in Hn; apply Bool.not_true_iff_false in Hn; apply Hn; apply existsb_exists;
       exists (g_name g); split; [assumption|apply String.eqb_refl]). }
  destruct m; try contradiction.
  - destruct (g_arg g); [intros [= <-]; exact I|discriminate].
  - destruct (g_arg g); [intros [= <-]; reflexivity|discriminate].
  - intros [= <-]. exact I.
Qed.

Lemma pulse_single c g x : is_pulse_gate g = true -> compile_gate c g = Ok x -> exists d lb co, x = CInstr d [(lb, co)].
Proof.
  intros Hp. apply is_pulse_gate_in in Hp. unfold compile_gate.
  destruct (SpinChain.assoc (g_name g) gate_methods) as [[op pa|ar| | |]|] eqn:Ea; try discriminate.
  - unfold rotation_compiler.
    repeat match goal with |- rbind ?x _ = _ -> _ => destruct x; cbn [rbind]; [|discriminate] end.
    intros [= <-]. eauto.
  - unfold swap_compiler.
    repeat match goal with |- rbind ?x _ = _ -> _ => destruct x; cbn [rbind]; [|discriminate] end.
    intros [= <-]. eauto.
  - exfalso. revert Hp Ea. unfold pulse_gates. cbn. intros [<-|[<-|[<-|[<-|[]]]]]; discriminate.
  - exfalso. revert Hp Ea. unfold pulse_gates. cbn. intros [<-|[<-|[<-|[<-|[]]]]]; discriminate.
  - exfalso. revert Hp Ea. unfold pulse_gates. cbn. intros [<-|[<-|[<-|[<-|[]]]]]; discriminate.
Qed.

Lemma sem_cons (R : PhaseRing) (g : gate R) (l : circ R) psi : sem (g :: l) psi = sem l (sem [g] psi).
Proof. exact (sem_app R [g] l psi). Qed.

Theorem pulses_are_gates c gs : setup_ok c -> wf_circuit c gs ->
  forall p il ph i, compile_gates c gs p = Ok (il, ph) ->
  exists pc, pulse_icirc c gs i = Some pc /\
    forall (R : PhaseRing) (env : nat -> atoms R), sem (iden R env pc) = sem (iden R env (gate_icirc gs i)).
Proof.
  intros Hs. induction gs as [|g r IH]; intros Hwf p il ph i H.
  - exists []. split; reflexivity.
  - inversion Hwf as [|? ? Hg Hr]; subst. cbn [compile_gates] in H.
    destruct (compile_gate c g) as [x|] eqn:Eg; cbn [rbind] in H; [|discriminate].
    cbn [pulse_icirc gate_icirc]. rewrite Eg.
    destruct (is_pulse_gate g) eqn:Ep.
    + destruct (pulse_single c g x Ep Eg) as [d [lb [co ->]]].
      destruct (compile_gates c r p) as [[il' ph']|] eqn:Er; cbn [rbind] in H; [|discriminate].
      destruct (IH Hr _ _ _ (S i) Er) as [pc [Hpc Hsem]].
      destruct (instr_is_gate c g d lb co Hs Hg Eg) as [sp [sn [Esp [Esn E3]]]].
      rewrite Esp, Esn, Hpc. exists ((i, sp) :: pc). split; [reflexivity|]. intros R env.
      cbn [app iden map fst snd]. apply functional_extensionality; intro psi.
      rewrite (sem_cons R _ (map _ pc)), (sem_cons R _ (map _ (gate_icirc r (S i)))). rewrite E3.
      exact (f_equal (fun f => f _) (Hsem R env)).
    + pose proof (not_pulse_no_pulses c g x Ep Eg) as Hx.
      assert (Hrest : exists il' ph' p', compile_gates c r p' = Ok (il', ph')).
      { destruct x as [d ps|a|]; [|eauto|eauto].
        destruct (compile_gates c r p) as [[il' ph']|] eqn:Er; cbn [rbind] in H; [eauto|discriminate]. }
      destruct Hrest as [il' [ph' [p' Er]]]. destruct (IH Hr _ _ _ (S i) Er) as [pc [Hpc Hsem]].
      exists pc. split; [|exact Hsem].
      destruct x as [d ps|a|]; [subst ps; exact Hpc|exact Hpc|exact Hpc].
Qed.

(* ---- global phase gates of the transpiled circuit as scalar gates, and the full circuit ---- *)
Definition phase_sgate : sgate := (MLit [[globalphase_ex]], []).
Fixpoint phase_icirc (gs : list ngate) (i : nat) : icirc :=
  match gs with
  | [] => []
  | g :: r => ((if is_phase_gate g then [(i, phase_sgate)] else []) ++ phase_icirc r (S i))%list
  end.
(* the transpiled circuit itself: pulse-compiled gates and GLOBALPHASE gates in their order (IDLE = identity) *)
Fixpoint full_icirc (gs : list ngate) (i : nat) : icirc :=
  match gs with
  | [] => []
  | g :: r => ((if is_pulse_gate g then match native_sgate g with Some sn => [(i, sn)] | None => [] end
                else if is_phase_gate g then [(i, phase_sgate)] else []) ++ full_icirc r (S i))%list
  end.

Lemma scalar_commutes (R : PhaseRing) (M : mat R) (l : circ R) : forall psi,
  sem l (Base.app M [] psi) = Base.app M [] (sem l psi).
Proof.
  induction l as [|g l IH]; intros psi; [reflexivity|].
  rewrite !(sem_cons R g l). rewrite <- IH. f_equal. cbn [sem fold_left].
  symmetry. apply (app_comm_disjoint R (PR_ring R)). intros i [].
Qed.

Lemma pulse_not_phase g : is_pulse_gate g = true -> is_phase_gate g = false.
Proof.
  intros H. apply is_pulse_gate_in in H. unfold is_phase_gate. revert H. unfold pulse_gates. cbn.
  intros [<-|[<-|[<-|[<-|[]]]]]; reflexivity.
Qed.

Lemma iden_app (R : PhaseRing) (env : nat -> atoms R) (a b : icirc) : iden R env (a ++ b)%list = (iden R env a ++ iden R env b)%list.
Proof. unfold iden. apply map_app. Qed.

(* scalars commute with everything: the circuit = its gates followed by its phase factors *)
Lemma full_split (R : PhaseRing) (env : nat -> atoms R) gs : forall i psi,
  sem (iden R env (full_icirc gs i)) psi = sem (iden R env (phase_icirc gs i)) (sem (iden R env (gate_icirc gs i)) psi).
Proof.
  induction gs as [|g r IH]; intros i psi; [reflexivity|].
  cbn [full_icirc gate_icirc phase_icirc]. rewrite !iden_app. rewrite !(sem_app R).
  destruct (is_pulse_gate g) eqn:Ep.
  - rewrite (pulse_not_phase g Ep). rewrite IH. reflexivity.
  - destruct (is_phase_gate g); [|rewrite IH; reflexivity].
    cbn [iden map sem fold_left fst snd]. fold (iden R env). rewrite IH.
    change (fold_left (fun (p : state R) (g0 : gate R) => Base.app (fst g0) (snd g0) p)) with (@sem R).
    unfold gden. unfold phase_sgate. cbn [fst snd].
    rewrite (scalar_commutes R _ (iden R env (gate_icirc r (S i)))).
    rewrite (scalar_commutes R _ (iden R env (phase_icirc r (S i)))). reflexivity.
Qed.

(* ---- end-to-end, under the explicitly ASSUMED composition principle and the C13 facts ---- *)
Section EndToEnd.
Variable R : PhaseRing.
Variable env : nat -> atoms R.          (* parameter values (angles) of the gates of the transpiled circuit *)
(* what Processor.run_analytically computes from the loaded pulse table: the ordered product of the slice
   propagators expm(-i H_n dt_n) (C14), BEFORE the global phase is appended.  External (scipy expm). *)
Variable propagator : cfg -> option (list Q) -> list ngate -> state R -> state R.
(* "the start times handed to the concatenation are a timetable accepted by C11" -- left abstract *)
Variable valid_schedule : cfg -> option (list Q) -> list ngate -> Prop.

(* ASSUMED (trusted base, validated numerically on every run): for a loaded circuit with a valid timetable the
   ordered product of the slice exponentials of the compiled pulse table equals the product, in gate order, of the
   closed-form pulse unitaries of the instructions.  This bundles: closed form = expm; exp(A+B) = exp(A) exp(B) for
   the commuting Hamiltonians of simultaneously driven disjoint channels and the one-parameter group law within a
   channel; C11 (dependencies respected, no overlap on a shared qubit), C12 (the table is the scheduled waveforms),
   C14 (the slices are the piecewise-constant H). *)
Hypothesis composition_principle : forall c sched gs tab ph pc,
  load c sched gs = Ok (tab, ph) -> valid_schedule c sched gs -> pulse_icirc c gs 0 = Some pc ->
  propagator c sched gs = sem (iden R env pc).

(* C13 (transpile), stated as hypotheses about ONE run: the transpiled circuit gs of the processor c is well formed
   (native gates only, two-qubit gates on pairwise different in-range qubits) and has the semantics of the original *)
Variable c : cfg.
Variable gs : list ngate.
Variable original_sem : state R -> state R.
Hypothesis c13_transpile_native : wf_circuit c gs.
Hypothesis c13_transpile_sem : original_sem = sem (iden R env (full_icirc gs 0)).

Theorem spinchain_reproduces_circuit sched tab ph :
  setup_ok c -> load c sched gs = Ok (tab, ph) -> valid_schedule c sched gs ->
  (* propagating the pulses, then applying the phase factors of the GLOBALPHASE gates, is the original circuit *)
  (forall psi, sem (iden R env (phase_icirc gs 0)) (propagator c sched gs psi) = original_sem psi) /\
  (* and the phase the processor reports is the sum of those GLOBALPHASE arguments *)
  (ph == sum_phase gs)%Q.
Proof.
  intros Hs Hl Hv. split; [|exact (proj1 (global_phase_reported c sched gs tab ph Hl))].
  intros psi. unfold load in Hl. destruct (compile_gates c gs 0) as [[il p]|] eqn:E; cbn [rbind] in Hl; [|discriminate].
  destruct (pulses_are_gates c gs Hs c13_transpile_native 0%Q il p 0%nat E) as [pc [Hpc Hsem]].
  assert (Hl' : load c sched gs = Ok (tab, ph)) by (unfold load; rewrite E; exact Hl).
  rewrite (composition_principle c sched gs tab ph pc Hl' Hv Hpc), (Hsem R env), c13_transpile_sem.
  symmetry. apply full_split.
Qed.
End EndToEnd.
