(* C13, decomposition side: what resolve_gates does to the gates that occur between the passes of transpile.
   - generated boolean obligation per (device configuration, gate kind): every gate emitted for the generic instance acts on
     pairwise different qubits OF THE SOURCE GATE and has the shape the router understands (CNOT/CSIGN: one control, one
     target, no argument; swap-type: two targets, no argument; anything else: at most one qubit);  lifted to every placement
     through the naturality of the rule interpreter (Proofs/ResolveLemmas.v);
   - a gate that already is in the native basis (or a phase / idle marker) is returned unchanged, whatever its arguments. *)
From Coq Require Import List String Bool Arith Lia.
From QV Require Import Found.Circ Model.ResolveTypes Gen.Decompose Gen.Gates Model.Resolve.
From QV Require Import Proofs.ResolveLemmas Proofs.ResolveChkDefs Proofs.ResolveSem.
From QV Require Import Model.TranspileTypes Gen.Devices Model.Transpile.
From QV Require Model.Route.
Import ListNotations.
Local Open Scope string_scope.
Local Open Scope nat_scope.

(* ---- the configurations of the device table --------------------------------------------------------------------------- *)
Definition cfg_of (l : list string) : cfg := match parse_basis (BList l) with Ok ck => fst ck | Error => Cfg [] [] false end.
Definition dev_cfgs : list cfg := flat_map (fun d => match dnative d with Some l => [cfg_of l] | None => [] end) devices.

(* every processor of the table has native gates, they form a valid basis choice, the parsed configuration only names
   gates of the native list *)
Definition dev_good (d : device) : bool :=
  match dnative d with
  | Some l => match parse_basis (BList l) with
              | Ok ck => valid_cfg (fst ck) && forallb (fun n => mem n l) (c2q (fst ck) ++ crot (fst ck))%list
              | Error => false
              end
  | None => false
  end.
Lemma devs_good : forallb dev_good devices = true. Proof. vm_compute. reflexivity. Qed.

Lemma dev_facts d : In d devices -> exists l keep, dnative d = Some l /\ parse_basis (BList l) = Ok (cfg_of l, keep) /\
  valid_cfg (cfg_of l) = true /\ In (cfg_of l) dev_cfgs /\ In (cfg_of l) all_cfgs /\
  (forall n, mem n (c2q (cfg_of l)) = true \/ mem n (crot (cfg_of l)) = true -> mem n l = true).
Proof.
  intros Hd. pose proof devs_good as G. rewrite forallb_forall in G. specialize (G d Hd). unfold dev_good in G.
  destruct (dnative d) as [l|] eqn:El; [|discriminate]. exists l.
  destruct (parse_basis (BList l)) as [[c keep]|] eqn:Ep; [|discriminate]. exists keep.
  assert (Ec : cfg_of l = c) by (unfold cfg_of; rewrite Ep; reflexivity). rewrite Ec.
  cbn [fst] in G. apply andb_prop in G. destruct G as [Gv Gm].
  repeat split; auto.
  - unfold dev_cfgs. apply in_flat_map. exists d. split; [exact Hd|]. rewrite El. left. exact Ec.
  - exact (parse_in _ _ _ _ Ep).
  - intros n Hn. rewrite forallb_forall in Gm. apply Gm. apply in_or_app.
    destruct Hn as [Hn|Hn]; apply mem_in in Hn; auto.
Qed.

(* ---- the shape of a gate as the router sees it ---------------------------------------------------------------------- *)
Definition handled_name (n : string) : bool := Route.is_ctrl n || Route.is_swapk n.
Fixpoint nodupb (l : list nat) : bool :=
  match l with [] => true | a :: r => negb (existsb (Nat.eqb a) r) && nodupb r end.
Definition rot1 (n : string) : bool := mem n ["RX"; "RY"; "RZ"; "IDLE"].
Definition kindshape (g : mgate) : bool :=
  if Route.is_ctrl (gname g) then
    (List.length (gcontrols g) =? 1)%nat && (List.length (gtargets g) =? 1)%nat && match gargs g with [] => true | _ => false end
  else if Route.is_swapk (gname g) then
    (List.length (gcontrols g) =? 0)%nat && (List.length (gtargets g) =? 2)%nat && match gargs g with [] => true | _ => false end
  else if rot1 (gname g) then (List.length (gcontrols g) =? 0)%nat && (List.length (gtargets g) =? 1)%nat
  else (nqubits g <=? 1)%nat.

Lemma kindshape_len g : kindshape g = true -> List.length (qubits g) <= 2.
Proof.
  unfold kindshape, nqubits, qubits. rewrite app_length. intros Hk.
  destruct (Route.is_ctrl (gname g)); [|destruct (Route.is_swapk (gname g)); [|destruct (rot1 (gname g))]].
  - apply andb_prop in Hk. destruct Hk as [Hk _]. apply andb_prop in Hk. destruct Hk as [H1 H2].
    apply Nat.eqb_eq in H1. apply Nat.eqb_eq in H2. lia.
  - apply andb_prop in Hk. destruct Hk as [Hk _]. apply andb_prop in Hk. destruct Hk as [H1 H2].
    apply Nat.eqb_eq in H1. apply Nat.eqb_eq in H2. lia.
  - apply andb_prop in Hk. destruct Hk as [H1 H2]. apply Nat.eqb_eq in H1. apply Nat.eqb_eq in H2. lia.
  - apply Nat.leb_le in Hk. lia.
Qed.
Lemma kindshape_small g : kindshape g = true -> handled_name (gname g) = false -> nqubits g <= 1.
Proof.
  unfold kindshape, nqubits, handled_name. intros Hk Hh. apply orb_false_iff in Hh. destruct Hh as [E1 E2]. rewrite E1, E2 in Hk.
  destruct (rot1 (gname g)).
  - apply andb_prop in Hk. destruct Hk as [H1 H2]. apply Nat.eqb_eq in H1. apply Nat.eqb_eq in H2. lia.
  - apply Nat.leb_le in Hk. exact Hk.
Qed.
Definition shape_ok (kq : nat) (o : mgate) : bool :=
  forallb (fun q => Nat.ltb q kq) (qubits o) && nodupb (qubits o) && kindshape o.
Definition check_shape (c : cfg) (k : kd) : bool :=
  match resolve_gate c no_keep (generic (fst k) (snd k) 0) with
  | Ok gs => forallb (shape_ok (kqubits (snd k))) gs
  | Error => true
  end.
(* the generated obligations: 20 kinds x the configurations of the device table *)
Lemma shapes_ok : forallb (fun c => forallb (check_shape c) kinds) dev_cfgs = true.
Proof. vm_compute. reflexivity. Qed.

Lemma nodupb_NoDup l : nodupb l = true -> NoDup l.
Proof.
  induction l as [|a r IH]; intros H; [constructor|]. cbn [nodupb] in H. apply andb_prop in H. destruct H as [H1 H2].
  constructor; [|exact (IH H2)]. intros Hin. apply negb_true_iff in H1.
  assert (E : existsb (Nat.eqb a) r = true) by (apply existsb_exists; exists a; split; [exact Hin|apply Nat.eqb_refl]).
  rewrite E in H1. discriminate.
Qed.

(* what the decomposition of a source gate [g] may emit *)
Definition emitted_from (g o : mgate) : Prop :=
  incl (qubits o) (qubits g) /\ NoDup (qubits o) /\ kindshape o = true /\ gsrc o = gsrc g.

Lemma qubits_retag f s g : qubits (retag f s g) = map f (qubits g).
Proof. unfold qubits, retag. cbn [gcontrols gtargets]. rewrite map_app. reflexivity. Qed.
Lemma kindshape_retag f s g : kindshape (retag f s g) = kindshape g.
Proof. unfold kindshape, nqubits, retag. cbn [gname gcontrols gtargets gargs]. rewrite !map_length. reflexivity. Qed.

Lemma NoDup_map_pl ts qs : NoDup ts -> NoDup qs -> Forall (fun q => q < List.length ts) qs -> NoDup (map (pl ts) qs).
Proof.
  intros Hts Hqs Hlt. induction Hqs as [|q qs Hn Hnd IH]; [constructor|]. inversion Hlt as [|? ? Hq Hr]; subst.
  cbn [map]. constructor; [|exact (IH Hr)]. intros Hin. apply in_map_iff in Hin. destruct Hin as [q' [E Hq']].
  rewrite Forall_forall in Hr. pose proof (Hr q' Hq') as Hlt'. unfold pl in E.
  rewrite (NoDup_nth ts 0) in Hts. assert (q' = q) by (apply Hts; [exact Hlt'|exact Hq|exact E]). subst q'. contradiction.
Qed.

Lemma gate_shape c keep g gs : In c dev_cfgs -> wf_gate g -> resolve_gate c keep g = Ok gs -> Forall (emitted_from g) gs.
Proof.
  intros Hc [nc [nt [np [Hk [Hlc [Hlt [Hnd Har]]]]]]] Hres.
  set (ts := (gcontrols g ++ gtargets g)%list) in *.
  set (g0 := generic (gname g) (nc, nt, np) 0).
  pose proof (wf_retag g nc nt np Hlc Hlt Har) as Eg. fold ts in Eg. fold g0 in Eg.
  rewrite Eg in Hres. rewrite (resolve_gate_keep c keep g0 (pl ts) (gsrc g) (gname g, (nc, nt, np)) Hk eq_refl) in Hres.
  rewrite resolve_gate_nat in Hres.
  pose proof (forallb2_in check_shape dev_cfgs kinds c (gname g, (nc, nt, np)) shapes_ok Hc Hk) as SO.
  unfold check_shape in SO. cbn [fst snd] in SO. fold g0 in SO.
  destruct (resolve_gate c no_keep g0) as [gs0|]; [|discriminate]. cbn [rmap] in Hres. injection Hres as <-.
  rewrite forallb_forall in SO. apply Forall_forall. intros x Hx. apply in_map_iff in Hx. destruct Hx as [x0 [<- Hx0]].
  specialize (SO x0 Hx0). unfold shape_ok in SO. apply andb_prop in SO. destruct SO as [SO S3]. apply andb_prop in SO. destruct SO as [S1 S2].
  assert (Hlen : List.length ts = kqubits (nc, nt, np)) by (unfold ts; rewrite app_length, Hlc, Hlt; reflexivity).
  assert (Hlt0 : Forall (fun q => q < List.length ts) (qubits x0)).
  { rewrite Forall_forall. rewrite forallb_forall in S1. intros q Hq. specialize (S1 q Hq). apply Nat.ltb_lt in S1. rewrite Hlen. exact S1. }
  unfold emitted_from. rewrite qubits_retag, kindshape_retag. repeat split.
  - intros q Hq. apply in_map_iff in Hq. destruct Hq as [q0 [<- Hq0]]. fold (qubits g) in ts. change (qubits g) with ts.
    rewrite Forall_forall in Hlt0. unfold pl. apply nth_In. exact (Hlt0 q0 Hq0).
  - apply NoDup_map_pl; [exact Hnd|apply nodupb_NoDup; exact S2|exact Hlt0].
  - exact S3.
Qed.

(* ---- gates of the native basis are returned as they are ------------------------------------------------------------- *)
Lemma mg_eq n (ts ts' cs cs' : list nat) ar s : ts' = ts -> cs' = cs -> Ok [MG n ts' cs' ar s] = Ok [MG n ts cs ar s].
Proof. intros -> ->. reflexivity. Qed.
Lemma resolve_native_id c keep g : In c dev_cfgs -> in_basis c g = true -> resolve_gate c keep g = Ok [g].
Proof.
  intros Hc Hb. destruct g as [nm ts cs ar s].
  assert (Hn : In nm (c2q c ++ crot c ++ ["GLOBALPHASE"; "IDLE"])%list).
  { unfold in_basis in Hb. cbn [gname] in Hb. apply in_or_app.
    apply orb_prop in Hb. destruct Hb as [Hb|Hb]; [apply orb_prop in Hb; destruct Hb as [Hb|Hb]; [apply orb_prop in Hb; destruct Hb as [Hb|Hb]|]|].
    - left. apply mem_in. exact Hb.
    - right. apply in_or_app. left. apply mem_in. exact Hb.
    - right. apply in_or_app. right. left. symmetry. apply String.eqb_eq. exact Hb.
    - right. apply in_or_app. right. right. left. symmetry. apply String.eqb_eq. exact Hb. }
  clear Hb. revert Hn.
  assert (Hall : forall c', In c' dev_cfgs -> forall nm', In nm' (c2q c' ++ crot c' ++ ["GLOBALPHASE"; "IDLE"])%list ->
            resolve_gate c' keep (MG nm' ts cs ar s) = Ok [MG nm' ts cs ar s]).
  { clear c Hc nm. intros c' Hc'. cbv in Hc'.
    repeat (destruct Hc' as [<-|Hc']; [intros nm' Hn; cbv in Hn;
      repeat (destruct Hn as [<-|Hn]; [cbv; first [reflexivity | apply mg_eq; apply app_nil_r]|]); destruct Hn|]). destruct Hc'. }
  intros Hn. exact (Hall c Hc nm Hn).
Qed.

(* ---- source gates on at most two qubits already have the shape ------------------------------------------------------- *)
Lemma wf_small_shape g : wf_gate g -> nqubits g <= 2 -> kindshape g = true.
Proof.
  intros [nc [nt [np [Hk [Hlc [Hlt [_ Har]]]]]]] Hs. unfold kindshape, nqubits in *. rewrite Hlc, Hlt in *. rewrite Har.
  unfold kinds in Hk. cbn [In] in Hk.
  repeat (destruct Hk as [Hk|Hk]; [injection Hk as <- <- <- <-; try reflexivity; cbn in Hs; lia|]). destruct Hk.
Qed.

Lemma wf_same_kind g h : wf_gate g -> gname h = gname g -> List.length (gcontrols h) = List.length (gcontrols g) ->
  List.length (gtargets h) = List.length (gtargets g) -> gargs h = gargs g -> NoDup (qubits h) -> wf_gate h.
Proof.
  intros [nc [nt [np [Hk [Hlc [Hlt [_ Har]]]]]]] En Ec Et Ea Hnd. exists nc, nt, np. rewrite En, Ec, Et, Ea. auto.
Qed.
