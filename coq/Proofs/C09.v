(* C09: every path that offers a library gate yields the documented matrix, for all parameter values. *)
From QV Require Import Found.Base Found.KS Found.KSProofs Found.Sym Found.SymProofs Gen.Gates Spec.GateSpec.
Local Open Scope string_scope.

Fixpoint assoc {A} (k : string) (l : list (string * A)) : option A :=
  match l with [] => None | (k', v) :: l' => if String.eqb k k' then Some v else assoc k l' end.

Definition doc_ok (name : string) (m : mexp) : bool :=
  match assoc name spec with Some (_, s) => meqb m s | None => false end.
Definition chk_dispatch : bool := forallb (fun p => doc_ok (fst p) (snd p)) dispatch.
Definition chk_classes : bool :=
  forallb (fun p => match assoc (snd p) class_mat with Some m => doc_ok (fst p) m | None => false end) class_map.
Definition chk_fns : bool :=
  forallb (fun p => match assoc (fst p) gates_fn with Some (_, m) => doc_ok (snd p) m | None => false end) fn_names.
(* the operator that the deprecated N/target expansion branch of a gate function embeds is the function's own matrix *)
Definition chk_expansions : bool := forallb (fun p => meqb (fst (snd p)) (snd (snd p))) expansions.
Definition chk_phase : bool :=
  match topoly globalphase_ex, topoly (Exp (Mul (Imag 1) (Var 0))) with Some p, Some q => peqb p q | _, _ => false end.
(* U U^dagger = U^dagger U = 1, symbolically (dagger = transpose + conjugation u -> u^-1, z -> z^-1) *)
Definition unitary_ok (m : mexp) : bool :=
  match mtab m with
  | Some U => square U && ptab_eqb (ptmul U (ptadj U)) (ptid (length U)) && ptab_eqb (ptmul (ptadj U) U) (ptid (length U))
  | None => false end.
Definition chk_unitary : bool := forallb (fun p => unitary_ok (snd (snd p))) spec.
(* every name the library dispatches on / maps to a class is documented *)
Definition chk_cover : bool :=
  forallb (fun p => match assoc (fst p) spec with Some _ => true | None => false end) dispatch &&
  forallb (fun p => match assoc (fst p) spec with Some _ => true | None => false end) class_map.

Lemma chk_dispatch_true : chk_dispatch = true. Proof. vm_compute. reflexivity. Qed.
Lemma chk_classes_true : chk_classes = true. Proof. vm_compute. reflexivity. Qed.
Lemma chk_fns_true : chk_fns = true. Proof. vm_compute. reflexivity. Qed.
Lemma chk_phase_true : chk_phase = true. Proof. vm_compute. reflexivity. Qed.
Lemma chk_expansions_true : chk_expansions = true. Proof. vm_compute. reflexivity. Qed.
Lemma chk_unitary_true : chk_unitary = true. Proof. vm_compute. reflexivity. Qed.
Lemma chk_cover_true : chk_cover = true. Proof. vm_compute. reflexivity. Qed.

Definition agrees (R : PhaseRing) (m s : mexp) : Prop := forall r c, eval R (mmat m r c) = eval R (mmat s r c).

Lemma doc_ok_sound R name m : doc_ok name m = true ->
  exists ar s, assoc name spec = Some (ar, s) /\ agrees R m s.
Proof.
  unfold doc_ok. destruct (assoc name spec) as [[ar s]|]; [|discriminate].
  intros H. exists ar, s. split; [reflexivity|]. intros r c. apply meqb_sound. exact H.
Qed.

Lemma dispatch_doc R name m : In (name, m) dispatch -> exists ar s, assoc name spec = Some (ar, s) /\ agrees R m s.
Proof.
  intros H. pose proof chk_dispatch_true as C. unfold chk_dispatch in C. rewrite forallb_forall in C.
  apply (doc_ok_sound R name m). apply (C (name, m) H).
Qed.

Lemma class_doc R name cls m : In (name, cls) class_map -> assoc cls class_mat = Some m ->
  exists ar s, assoc name spec = Some (ar, s) /\ agrees R m s.
Proof.
  intros H Hm. pose proof chk_classes_true as C. unfold chk_classes in C. rewrite forallb_forall in C.
  specialize (C (name, cls) H). cbn [fst snd] in C. rewrite Hm in C. apply (doc_ok_sound R name m C).
Qed.

Lemma fn_doc R fn name ar0 m : In (fn, name) fn_names -> assoc fn gates_fn = Some (ar0, m) ->
  exists ar s, assoc name spec = Some (ar, s) /\ agrees R m s.
Proof.
  intros H Hm. pose proof chk_fns_true as C. unfold chk_fns in C. rewrite forallb_forall in C.
  specialize (C (fn, name) H). cbn [fst snd] in C. rewrite Hm in C. apply (doc_ok_sound R name m C).
Qed.

Lemma expansion_embeds_gate R fn inner own : In (fn, (inner, own)) expansions -> agrees R inner own.
Proof.
  intros H. pose proof chk_expansions_true as C. unfold chk_expansions in C. rewrite forallb_forall in C.
  specialize (C (fn, (inner, own)) H). cbn [fst snd] in C. intros r c. apply meqb_sound. exact C.
Qed.

Lemma paths_agree R name m1 cls m2 : In (name, m1) dispatch -> In (name, cls) class_map ->
  assoc cls class_mat = Some m2 -> agrees R m1 m2.
Proof.
  intros H1 H2 H3. destruct (dispatch_doc R name m1 H1) as [a1 [s1 [E1 A1]]].
  destruct (class_doc R name cls m2 H2 H3) as [a2 [s2 [E2 A2]]].
  rewrite E1 in E2. injection E2 as _ <-. intros r c. rewrite A1, A2. reflexivity.
Qed.
