(* C04 layer A: every predefined gate name the importer short-cuts to a library gate / helper unitary denotes the
   qelib1.inc definition expanded to U and CX, up to an explicit global phase - symbolically in the parameters,
   hence for all real parameter values, every register and every placement (rule_sound). *)
From QV Require Import Model.QasmImport Spec.QasmSem Found.Circ Gen.Gates Gen.Qasm.
Local Open Scope string_scope.
Local Open Scope nat_scope.
Local Open Scope list_scope.

(* the matrix family of a gate name of the imported circuit: helper unitaries (qc.user_gates) take precedence,
   then the class registered in GATE_CLASS_MAP, then the name dispatch of Gate.get_compact_qobj *)
Definition nat_mat (n : string) : option mexp :=
  match sassoc n helpers with
  | Some (_, m) => Some m
  | None => match sassoc n class_map with
            | Some cls => sassoc cls class_mat
            | None => sassoc n dispatch end
  end.
(* an imported gate as a symbolic gate: matrix index order = controls ++ targets *)
Definition igate_sgate (g : igate ExAlg) : option sgate :=
  match nat_mat (ig_name g) with
  | Some m => Some (msubst (ig_args g) m, ig_controls g ++ ig_targets g)
  | None => None end.
Definition imp_sym (g : string) : option scirc :=
  match sassoc g sig0 with
  | Some (np, nq) =>
      match add_predefined (A := ExAlg) g (seq 0 nq) (map Var (seq 0 np)) with
      | Some gs => omap igate_sgate gs
      | None => None end
  | None => None
  end.

(* imported = e^{i a} . standard;  a as a function of the gate's parameters *)
Definition phase_of (g : string) : option ex :=
  sassoc g [("x", Div Pi (Num 2)); ("y", Div Pi (Num 2)); ("z", Div Pi (Num 2)); ("h", Div Pi (Num 2));
            ("s", Div Pi (Num 4)); ("t", Div Pi (Num 8)); ("cz", Pi); ("ch", Div Pi (Num 4));
            ("ccx", Mul (Num (-7 # 8)) Pi); ("cu1", Div (Var 0) (Num 4))].
Definition std_with_phase (g : string) : option scirc :=
  match std_sym g with
  | Some c => Some (match phase_of g with Some a => phase_gate a :: c | None => c end)
  | None => None end.

Definition shortcut_chk (g : string) : bool :=
  match sassoc g sig0, imp_sym g, std_with_phase g with
  | Some (_, nq), Some c1, Some c2 => scirc_eqb nq c1 c2
  | _, _, _ => false end.
Definition chk_shortcuts : bool := forallb shortcut_chk predefined.
(* the signatures the importer checks against are those of the standard *)
Definition chk_sigs : bool :=
  forallb (fun g => match sassoc g sig0, sassoc g lib_sigs with
                    | Some a, Some b => (fst a =? fst b) && (snd a =? snd b) | _, _ => false end) predefined
  && forallb (fun p => smem (fst p) predefined) lib_sigs.

Lemma chk_shortcuts_true : chk_shortcuts = true. Proof. vm_compute. reflexivity. Qed.
Lemma chk_sigs_true : chk_sigs = true. Proof. vm_compute. reflexivity. Qed.

Theorem shortcut_sem (R : PhaseRing) (A : atoms R) g np nq c1 c2 ts :
  In g predefined -> sassoc g sig0 = Some (np, nq) -> imp_sym g = Some c1 -> std_with_phase g = Some c2 ->
  NoDup ts -> length ts = nq ->
  sem (place ts (map (gden R A) c1)) = sem (place ts (map (gden R A) c2)).
Proof.
  intros Hin Hs H1 H2 Hnd Hlen.
  pose proof chk_shortcuts_true as C. unfold chk_shortcuts in C. rewrite forallb_forall in C.
  specialize (C g Hin). unfold shortcut_chk in C. rewrite Hs, H1, H2 in C.
  apply rule_sound with (k := nq); assumption.
Qed.
