(* C19 -- a concrete algebra satisfying every hypothesis of Proofs/Vqa.v (non-vacuity):
   2x2 integer matrices, dag = transpose, d_0 X = [G, X] (an inner derivation; G antisymmetric so
   that d commutes with dag), d_j = 0 for j > 0.  Scalars = matrices, ev = identity. *)
From Coq Require Import List Arith Bool Lia ZArith.
From QV Require Import Model.Vqa Proofs.Vqa.
Import ListNotations.
Local Open Scope Z_scope.

Record M2 := mk2 { m00 : Z; m01 : Z; m10 : Z; m11 : Z }.

Definition Mzero := mk2 0 0 0 0.
Definition Mone := mk2 1 0 0 1.
Definition Madd (x y : M2) := mk2 (m00 x + m00 y) (m01 x + m01 y) (m10 x + m10 y) (m11 x + m11 y).
Definition Mopp (x : M2) := mk2 (- m00 x) (- m01 x) (- m10 x) (- m11 x).
Definition Mmul (x y : M2) :=
  mk2 (m00 x * m00 y + m01 x * m10 y) (m00 x * m01 y + m01 x * m11 y)
      (m10 x * m00 y + m11 x * m10 y) (m10 x * m01 y + m11 x * m11 y).
Definition Mdag (x : M2) := mk2 (m00 x) (m10 x) (m01 x) (m11 x).
Definition G := mk2 0 1 (-1) 0.
Definition comm (x : M2) := Madd (Mmul G x) (Mopp (Mmul x G)).
Definition Md (j : nat) (x : M2) : M2 := match j with O => comm x | S _ => Mzero end.

Definition Mb := mk2 1 1 0 1.     (* a "block unitary" that does not commute with G *)
Definition has0 (a : list nat) : bool := existsb (Nat.eqb 0) a.
Definition MblockU (id : nat) (a : list nat) : M2 := if has0 a then Mb else Mone.
Definition MblockdU (id : nat) (a : list nat) (t : nat) : M2 :=
  match nth_error a t with Some O => comm (MblockU id a) | _ => Mzero end.
Definition MfixedU (id : nat) : M2 := G.
Definition Mobs := Mone.

Ltac m2 := intros; repeat match goal with x : M2 |- _ => destruct x end;
           unfold Md, comm, Madd, Mmul, Mopp, Mdag, Mzero, Mone, G; cbn [m00 m01 m10 m11];
           f_equal; ring.

Lemma Madd_0_l : forall x, Madd Mzero x = x. Proof. m2. Qed.
Lemma Madd_0_r : forall x, Madd x Mzero = x. Proof. m2. Qed.
Lemma Mmul_1_l : forall x, Mmul Mone x = x. Proof. m2. Qed.
Lemma Mmul_1_r : forall x, Mmul x Mone = x. Proof. m2. Qed.
Lemma Mmul_assoc : forall x y z, Mmul x (Mmul y z) = Mmul (Mmul x y) z. Proof. m2. Qed.
Lemma Mmul_0_l : forall x, Mmul Mzero x = Mzero. Proof. m2. Qed.
Lemma Mmul_0_r : forall x, Mmul x Mzero = Mzero. Proof. m2. Qed.
Lemma Md_mul : forall j x y, Md j (Mmul x y) = Madd (Mmul (Md j x) y) (Mmul x (Md j y)).
Proof. intros [|j]; m2. Qed.
Lemma Md_one : forall j, Md j Mone = Mzero. Proof. intros [|j]; m2. Qed.
Lemma Md_dag : forall j x, Md j (Mdag x) = Mdag (Md j x). Proof. intros [|j]; m2. Qed.
Lemma Md_obs : forall j, Md j Mobs = Mzero. Proof. intros [|j]; unfold Mobs; m2. Qed.
Lemma Md_fixed : forall j (id : nat), Md j (MfixedU id) = Mzero.
Proof. intros [|j] id; unfold MfixedU; m2. Qed.

Lemma has0_false : forall a, ~ In 0%nat a -> has0 a = false.
Proof.
  intros a H. unfold has0. destruct (existsb (Nat.eqb 0) a) eqn:E; [|reflexivity].
  apply existsb_exists in E. destruct E as [x [Hx E]]. apply Nat.eqb_eq in E. subst x. contradiction.
Qed.

Lemma Md_block_in : forall id a t j, NoDup a -> nth_error a t = Some j ->
                                     Md j (MblockU id a) = MblockdU id a t.
Proof.
  intros id a t j _ H. unfold MblockdU. rewrite H. destruct j as [|j]; reflexivity.
Qed.

Lemma Md_block_out : forall id a j, ~ In j a -> Md j (MblockU id a) = Mzero.
Proof.
  intros id a [|j] H; [|reflexivity]. unfold MblockU. rewrite (has0_false a H). apply (Md_one 0).
Qed.

Lemma MD_ev : forall j x, Md j ((fun y : M2 => y) x) = (fun y : M2 => y) (Md j x).
Proof. reflexivity. Qed.

(* the general theorem instantiated: its hypotheses are satisfiable *)
Definition Mjac := compute_jac M2 Mone Madd Mmul Mdag M2 (fun x => x) Mobs MblockU MfixedU MblockdU.
Definition Meval := evaluate M2 Mone Mmul Mdag M2 (fun x => x) Mobs MblockU MfixedU.

Lemma M2_jac_correct : forall bs layers indices,
    (1 <= layers)%nat -> forallb ok_kind bs = true ->
    let L := free_parameters_num bs layers in
    exists c, Meval bs layers (seq 0 L) = Some c /\
              Mjac bs layers (seq 0 L) indices
              = Some (map (fun j => Md j c) (filter (fun j => mem j (requested indices L)) (seq 0 L))).
Proof.
  exact (jac_correct M2 Mzero Mone Madd Mmul Mdag M2 (fun x => x) Mobs MblockU MfixedU MblockdU Md Md
                     Madd_0_l Madd_0_r Mmul_1_l Mmul_1_r Mmul_assoc Mmul_0_l Mmul_0_r
                     Md_mul Md_one Md_dag Md_obs Md_fixed Md_block_in Md_block_out MD_ev).
Qed.

(* a concrete non-trivial circuit: initial 2-parameter block, fixed unitary, native gate,
   single-parameter Hamiltonian, 2 layers -> 2 + 2*1 = 4 parameters, non-zero derivative *)
Definition ex_blocks : list block :=
  [mkBlock (KPH 2) true; mkBlock KUnit false; mkBlock (KNative false) false; mkBlock KHam false].

Lemma ex_blocks_ok : forallb ok_kind ex_blocks = true /\ free_parameters_num ex_blocks 2 = 4%nat.
Proof. split; reflexivity. Qed.

Lemma ex_jac_value :
  Mjac ex_blocks 2 (seq 0 4) None
  = Some [mk2 2 1 1 (-2); Mzero; Mzero; Mzero]
  /\ Meval ex_blocks 2 (seq 0 4) = Some (mk2 1 1 1 2).
Proof. split; vm_compute; reflexivity. Qed.
